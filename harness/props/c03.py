"""C03 — linked attributes are reachable exactly through links and carry composed values.

Real `DataCollection` histories (add/remove link, component, dataset; delay blocks) are executed on
glue and, step by step, by the Lean model (`lean/GlueVerif/Model/Links.lean`).  The python side
only *observes*; every verdict is computed by the Lean driver.

Case format (JSON): [thr, ops]  with ops
  ["new", d, [[ix, v0, v1, ...], ...]]   create dataset d (not in the collection); ix 0 is the pixel cid
  ["app", d] / ["rem", d]                dc.append / dc.remove
  ["addc", d, ix, v0, ...] / ["remc", d, ix]   (remc of a stored or derived attribute: cascades)
  ["addd", d, id, [cid...], ix, coeffs, off]   data.add_component_link(ComponentLink(froms, (d, ix), using=f), (d, ix)):
                                         an internal derived attribute; `id` = object id of its link
  ["upid", d, old, new]                  data.update_id((d, old), (d, new))
  ["addl", E] / ["addls", E, ...]        dc.add_link(entry) / dc.add_link([entries])
  ["reml", id] / ["remls", id, ...]      dc.remove_link(obj) / dc.remove_link([objs])
  ["db"] / ["de"]                        enter / leave `with dc.delay_link_manager_update()`
E = ["s", O] (a ComponentLink) | ["c", id, kind, O, ...] (LinkSame / LinkTwoWay / MultiLink)
O = [id, [cid...], cid, coeffs, off, inv]   inv = None | [id, coeffs, off];  cid = [d, ix], d = 99: no parent
"""
import gc
import itertools

from harness.core import Family, Property, sx, use_repo

use_repo()
import numpy as np  # noqa: E402
from glue.core import Data, DataCollection, ComponentID, ComponentLink  # noqa: E402
from glue.core.exceptions import IncompatibleAttribute  # noqa: E402
from glue.core.link_helpers import LinkSame, LinkTwoWay, MultiLink  # noqa: E402
from glue.core.registry import Registry  # noqa: E402

FREE = 99


def mkfn(coeffs, off):
    coeffs = list(coeffs)

    def f(*xs):
        acc = 0
        for c, x in zip(coeffs, xs):
            acc = acc + c * x
        return acc + off
    f.__name__ = "lin_" + "_".join(str(c) for c in coeffs).replace("-", "m") + "_" + str(off).replace("-", "m")
    return f


def is_ident(coeffs, off):
    return list(coeffs) == [1] and off == 0


class World:
    """The real glue objects of one case."""

    def __init__(self, n):
        self.n = n
        self.dc = DataCollection()
        self.data = {}      # d -> Data
        self.cid = {}       # (d, ix) -> ComponentID
        self.rcid = {}      # id(ComponentID) -> (d, ix)
        self.obj = {}       # link/collection object id -> python object
        self.robj = {}      # id(python object) -> object id
        self.keep = []      # strong references
        self.ctx = []       # open delay context managers
        # the iteration order of the link set at the LAST update_externally_derivable_components()
        # call of the current operation (every call overwrites what the previous one installed)
        self.last_order = None
        lm = self.dc._link_manager
        orig = lm.update_externally_derivable_components

        def recording_update(*a, **k):
            self.last_order = [self.robj.get(id(l), 0) for l in (lm._links | lm._inverse_links)]
            return orig(*a, **k)
        lm.update_externally_derivable_components = recording_update

    # -- cids ------------------------------------------------------------------------------
    def get_cid(self, c):
        c = (c[0], c[1])
        if c not in self.cid:
            cid = ComponentID("c%d_%d" % c)   # parentless until added to a dataset
            self.cid[c] = cid
            self.rcid[id(cid)] = c
            self.keep.append(cid)
        return self.cid[c]

    def bind_cid(self, c, cid):
        self.cid[c] = cid
        self.rcid[id(cid)] = c
        self.keep.append(cid)

    # -- link objects ----------------------------------------------------------------------
    def reg(self, i, o):
        self.obj[i] = o
        self.robj[id(o)] = i
        self.keep.append(o)

    def get_obj(self, O):
        i, froms, to, coeffs, off, inv = O
        if i in self.obj:
            return self.obj[i]
        f = [self.get_cid(c) for c in froms]
        t = self.get_cid(to)
        if inv is None:
            link = ComponentLink(f, t, using=mkfn(coeffs, off))
        elif is_ident(coeffs, off) and is_ident(inv[1], inv[2]):
            link = ComponentLink(f, t)
        else:
            link = ComponentLink(f, t, using=mkfn(coeffs, off), inverse=mkfn(inv[1], inv[2]))
        self.reg(i, link)
        if inv is not None:
            self.reg(inv[0], link.inverse)
        return link

    def get_entry(self, E):
        if E[0] == "s":
            return self.get_obj(E[1])
        _, i, kind = E[:3]
        subs = E[3:]
        if i in self.obj:
            return self.obj[i]
        if kind == "same":
            O = subs[0]
            lc = LinkSame(self.get_cid(O[1][0]), self.get_cid(O[2]))
            self.reg(O[0], lc._links[0])
            self.reg(O[5][0], lc._links[0].inverse)
        elif kind == "twoway":
            O1, O2 = subs
            lc = LinkTwoWay(self.get_cid(O1[1][0]), self.get_cid(O1[2]), mkfn(O1[3], O1[4]), mkfn(O2[3], O2[4]))
            self.reg(O1[0], lc._links[0])
            self.reg(O2[0], lc._links[1])
        elif kind == "multi":
            O = subs[0]
            lc = MultiLink([self.get_cid(c) for c in O[1]], [self.get_cid(O[2])], forwards=mkfn(O[3], O[4]),
                           labels1=["x%d" % k for k in range(len(O[1]))], labels2=["y"])
            self.reg(O[0], lc._links[0])
        else:
            raise ValueError(kind)
        self.reg(i, lc)
        return lc

    # -- operations ------------------------------------------------------------------------
    def do(self, op):
        k = op[0]
        self.last_order = None
        try:
            if k == "new":
                d = op[1]
                if d in self.data:
                    return "ok"
                data = Data(label="d%d" % d)
                self.data[d] = data
                self.keep.append(data)
                for comp in op[2]:
                    ix = comp[0]
                    if ix == 0:
                        continue
                    cid = self.get_cid((d, ix))
                    data.add_component(np.array(comp[1:], dtype=np.int64), cid)
                self.bind_cid((d, 0), data.pixel_component_ids[0])
            elif k == "app":
                if op[1] in self.data:
                    self.dc.append(self.data[op[1]])
            elif k == "rem":
                if op[1] in self.data:
                    self.dc.remove(self.data[op[1]])
            elif k == "addc":
                d, ix = op[1], op[2]
                if d in self.data:
                    cid = self.get_cid((d, ix))
                    if cid not in self.data[d].components:
                        self.data[d].add_component(np.array(op[3:], dtype=np.int64), cid)
            elif k == "addx":
                # dataset d stores a component under a ComponentID that belongs to dataset d2
                d, d2, ix = op[1], op[2], op[3]
                if d in self.data:
                    cid = self.get_cid((d2, ix))
                    if cid not in self.data[d].components:
                        self.data[d].add_component(np.array(op[4:], dtype=np.int64), cid)
            elif k == "remc":
                d, ix = op[1], op[2]
                if d in self.data:
                    self.data[d].remove_component(self.get_cid((d, ix)))
            elif k == "addd":
                d, i, froms, ix, coeffs, off = op[1:]
                if d in self.data:
                    cid = self.get_cid((d, ix))
                    if cid not in self.data[d].components:
                        link = ComponentLink([self.get_cid(c) for c in froms], cid, using=mkfn(coeffs, off))
                        self.reg(i, link)
                        self.data[d].add_component_link(link, cid)
            elif k == "upid":
                d, old, new = op[1:]
                if d in self.data and old != new:
                    self.data[d].update_id(self.get_cid((d, old)), self.get_cid((d, new)))
            elif k == "addl":
                self.dc.add_link(self.get_entry(op[1]))
            elif k == "addls":
                self.dc.add_link([self.get_entry(E) for E in op[1:]])
            elif k == "reml":
                o = self.obj.get(op[1])
                if o is None:
                    o = ComponentLink([self.get_cid((FREE, 90))], self.get_cid((FREE, 91)))
                    self.keep.append(o)
                self.dc.remove_link(o)
            elif k == "remls":
                os_ = []
                for i in op[1:]:
                    o = self.obj.get(i)
                    if o is None:
                        o = ComponentLink([self.get_cid((FREE, 90))], self.get_cid((FREE, 91)))
                        self.keep.append(o)
                    os_.append(o)
                self.dc.remove_link(os_)
            elif k == "db":
                cm = self.dc.delay_link_manager_update()
                cm.__enter__()
                self.ctx.append(cm)
            elif k == "de":
                if self.ctx:
                    self.ctx.pop().__exit__(None, None, None)
            else:
                raise ValueError(k)
        except AttributeError:
            return "attribute-error"
        except ValueError:
            return "value-error"
        return "ok"

    # -- observation -----------------------------------------------------------------------
    def value(self, data, cid):
        try:
            v = data[cid]
        except IncompatibleAttribute:
            return "inc"
        v = np.asarray(v)
        out = []
        for x in v.ravel().tolist():
            if isinstance(x, float):
                if not x.is_integer():
                    raise ValueError("non-integer value %r" % (x,))
                x = int(x)
            out.append(x)
        return out

    def mask(self, data, cid, thr):
        try:
            m = data.get_mask(cid > thr)
        except IncompatibleAttribute:
            return "inc"
        return [bool(b) for b in np.asarray(m).ravel().tolist()]

    def observe(self, status, univ, thr, with_masks):
        lm = self.dc._link_manager
        order = self.last_order
        if order is None:
            order = [self.robj.get(id(l), 0) for l in (lm._links | lm._inverse_links)]
        ext = [self.robj.get(id(l), 0) for l in self.dc.external_links]
        dss = []
        rdata = {id(v): k for k, v in self.data.items()}
        for data in self.dc:
            d = rdata[id(data)]
            deriv = sorted(self.rcid.get(id(c), (FREE, 999)) for c in data.externally_derivable_components)
            cids = [self.get_cid(c) for c in univ]
            vals = [self.value(data, c) for c in cids]
            masks = [self.mask(data, c, thr) for c in cids] if with_masks else None
            dss.append([d, [list(c) for c in deriv], vals, masks])
        return [status, order, ext, dss]


def op_cids(op):
    k = op[0]
    if k == "new":
        return [(op[1], comp[0]) for comp in op[2]]
    if k in ("addc", "remc"):
        return [(op[1], op[2])]
    if k == "addx":
        return [(op[2], op[3])]
    if k == "addd":
        return [(op[1], op[4])] + [tuple(c) for c in op[3]]
    if k == "upid":
        return [(op[1], op[2]), (op[1], op[3])]
    if k == "addl":
        return entry_cids(op[1])
    if k == "addls":
        return [c for E in op[1:] for c in entry_cids(E)]
    return []


def entry_objs(E):
    return [E[1]] if E[0] == "s" else list(E[3:])


def entry_cids(E):
    out = []
    for O in entry_objs(E):
        out.append(tuple(O[2]))
        out.extend(tuple(c) for c in O[1])
    return out


def universe(ops):
    return sorted(set(c for op in ops for c in op_cids(op)))


def sx_entry(E):
    if E[0] == "s":
        return E
    return ["c", E[1]] + list(E[3:])


def sx_op(op):
    if op[0] == "addl":
        return ["addl", sx_entry(op[1])]
    if op[0] == "addls":
        return ["addls"] + [sx_entry(E) for E in op[1:]]
    return op


# ------------------------------------------------------------------------------------------------
# link / entry constructors used by the generators
# ------------------------------------------------------------------------------------------------

class Ids:
    def __init__(self, start=1):
        self.n = start

    def next(self):
        self.n += 1
        return self.n - 1


def oneway(ids, froms, to, coeffs, off):
    return ["s", [ids.next(), [list(c) for c in froms], list(to), list(coeffs), off, None]]


def twoway_obj(ids, f, t, a, b):
    """x -> a*x+b with inverse y -> a*y - a*b (a in {1,-1}): exact over the integers."""
    i, j = ids.next(), ids.next()
    return ["s", [i, [list(f)], list(t), [a], b, [j, [a], -a * b]]]


def ident_obj(ids, f, t):
    i, j = ids.next(), ids.next()
    return ["s", [i, [list(f)], list(t), [1], 0, [j, [1], 0]]]


def inverse_entry(E):
    """The entry denoting `link.inverse` of a single-object entry with an inverse."""
    i, froms, to, coeffs, off, inv = E[1]
    return ["s", [inv[0], [to], froms[0], inv[1], inv[2], [i, coeffs, off]]]


def link_same(ids, f, t):
    c = ids.next()
    i, j = ids.next(), ids.next()
    return ["c", c, "same", [i, [list(f)], list(t), [1], 0, [j, [1], 0]]]


def link_twoway(ids, f, t, a, b, a2, b2):
    c = ids.next()
    i, j = ids.next(), ids.next()
    return ["c", c, "twoway", [i, [list(f)], list(t), [a], b, None], [j, [list(t)], list(f), [a2], b2, None]]


def link_multi(ids, froms, t, coeffs, off):
    c = ids.next()
    i = ids.next()
    return ["c", c, "multi", [i, [list(x) for x in froms], list(t), list(coeffs), off, None]]


def base_values(d, ix, n):
    return [((d + 1) * 7 + ix * 3 + k * (d + ix + 1)) % 11 - 3 for k in range(n)]


def new_op(d, ixs, n):
    return ["new", d, [[0] + list(range(n))] + [[ix] + base_values(d, ix, n) for ix in ixs]]


class HistBase(Family):
    batch = 50
    case_timeout = 10.0
    _hang = False

    def setup(self):
        # no Subset objects are created in these histories (the only glue finaliser that
        # broadcasts), so the cyclic collector stays enabled: no long explicit collections inside
        # the per-case alarm window
        gc.enable()

    def reset(self):
        Registry().clear()

    def run_impl(self, case):
        thr, ops = case
        n = 2
        for op in ops:
            if op[0] == "new":
                n = len(op[2][0]) - 1
                break
        univ = universe(ops)
        w = World(n)
        out = []
        self._last_world = w   # strong reference until the next case
        for k, op in enumerate(ops):
            st = w.do(op)
            out.append(w.observe(st, univ, thr, with_masks=(k == len(ops) - 1 or op[0] in ("de", "remc", "rem", "upid"))))
        # open delay blocks are simply abandoned with the World (never run glue code outside the
        # per-case alarm: a hanging implementation must stay interruptible)
        return out

    def line(self, case, pyout):
        thr, ops = case
        return sx(["hist", [thr, [sx_op(op) for op in ops]], pyout])

    def nontrivial(self, case, po):
        # some dataset reads a foreign attribute at some step
        try:
            return any(len(ds[1]) > 0 for ob in po for ds in ob[3])
        except Exception:
            return False

    def signature(self, case, po, res):
        """Coarse on purpose (few groups to shrink): the kind of the first operation after which the
        implementation's observation differs from the model's / is rejected, plus the construct tag."""
        ops = case[1]
        HistBase._hang = not isinstance(po, list)
        if not isinstance(po, list):
            return {"at": str(po)}
        sig = {}
        try:
            impl = res.get("impl")
            at = "none"
            for k, op in enumerate(ops):
                if not isinstance(impl, list) or k >= len(impl) or k >= len(po) or impl[k] != po[k]:
                    at = op[0]
                    break
            sig["at"] = at
            if any(op[0] in ("addls", "remls") and ob[0] != "ok" for op, ob in zip(ops, po)):
                sig["construct"] = "list-op-raising"
        except Exception:
            pass
        return sig

    def shrink(self, case):
        thr, ops = case
        idx = [i for i, op in enumerate(ops) if op[0] != "new"]

        def drop(which):
            w = set(which)
            return [thr, [op for i, op in enumerate(ops) if i not in w]]
        n = len(idx)
        if n >= 4:
            yield drop(idx[n // 2:])
            yield drop(idx[:n // 2])
        # a hanging implementation makes every candidate cost a time-out: keep the rounds small
        limit = 6 if HistBase._hang else 64
        for i in list(reversed(idx))[:limit]:
            yield drop([i])
        for i in reversed(range(len(ops))):
            if ops[i][0] == "new" and not HistBase._hang:
                yield drop([i])


def setup_ops(layout, n, in_dc=None):
    """layout: {d: [ix,...]}; datasets listed in in_dc (default: all) are appended."""
    ops = [new_op(d, ixs, n) for d, ixs in sorted(layout.items())]
    for d in sorted(layout):
        if in_dc is None or d in in_dc:
            ops.append(["app", d])
    return ops


class Shapes(HistBase):
    """Graph shapes, exhaustive over a small pool: every sequence of <= k links (one-way affine,
    two-way affine, identity, two-input) over 3 datasets + one parentless cid, added one at a time."""
    name = "shapes"
    exhaustive = True
    budget_share = 1.2

    POOL = [(0, 1), (0, 2), (1, 1), (2, 1), (FREE, 1)]

    def link_choices(self, tier):
        P = self.POOL
        out = []
        for f in P:
            for t in P:
                if f == t:
                    continue
                out.append(("ow", [f], t))
                out.append(("tw", [f], t))
                out.append(("id", [f], t))
        for f1, f2 in itertools.permutations(P[:4], 2):
            for t in P:
                if t in (f1, f2):
                    continue
                if f1 < f2 or tier == "thorough":
                    out.append(("add", [f1, f2], t))
        return out

    def mk(self, ids, ch, k):
        kind, froms, t = ch
        if kind == "ow":
            return oneway(ids, froms, t, [2 + k], 1 + k)
        if kind == "tw":
            return twoway_obj(ids, froms[0], t, -1 if k % 2 else 1, 3 + k)
        if kind == "id":
            return ident_obj(ids, froms[0], t)
        return oneway(ids, froms, t, [1, 2 + k], k)

    def cases(self, tier, rng):
        layout = {0: [1, 2], 1: [1], 2: [1]}
        base = setup_ops(layout, 2)
        ch = self.link_choices(tier)
        for c1 in ch:
            ids = Ids()
            yield [1, base + [["addl", self.mk(ids, c1, 0)]]]
        for c1 in ch:
            for c2 in ch:
                ids = Ids()
                yield [1, base + [["addl", self.mk(ids, c1, 0)], ["addl", self.mk(ids, c2, 1)]]]
        if tier == "thorough":
            single = [c for c in ch if c[0] != "add" and FREE not in (c[1][0][0], c[2][0])]
            multi = [c for c in ch if c[0] == "add"][::3]
            for c1 in single:
                for c2 in single:
                    for c3 in single[::2] + multi:
                        ids = Ids()
                        yield [1, base + [["addl", self.mk(ids, c1, 0)], ["addl", self.mk(ids, c2, 1)],
                                          ["addl", self.mk(ids, c3, 2)]]]


class Structured(HistBase):
    """Chains, cycles, diamonds, multi-input joins with several minimal derivations, link-helper
    collections, duplicates and inverse objects; every subset of removals afterwards."""
    name = "struct"
    exhaustive = True
    budget_share = 0.6

    def cases(self, tier, rng):
        nds = 4 if tier == "quick" else 5
        layout = {d: [1, 2] for d in range(nds)}
        for n in (2, 3):
            base = setup_ops(layout, n)
            # chains of length L with mixed link kinds, then remove one link / a component / a dataset
            for L in range(1, nds):
                for kinds in itertools.product(("ow", "tw", "id", "same", "twc"), repeat=L):
                    if tier == "quick" and L == nds - 1 and n == 3:
                        continue
                    ids = Ids()
                    es = []
                    for k, kind in enumerate(kinds):
                        f, t = (k, 1), (k + 1, 1)
                        es.append(self.mk(ids, kind, f, t, k))
                    ops = base + [["addl", E] for E in es]
                    yield [2, ops]
                    for k in range(L):
                        yield [2, ops + [["reml", es[k][1] if es[k][0] == "c" else es[k][1][0]]]]
                    yield [2, ops + [["remc", L // 2, 1]]]
                    yield [2, ops + [["rem", L // 2]]]
                    yield [2, ops + [["rem", 0], ["app", 0]]]
            # cycles of one-way links and of two-way links
            for L in range(2, nds + 1):
                for kind in ("ow", "tw", "id"):
                    ids = Ids()
                    es = [self.mk(ids, kind, (k, 1), ((k + 1) % L, 1), k) for k in range(L)]
                    ops = base + [["addl", E] for E in es]
                    yield [0, ops]
                    yield [0, ops + [["reml", es[0][1][0]]]]
                    yield [0, base + [["addls"] + es]]
            # diamonds: two routes of equal / different length into the same attribute, with different functions
            for ka, kb in itertools.product(("ow", "tw", "id"), repeat=2):
                for extra in (0, 1):
                    ids = Ids()
                    es = [self.mk(ids, ka, (0, 1), (1, 1), 0), self.mk(ids, kb, (0, 1), (2, 1), 1),
                          self.mk(ids, "ow", (1, 1), (3, 1), 2)]
                    if extra:
                        es += [self.mk(ids, "ow", (2, 1), (2, 2), 3), self.mk(ids, "ow", (2, 2), (3, 1), 4)]
                    else:
                        es += [self.mk(ids, "ow", (2, 1), (3, 1), 3)]
                    for perm in itertools.permutations(range(len(es))):
                        if tier == "quick" and perm[0] > 1:
                            continue
                        yield [3, base + [["addl", es[i]] for i in perm]]
            # multi-input: z = x + 2y where x, y are reached through different depths
            for dx, dy in itertools.product((0, 1, 2), repeat=2):
                ids = Ids()
                es = []
                cur = (0, 1)
                for k in range(dx):
                    nxt = (1, 1) if k == 0 else (1, 2)
                    es.append(oneway(ids, [cur], nxt, [2], 1))
                    cur = nxt
                x = cur
                cur = (0, 2)
                for k in range(dy):
                    nxt = (2, 1) if k == 0 else (2, 2)
                    es.append(twoway_obj(ids, cur, nxt, 1, 2))
                    cur = nxt
                y = cur
                es.append(oneway(ids, [x, y], (3, 1), [1, 2], 0))
                es.append(link_multi(ids, [x, y], (3, 2), [3, 1], 1))
                yield [4, base + [["addl", E] for E in es]]
                yield [4, base + [["addls"] + es]]
                yield [4, base + [["db"]] + [["addl", E] for E in es] + [["de"]]]
            # duplicates, inverse objects, link collections twice
            ids = Ids()
            a = twoway_obj(ids, (0, 1), (1, 1), 1, 5)
            b = ident_obj(ids, (1, 1), (2, 1))
            c = link_same(ids, (2, 1), (3, 1))
            d = oneway(ids, [(0, 1)], (1, 2), [3], 0)
            yield [1, base + [["addl", a], ["addl", a], ["reml", a[1][0]], ["reml", a[1][0]], ["reml", a[1][0]]]]
            yield [1, base + [["addl", a], ["addl", inverse_entry(a)], ["addl", b], ["reml", a[1][0]]]]
            yield [1, base + [["addl", inverse_entry(a)], ["addl", a], ["addl", inverse_entry(a)]]]
            yield [1, base + [["addl", c], ["addl", c], ["reml", c[1]], ["reml", c[1]]]]
            yield [1, base + [["addl", d], ["addl", d], ["remc", 0, 1]]]
            yield [1, base + [["addl", d], ["addl", d], ["remc", 1, 2]]]
            yield [1, base + [["addls", a, b, c, d], ["remls", a[1][0], c[1]], ["rem", 1]]]
            # list operations with an item that raises (stored LinkCollection again: AttributeError;
            # absent link: ValueError): everything registered / removed before it must be in effect
            e = oneway(ids, [(1, 1)], (FREE, 1), [3], 0)
            g = oneway(ids, [(3, 1)], (0, 2), [2], 1)
            yield [1, base + [["addl", c], ["addls", e, c]]]
            yield [1, base + [["addl", c], ["addls", e, c, g]]]
            yield [1, base + [["addl", c], ["addl", e], ["remls", e[1][0], 777]]]
            yield [1, base + [["addl", c], ["addl", e], ["remls", c[1], 777, e[1][0]]]]
            yield [1, base + [["addl", c], ["db"], ["addls", e, c], ["de"]]]

    def mk(self, ids, kind, f, t, k):
        if kind == "ow":
            return oneway(ids, [f], t, [2 + k], 1 - k)
        if kind == "tw":
            return twoway_obj(ids, f, t, -1 if k % 2 else 1, 2 + k)
        if kind == "id":
            return ident_obj(ids, f, t)
        if kind == "same":
            return link_same(ids, f, t)
        return link_twoway(ids, f, t, 2, k, 3, -k)



class Shared(HistBase):
    """A dataset stores a component under a ComponentID owned by ANOTHER dataset (`add_component(arr,
    other.id[...])`, same values) and reaches foreign attributes only through links on that shared id:
    `cid.parent` is not 'the dataset that has the attribute'.  No dataset removal (the histories are
    outside `runWf`; `manager_inv_noRemove_unconditional` is the theorem that covers them)."""
    name = "shared"
    exhaustive = True
    budget_share = 0.1
    mk = Structured.mk

    def cases(self, tier, rng):
        n = 2
        for when in ("before", "after", "afterlink"):
            for kind in ("ow", "tw", "id", "same", "twc"):
                for chain in (1, 2):
                    for user_owns in ([2], [2, 3]):
                        ids = Ids()
                        layout = {0: [1], 1: [1], 2: [1], 3: list(user_owns)}
                        news = [new_op(d, ixs, n) for d, ixs in sorted(layout.items())]
                        apps = [["app", d] for d in (3, 0, 1, 2)]
                        share = ["addx", 3, 0, 1] + base_values(0, 1, n)
                        links = [["addl", self.mk(ids, kind, (k, 1), (k + 1, 1), k)] for k in range(chain)]
                        if when == "before":
                            ops = news + [share] + apps + links
                        elif when == "after":
                            ops = news + apps + [share] + links
                        else:
                            ops = news + apps + links + [share]
                        yield [2, ops]
                        E = links[0][1]
                        yield [2, ops + [["reml", E[1] if E[0] == "c" else E[1][0]]]]
                        yield [2, ops + [["remc", 0, 1]]]


def addd(ids, d, froms, ix, coeffs, off):
    return ["addd", d, ids.next(), [list(c) for c in froms], ix, list(coeffs), off]


def entry_id(E):
    return E[1] if E[0] == "c" else E[1][0]


class Derived(HistBase):
    """Internal derived attributes (and pixel ids) as link endpoints, exhaustive small core: dataset 0
    has stored x=(0,1), y=(0,2) and derived A=(0,3)=f(x) [depth 1], B=(0,4)=g(A) [depth 2],
    C=(0,5)=x+2y, P=(0,6)=h(pixel), Q=(0,7)=P+A [depth 2]; an external link of every kind, in both
    directions, between each of them (or the pixel id) and an attribute of dataset 1 (optionally
    continued to dataset 2); then removal of each root / intermediate / endpoint (cascades), inside
    and outside delay blocks, dataset removal and re-append, link removal, update_id of a root or of
    the endpoint followed by the root's removal, datasets outside the collection."""
    name = "derived"
    exhaustive = True
    budget_share = 0.9

    X, Y, A, B, C, P, Q = 1, 2, 3, 4, 5, 6, 7

    def der_ops(self, ids, d=0, which="ABCPQ"):
        out = []
        if "A" in which:
            out.append(addd(ids, d, [(d, 1)], 3, [2], 1))
        if "B" in which:
            out.append(addd(ids, d, [(d, 3)], 4, [3], -1))
        if "C" in which:
            out.append(addd(ids, d, [(d, 1), (d, 2)], 5, [1, 2], 0))
        if "P" in which:
            out.append(addd(ids, d, [(d, 0)], 6, [2], 1))
        if "Q" in which:
            out.append(addd(ids, d, [(d, 6), (d, 3)], 7, [1, 1], 0))
        return out

    def mk(self, ids, kind, f, t, k=0):
        if kind == "ow":
            return oneway(ids, [f], t, [2 + k], 1 - k)
        if kind == "tw":
            return twoway_obj(ids, f, t, -1 if k % 2 else 1, 2 + k)
        if kind == "id":
            return ident_obj(ids, f, t)
        if kind == "same":
            return link_same(ids, f, t)
        if kind == "twc":
            return link_twoway(ids, f, t, 2, k, 3, -k)
        raise ValueError(kind)

    def base(self, ids, n, when):
        layout = {0: [1, 2], 1: [1, 2], 2: [1]}
        news = [new_op(d, ixs, n) for d, ixs in sorted(layout.items())]
        apps = [["app", d] for d in sorted(layout)]
        der = self.der_ops(ids)
        return news + der + apps if when == "before" else news + apps + der

    def removals(self, E, e_ix, quick):
        eid = entry_id(E)
        out = [[], [["remc", 0, 1]], [["remc", 0, 2]], [["remc", 0, 3]],
               [["db"], ["remc", 0, 1], ["de"]],
               [["rem", 0]], [["rem", 0], ["app", 0]],
               [["reml", eid]],
               [["upid", 0, 1, 9], ["remc", 0, 9]]]
        if e_ix != 0:
            out.append([["remc", 0, e_ix]])
            out.append([["upid", 0, e_ix, 8], ["remc", 0, 1]])
        if e_ix in (6, 7):
            out.append([["remc", 0, 6]])
        if not quick:
            out.append([["db"], ["remc", 0, 3], ["rem", 1], ["de"]])
            out.append([["remc", 0, 1], ["remc", 0, 2]])
            out.append([["upid", 0, 3, 9], ["remc", 0, 9]])
            out.append([["db"], ["upid", 0, 1, 9], ["remc", 0, 9], ["de"]])
        return out

    def cases(self, tier, rng):
        quick = tier == "quick"
        for n, when in ((2, "after"), (3, "before")) if quick else ((2, "after"), (2, "before"), (3, "after"), (3, "before")):
            for e_ix in (3, 4, 5, 6, 7, 0) if not (quick and n == 3) else (3, 4, 0):
                E0 = (0, e_ix)
                variants = []
                for kind in ("ow", "tw", "id", "same", "twc"):
                    variants.append(("f", kind))
                    variants.append(("t", kind))
                variants += [("mf", "multi"), ("mt", "multi"), ("mo", "ow2")]
                for dirn, kind in variants:
                    for chain in (0, 1):
                        if quick and chain and kind not in ("ow", "same"):
                            continue
                        ids = Ids()
                        ops = self.base(ids, n, when)
                        if dirn == "f":
                            E = self.mk(ids, kind, E0, (1, 1))
                        elif dirn == "t":
                            E = self.mk(ids, kind, (1, 1), E0)
                        elif dirn == "mf":
                            E = link_multi(ids, [E0, (0, 2)], (1, 1), [1, 2], 1)
                        elif dirn == "mt":
                            E = link_multi(ids, [(1, 1), (1, 2)], E0, [2, 1], 0)
                        else:
                            E = oneway(ids, [(1, 0), E0], (1, 1), [1, 3], 0)
                        ops = ops + [["addl", E]]
                        if chain:
                            ops = ops + [["addl", oneway(ids, [(1, 1)], (2, 1), [3], 1)]]
                        for rm in self.removals(E, e_ix, quick):
                            yield [2, ops + rm]
            # several derived endpoints linked at once, each root removed
            for kinds in itertools.product(("ow", "id", "same"), repeat=2):
                ids = Ids()
                ops = self.base(ids, n, when)
                es = [self.mk(ids, kinds[0], (0, 3), (1, 1)), self.mk(ids, kinds[1], (1, 2), (0, 4), 1),
                      self.mk(ids, "tw", (0, 5), (2, 1), 2), self.mk(ids, "ow", (0, 7), (1, 0), 3)]
                ops = ops + [["addl", e] for e in es]
                for rm in ([["remc", 0, 1]], [["remc", 0, 2]], [["remc", 0, 3]], [["remc", 0, 6]],
                           [["db"], ["remc", 0, 1], ["de"]], [["db"], ["remc", 0, 6], ["remc", 0, 2], ["de"]],
                           [["rem", 0]], [["remc", 0, 4], ["remc", 0, 3], ["remc", 0, 1]]):
                    yield [1, ops + rm]
            # another link reaches a derived attribute of its own dataset first / at the same cost
            for tgt in (3, 4, 7):
                for kind in ("ow", "tw", "id"):
                    ids = Ids()
                    ops = self.base(ids, n, when)
                    es = [self.mk(ids, kind, (0, 2), (0, tgt)), self.mk(ids, "ow", (0, tgt), (1, 1), 1),
                          self.mk(ids, "id", (1, 2), (0, 4), 2)]
                    for perm in ((0, 1, 2), (1, 0, 2), (2, 1, 0)):
                        cur = ops + [["addl", es[i]] for i in perm]
                        for rm in ([], [["remc", 0, 1]], [["remc", 0, 2]], [["remc", 0, 3]]):
                            yield [1, cur + rm]
            # the dataset is outside the collection when the root goes (hub known / never appended)
            for e_ix in (3, 4):
                for kind in ("ow", "id", "same"):
                    ids = Ids()
                    news = [new_op(d, ixs, n) for d, ixs in sorted({0: [1, 2], 1: [1, 2], 2: [1]}.items())]
                    der = self.der_ops(ids)
                    E = self.mk(ids, kind, (0, e_ix), (1, 1))
                    yield [2, news + der + [["app", 0], ["app", 1], ["app", 2], ["rem", 0], ["addl", E], ["remc", 0, 1], ["app", 0]]]
                    yield [2, news + der + [["app", 1], ["app", 2], ["addl", E], ["remc", 0, 1], ["app", 0]]]
                    yield [2, news + [["app", 0], ["app", 1], ["app", 2]] + der + [["addl", E], ["rem", 0], ["app", 0], ["remc", 0, 1]]]
            # a derived attribute whose input is missing is refused (ValueError), nothing changes
            ids = Ids()
            ops = self.base(ids, n, when)
            yield [1, ops + [["addd", 0, ids.next(), [[1, 1]], 8, [1], 0], ["addd", 0, ids.next(), [[0, 1], [0, 9]], 8, [1, 1], 0]]]


class Histories(HistBase):
    """Seeded random histories of add/remove link, component, dataset, with and without delay."""
    name = "hist"
    exhaustive = False
    budget_share = 1.2

    def cases(self, tier, rng):
        count = 7000 if tier == "quick" else 150000
        for _ in range(count):
            yield self.one(rng, tier)

    def one(self, rng, tier):
        nds = rng.randint(2, 4 if tier == "quick" else 5)
        n = rng.choice((2, 2, 3))
        maxlen = rng.randint(3, 8 if tier == "quick" else 14)
        layout = {d: list(range(1, rng.randint(1, 3) + 1)) for d in range(nds)}
        in_dc = [d for d in range(nds) if rng.random() < 0.85]
        ids = Ids()
        comps = {d: list(ixs) for d, ixs in layout.items()}      # current components (stored and derived)
        dep = {d: {} for d in layout}                             # derived ix -> input ixs
        nextix = {d: max(ixs) + 1 for d, ixs in layout.items()}   # never reuse an index
        with_derived = rng.random() < 0.6

        def fresh(d):
            nextix[d] += 1
            return nextix[d] - 1

        def new_derived(d):
            pool = list(comps[d]) + ([0] if rng.random() < 0.2 else [])
            if not pool:
                return None
            k = 2 if (len(pool) >= 2 and rng.random() < 0.3) else 1
            froms = rng.sample(pool, k)
            if dep[d] and rng.random() < 0.5:      # prefer chains: read a derived attribute
                froms[0] = rng.choice(sorted(dep[d]))
                if k == 2 and froms[1] == froms[0]:
                    froms = froms[:1]
            ix = fresh(d)
            comps[d].append(ix)
            dep[d][ix] = list(froms)
            # (coefficients no external link uses: an internal link is never equal, as a value, to an
            # external one between the same attributes)
            coeffs = [rng.choice((4, -3, 5))] if len(froms) == 1 else [3, rng.choice((1, 2))]
            return addd(ids, d, [(d, f) for f in froms], ix, coeffs, rng.randint(-2, 2))

        def drop_comp(d, ix):
            gone = {ix}
            grew = True
            while grew:
                grew = False
                for z, fr in dep[d].items():
                    if z not in gone and any(f in gone for f in fr):
                        gone.add(z)
                        grew = True
            comps[d] = [c for c in comps[d] if c not in gone]
            for z in gone:
                dep[d].pop(z, None)

        ops = [new_op(d, ixs, n) for d, ixs in sorted(layout.items())]
        if with_derived:
            for d in sorted(layout):          # defined before the dataset enters the collection
                for _ in range(rng.choice((0, 0, 1, 2))):
                    o = new_derived(d)
                    if o:
                        ops.append(o)
        ops += [["app", d] for d in sorted(layout) if d in in_dc]
        if with_derived:
            for d in sorted(layout):          # ... and after
                for _ in range(rng.choice((0, 1, 1, 2))):
                    o = new_derived(d)
                    if o:
                        ops.append(o)
        indc = set(in_dc)
        entries = []     # entries created so far
        stored = []      # ids believed stored
        depth = 0
        free = [(FREE, 1), (FREE, 2)]

        def live_cids(include_pixel=True):
            out = []
            for d in sorted(indc):
                if include_pixel and rng.random() < 0.15:
                    out.append((d, 0))
                out.extend((d, ix) for ix in comps[d])
            return out

        def any_cids():
            out = live_cids()
            if with_derived and rng.random() < 0.5:
                # favour derived endpoints
                der = [(d, ix) for d in sorted(indc) for ix in sorted(dep[d])]
                out = out + der + der
            if rng.random() < 0.3:
                out = out + free
            if rng.random() < 0.1:   # ill-formed: cids of datasets outside the collection
                out = out + [(d, ix) for d in comps if d not in indc for ix in comps[d]]
            return out

        def pick(pool, k):
            got = []
            for c in rng.sample(pool, len(pool)):
                if c not in got:
                    got.append(c)
                if len(got) == k:
                    break
            return got

        def new_entry():
            pool = any_cids()
            if len(set(pool)) < 2:
                return None
            r = rng.random()
            f, t = pick(pool, 2)
            if r < 0.22:
                return oneway(ids, [f], t, [rng.choice((2, 3, -2, 1))], rng.randint(-3, 3))
            if r < 0.42:
                return twoway_obj(ids, f, t, rng.choice((1, -1)), rng.randint(-3, 3))
            if r < 0.55:
                return ident_obj(ids, f, t)
            if r < 0.65:
                return link_same(ids, f, t)
            if r < 0.75:
                return link_twoway(ids, f, t, rng.choice((1, 2)), rng.randint(-2, 2), rng.choice((1, 3)), rng.randint(-2, 2))
            if len(set(pool)) >= 3:
                f1, f2, t = pick(pool, 3)
                if r < 0.9:
                    return oneway(ids, [f1, f2], t, [rng.choice((1, 2)), rng.choice((1, -1))], rng.randint(-1, 1))
                return link_multi(ids, [f1, f2], t, [1, rng.choice((1, 2))], rng.randint(0, 2))
            return oneway(ids, [f], t, [2], 1)

        for _ in range(maxlen):
            r = rng.random()
            if r < 0.40:
                if entries and rng.random() < 0.12:
                    E = rng.choice(entries)          # the same object again
                    if E[0] == "s" and E[1][5] is not None and rng.random() < 0.5:
                        E = inverse_entry(E)
                else:
                    E = new_entry()
                    if E is None:
                        continue
                    entries.append(E)
                if rng.random() < 0.15:
                    E2 = new_entry()
                    if E2 is not None:
                        entries.append(E2)
                        items = [E, E2]
                        colls = [x for x in entries if x[0] == "c"]
                        if colls and rng.random() < 0.3:     # possibly a stored collection: AttributeError
                            items.insert(rng.randint(0, 2), rng.choice(colls))
                        ops.append(["addls"] + items)
                        stored += [entry_id(x) for x in items]
                        continue
                ops.append(["addl", E])
                stored.append(entry_id(E))
            elif r < 0.53:
                if not stored:
                    continue
                if rng.random() < 0.1:
                    ops.append(["reml", rng.choice(stored + [777])])   # possibly absent: ValueError
                elif rng.random() < 0.15:
                    k = rng.randint(1, min(3, len(stored)))
                    items = rng.sample(stored, k)
                    if rng.random() < 0.3:
                        items.insert(rng.randint(0, k), 777)
                    ops.append(["remls"] + items)
                else:
                    i = rng.choice(stored)
                    stored.remove(i)
                    ops.append(["reml", i])
            elif r < 0.66:
                d = rng.choice(sorted(comps))
                if comps[d] and (len(comps[d]) > 1 or rng.random() < 0.3):
                    roots = [ix for ix in comps[d] if any(ix in fr for fr in dep[d].values())]
                    ix = rng.choice(roots) if roots and rng.random() < 0.5 else rng.choice(comps[d])
                    drop_comp(d, ix)
                    ops.append(["remc", d, ix])
            elif r < 0.72:
                d = rng.choice(sorted(comps))
                ix = fresh(d)
                comps[d].append(ix)
                ops.append(["addc", d, ix] + base_values(d, ix, n))
            elif r < 0.77:
                if with_derived:
                    o = new_derived(rng.choice(sorted(comps)))
                    if o:
                        if rng.random() < 0.05:      # an input that is not a component: ValueError
                            d, ix = o[1], o[4]
                            o[3][0] = [d, 90]
                            comps[d].remove(ix)
                            dep[d].pop(ix)
                        ops.append(o)
            elif r < 0.80:
                d = rng.choice(sorted(comps))
                if with_derived and comps[d]:
                    mentioned = set(c for E in entries for c in entry_cids(E))
                    quiet = [ix for ix in comps[d] if (d, ix) not in mentioned]
                    old = rng.choice(quiet) if quiet and rng.random() < 0.8 else rng.choice(comps[d])
                    new = fresh(d)
                    comps[d] = [new if c == old else c for c in comps[d]]
                    dep[d] = {(new if z == old else z): [new if f == old else f for f in fr] for z, fr in dep[d].items()}
                    ops.append(["upid", d, old, new])
            elif r < 0.86:
                if indc:
                    d = rng.choice(sorted(indc))
                    indc.discard(d)
                    ops.append(["rem", d])
            elif r < 0.92:
                out = [d for d in comps if d not in indc]
                if out:
                    d = rng.choice(out)
                    indc.add(d)
                    ops.append(["app", d])
            elif r < 0.97:
                if depth < 2:
                    depth += 1
                    ops.append(["db"])
            else:
                if depth:
                    depth -= 1
                    ops.append(["de"])
        while depth:
            depth -= 1
            ops.append(["de"])
        return [rng.randint(-2, 6), ops]


PROP = Property(
    id="C03",
    title="Linked attributes are reachable exactly through links and carry composed values",
    theorems=["C03.discover_terminates", "C03.discover_reachable", "C03.discover_depth_min", "C03.discover_value",
              "C03.spec_local_implies_composed", "C03.specDepth_reachable", "C03.manager_inv", "C03.manager_inv_noRemove_unconditional", "C03.manager_reads", "C03.derived_reads_internal",
              "C03.selection_via_links", "C03.manager_no_dangling", "C03.removal_forgets",
              "C03.list_op_raising_midway_synced"],
    families=[Structured(), Shapes(), Derived(), Shared(), Histories()],
    trusted_base=["CPython set iteration order is deterministic for two sets built the same way in one process "
                  "(the observed order of `_links | _inverse_links` is fed to the model's literal loop; the Spec does not depend on it)",
                  "numpy integer/float arithmetic on small integers is exact"],
    assumptions=["link functions are the generated integer affine / two-input linear maps; datasets have no world coordinates "
                 "and no key joins; internal derived attributes are defined by links without inverse",
                 "manager_inv / manager_no_dangling: well-formed histories (runWf) - manager_inv_noRemove_unconditional drops runWf for every history without DataCollection.remove; value clauses of manager_reads / "
                 "selection_via_links: internalFirst (the oracle itself covers all generated histories)"],
    rule="exhaustive: all sequences of <=2 (thorough <=3) links of four kinds over a 5-cid pool; chains/cycles/diamonds/multi-input/"
         "duplicate/inverse/link-helper structures with every single removal; internal derived attributes (depth 1 and 2, two-input, "
         "pixel-based) and pixel ids as from/to endpoint of every link kind with removal of each root / intermediate / endpoint "
         "(cascade), in and outside delay blocks, dataset removal, update_id; seeded random histories mixing all of these beyond; "
         "non-trivial = some dataset reads a foreign attribute at some step",
)
