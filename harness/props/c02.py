"""C02 — a saved session restores to an observationally equivalent session.

families
  fw     synthetic object graphs (shared references, cycles, inlined objects / forests, generator loaders,
         deferred callbacks, clashing / literal-looking labels) through the REAL GlueSerializer /
         GlueUnSerializer; the Lean model predicts names, errors and the restored graph by name
  cls    one case per class of the generated dispatch table: an instance is put into a session, the
         session is saved and restored; the restored object's type and the session's behaviour are
         judged by the Lean Spec (this is the behavioural validation of declaredFaithful/declaredLoud;
         a class without a recipe must be listed in the driver's noRecipeAllowed)
  rec    every object of a class of the record table (Model/C02Records.lean) in a generated session: the REAL
         saver's output == Lean encode(fields), Lean decode(real record) == the fields of the REAL restored object,
         restored fields == saved fields (c02_rec.py)
  sess   data collections built through the public API, include_data=True: snapshot before, after the
         restore, and after saving the restored session AGAIN and restoring that (idempotence)
  sessf  file-backed datasets (load_data), include_data=False, through Application.save_session /
         restore_session in a scratch directory
"""
import gc
import itertools
import json
import os
import shutil
import tempfile

from harness.core import Family, Property, use_repo, sx, REPO

use_repo()
import numpy as np  # noqa: E402

from harness.props import c02_sess as L  # noqa: E402
from harness.props import c02_fw as F  # noqa: E402
from harness.props import c02_rec as RC  # noqa: E402
from harness.translate import c02 as T  # noqa: E402


# =============================================================================================
# fw
# =============================================================================================

LABELS = [None, "a", "a_0", "a_1", "st__x", "st_", "_st__x", "__main__", "", "Np", "st__", "b c"]


def fw_encode(case):
    main, heap = case
    return [main, [[k, None if l is None else [ord(ch) for ch in l],
                    [[ph, kd, ([ord(ch) for ch in v] if kd == "str" else v)] for ph, kd, v in fs]] for k, l, fs in heap]]


def fw_random(rng, nmax, p_own=0.15, p_late=0.2, p_cb=0.12, acyclic=False, labels=LABELS):
    n = rng.randint(1, nmax)
    heap = []
    for i in range(n):
        nf = rng.choice([0, 1, 1, 2, 2, 3, 4])
        fs = []
        for _ in range(nf):
            r = rng.random()
            ph = "e"
            q = rng.random()
            if q < p_late:
                ph = "l"
            elif q < p_late + p_cb:
                ph = "c"
            if r < 0.12:
                fs.append([ph, "lit", rng.randint(-3, 9)])
            elif r < 0.24:
                fs.append([ph, "str", rng.choice(["a", "st__a", "", "st__", "__main__", "x y"])])
            else:
                if acyclic:
                    if i + 1 >= n:
                        fs.append([ph, "lit", 0])
                        continue
                    t = rng.randint(i + 1, n - 1)
                else:
                    t = rng.randrange(n)
                # (a callback that resolves an *inlined* record re-enters itself through _try_callbacks until
                #  python's recursion limit: never generated — glue's only callback resolves a name)
                fs.append([ph, "own" if (rng.random() < p_own and ph != "c") else "ref", t])
        heap.append([rng.randint(0, 3), rng.choice(labels), fs])
    return [0, heap]


def fw_random_levels(rng, nmax, labels=LABELS):
    """inside the hypothesis of roundtrip_framework_cycles_partial: named references only, no callbacks,
    every node has a level; early edges go strictly down, late edges stay on the level or go down
    (so every cycle consists of late edges)"""
    n = rng.randint(2, nmax)
    lev = [rng.randint(0, 2) for _ in range(n)]
    lev[0] = max(lev)     # main on top (still need not reach everything)
    heap = []
    for i in range(n):
        fs = []
        for _ in range(rng.choice([1, 2, 2, 3, 4])):
            r = rng.random()
            if r < 0.1:
                fs.append(["e", "lit", rng.randint(0, 9)])
            elif r < 0.2:
                fs.append([rng.choice("el"), "str", rng.choice(["a", "st__a", ""])])
            elif r < 0.55:
                lower = [j for j in range(n) if lev[j] < lev[i]]
                if lower:
                    fs.append(["e", "ref", rng.choice(lower)])
            else:
                same = [j for j in range(n) if lev[j] <= lev[i]]
                fs.append(["l", "ref", rng.choice(same)])
        heap.append([rng.randint(0, 3), rng.choice(labels), fs])
    return [0, heap]


def fw_random_cb(rng, nmax, labels=LABELS):
    """aimed at the hypothesis of roundtrip_framework_callbacks_partial (the driver decides): a tree of
    non-callback edges below a plain main, plain nodes (early + callback fields) and generator nodes
    (early + late fields), levels as in fw_random_levels, callback edges anywhere"""
    n = rng.randint(2, nmax)
    gen = [False] + [rng.random() < 0.4 for _ in range(n - 1)]
    lev = [3] + [0] * (n - 1)
    fields = [[] for _ in range(n)]
    for i in range(1, n):
        j = rng.randrange(i)
        if gen[j] and rng.random() < 0.6:
            lev[i] = lev[j]
            fields[j].append(["l", "ref", i])
        else:
            lev[i] = max(lev[j] - 1, 0)
            if lev[i] == lev[j]:
                gen[j] = True if j != 0 else False
                fields[j].append(["l" if j != 0 else "e", "ref", i])
            else:
                fields[j].append(["e", "ref", i])
    for i in range(n):
        for _ in range(rng.choice([0, 1, 1, 2])):
            r = rng.random()
            if r < 0.15:
                fields[i].append(["e", "lit", rng.randint(0, 9)])
            elif r < 0.3:
                fields[i].append(["e", "str", rng.choice(["a", "st__a", ""])])
            elif gen[i]:
                same = [j for j in range(n) if lev[j] <= lev[i] and j != 0]
                if same:
                    fields[i].append(["l", "ref", rng.choice(same)])
            else:
                fields[i].append(["c", "ref", rng.randrange(n)])
        rng.shuffle(fields[i])
    return [0, [[rng.randint(0, 3), rng.choice(labels), fields[i]] for i in range(n)]]


def fw_random_forest(rng, nmax, cb=True, labels=LABELS):
    """aimed at the hypotheses of roundtrip_framework_cycles / _callbacks WITH inlined records (the driver
    decides): a tree of non-callback edges below a plain main in which some nodes are *inlined* (exactly one
    `own` edge, never referred to by name, plain class); levels as in fw_random_levels: early edges (ref or
    own) go strictly down, late edges stay on the level; inlined nodes refer by name to lower named nodes
    and may inline further nodes; callback edges (named targets only) anywhere when `cb`"""
    n = rng.randint(2, nmax)
    named = [True] + [rng.random() < 0.55 for _ in range(n - 1)]
    gen = [False] * n
    lev = [4] + [0] * (n - 1)
    fields = [[] for _ in range(n)]
    for i in range(1, n):
        j = rng.randrange(i)
        kind = "ref" if named[i] else "own"
        if named[j] and j != 0 and rng.random() < 0.35:
            lev[i] = lev[j]
            gen[j] = True
            fields[j].append(["l", kind, i])
        elif lev[j] >= 1:
            lev[i] = lev[j] - 1
            fields[j].append(["e", kind, i])
        elif named[j] and j != 0:
            lev[i] = lev[j]
            gen[j] = True
            fields[j].append(["l", kind, i])
        else:
            lev[i] = 3
            fields[0].append(["e", kind, i])
    for i in range(n):
        for _ in range(rng.choice([0, 1, 1, 2])):
            r = rng.random()
            if r < 0.15:
                fields[i].append(["e", "lit", rng.randint(0, 9)])
            elif r < 0.3:
                fields[i].append(["e", "str", rng.choice(["a", "st__a", ""])])
            elif r < 0.55 or not named[i]:
                lower = [j for j in range(n) if named[j] and lev[j] < lev[i]]
                if lower:
                    fields[i].append(["e", "ref", rng.choice(lower)])
            elif gen[i]:
                same = [j for j in range(n) if named[j] and lev[j] <= lev[i] and j != 0]
                if same:
                    fields[i].append(["l", "ref", rng.choice(same)])
            elif cb:
                fields[i].append(["c", "ref", rng.choice([j for j in range(n) if named[j]])])
        rng.shuffle(fields[i])
    return [0, [[rng.randint(0, 3), rng.choice(labels), fields[i]] for i in range(n)]]


class Fw(Family):
    name = "fw"
    exhaustive = False
    batch = 400
    budget_share = 1.0

    def cases(self, tier, rng):
        # label clashes: a chain main -> x -> y -> z, all label triples over the tricky labels
        labs = LABELS if tier == "thorough" else LABELS[:9]
        for a, b, c in itertools.product(labs, repeat=3):
            yield [0, [[0, "m", [["e", "ref", 1], ["e", "ref", 2], ["e", "ref", 3]]], [1, a, []], [2, b, [["e", "str", "st__lit"]]], [3, c, [["e", "ref", 1]]]]]
        # all graphs on two nodes with at most two fields each over a small field alphabet
        alpha = [[ph, kd, t] for ph in "elc" for kd in ("ref", "own") for t in (0, 1) if (ph, kd) != ("c", "own")] + [["e", "lit", 7], ["e", "str", "st__s"]]
        fsets = [[]] + [[x] for x in alpha] + [[x, y] for x in alpha for y in alpha if x[1] != "lit" or y[1] != "lit"]
        stride = 1 if tier == "thorough" else 7
        k = 0
        for f0 in fsets:
            for f1 in fsets:
                k += 1
                if k % stride == 0:
                    yield [0, [[1, "a", f0], [2, "a", f1]]]
        n = 12000 if tier == "quick" else 200000
        for i in range(n):
            m = i % 8
            if m == 7:     # inlined forests below generator loaders and callbacks
                yield fw_random_forest(rng, 7, cb=True)
            elif m == 6:   # inlined forests, generator loaders, no callbacks
                yield fw_random_forest(rng, 7, cb=False)
            elif m == 5:
                yield fw_random_cb(rng, 7)
            elif m == 4:
                yield fw_random_levels(rng, 7)
            elif m == 0:   # inside the hypothesis of the proved theorem: acyclic, early, named references
                yield fw_random(rng, 7, p_own=0.0, p_late=0.0, p_cb=0.0, acyclic=True)
            elif m == 1:  # acyclic with inlined objects and two-phase loaders
                yield fw_random(rng, 7, acyclic=True)
            elif m == 2:
                yield fw_random(rng, 6, p_own=0.05)
            else:
                yield fw_random(rng, 5, p_own=0.3, p_late=0.3, p_cb=0.3)

    def run_impl(self, case):
        return F.run(case)

    def line(self, case, pyout):
        return sx(["fw", fw_encode(case), pyout])

    def nontrivial(self, case, po):
        return len(case[1]) >= 2 and isinstance(po, list) and po[0] == "ok"

    def signature(self, case, po, res):
        kinds = sorted({f[1] + "-" + f[0] for o in case[1] for f in o[2]})
        return {"construct": "+".join(kinds), "out": po[0] if isinstance(po, list) else str(po)}

    def shrink(self, case):
        main, heap = case
        # drop one field, then drop the last node when nothing refers to it
        for i, o in enumerate(heap):
            for k in range(len(o[2])):
                h2 = [list(x) for x in heap]
                h2[i] = [o[0], o[1], o[2][:k] + o[2][k + 1:]]
                yield [main, h2]
        last = len(heap) - 1
        if last > 0 and not any(f[1] in ("ref", "own") and f[2] == last for o in heap for f in o[2]):
            yield [main, heap[:-1]]
        for i, o in enumerate(heap):
            if o[1] not in (None, "a"):
                h2 = [list(x) for x in heap]
                h2[i] = [o[0], "a", o[2]]
                yield [main, h2]


# =============================================================================================
# session descriptors
# =============================================================================================

SHAPES = [[4], [6], [5], [2, 3], [3, 2], [2, 2, 3], [1], [2, 3]]
DLABELS = ["d0", "d1", "d2", "d0", "st__d", "st_", "my data", "", "x", "list", "__main__", "Subset 1", "d0_0"]
CNAMES = ["x", "y", "z", "k", "n", "t", "st__c", "a b", "w", "v"]


def gen_dataset(rng, i, shape=None):
    if shape is None and rng.random() < 0.06:
        shape = ["region", rng.randint(1, 4)]
    shape = shape or rng.choice(SHAPES)
    ncomp = rng.randint(1, 5)
    names = rng.sample(CNAMES, ncomp)
    comps = []
    for j, nm in enumerate(names):
        kind = rng.choice(["f", "f", "f", "i", "c", "C", "C", "t", "u", "d", "p", "l"])
        if shape[0] != "region" and len(shape) > 1 and kind in ("c", "C") and rng.random() < 0.5:
            kind = "f"
        comps.append([kind, nm, rng.randint(0, 99)])
    coords = rng.choice([None, None, "id", ["aff", rng.randint(0, 7)]])
    label = rng.choice(DLABELS) if rng.random() < 0.6 else "d%d" % i
    return [label, shape, comps, coords, rng.choice([None, rng.randint(0, 50)]), rng.randint(0, 5)]


def ds_info(desc):
    """which components a state / link may refer to (by the kinds the dataset will really have)"""
    label, shape, comps, coords, style, meta = desc
    nums, cats, dts = [], [], []
    first = True
    have_num = False
    if shape and shape[0] == "region":
        shape = [shape[1]]
        first = False
        have_num = True
        nums = ["Center [x] for boundary", "Center [y] for boundary"]
        comps = [[k if k not in ("d", "p", "l") else "f", nm, sd] for k, nm, sd in comps]
    for kind, nm, seed in comps:
        k = kind
        if first and k in ("d", "p", "l"):
            k = "f"
        if first and k == "u":
            k = "f"
        first = False
        if k in ("d", "p", "l") and not have_num:
            k = "f"
        if k in ("f", "i", "u", "d", "p", "l"):
            nums.append(nm)
            if k in ("f", "i", "u"):
                have_num = True
        elif k in ("c", "C"):
            cats.append(nm)
        else:
            dts.append(nm)
    return {"shape": shape, "ndim": len(shape), "nums": nums, "cats": cats, "dts": dts, "n": int(np.prod(shape)),
            "coords": coords}


def rnum(rng):
    return rng.choice([rng.randint(-9, 9), [rng.randint(-36, 36), 4], [rng.randint(-9, 9), 2]])


def gen_roi(rng):
    k = rng.choice(["rect", "rect", "xr", "yr", "range", "circ", "ann", "ell", "poly", "path", "vbase", "catr", "proj3", "undef", "point", "roi"])
    a, b = sorted([rng.randint(-8, 8), rng.randint(-8, 8)])
    c, d = sorted([rng.randint(-8, 8), rng.randint(-8, 8)])
    if k == "rect":
        return ["rect", a, b + 1, c, d + 1, rng.choice([0, 0, [1, 2], [-3, 4], 1])]
    if k in ("xr", "yr"):
        return [k, a, b]
    if k == "range":
        return ["range", rng.choice(["x", "y"]), a, b]
    if k == "circ":
        return ["circ", a, c, rng.randint(1, 9)]
    if k == "ann":
        r = rng.randint(1, 5)
        return ["ann", a, c, r, r + rng.randint(1, 5)]
    if k == "ell":
        return ["ell", a, c, rng.randint(1, 9), rng.randint(1, 9), rng.choice([0, [1, 4], 1])]
    if k in ("poly", "path", "vbase"):
        n = rng.randint(3, 5)
        return [k, [rng.randint(-8, 8) for _ in range(n)], [rng.randint(-8, 8) for _ in range(n)]]
    if k == "catr":
        return ["catr", rng.sample(L.CATS, rng.randint(0, 3))]
    if k == "proj3":
        return ["proj3", ["rect", a, b + 1, c, d + 1, 0], rng.randint(0, 1)]
    if k == "undef":
        return [rng.choice(["rect", "circ", "ell", "poly", "xr", "ann"])]
    if k == "point":
        return ["point", a, c]
    return ["roi"]


def gen_pre(rng, depth=0):
    r = rng.random()
    if r < 0.55 or depth > 2:
        return None
    if r < 0.7:
        return ["proj", rng.choice(["rectilinear", "rectilinear", "aitoff", "polar"]), [-8, 8], [-8, 8], "linear", "linear"]
    if r < 0.85:
        return ["rad", rng.choice([[], ["x"], ["y"], ["x", "y"]]), gen_pre(rng, depth + 1)]
    return ["fsl", gen_pre(rng, depth + 1)]


LEAF_KINDS = ["base", "range", "drange", "mrange", "ineq", "ineq-cid", "ineq-str", "roi2", "roind", "roi3", "catroi", "catroi2d",
              "catmr", "mask", "flood", "slice", "pixel", "cat", "elem", "elem-nodata", "parsed"]


def gen_leaf(rng, infos, kind=None):
    """-> state descriptor or None when no dataset offers the components the kind needs"""
    kind = kind or rng.choice(LEAF_KINDS)
    order = list(range(len(infos)))
    rng.shuffle(order)
    for di in order:
        I = infos[di]
        nums, cats, dts = I["nums"], I["cats"], I["dts"]
        if kind == "base":
            return ["base"]
        if kind == "range" and nums:
            a, b = rnum(rng), rnum(rng)
            return ["range", di, rng.choice(nums), a, b]
        if kind == "drange" and dts:
            a, b = sorted([rng.randint(0, 20000), rng.randint(0, 20000)])
            return ["drange", di, rng.choice(dts), a, b]
        if kind == "mrange" and nums:
            return ["mrange", di, rng.choice(nums), [[rng.randint(-9, 0), rng.randint(0, 9)] for _ in range(rng.randint(0, 3))]]
        if kind == "ineq" and nums:
            return ["ineq", di, rng.choice(nums), rng.choice(list(L.OPS)), rnum(rng), rng.random() < 0.3]
        if kind == "ineq-cid" and len(nums) >= 1:
            return ["ineq", di, rng.choice(nums), rng.choice(list(L.OPS)), ["cid", di, rng.choice(nums)]]
        if kind == "ineq-str" and cats:
            return ["ineq", di, rng.choice(cats), rng.choice(["eq", "ne"]), ["str", rng.choice(L.CATS)]]
        if kind == "roi2" and len(nums) >= 1:
            return ["roi2", di, rng.choice(nums), rng.choice(nums), gen_roi(rng), gen_pre(rng)]
        if kind == "roind" and nums:
            k = rng.randint(2, 2)
            return ["roind", [[di, rng.choice(nums)] for _ in range(k)], gen_roi(rng), gen_pre(rng)]
        if kind == "roi3" and nums:
            return ["roi3", di, rng.choice(nums), rng.choice(nums), rng.choice(nums), ["proj3", gen_roi_2d(rng), rng.randint(0, 1)]]
        if kind == "catroi" and cats:
            return ["catroi", di, rng.choice(cats), rng.sample(L.CATS, rng.randint(0, 3))]
        if kind == "catroi2d" and cats and I["ndim"] == 1:
            return ["catroi2d", di, rng.choice(cats), rng.choice(cats),
                    [[c, rng.sample(L.CATS, rng.randint(0, 3))] for c in rng.sample(L.CATS, rng.randint(0, 3))], rng.random() < 0.5]
        if kind == "catmr" and cats and nums and I["ndim"] == 1:
            return ["catmr", di, rng.choice(cats), rng.choice(nums),
                    [[c, [[rng.randint(-9, 0), rng.randint(0, 9)] for _ in range(rng.randint(0, 2))]] for c in rng.sample(L.CATS, rng.randint(0, 3))]]
        if kind == "mask":
            return ["mask", di, rng.getrandbits(30)]
        if kind == "flood" and nums and I["n"] > 0:
            return ["flood", di, rng.choice(nums), [rng.randint(0, 3) for _ in range(3)], rng.choice([1, [3, 2], 2, [5, 4]])]
        if kind in ("slice", "pixel"):
            sl = [[rng.choice([None, 0, 1]), rng.choice([None, 1, 2, 3]), rng.choice([None, None, 2])] for _ in range(rng.randint(1, 3))]
            if kind == "pixel":
                sl = [[a if a is not None else 0, (a if a is not None else 0) + 1, None] for a, b, c in sl]
            return [kind, di, sl]
        if kind == "cat" and cats:
            return ["cat", di, rng.choice(cats), [rng.randint(0, 3) for _ in range(rng.randint(0, 3))]]
        if kind == "elem" and I["n"] > 0:
            return ["elem", di, sorted({rng.randrange(I["n"]) for _ in range(rng.randint(0, 3))})]
        if kind == "elem-nodata":
            return ["elem", None, sorted({rng.randrange(3) for _ in range(rng.randint(0, 3))})]
        if kind == "parsed" and nums:
            a, b = rng.choice(nums), rng.choice(nums)
            cmd = rng.choice(["{p} > 0", "({p} > -2) & ({q} < 3)", "{p} + {q} >= 1", "np.abs({p}) < 4"])
            return ["parsed", cmd, [["p", di, a], ["q", di, b]]]
    return None


def gen_roi_2d(rng):
    for _ in range(20):
        r = gen_roi(rng)
        if r[0] in ("rect", "circ", "ell", "poly") and len(r) > 1:
            return r
    return ["rect", -3, 3, -3, 3, 0]


def gen_state(rng, infos, depth=0):
    r = rng.random()
    if depth < 3 and r < 0.35:
        k = rng.choice(["and", "or", "xor", "inv", "mor"])
        if k == "inv":
            return ["inv", gen_state(rng, infos, depth + 1)]
        if k == "mor":
            return ["mor", [gen_state(rng, infos, depth + 1) for _ in range(rng.randint(1, 3))]]
        return [k, gen_state(rng, infos, depth + 1), gen_state(rng, infos, depth + 1)]
    for _ in range(10):
        s = gen_leaf(rng, infos)
        if s is not None:
            return s
    return ["base"]


LINK_KINDS = ["clink", "clink-fn", "clink2", "same", "twoway", "multi", "aligned", "units", "join", "keyjoin", "mkeyjoin", "pix-same", "cel", "clinkp",
              "multi-lab", "multi-1way", "offset", "affine"]
MLABELS = [None, ["p", "q"], ["st__p", "a b"], ["x", "x"], []]


def gen_link(rng, infos, kind=None):
    if len(infos) < 2:
        return None
    kind = kind or rng.choice(LINK_KINDS)
    i, j = rng.sample(range(len(infos)), 2)
    A, B = infos[i], infos[j]
    if not A["nums"] or not B["nums"]:
        if kind not in ("aligned", "pix-same"):
            return None
    pick = lambda I: rng.choice(I["nums"])  # noqa: E731

    def pick2(I):
        # two *different* components (the same one twice gives two routes to one target)
        return rng.sample(I["nums"], 2) if len(I["nums"]) >= 2 else None
    if kind in ("offset", "affine"):
        # on pixel axes (what wcs_autolink builds) or on two ordinary components of each side
        n = min(A["ndim"], B["ndim"])
        if n >= 2 and rng.random() < 0.4:
            c1 = [[i, ["pix", a]] for a in range(n)]
            c2 = [[j, ["pix", a]] for a in range(n)]
        else:
            pa, pb = pick2(A), pick2(B)
            if pa is None or pb is None:
                return None
            n = 2
            c1, c2 = [[i, pa[0]], [i, pa[1]]], [[j, pb[0]], [j, pb[1]]]
        if kind == "offset":
            return ["offset", c1, c2, [rnum(rng) for _ in range(n)]]
        return ["affine", c1, c2, rng.randint(0, 30)]
    if kind in ("clink2", "clinkp", "multi", "multi-lab", "multi-1way", "mkeyjoin", "cel"):
        pa, pb = pick2(A), pick2(B)
        if pa is None or (pb is None and kind in ("multi", "multi-lab", "mkeyjoin", "cel")):
            return None
        if kind == "multi-lab":
            return ["multi", [[i, pa[0]], [i, pa[1]]], [[j, pb[0]], [j, pb[1]]], "pfwd", "pbwd", rng.choice(MLABELS), rng.choice(MLABELS)]
        if kind == "multi-1way":
            # one direction only (the other function is None; its labels must then be given), 2 -> 2 or 2 -> 1
            to = [[j, pb[0]], [j, pb[1]]] if (pb is not None and rng.random() < 0.5) else [[j, pick(B)]]
            fn = "pfwd" if len(to) == 2 else "sum2"
            if rng.random() < 0.5:
                return ["multi", [[i, pa[0]], [i, pa[1]]], to, fn, None, rng.choice(MLABELS), rng.choice(MLABELS[1:])]
            return ["multi", to, [[i, pa[0]], [i, pa[1]]], None, fn, rng.choice(MLABELS[1:]), rng.choice(MLABELS)]
        if kind == "clink2":
            return ["clink", [[i, pa[0]], [i, pa[1]]], [j, pick(B)], "sum2"]
        if kind == "clinkp":
            return ["clinkp", [[i, pa[0]], [i, pa[1]]], [j, pick(B)], rng.randint(0, 1)]
        if kind == "multi":
            return ["multi", [[i, pa[0]], [i, pa[1]]], [[j, pb[0]], [j, pb[1]]], "pfwd", "pbwd"]
        if kind == "mkeyjoin":
            return ["mkeyjoin", i, pa, j, pb]
        name = rng.choice(["Galactic_to_FK5", "FK4_to_FK5", "ICRS_to_FK5", "Galactic_to_FK4", "ICRS_to_FK4", "ICRS_to_Galactic"])
        return ["cel", name, [[i, pa[0]], [i, pa[1]]], [[j, pb[0]], [j, pb[1]]]]
    if kind == "clink":
        return ["clink", [[i, pick(A)]], [j, pick(B)], None]
    if kind == "clink-fn":
        return ["clink", [[i, pick(A)]], [j, pick(B)], "double", rng.choice(["half", None])]
    if kind == "clink2":
        return ["clink", [[i, pick(A)], [i, pick(A)]], [j, pick(B)], "sum2"]
    if kind == "clinkp":
        return ["clinkp", [[i, pick(A)], [i, pick(A)]], [j, pick(B)], rng.randint(0, 1)]
    if kind == "same":
        return ["same", i, pick(A), j, pick(B)]
    if kind == "twoway":
        return ["twoway", i, pick(A), j, pick(B), "double", "half"]
    if kind == "multi":
        return ["multi", [[i, pick(A)], [i, pick(A)]], [[j, pick(B)], [j, pick(B)]], "pfwd", "pbwd"]
    if kind == "aligned":
        return ["aligned", i, j]
    if kind == "pix-same":
        return ["same", i, ["pix", 0], j, ["pix", 0]]
    if kind == "units":
        return ["units", i, pick(A), j, pick(B)]
    if kind in ("join", "keyjoin"):
        return [kind, i, pick(A), j, pick(B)]
    if kind == "mkeyjoin":
        return ["mkeyjoin", i, [pick(A), pick(A)], j, [pick(B), pick(B)]]
    if kind == "cel":
        name = rng.choice(["Galactic_to_FK5", "FK4_to_FK5", "ICRS_to_FK5", "Galactic_to_FK4", "ICRS_to_FK4", "ICRS_to_Galactic"])
        return ["cel", name, [[i, pick(A)], [i, pick(A)]], [[j, pick(B)], [j, pick(B)]]]
    return None


def link_components(l):
    """(set of (dataset, component) a link touches, set of datasets)"""
    k = l[0]
    if k in ("clink", "clinkp"):
        cs = {(d, str(c)) for d, c in l[1]} | {(l[2][0], str(l[2][1]))}
    elif k in ("same", "twoway", "units", "join", "keyjoin"):
        cs = {(l[1], str(l[2])), (l[3], str(l[4]))}
    elif k == "mkeyjoin":
        cs = {(l[1], str(c)) for c in l[2]} | {(l[3], str(c)) for c in l[4]}
    elif k in ("multi", "offset", "affine"):
        cs = {(d, str(c)) for d, c in l[1]} | {(d, str(c)) for d, c in l[2]}
    elif k == "cel":
        cs = {(d, str(c)) for d, c in l[2]} | {(d, str(c)) for d, c in l[3]}
    elif k == "aligned":
        cs = {(l[1], "['pix', %d]" % a) for a in range(3)} | {(l[2], "['pix', %d]" % a) for a in range(3)}
    else:
        cs = set()
    return cs, {d for d, _ in cs}


def gen_session(rng, nd=None, ng=None, nl=None):
    nd = nd or rng.choice([1, 2, 2, 3, 3])
    data = []
    for i in range(nd):
        shape = None
        if i > 0 and rng.random() < 0.5:
            shape = data[rng.randrange(i)][1]   # same shape as an earlier dataset (aligned links, joins)
        data.append(gen_dataset(rng, i, shape))
    infos = [ds_info(d) for d in data]
    links = []
    # two derivation routes to the same attribute make the *choice* of route depend on set iteration
    # order (C03's subject, not C02's): every link uses components no other link uses, and a pair of
    # datasets is linked at most once
    used, pairs = set(), set()
    for _ in range(rng.choice([0, 0, 1, 1, 2, 3]) if nl is None else nl):
        l = gen_link(rng, infos)
        if l is None:
            continue
        cs, ds = link_components(l)
        if cs & used or frozenset(ds) in pairs:
            continue
        used |= cs
        pairs.add(frozenset(ds))
        links.append(l)
    groups = []
    for _ in range(rng.choice([0, 1, 1, 2, 3]) if ng is None else ng):
        groups.append([gen_state(rng, infos), rng.choice([None, None, "g", "st__g", "Subset 1", "d0"]), rng.choice([None, rng.randint(0, 50)])])
    return {"data": data, "links": links, "groups": groups}


def _walk_find(s, pred):
    if isinstance(s, list):
        if pred(s):
            return True
        return any(_walk_find(x, pred) for x in s)
    return False


def tags_of(case, used):
    tags = sorted(used)
    # CategoricalROI() without categories cannot be saved (its __gluestate__ calls .tolist() on None)
    if _walk_find(case.get("groups", []), lambda x: x == ["catr"] or x == ["catr", None]):
        tags.append("tag:catroi-undefined")
    for d in case.get("data", []):
        if d[5] % len(L.META) == 6:
            tags.append("tag:meta-mixed-keys")
    return tags


class Sess(Family):
    name = "sess"
    exhaustive = False
    batch = 40
    budget_share = 4.0
    case_timeout = 60.0
    family_tag = "sess"

    def setup(self):
        gc.disable()

    def reset(self):
        L.reset()
        self._n = getattr(self, "_n", 0) + 1
        if self._n % 50 == 0:
            gc.collect()

    def cases(self, tier, rng):
        yield from systematic_sessions(tier)
        n = 2000 if tier == "quick" else 60000
        for i in range(n):
            c = gen_session(rng)
            if i % 11 == 0:
                c["via_app"] = True
            yield c

    def run_impl(self, case):
        out, used = L.run_case(case)
        self._tags = tags_of(case, used)
        self._detail = out[1:] if out[0] in ("save-error", "load-error", "unbuildable") else None
        if out[0] == "unbuildable":
            self._tags.append("tag:unbuildable")
            return ["unbuildable"]
        if out[0] == "save-error":
            return ["save-error"]
        return out

    def line(self, case, pyout):
        return sx(["sess", getattr(self, "_tags", []), pyout])

    def nontrivial(self, case, po):
        return isinstance(po, list) and po[0] == "ok" and (len(case.get("groups", [])) > 0 or len(case.get("links", [])) > 0)

    def signature(self, case, po, res):
        kinds = set()

        def walk(s):
            if isinstance(s, list) and s and isinstance(s[0], str):
                kinds.add(s[0])
                for x in s[1:]:
                    walk(x)
            elif isinstance(s, list):
                for x in s:
                    walk(x)
        for g in case.get("groups", []):
            walk(g[0])
        for l in case.get("links", []):
            kinds.add("link-" + l[0])
        return {"construct": "+".join(sorted(kinds)) or "plain", "clause": res.get("br", "?") if isinstance(res, dict) else "?"}

    def shrink(self, case):
        c = case
        for k in ("groups", "links"):
            for i in range(len(c.get(k, []))):
                d = dict(c)
                d[k] = c[k][:i] + c[k][i + 1:]
                yield d
        # composite states -> their children
        for i, g in enumerate(c.get("groups", [])):
            s = g[0]
            subs = []
            if s[0] in ("and", "or", "xor"):
                subs = [s[1], s[2]]
            elif s[0] == "inv":
                subs = [s[1]]
            elif s[0] == "mor":
                subs = list(s[1])
            for t in subs:
                d = dict(c)
                d["groups"] = c["groups"][:i] + [[t] + g[1:]] + c["groups"][i + 1:]
                yield d
            if g[1] is not None or g[2] is not None:
                d = dict(c)
                d["groups"] = c["groups"][:i] + [[s, None, None]] + c["groups"][i + 1:]
                yield d
        # drop the last dataset when nothing refers to it
        nd = len(c["data"])
        if nd > 1 and not _mentions(c, nd - 1):
            d = dict(c)
            d["data"] = c["data"][:-1]
            yield d
        for i, ds in enumerate(c["data"]):
            if ds[3] is not None or ds[4] is not None or ds[5] != 0:
                d = dict(c)
                d["data"] = c["data"][:i] + [[ds[0], ds[1], ds[2], None, None, 0]] + c["data"][i + 1:]
                yield d
            if ds[0] != "d%d" % i:
                d = dict(c)
                d["data"] = c["data"][:i] + [["d%d" % i] + ds[1:]] + c["data"][i + 1:]
                yield d


def _mentions(case, di):
    txt = json.dumps([case.get("groups", []), case.get("links", [])])
    # dataset indices appear as the element after a kind tag or inside [di, name] pairs: conservative test
    return ("[%d, " % di) in txt or (", %d, " % di) in txt


D0 = ["d0", [6], [["f", "x", 1], ["f", "y", 2], ["c", "k", 3], ["c", "k2", 8], ["i", "n", 4], ["t", "t", 5], ["d", "dd", 6], ["p", "pp", 7], ["l", "ll", 9], ["l", "l2", 10], ["u", "uu", 4]], None, 1, 1]
# kc: explicit categories, unsorted, every one of them used, units (seed 23: variant 2); kj: the same with jitter('uniform') (seed 9)
D1 = ["d1", [6], [["f", "a", 11], ["f", "b", 12], ["i", "n", 14], ["u", "uu", 5], ["c", "k", 13], ["C", "kc", 23], ["C", "kj", 9]], "id", 2, 2]
D2 = ["d2", [2, 2, 3], [["f", "x", 21], ["f", "y", 22], ["f", "z", 23], ["i", "n", 24]], ["aff", 1], None, 3]
D3 = ["d3", [2, 3], [["f", "x", 31], ["f", "y", 33], ["c", "k", 32]], ["aff", 2], 4, 4]
D4 = ["d4", [2, 3], [["f", "x", 41], ["i", "n", 42]], None, 5, 5]
D5 = ["regions", ["region", 3], [["f", "v", 51], ["c", "k", 52]], None, 6, 1]
RECT = ["rect", -3, 3, -3, 3, 0]
XY, AB = [[0, "x"], [0, "y"]], [[1, "a"], [1, "b"]]
PIX3, PIX4 = [[3, ["pix", 0]], [3, ["pix", 1]]], [[4, ["pix", 0]], [4, ["pix", 1]]]
# MultiLink and the parametrised wcs_autolinking helpers (savable since the C12 repair F-C12d): functions in
# both / one direction, explicit argument labels (tricky ones too), 2 -> 1, on components and on pixel axes
MULTI_LINKS = [
    ["multi", XY, AB, "pfwd", "pbwd", ["p", "q"], ["u", "v"]],
    ["multi", XY, AB, "pfwd", "pbwd", ["st__p", "a b"], None],
    ["multi", XY, AB, "pfwd", "pbwd", None, ["x", "x"]],
    ["multi", XY, AB, "pfwd", "pbwd", [], []],
    ["multi", XY, AB, "pfwd", None, None, ["u", "v"]],
    ["multi", XY, AB, None, "pbwd", ["p", "q"], None],
    ["multi", XY, [[1, "a"]], "sum2", None, None, ["s"]],
    ["multi", [[1, "a"]], XY, None, "sum2", ["s"], ["p", "q"]],
    ["multi", XY, AB, "pbwd", "pfwd"],
    ["offset", XY, AB, [3, [-5, 2]]], ["offset", XY, AB, [0, 0]], ["offset", PIX3, PIX4, [1, -2]],
    ["offset", [[2, ["pix", a]] for a in range(3)], [[1, "a"], [1, "b"], [1, "n"]], [1, [1, 4], -3]],
    ["affine", XY, AB, 1], ["affine", XY, AB, 4], ["affine", XY, AB, 7], ["affine", PIX3, PIX4, 2], ["affine", PIX3, PIX4, 13],
    ["affine", [[2, "x"], [2, "y"], [2, "z"]], [[0, "x"], [0, "y"], [0, "n"]], 10],
]


def systematic_sessions(tier):
    """every leaf kind alone, negated, and and-ed with every other leaf kind; every ROI kind; every
    pre-transform; every link kind alone and in pairs; tricky labels."""
    import random
    rng = random.Random(20260930)
    data = [D0, D1, D2, D3, D4]
    infos = [ds_info(d) for d in data]
    leaves = {}
    for k in LEAF_KINDS:
        for _ in range(50):
            s = gen_leaf(rng, infos, k)
            if s is not None:
                leaves[k] = s
                break
    base = {"data": data, "links": [], "groups": []}
    # a ComponentID shared between datasets, the user before and after its owner in the collection
    for share in ([[0, 1, 0, 5]], [[1, 0, 0, 5]], [[0, 2, 1, 7], [3, 2, 1, 9]], [[4, 0, 1, 3], [0, 4, 0, 2]]):
        yield dict(base, share=share)
        yield dict(base, share=share, via_app=True)
    for k, s in leaves.items():
        yield dict(base, groups=[[s, None, 3]])
        yield dict(base, groups=[[["inv", s], "g", None]])
    ks = sorted(leaves)
    for a in ks:
        for b in ks:
            if a < b or tier == "thorough":
                op = ["and", "or", "xor"][(ks.index(a) + ks.index(b)) % 3]
                yield dict(base, groups=[[[op, leaves[a], leaves[b]], None, None]])
    for a in ks:
        yield dict(base, groups=[[["mor", [leaves[a], leaves[ks[(ks.index(a) + 3) % len(ks)]]]], None, None]])
    rois = [RECT, ["rect", -3, 3, -3, 3, [1, 2]], ["rect"], ["xr", -3, 3], ["yr", -3, 3], ["range", "x", -3, 3], ["range", "y", -3, 3],
            ["circ", 0, 0, 4], ["circ"], ["ann", 0, 0, 2, 6], ["ell", 0, 0, 5, 3, [1, 4]], ["ell", 0, 0, 5, 3, 0],
            ["poly", [-5, 5, 5, -5], [-5, -5, 5, 5]], ["poly"], ["path", [-5, 5, 5], [-5, -5, 5]], ["vbase", [-5, 5, 5], [-5, -5, 5]],
            ["point", 1, 1], ["roi"], ["proj3", RECT, 1], ["catr", ["a"]], ["catr"]]
    pres = [None, ["proj", "rectilinear", [-8, 8], [-8, 8], "linear", "linear"], ["proj", "aitoff", [-8, 8], [-8, 8], "linear", "linear"],
            ["rad", ["x"], None], ["rad", [], None], ["rad", ["x", "y"], ["fsl", None]], ["fsl", None], ["fsl", ["rad", ["y"], ["proj", "polar", [0, 6], [0, 9], "linear", "linear"]]]]
    for r in rois:
        yield dict(base, groups=[[["roi2", 0, "x", "y", r], None, None]])
        yield dict(base, groups=[[["roind", [[3, "x"], [3, "y"]], r], None, None]])
    for p in pres:
        yield dict(base, groups=[[["roi2", 0, "x", "y", RECT, p], None, None]])
        yield dict(base, groups=[[["roind", [[0, "x"], [0, "y"]], ["circ", 0, 0, 4], p], None, None]])
        yield dict(base, groups=[[["roi3", 2, "x", "y", "z", ["proj3", RECT, 1], p], None, None]])
    links = [["clink", [[0, "x"]], [1, "a"], None], ["clink", [[0, "x"]], [1, "a"], "double", "half"], ["clink", [[0, "x"], [0, "y"]], [1, "a"], "sum2"],
             ["clink", [[0, "x"], [0, "y"], [0, "n"]], [1, "a"], "volume"], ["clinkp", [[0, "x"], [0, "y"]], [1, "a"], 1],
             ["same", 0, "x", 1, "a"], ["twoway", 0, "x", 1, "a", "double", "half"], ["multi", [[0, "x"], [0, "y"]], [[1, "a"], [1, "b"]], "pfwd", "pbwd"],
             ["aligned", 3, 4], ["units", 0, "uu", 1, "uu"], ["join", 0, "n", 1, "n"], ["keyjoin", 0, "n", 1, "n"], ["mkeyjoin", 0, ["n", "x"], 1, ["n", "a"]],
             ["same", 3, ["pix", 0], 4, ["pix", 1]], ["cel", "Galactic_to_FK5", [[0, "x"], [0, "y"]], [[1, "a"], [1, "b"]]],
             ["cel", "ICRS_to_Galactic", [[0, "x"], [0, "y"]], [[1, "a"], [1, "b"]]], ["same", 0, "dd", 1, "b"], ["same", 1, "a", 2, "x"]]
    npair = len(links) + 3          # pairs: the helpers above + one MultiLink / OffsetLink / AffineLink
    links += [MULTI_LINKS[0], MULTI_LINKS[9], MULTI_LINKS[13]] + [l for k, l in enumerate(MULTI_LINKS) if k not in (0, 9, 13)]
    g2 = [[["range", 0, "x", -2, 3], None, 3], [["ineq", 1, "n", "gt", 0], "lab", None]]
    for l in links:
        yield dict(base, links=[l], groups=g2, full_access=True)
    links2 = [["clink", [[1, "b"]], [2, "y"], None], ["same", 1, "b", 2, "y"], ["twoway", 1, "b", 2, "y", "double", "half"],
              ["aligned", 3, 4], ["keyjoin", 1, "k", 3, "k"], ["join", 2, "n", 4, "n"], ["same", 3, ["pix", 1], 4, ["pix", 0]],
              ["clink", [[2, "x"], [2, "y"]], [3, "x"], "sum2"]]
    for a in range(npair):
        for b in range(len(links2)):
            if tier == "thorough" or (a + b) % 2 == 0:
                ca, da = link_components(links[a])
                cb, db = link_components(links2[b])
                if not (ca & cb) and frozenset(da) != frozenset(db):
                    yield dict(base, links=[links[a], links2[b]], groups=g2)
    for lab in DLABELS:
        for lab2 in (DLABELS if tier == "thorough" else DLABELS[:5]):
            yield {"data": [[lab] + D0[1:], [lab2] + D1[1:]], "links": [["same", 0, "x", 1, "a"]],
                   "groups": [[["range", 0, "x", -2, 3], lab2, None]]}
    for m in range(len(L.META)):
        for sh in ([3], [2, 3], [2, 2, 2], [], [0]):
            for co in (None, "id", ["aff", m]):
                yield {"data": [["d", sh, [["f", "x", m], ["i", "n", m + 1]], co, m, m]], "links": [], "groups": [[["mask", 0, 5], None, None]]}
    # categorical components with an explicit category list in every relation to the labels (the seed selects the
    # variant: unsorted / rotated / sorted with every category used, unused categories first / last, a duplicate,
    # a label outside the list), with and without jitter and units, each under selections BY CODE (a changed
    # category order changes the mask) and by label
    for v in range(7):
        for j in (0, 1, 2):
            seed = v + 7 * j + 21 * ((v + j) % 3)
            for shape in ([7], [2, 3]):
                ds = ["dc", shape, [["f", "x", 1], ["C", "k", seed], ["c", "k0", seed], ["C", "k2", (seed * 5 + 2) % 100]], None, None, 0]
                sels = [["cat", 0, "k", [0]], ["cat", 0, "k", [2]], ["cat", 0, "k", [1, 3]], ["catroi", 0, "k", ["a", "cc"]],
                        ["and", ["cat", 0, "k", [0, 1]], ["inv", ["cat", 0, "k2", [1]]]]]
                if tier != "thorough":
                    sels = [sels[(v + j) % 3], sels[3 + (v + j) % 2]]
                for sel in sels:
                    if sel[0] == "catroi" and len(shape) > 1:
                        continue
                    yield {"data": [ds], "links": [], "groups": [[sel, None, None]]}
    yield dict(base, groups=[[["unknown-subclass"], None, None]])
    for via in (True,):
        yield dict(base, groups=[[leaves["range"], None, 3]], via_app=True)


# =============================================================================================
# sessf: file-backed, include_data=False
# =============================================================================================

class SessFiles(Sess):
    name = "sessf"
    batch = 10
    budget_share = 1.0
    family_tag = "sessf"

    def cases(self, tier, rng):
        n = 400 if tier == "quick" else 6000
        fmts = ["csv", "fits-table", "fits-image", "hdf5", "npy"]
        for i in range(n):
            nf = rng.choice([1, 1, 2])
            files = []
            for k in range(nf):
                fmt = fmts[(i + k) % len(fmts)] if i < 40 else rng.choice(fmts)
                files.append([fmt, rng.randint(0, 99), rng.choice([[4], [5], [2, 3]]) if fmt in ("fits-image", "hdf5", "npy") else [rng.randint(2, 6)]])
            yield {"files": files, "seed": rng.randint(0, 10 ** 6), "include_data": rng.random() < 0.15, "absolute": rng.random() < 0.7}

    def run_impl(self, case):
        import random
        tmp = tempfile.mkdtemp(prefix="c02f")
        cwd = os.getcwd()
        try:
            out, used = run_file_case(case, tmp, random.Random(case["seed"]))
        finally:
            os.chdir(cwd)
            shutil.rmtree(tmp, ignore_errors=True)
        self._tags = sorted(used)
        if out[0] == "unbuildable":
            self._tags.append("tag:unbuildable")
            return ["unbuildable"]
        if out[0] == "save-error":
            return ["save-error"]
        return out

    def line(self, case, pyout):
        return sx(["sess", getattr(self, "_tags", []), pyout])

    def nontrivial(self, case, po):
        return isinstance(po, list) and po[0] == "ok"

    def signature(self, case, po, res):
        return {"construct": "+".join(sorted({f[0] for f in case["files"]})) + ("" if case.get("include_data") else "+byref"),
                "clause": res.get("br", "?") if isinstance(res, dict) else "?"}

    def shrink(self, case):
        if len(case["files"]) > 1:
            for i in range(len(case["files"])):
                d = dict(case)
                d["files"] = case["files"][:i] + case["files"][i + 1:]
                yield d


def write_file(fmt, seed, shape, path):
    from astropy.io import fits
    from astropy.table import Table
    g = L.lcg(seed)
    n = int(np.prod(shape))
    if fmt == "csv":
        with open(path, "w") as fh:
            fh.write("a,b,name\n")
            for i in range(n):
                fh.write("%s,%d,%s\n" % (((next(g) % 65) - 32) / 4.0, next(g) % 9, L.CATS[next(g) % 3]))
    elif fmt == "fits-table":
        t = Table()
        t["a"] = np.array([((next(g) % 65) - 32) / 4.0 for _ in range(n)])
        t["b"] = np.array([next(g) % 9 for _ in range(n)], dtype=np.int32)
        t.write(path, format="fits")
    elif fmt == "fits-image":
        arr = np.array([((next(g) % 65) - 32) / 4.0 for _ in range(n)]).reshape(shape)
        hdu = fits.PrimaryHDU(arr)
        if seed % 2:
            for ax in range(len(shape)):
                hdu.header["CTYPE%d" % (ax + 1)] = ["X", "Y", "Z"][ax]
                hdu.header["CRVAL%d" % (ax + 1)] = float(ax + 1)
                hdu.header["CRPIX%d" % (ax + 1)] = 1.0
                hdu.header["CDELT%d" % (ax + 1)] = 0.5
        hdu.writeto(path)
    elif fmt == "hdf5":
        import h5py
        with h5py.File(path, "w") as f:
            f["arr"] = np.array([((next(g) % 65) - 32) / 4.0 for _ in range(n)]).reshape(shape)
            f["other"] = np.array([next(g) % 9 for _ in range(n)]).reshape(shape)
    elif fmt == "npy":
        np.save(path, np.array([((next(g) % 65) - 32) / 4.0 for _ in range(n)]).reshape(shape))
    else:
        raise ValueError(fmt)


EXT = {"csv": "csv", "fits-table": "fits", "fits-image": "fits", "hdf5": "hdf5", "npy": "npy"}


def run_file_case(case, tmp, rng):
    from glue.core.data_factories import load_data
    from glue.core import DataCollection
    gc.disable()
    W = L.World()
    datasets = []
    sub = os.path.join(tmp, "data")
    os.makedirs(sub)
    try:
        for i, (fmt, seed, shape) in enumerate(case["files"]):
            path = os.path.join(sub, "f%d.%s" % (i, EXT[fmt]))
            write_file(fmt, seed, shape, path)
            d = load_data(path)
            for x in (d if isinstance(d, list) else [d]):
                datasets.append(W.use(x))
    except Exception as e:
        return ["unbuildable", L.tok(type(e).__name__)], set()
    W.data = datasets
    W.dc = DataCollection(datasets)
    W.keep.append(W.dc)
    infos = []
    for d in datasets:
        nums = [c.label for c in d.main_components if d.get_component(c).numeric and not d.get_component(c).datetime]
        cats = [c.label for c in d.main_components if d.get_component(c).categorical]
        infos.append({"shape": list(d.shape), "ndim": d.ndim, "nums": nums, "cats": cats, "dts": [], "n": int(np.prod(d.shape)), "coords": None})
    try:
        for _ in range(rng.randint(0, 2)):
            st = L.build_state(W, gen_state(rng, infos))
            W.keep.append(W.dc.new_subset_group(subset_state=st))
        if len(datasets) > 1 and rng.random() < 0.6:
            l = gen_link(rng, infos, rng.choice(["same", "clink-fn", "keyjoin", "join"]))
            if l is not None:
                L.build_link(W, l)
        if rng.random() < 0.5 and datasets and infos[0]["nums"]:
            L.add_component(W, datasets[0], 0, [rng.choice(["d", "p", "l"]), "derived", rng.randint(0, 50)])
    except L.Unbuildable as e:
        return ["unbuildable", L.tok(str(e))], set()
    out = round_trip_files(W, tmp, include_data=case.get("include_data", False), absolute=case.get("absolute", True))
    used = set(W.used)
    W.keep.clear()
    return out, used


def round_trip_files(W, tmp, include_data, absolute):
    from glue.core.application_base import Application
    keep = W.keep
    before = L.snapshot(W.dc)
    sdir = os.path.join(tmp, "sessions")
    os.makedirs(sdir)

    def save(dc, k):
        app = Application(data_collection=dc)
        keep.append(app)
        p = os.path.join(sdir, "s%d.glu" % k)
        app.save_session(p, include_data=include_data, absolute_paths=absolute)
        return p

    def load(p):
        app = Application.restore_session(p)
        keep.append(app)
        return app.data_collection
    try:
        p1 = save(W.dc, 1)
    except Exception as e:
        return ["save-error", L.tok(type(e).__name__)]
    try:
        dc1 = load(p1)
    except Exception as e:
        if os.environ.get("VERIF_DEBUG"):
            import traceback
            traceback.print_exc()
        return ["load-error", 1, L.tok(type(e).__name__)]
    after = L.snapshot(dc1)
    try:
        p2 = save(dc1, 2)
    except Exception as e:
        return ["resave-error", L.tok(type(e).__name__), before, after]
    try:
        dc2 = load(p2)
    except Exception as e:
        return ["load-error", 2, L.tok(type(e).__name__)]
    return ["ok", before, after, L.snapshot(dc2)]


# =============================================================================================
# cls: one case per class of the generated table
# =============================================================================================

BASE5 = [D0, D1, D2, D3, D4]


def _sess(**kw):
    c = {"data": BASE5, "links": [], "groups": [], "full_access": True}
    c.update(kw)
    return c


def _st(s):
    return _sess(groups=[[s, None, 3]])


P_STATE = lambda dc: dc.subset_groups[0].subset_state  # noqa: E731
P_ROI = lambda dc: dc.subset_groups[0].subset_state.roi  # noqa: E731
P_PRE = lambda dc: dc.subset_groups[0].subset_state.pretransform  # noqa: E731
P_LINK = lambda dc: dc.external_links[0]  # noqa: E731


def _comp(name, di=0):
    return lambda dc: dc[di].get_component(dc[di].id[name])


def _complink(name):
    return lambda dc: dc[0].get_component(dc[0].id[name]).link


S, R, LH, CMP = "glue.core.subset.", "glue.core.roi.", "glue.core.link_helpers.", "glue.core.component."
CEL = "glue.plugins.coordinate_helpers.link_helpers."
RECIPES = {
    S + "SubsetState": (_st(["base"]), P_STATE),
    S + "RoiSubsetStateNd": (_st(["roind", [[0, "x"], [0, "y"]], RECT]), P_STATE),
    S + "RoiSubsetState": (_st(["roi2", 0, "x", "y", RECT]), P_STATE),
    S + "RoiSubsetState3d": (_st(["roi3", 2, "x", "y", "z", ["proj3", RECT, 1]]), P_STATE),
    S + "CategoricalROISubsetState": (_st(["catroi", 0, "k", ["a", "cc"]]), P_STATE),
    S + "RangeSubsetState": (_st(["range", 0, "x", -2, 3]), P_STATE),
    S + "MultiRangeSubsetState": (_st(["mrange", 0, "x", [[-8, -2], [1, [5, 2]]]]), P_STATE),
    S + "CategoricalROISubsetState2D": (_st(["catroi2d", 0, "k", "k2", [["a", ["a", "b"]], ["b", ["cc"]]], True]), P_STATE),
    S + "CategoricalMultiRangeSubsetState": (_st(["catmr", 0, "k", "x", [["a", [[-8, 0], [2, 4]]], ["b", [[0, 8]]]]]), P_STATE),
    S + "OrState": (_st(["or", ["range", 0, "x", -2, 3], ["ineq", 0, "y", "lt", 1]]), P_STATE),
    S + "AndState": (_st(["and", ["range", 0, "x", -2, 3], ["ineq", 0, "y", "lt", 1]]), P_STATE),
    S + "XorState": (_st(["xor", ["range", 0, "x", -2, 3], ["ineq", 0, "y", "lt", 1]]), P_STATE),
    S + "InvertState": (_st(["inv", ["range", 0, "x", -2, 3]]), P_STATE),
    S + "MultiOrState": (_st(["mor", [["range", 0, "x", -2, 0], ["ineq", 0, "y", "lt", 1], ["cat", 0, "k", [0]]]]), P_STATE),
    S + "MaskSubsetState": (_st(["mask", 3, 0b101101]), P_STATE),
    S + "FloodFillSubsetState": (_st(["flood", 3, "x", [0, 1], [3, 2]]), P_STATE),
    S + "SliceSubsetState": (_st(["slice", 3, [[0, 1, None], [1, 3, None]]]), P_STATE),
    "glue.viewers.image.pixel_selection_subset_state.PixelSubsetState": (_st(["pixel", 3, [[0, 1, None], [1, 2, None]]]), P_STATE),
    S + "CategorySubsetState": (_st(["cat", 0, "k", [0, 2]]), P_STATE),
    S + "ElementSubsetState": (_st(["elem", 0, [1, 3]]), P_STATE),
    S + "InequalitySubsetState": (_st(["ineq", 0, "x", "gt", [1, 2]]), P_STATE),
    "glue.core.parse.ParsedSubsetState": (_st(["parsed", "({a} > 1) & ({b} < 2)", [["a", 0, "x"], ["b", 0, "y"]]]), P_STATE),
    "glue.core.parse.ParsedCommand": (_st(["parsed", "{a} > 1", [["a", 0, "x"]]]), lambda dc: dc.subset_groups[0].subset_state._parsed),
    "glue.core.parse.ParsedComponentLink": (_st(["base"]), _complink("pp")),
    R + "Roi": (_st(["roi2", 0, "x", "y", ["roi"]]), P_ROI),
    R + "PointROI": (_st(["roi2", 0, "x", "y", ["point", 1, 1]]), P_ROI),
    R + "RectangularROI": (_st(["roi2", 0, "x", "y", ["rect", -3, 3, -3, 3, [1, 2]]]), P_ROI),
    R + "RangeROI": (_st(["roi2", 0, "x", "y", ["range", "y", -3, 3]]), P_ROI),
    R + "XRangeROI": (_st(["roi2", 0, "x", "y", ["xr", -3, 3]]), P_ROI),
    R + "YRangeROI": (_st(["roi2", 0, "x", "y", ["yr", -3, 3]]), P_ROI),
    R + "CircularROI": (_st(["roi2", 0, "x", "y", ["circ", 0, 0, 4]]), P_ROI),
    R + "CircularAnnulusROI": (_st(["roi2", 0, "x", "y", ["ann", 0, 0, 2, 6]]), P_ROI),
    R + "EllipticalROI": (_st(["roi2", 0, "x", "y", ["ell", 0, 0, 5, 3, [1, 4]]]), P_ROI),
    R + "VertexROIBase": (_st(["roi2", 0, "x", "y", ["vbase", [-5, 5, 5], [-5, -5, 5]]]), P_ROI),
    R + "PolygonalROI": (_st(["roi2", 0, "x", "y", ["poly", [-5, 5, 5, -5], [-5, -5, 5, 5]]]), P_ROI),
    R + "Path": (_st(["roi2", 0, "x", "y", ["path", [-5, 5, 5], [-5, -5, 5]]]), P_ROI),
    R + "Projected3dROI": (_st(["roi3", 2, "x", "y", "z", ["proj3", ["circ", 0, 0, 3], 1]]), P_ROI),
    R + "CategoricalROI": (_st(["catroi", 0, "k", ["a", "cc"]]), P_ROI),
    "glue.core.roi_pretransforms.ProjectionMplTransform": (_st(["roi2", 0, "x", "y", RECT, ["proj", "rectilinear", [-8, 8], [-8, 8], "linear", "linear"]]), P_PRE),
    "glue.core.roi_pretransforms.RadianTransform": (_st(["roi2", 0, "x", "y", RECT, ["rad", ["x"], ["fsl", None]]]), P_PRE),
    "glue.core.roi_pretransforms.FullSphereLongitudeTransform": (_st(["roi2", 0, "x", "y", RECT, ["fsl", ["rad", ["y"], None]]]), P_PRE),
    CMP + "Component": (_st(["base"]), _comp("x")),
    # explicit, non-alphabetical category order in which every category occurs + a selection by code
    CMP + "CategoricalComponent": (_st(["cat", 1, "kc", [0, 2]]), _comp("kc", 1)),
    CMP + "DateTimeComponent": (_st(["base"]), _comp("t")),
    CMP + "DerivedComponent": (_st(["base"]), _comp("dd")),
    CMP + "CoordinateComponent": (_st(["base"]), lambda dc: dc[0].get_component(dc[0].pixel_component_ids[0])),
    "glue.core.component_id.ComponentID": (_st(["base"]), lambda dc: dc[0].id["x"]),
    "glue.core.component_id.PixelComponentID": (_st(["base"]), lambda dc: dc[0].pixel_component_ids[0]),
    "glue.core.component_link.BinaryComponentLink": (_sess(links=[["same", 0, "x", 1, "a"]]), _complink("dd")),
    "glue.core.component_link.ComponentLink": (_sess(links=[["clink", [[0, "x"], [0, "y"]], [1, "a"], "sum2"]]), P_LINK),
    "glue.core.coordinates.IdentityCoordinates": (_st(["base"]), lambda dc: dc[1].coords),
    "glue.core.coordinates.AffineCoordinates": (_st(["base"]), lambda dc: dc[2].coords),
    "glue.core.data.Data": (_st(["base"]), lambda dc: dc[0]),
    "glue.core.data_region.RegionData": ({"data": BASE5 + [D5], "links": [["same", 5, "Center [x] for boundary", 0, "x"]],
                                          "groups": [[["range", 5, "v", -2, 3], None, 3]], "full_access": True}, lambda dc: dc[5]),
    CMP + "ExtendedComponent": ({"data": BASE5 + [D5], "links": [], "groups": [[["range", 5, "Center [y] for boundary", 0, 9], None, 3]],
                                 "full_access": True}, lambda dc: dc[5].get_component(dc[5].id["boundary"])),
    "glue.core.data_collection.DataCollection": (_st(["base"]), lambda dc: dc),
    "glue.core.subset.Subset": None,   # ungrouped subsets are coerced into groups: see noRecipeAllowed? no: recipe below
    "glue.core.subset_group.GroupedSubset": (_st(["range", 0, "x", -2, 3]), lambda dc: dc[0].subsets[0]),
    "glue.core.subset_group.SubsetGroup": (_st(["range", 0, "x", -2, 3]), lambda dc: dc.subset_groups[0]),
    "glue.core.visual.VisualAttributes": (_st(["range", 0, "x", -2, 3]), lambda dc: dc[0].style),
    LH + "LinkSame": (_sess(links=[["same", 0, "x", 1, "a"]]), P_LINK),
    LH + "LinkTwoWay": (_sess(links=[["twoway", 0, "x", 1, "a", "double", "half"]]), P_LINK),
    LH + "LinkSameWithUnits": (_sess(links=[["units", 0, "uu", 1, "uu"]]), P_LINK),
    LH + "LinkAligned": (_sess(links=[["aligned", 3, 4]]), P_LINK),
    LH + "JoinLink": (_sess(links=[["join", 0, "n", 1, "n"]], groups=[[["ineq", 1, "n", "gt", 0], None, None]]), P_LINK),
    LH + "MultiLink": (_sess(links=[["multi", XY, AB, "pfwd", "pbwd", ["p", "st__q"], None]]), P_LINK),
    "glue.plugins.wcs_autolinking.wcs_autolinking.OffsetLink": (_sess(links=[["offset", XY, AB, [3, [-5, 2]]]]), P_LINK),
    "glue.plugins.wcs_autolinking.wcs_autolinking.AffineLink": (_sess(links=[["affine", PIX3, PIX4, 13]]), P_LINK),
    LH + "PartialResult": (_sess(links=[["clinkp", [[0, "x"], [0, "y"]], [1, "a"], 1]]), lambda dc: dc.external_links[0].get_using()),
}
for _n in ("Galactic_to_FK5", "FK4_to_FK5", "ICRS_to_FK5", "Galactic_to_FK4", "ICRS_to_FK4", "ICRS_to_Galactic", "GalactocentricToGalactic"):
    RECIPES[CEL + _n] = (_sess(links=[["cel", _n, [[0, "x"], [0, "y"]] + ([[0, "n"]] if _n.startswith("Galactoc") else []),
                                       [[1, "a"], [1, "b"]] + ([[1, "n"]] if _n.startswith("Galactoc") else [])]]), P_LINK)
RECIPES.pop("glue.core.subset.Subset")


class Cls(Family):
    name = "cls"
    exhaustive = True
    batch = 8
    budget_share = 0.6
    case_timeout = 60.0

    def setup(self):
        gc.disable()

    def reset(self):
        L.reset()

    def cases(self, tier, rng):
        t = T.collect()
        ob = {o["id"]: o for o in t["observed"]}
        names = {r["id"]: r["name"] for r in t["rows"]}
        for r in t["rows"]:
            if r["scope"]:
                yield [r["name"], names.get(ob[r["id"]]["saver"], "none")]

    def run_impl(self, case):
        name = case[0]
        rec = RECIPES.get(name)
        if rec is None:
            return ["no-recipe"]
        sess, path = rec
        gc.disable()
        try:
            W = L.build_session(sess)
        except L.Unbuildable:
            return ["no-recipe"]
        obj = path(W.dc)
        tb = "%s.%s" % (type(obj).__module__, type(obj).__name__)
        if tb != name:
            return ["wrong-recipe", L.tok(tb)]
        before = L.snapshot(W.dc, True)
        try:
            text = L.save_dc(W.dc)
        except L.SaveRaised:
            return ["save-error"]
        dc1, _ = L.load_dc(text)
        W.keep.append(dc1)
        obj1 = path(dc1)
        ta = "%s.%s" % (type(obj1).__module__, type(obj1).__name__)
        after = L.snapshot(dc1, True)
        W.keep.clear()
        return ["rt", L.tok(tb), L.tok(ta), before, after]

    def line(self, case, pyout):
        return sx(["cls", case, pyout])

    def signature(self, case, po, res):
        return {"class": case[0], "out": po[0] if isinstance(po, list) else str(po)}


# =============================================================================================
# rec — the per-class transcriptions against the real savers / loaders
# =============================================================================================

class RecFam(Sess):
    """every object of a class of the record table (Model/C02Records.lean) that occurs in a generated session:
    real saver output == Lean encode(fields), Lean decode(real record) == fields of the real restored object,
    restored fields == saved fields"""
    name = "rec"
    exhaustive = False
    batch = 12
    budget_share = 0.8
    case_timeout = 60.0
    family_tag = "rec"

    def cases(self, tier, rng):
        for i, c in enumerate(systematic_sessions(tier)):
            if tier == "thorough" or i % 2 == 0:      # (the sess family runs all of them)
                yield c
        n = 320 if tier == "quick" else 20000
        for i in range(n):
            yield gen_session(rng)

    def run_impl(self, case):
        gc.disable()
        return RC.run(case)

    def line(self, case, pyout):
        return sx(["rec", [], pyout])

    def nontrivial(self, case, po):
        return isinstance(po, list) and po[0] == "ok" and len(po) > 1

    def signature(self, case, po, res):
        sig = Sess.signature(self, case, po, res)
        classes = sorted({str(i[0]) for i in po[1:]}) if isinstance(po, list) and po and po[0] == "ok" else []
        sig["classes"] = "+".join(classes)
        return sig


# =============================================================================================

def pre_build():
    T.write()


PROP = Property(
    id="C02",
    title="A saved session restores to an observationally equivalent session",
    theorems=["C02.names_injective", "C02.disambiguate_total_fresh", "C02.string_prefix_safe", "C02.old_label_reads_as_literal", "C02.roundtrip_framework", "C02.roundtrip_framework_cycles", "C02.roundtrip_framework_callbacks", "C02.classes_field_faithful", "C02.roundtrip_classes", "C02.declared_ids_denote_declared_names", "C02.dispatch_matches_observed", "C02.table_offenders_nil", "C02.no_silent_fallthrough"],
    families=[Fw(), Cls(), RecFam(), Sess(), SessFiles()],
    pre_build=pre_build,
    trusted_base=["JSON, base64, np.save/np.load, FITS/HDF5/CSV readers (astropy, h5py, pandas) are trusted codecs",
                  "CPython dict insertion order (registration order of GlueSerializer._objs), generator protocol, bound-method equality"],
    assumptions=["the harness node classes (harness/props/c02_fw.py) are field-faithful savers/loaders: everything else they exercise is glue/core/state.py",
                 "observables of a session: labels, component order/kinds/units/values, pixel/world ids, coords class, styles, serialisable metadata, subset labels/styles/masks, key joins, which attribute of which dataset is reachable from which dataset (and its values), groups, subset-group counter, number of external links, and per link helper its class, datasets, component ids, argument labels, number of component links and parameters (offsets / affine matrix)"],
    rule="fw: all label triples over tricky labels, all 2-node graphs over a field alphabet (stride in quick), seeded random graphs <= 7 nodes; cls: every class of the generated table; sess: every leaf selection kind alone / negated / pairwise combined, every ROI and pre-transform, every link helper alone and in pairs (MultiLink with functions in both / one direction, explicit labels, 2->1; OffsetLink / AffineLink on components and on pixel axes), tricky labels, metadata x shapes x coords, then seeded random sessions (1-3 datasets <= 3-d, 0-3 links, 0-3 groups with nested selections); sessf: file-backed sessions saved by reference. non-trivial = restored ok with at least a group or a link / two nodes",
)
