"""C13 — undo restores the previous session state and redo restores the undone one.

A case is `[nData, setup, ops]`.  It is executed on a real `Session` (`DataCollection` + `Hub`,
`CommandStack`, `EditSubsetMode`) next to `nData` real `Data` objects that share the component ids
`x`, `y` (so that every selection has a mask on every dataset without links):

  setup   non-command preparation: ['app', d] dc.append, ['grp', k] dc.new_subset_group(state k),
          ['edit', id…] edit_subset_mode.edit_subset = [groups…] (groups named by creation number),
          ['mode', m] edit_subset_mode.mode = m
  ops     the history: ['do', ['add', d]] AddData, ['do', ['rem', d]] RemoveData,
          ['do', ['ap', k, ov]] ApplySubsetState(state k, override_mode=ov),
          ['do', ['roi', k]] ApplyROI(roi k, apply_func = mode.update(dc, roi_to_subset_state(roi))),
          ['undo'], ['redo']  — all through `session.command_stack`

Observation (before the history and after every letter):
  D  dc.data                      G  per group in dc.subset_groups: label number, colour index, the
  E  edit_subset as positions        *structure* of its subset_state over the atoms
  S  per dataset of the case (also outside the collection): per subset (position of its group,
     whether state/style/label are the group's own objects, the mask from subset.to_mask())
  M  the current mode
plus, per letter: IndexError raised?, dc._sg_count, len(_command_stack), len(_undo_stack).

The Lean driver predicts all of it with the `Impl` model (comparison (a)) and judges the python
observations with the list-zipper Spec (comparison (c)): after `undo` the observation must equal the
one stored before the corresponding `do`, after `redo` the one after it, `do` clears the redo
side, at most MAX_UNDO entries precede the cursor, the stack sizes are the zipper's sizes, empty
stacks raise and change nothing.
"""
import gc
import itertools

import numpy as np

from harness.core import Family, Property, sx, use_repo

use_repo()
from glue.core import Data, ComponentID  # noqa: E402
from glue.core.session import Session  # noqa: E402
from glue.core.command import AddData, RemoveData, ApplySubsetState, ApplyROI  # noqa: E402
from glue.core import command as command_module  # noqa: E402
from glue.core import edit_subset_mode as esm  # noqa: E402
from glue.core.subset import (SubsetState, AndState, OrState, XorState, InvertState,  # noqa: E402
                              InequalitySubsetState, ElementSubsetState, RoiSubsetState,
                              RangeSubsetState, roi_to_subset_state)
from glue.core.roi import CircularROI, XRangeROI  # noqa: E402
from glue.core.exceptions import IncompatibleAttribute  # noqa: E402
from glue.core.registry import Registry  # noqa: E402
from glue.config import settings  # noqa: E402

ND = 3
# the datasets of a case: (x, y) columns
DATA = [([0, 1, 2, 3], [3, 1, 2, 0]), ([3, 0, 2], [2, 0, 1]), ([1, 2], [3, 0])]
# literal masks of the six atomic states on the three datasets (checked against numpy at import):
#   0 SubsetState()   1 x > 1   2 y < 2   3 ElementSubsetState([0])
#   4 CircularROI(2, 1, 1.5) -> RoiSubsetState   5 XRangeROI(0.5, 2.5) -> RangeSubsetState
ATOMS = [['m0000', 'm0011', 'm0101', 'm1000', 'm0111', 'm0110'],
         ['m000', 'm101', 'm011', 'm100', 'm101', 'm001'],
         ['m00', 'm01', 'm01', 'm10', 'm01', 'm11']]
NATOM = 6
ROI_ATOMS = (4, 5)
MODES = {'replace': esm.ReplaceMode, 'and': esm.AndMode, 'or': esm.OrMode, 'xor': esm.XorMode,
         'andnot': esm.AndNotMode, 'new': esm.NewMode}
MODE_NAME = {v: k for k, v in MODES.items()}


def _bits(mask):
    return 'm' + ''.join('1' if b else '0' for b in mask)


def _selfcheck():
    for d, (xs, ys) in enumerate(DATA):
        x, y = np.array(xs), np.array(ys)
        exp = [np.zeros(len(xs), bool), x > 1, y < 2, np.arange(len(xs)) == 0,
               (x - 2) ** 2 + (y - 1) ** 2 < 1.5 ** 2, (x >= 0.5) & (x <= 2.5)]
        assert [_bits(m) for m in exp] == ATOMS[d], (d, [_bits(m) for m in exp])


_selfcheck()


class World:
    def __init__(self, n):
        self.keep = []
        self.X, self.Y = ComponentID('x'), ComponentID('y')
        self.data = []
        for i in range(n):
            d = Data(label='d%i' % i)
            d.add_component(np.array(DATA[i][0]), self.X)
            d.add_component(np.array(DATA[i][1]), self.Y)
            self.data.append(d)
        self.session = Session()
        self.dc = self.session.data_collection
        self.stack = self.session.command_stack
        self.mode = self.session.edit_subset_mode
        self.setup_groups = []
        self.keep += self.data + [self.session, self.dc]
        self.colors = [c.lower() for c in settings.SUBSET_COLORS]

    # ---- atoms ----------------------------------------------------------------------------------
    def roi(self, k):
        return CircularROI(xc=2, yc=1, radius=1.5) if k == 4 else XRangeROI(0.5, 2.5)

    def atom(self, k):
        if k == 0:
            return SubsetState()
        if k == 1:
            return self.X > 1
        if k == 2:
            return self.Y < 2
        if k == 3:
            return ElementSubsetState(indices=[0])
        if k in ROI_ATOMS:
            return roi_to_subset_state(self.roi(k), x_att=self.X, y_att=self.Y)
        raise ValueError(k)

    def tree(self, st):
        t = type(st)
        if t is AndState:
            return ['and', self.tree(st.state1), self.tree(st.state2)]
        if t is OrState:
            return ['or', self.tree(st.state1), self.tree(st.state2)]
        if t is XorState:
            return ['xor', self.tree(st.state1), self.tree(st.state2)]
        if t is InvertState:
            return ['not', self.tree(st.state1)]
        if t is SubsetState:
            return ['a', 0]
        if t is InequalitySubsetState:
            import operator
            if st.left is self.X and st.right == 1 and st.operator is operator.gt:
                return ['a', 1]
            if st.left is self.Y and st.right == 2 and st.operator is operator.lt:
                return ['a', 2]
        if t is ElementSubsetState and list(st._indices) == [0]:
            return ['a', 3]
        if t is RoiSubsetState and st.xatt is self.X and st.yatt is self.Y and type(st.roi) is CircularROI \
                and (st.roi.xc, st.roi.yc, st.roi.radius) == (2, 1, 1.5):
            return ['a', 4]
        if t is RangeSubsetState and st.att is self.X and (st.lo, st.hi) == (0.5, 2.5):
            return ['a', 5]
        return ['unknown', t.__name__]

    # ---- set-up and history -------------------------------------------------------------------------
    def setup(self, s):
        k = s[0]
        if k == 'app':
            self.dc.append(self.data[s[1]])
        elif k == 'grp':
            g = self.dc.new_subset_group(subset_state=self.atom(s[1]))
            self.setup_groups.append(g)
            self.keep.append(g)
        elif k == 'edit':
            # groups are named by their creation number (1-based) = the value of _sg_count
            self.mode.edit_subset = [self.setup_groups[i - 1] for i in s[1:]]
        elif k == 'mode':
            self.mode.mode = MODES[s[1]]
        else:
            raise ValueError(s)

    def command(self, c):
        k = c[0]
        if k == 'add':
            return AddData(data=self.data[c[1]])
        if k == 'rem':
            return RemoveData(data=self.data[c[1]])
        if k == 'ap':
            ov = None if c[2] is None else MODES[c[2]]
            return ApplySubsetState(data_collection=self.dc, subset_state=self.atom(c[1]), override_mode=ov)
        if k == 'roi':
            dc, mode, X, Y = self.dc, self.mode, self.X, self.Y

            def apply_roi(roi):
                mode.update(dc, roi_to_subset_state(roi, x_att=X, y_att=Y))
            return ApplyROI(data_collection=self.dc, roi=self.roi(c[1]), apply_func=apply_roi)
        raise ValueError(c)

    def step(self, op):
        """-> True iff the stack raised its documented IndexError."""
        try:
            if op[0] == 'do':
                cmd = self.command(op[1])
                self.keep.append(cmd)
                self.stack.do(cmd)
            elif op[0] == 'undo':
                self.stack.undo()
            elif op[0] == 'redo':
                self.stack.redo()
            else:
                raise ValueError(op)
        except IndexError:
            if op[0] == 'do':
                raise
            return True
        return False

    # ---- observation ------------------------------------------------------------------------------
    def obs(self):
        dc = self.dc
        groups = list(dc.subset_groups)
        self.keep += groups

        def pos(g):
            for i, x in enumerate(groups):
                if x is g:
                    return i
            return 'X'

        def label(lb):
            if isinstance(lb, str) and lb.startswith('Subset ') and lb[7:].isdigit():
                return int(lb[7:])
            return 'X'

        def color(sty):
            c = getattr(sty, 'color', None)
            c = c.lower() if isinstance(c, str) else c
            return self.colors.index(c) if c in self.colors else 'X'

        G = [[label(g.label), color(g.style), self.tree(g.subset_state)] for g in groups]
        edit = self.mode.edit_subset
        E = [pos(g) for g in (edit if isinstance(edit, (list, tuple)) else [edit])]
        S = []
        for d in self.data:
            row = []
            for s in d.subsets:
                self.keep.append(s)
                grp = getattr(s, 'group', None)
                if grp is None:
                    row.append(['U', False, 'mU'])
                    continue
                shared = (s.subset_state is grp.subset_state) and (s.style is grp.style) and (s.label == grp.label)
                try:
                    m = _bits(s.to_mask())
                except IncompatibleAttribute:
                    m = 'mI'
                row.append([pos(grp), bool(shared), m])
            S.append(row)
        D = []
        for d in dc.data:
            D.append(next((i for i, x in enumerate(self.data) if x is d), 'X'))
        return [['D'] + D, ['G'] + G, ['E'] + E, ['S'] + S, ['M', MODE_NAME.get(self.mode.mode, 'X')]]


def _run(case):
    n, setup, ops = case
    gc.disable()
    w = World(n)
    for s in setup:
        w.setup(s)
    out = [w.obs()]
    for op in ops:
        err = w.step(op)
        out.append([err, w.obs(), w.dc._sg_count, len(w.stack._command_stack), len(w.stack._undo_stack)])
    w.keep.clear()
    return out


# ---------------------------------------------------------------------------------------------------
# letters
# ---------------------------------------------------------------------------------------------------

U, R = ['undo'], ['redo']


def add(d):
    return ['do', ['add', d]]


def rem(d):
    return ['do', ['rem', d]]


def ap(k, ov=None):
    return ['do', ['ap', k, ov]]


def roi(k):
    return ['do', ['roi', k]]


def words(alphabet, length):
    for w in itertools.product(alphabet, repeat=length):
        yield [[o[0]] + [list(x) for x in o[1:]] for o in w]


# (name, set-up, command letters): every word over the command letters + undo + redo is run.
BLOCKS = [
    # group-creating selection on a session without groups (F4), next to add / remove
    ('f4', [['app', 0]], [ap(1), ap(2, 'and')]),
    ('f4-data', [], [add(0), ap(1)]),
    ('f4-rem', [['app', 0], ['app', 1]], [rem(1), ap(1)]),
    ('f4-roi', [['app', 0], ['app', 1]], [roi(4), roi(5)]),
    # NewMode as override and as current mode
    ('new', [['app', 0]], [ap(1, 'new'), ap(2, 'or')]),
    ('newmode', [['app', 0], ['app', 1], ['mode', 'new']], [ap(3), roi(5)]),
    # the combination modes on an existing edit subset
    ('and-xor', [['app', 0], ['app', 1], ['grp', 1], ['edit', 1]], [ap(2, 'and'), ap(3, 'xor')]),
    ('or-andnot', [['app', 0], ['grp', 2], ['edit', 1]], [ap(1, 'or'), ap(3, 'andnot')]),
    ('replace', [['app', 1], ['grp', 0], ['grp', 3], ['edit', 2]], [ap(1, 'replace'), ap(2)]),
    # current mode (no override) with a two-group edit subset / an empty one while groups exist
    ('two', [['app', 0], ['app', 2], ['grp', 1], ['grp', 2], ['edit', 1, 2], ['mode', 'xor']], [ap(3), roi(4)]),
    ('empty-edit', [['app', 0], ['grp', 1], ['grp', 2], ['mode', 'and']], [ap(3), roi(5)]),
    # datasets leaving and coming back while selections are undone / redone
    ('rem-ap', [['app', 0], ['app', 1], ['grp', 1], ['edit', 1]], [rem(1), ap(2, 'and')]),
    ('add-ap', [['app', 0], ['grp', 1], ['edit', 1]], [add(1), ap(2, 'or')]),
    ('rem-empty', [['app', 0], ['grp', 1], ['edit', 1]], [rem(0), ap(2)]),
    # the collection commands, every kind: re-adding a present dataset, removing an absent one,
    # removing the first / middle / last dataset (undo must put it back where it was: F4b-d)
    ('data', [], [add(0), add(1), rem(0)]),
    ('data2', [['app', 0], ['app', 1], ['grp', 1]], [rem(0), rem(1), add(2)]),
    ('data3', [['app', 2], ['app', 0], ['app', 1]], [rem(2), rem(0), add(2)]),
    ('data-mid', [['app', 0], ['app', 1], ['app', 2], ['grp', 2], ['edit', 1]], [rem(1), ap(1, 'or')]),
]

# blocks whose words of length 6 are enumerated in the quick tier (length 5 for the others)
QUICK6 = ('f4', 'new', 'rem-ap')

# thorough: blocks whose first command gets the length-9 words over {c, undo, redo}
NINE = ('f4', 'f4-data', 'f4-rem', 'f4-roi', 'new', 'and-xor', 'two', 'rem-empty')

RANDOM_SETUPS = [
    [], [['app', 0]], [['app', 0], ['app', 1]], [['app', 0], ['app', 1], ['app', 2]],
    [['app', 0], ['grp', 1], ['edit', 1]], [['app', 0], ['app', 1], ['grp', 1], ['grp', 2], ['edit', 2]],
    [['app', 1], ['grp', 3], ['grp', 0], ['edit', 1, 2], ['mode', 'or']],
    [['app', 0], ['app', 2], ['grp', 2], ['mode', 'andnot']],
    [['app', 0], ['app', 1], ['mode', 'new']],
    [['grp', 1], ['edit', 1], ['mode', 'xor']],
]


def random_command(rng, shadow, clean_only):
    """shadow = the datasets in the collection, in order, according to a bookkeeping in which undo
    restores exactly (only used to steer the generator: `clean_only` avoids re-adding a present
    dataset and removing an absent or non-last one, the constructs of F4b-d)."""
    r = rng.random()
    if r < 0.22:
        cand = [d for d in range(ND) if d not in shadow] if clean_only else list(range(ND))
        if cand:
            return add(rng.choice(cand))
    if r < 0.40:
        cand = shadow[-1:] if clean_only else list(range(ND))
        if cand:
            return rem(rng.choice(cand))
    if r < 0.50:
        return roi(rng.choice(ROI_ATOMS))
    return ap(rng.randrange(NATOM), rng.choice([None, None, 'replace', 'and', 'or', 'xor', 'andnot', 'new']))


def random_word(rng, length, setup, clean_only):
    shadow = [s[1] for s in setup if s[0] == 'app']
    hist, fut, ops = [], [], []
    while len(ops) < length:
        r = rng.random()
        if r < 0.32:
            ops.append(list(U))
            if hist:
                fut.append((hist.pop(), list(shadow)))
                shadow = list(fut[-1][0])
        elif r < 0.50:
            ops.append(list(R))
            if fut:
                before, after = fut.pop()
                hist.append(before)
                shadow = after
        else:
            c = random_command(rng, shadow, clean_only)
            ops.append(c)
            hist.append(list(shadow))
            fut = []
            if c[1][0] == 'add' and c[1][1] not in shadow:
                shadow = shadow + [c[1][1]]
            elif c[1][0] == 'rem' and c[1][1] in shadow:
                shadow = [d for d in shadow if d != c[1][1]]
    return ops


class Word(Family):
    """exhaustive words of fixed length over small alphabets."""
    name = "word"
    exhaustive = True
    batch = 300
    budget_share = 3.0
    case_timeout = 30.0
    known_findings_uncounted = True

    def setup(self):
        gc.disable()

    def reset(self):
        Registry().clear()
        self._n = getattr(self, "_n", 0) + 1
        if self._n % 200 == 0:
            gc.collect()

    def run_impl(self, case):
        return _run(case)

    def line(self, case, pyout):
        n, setup, ops = case
        return sx([self.line_name, [n, len(settings.SUBSET_COLORS), [ATOMS[d] for d in range(n)], setup, ops], pyout])

    line_name = "word"

    def nontrivial(self, case, po):
        ops = case[2]
        seen_do = False
        for op in ops:
            if op[0] == 'do':
                seen_do = True
            elif op[0] == 'undo' and seen_do:
                return True
        return False

    def signature(self, case, po, res):
        return {"construct": res.get("blame", "?")}

    def shrink(self, case):
        n, setup, ops = case
        for k in range(len(ops) - 1, 0, -1):
            yield [n, setup, ops[:k]]
        for i in range(len(ops)):
            yield [n, setup, ops[:i] + ops[i + 1:]]
        for i in range(len(setup)):
            s2 = setup[:i] + setup[i + 1:]
            made = sum(1 for s in s2 if s[0] == 'grp')
            if all(all(j <= made for j in s[1:]) for s in s2 if s[0] == 'edit'):
                yield [n, s2, ops]
        for i, op in enumerate(ops):
            if op[0] == 'do' and op[1][0] == 'ap' and op[1][2] is not None:
                yield [n, setup, ops[:i] + [['do', ['ap', op[1][1], None]]] + ops[i + 1:]]

    def cases(self, tier, rng):
        # regression: the F4 reproduction and its relatives, first
        yield [ND, [['app', 0]], [ap(1), U, R]]
        yield [ND, [['app', 0], ['app', 1]], [ap(1), ap(2, 'and'), rem(1), U, U, U]]
        yield [ND, [['app', 0]], [ap(1), rem(0), ap(2), U, U]]
        yield [ND, [['app', 0]], [ap(1), ap(2, 'new'), ap(3, 'xor'), U, U, U, R, R, R]]
        # regression: F4b (position), F4c (re-adding), F4d (removing an absent dataset) and relatives
        yield [ND, [['app', 0], ['app', 1]], [rem(0), U]]
        yield [ND, [['app', 0]], [add(0), U]]
        yield [ND, [['app', 0]], [rem(1), U]]
        yield [ND, [['app', 0], ['app', 1], ['app', 2]], [rem(1), U, R, U]]
        yield [ND, [['app', 0], ['app', 1], ['app', 2]], [rem(0), rem(1), U, U, R, R, U, U]]
        yield [ND, [['app', 2], ['app', 1], ['app', 0], ['grp', 1]], [rem(2), rem(0), rem(1), U, U, U, R, U]]
        yield [ND, [['app', 0], ['app', 1], ['grp', 1], ['edit', 1]], [rem(0), ap(2, 'and'), add(0), add(0), U, U, U, U, R, R, R, R]]
        yield [ND, [['app', 1]], [rem(0), add(1), add(0), rem(2), U, U, U, U, R, R, R, R, U]]
        for name, setup, cmds in BLOCKS:
            alphabet = cmds + [U, R]
            if tier == "quick":
                L = 6 if name in QUICK6 else 5
            else:
                L = (8 if name == 'f4' else 7) if len(cmds) == 2 else 6
            for w in words(alphabet, L):
                yield [ND, setup, w]
        if tier != "quick":
            # length 9 over one command + undo + redo, every command letter of the blocks
            seen = set()
            for _name, setup, cmds in BLOCKS:
                if _name not in NINE:
                    continue
                for c in cmds[:1]:
                    key = sx([setup, c])
                    if key in seen:
                        continue
                    seen.add(key)
                    for w in words([c, U, R], 9):
                        yield [ND, setup, w]


class WordRandom(Word):
    """seeded random longer words over all commands, random set-ups; two strata: histories whose
    collection commands are all of the plain kind (adding an absent dataset, removing the last one)
    and unrestricted ones (re-adding a present dataset, removing an absent or non-last one: the
    constructs of the fixed findings F4b-d)."""
    name = "wordr"
    exhaustive = False
    batch = 100
    budget_share = 1.0

    def cases(self, tier, rng):
        n_short, n_long = (2000, 120) if tier == "quick" else (30000, 2000)
        for i in range(n_short):
            setup = rng.choice(RANDOM_SETUPS)
            yield [ND, setup, random_word(rng, rng.randint(7, 16), setup, clean_only=(i % 2 != 0))]
        for i in range(n_long):
            setup = rng.choice(RANDOM_SETUPS)
            yield [ND, setup, random_word(rng, rng.randint(17, 45), setup, clean_only=(i % 2 != 0))]


class Bound(Word):
    """more than MAX_UNDO commands in a row, then undo until the stack is empty (and beyond), redo."""
    name = "bound"
    exhaustive = False
    batch = 4
    budget_share = 0.4

    def cases(self, tier, rng):
        mx = command_module.MAX_UNDO
        n = mx + 10
        variants = 6 if tier == "quick" else 40
        for v in range(variants):
            setup = [['app', 0], ['app', 1]] if v % 2 == 0 else [['app', 0], ['grp', 1], ['edit', 1], ['mode', 'or']]
            ops = []
            for i in range(n):
                if v == 0:
                    ops.append(ap(1 + i % 3, ['and', 'or', 'xor', 'andnot', 'replace'][i % 5]))
                elif v == 1:
                    ops.append(add(1) if i % 2 == 0 else rem(1))
                elif v == 2:
                    # the first dataset leaves and comes back (undo must re-insert it in front)
                    ops.append([rem(0), rem(0), add(0), add(0), rem(1), add(1)][i % 6])
                else:
                    r = rng.random()
                    if r < 0.15:
                        ops.append(ap(rng.randrange(NATOM), 'new'))
                    elif r < 0.3:
                        ops.append(roi(rng.choice(ROI_ATOMS)))
                    else:
                        ops.append(ap(rng.randrange(NATOM), rng.choice([None, 'and', 'or', 'xor', 'andnot', 'replace'])))
            k = rng.randint(0, 8)
            ops += [list(U)] * (mx + 2) + [list(R)] * (k + 3) + [list(U)] * k + [ap(2, 'xor')] + [list(R), list(U), list(U)]
            yield [ND, setup, ops]


class WordPre(WordRandom):
    """NOT part of the check: the same cases judged against the `PreF4b` model (code with fix F4 but
    before fix F4b), used by hand against a tree without props.d/C13/fixes/F4b-add-remove-data-undo.diff
    to validate the model that the `pre_f4b_*` witnesses are about (see props.d/C13/design.md)."""
    name = "wordpre"
    line_name = "wordpre"


class WordOld(WordRandom):
    """NOT part of the check: the same cases judged against the `Old` model (code before fix F4 and
    fix F4b), used by hand against a tree without the fixes to validate the model the `old_*`
    witnesses are about."""
    name = "wordold"
    line_name = "wordold"


PROP = Property(
    id="C13",
    title="Undo restores the previous session state and redo restores the undone one",
    theorems=["C13.undo_do", "C13.redo_undo_do", "C13.redo_undo", "C13.undo_redo", "C13.do_clears_redo",
              "C13.stack_le_max", "C13.empty_stack_errors", "C13.setup_wf",
              "C13.zipper_refinement", "C13.masks_of_observe",
              "C13.pre_f4b_refinement_on_clean", "C13.impl_vs_pre_f4b",
              "C13.spec_undo_after_do", "C13.spec_redo_after_undo", "C13.spec_redo_after_do", "C13.spec_bound",
              "C13.old_undo_apply_new_group", "C13.old_redo_creates_nothing", "C13.old_undo_empty_collection",
              "C13.pre_f4b_remove_undo_reorders", "C13.pre_f4b_add_present_undo_removes",
              "C13.pre_f4b_remove_absent_undo_appends"],
    families=[Word(), WordRandom(), Bound()],
    trusted_base=["CPython list semantics; hub delivery order of the subset groups = subscription order (as in C06)",
                  "the six atomic states / ROIs are opaque: their masks on the three datasets are literal tables of the harness (checked against numpy at import); roi_to_subset_state is exercised, its result treated as an atom (C09 is about it)",
                  "group identity is abstracted to the creation counter: a group re-created by redo is a new Python object that the model names like the removed one; the observation compares label, colour, selection structure, masks and positions, never object identity"],
    assumptions=["every subset belongs to a subset group (clients create subsets only through new_subset_group)",
                 "between the first command and the end of the history the session is changed only through the command stack (the edit subset, the edit mode and the groups existing before the history are arbitrary)",
                 "data links are outside the observation (LinkManager drops the links of a removed dataset and RemoveData.undo does not restore them; the harness uses shared component ids instead of links)"],
    rule="exhaustive: every word of exactly L letters over {c1, c2, undo, redo} (quick: L = 6 for 3 blocks, 5 for 12; thorough: 8 for 1 block, 7 for 14) or {c1, c2, c3, undo, redo} (L = 5 / 6) for 18 blocks (set-up, commands) covering group-creating ApplySubsetState / ApplyROI, NewMode as override and as current mode, And/Or/Xor/AndNot/Replace on one- and two-group edit subsets, an empty edit subset next to existing groups, AddData / RemoveData interleaved with selections, AddData of present and RemoveData of absent / first / middle / last datasets of a three-dataset collection; thorough also every word of length 9 over {c, undo, redo} for 8 (set-up, command) pairs; all prefixes are checked through the per-letter observations. random: seeded words of length 7-45 over all commands from 10 set-ups (half of them restricted to plain add / remove-last collection commands). bound: MAX_UNDO+10 commands, MAX_UNDO+2 undos, redos. non-trivial = an undo after a do",
)
