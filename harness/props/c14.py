"""C14 — derived attributes compute their defining expression and go with their inputs.

Real glue objects (Data, Component, ComponentID operator overloads, BinaryComponentLink,
ComponentLink, ParsedCommand / ParsedComponentLink, add_component / remove_component / update_id)
against the Lean model `GlueVerif.Model.Derived` (driver `Drivers/C14.lean`).

Values never travel as floats.  In the *oracle* families every distinct numpy value of a case
(dtype + bit pattern, all NaNs identified) is interned as a small positive integer token, and the
binary operators are sent as their graph on the points that matter, computed by applying the very
same Python operator to the **full** arrays (`ops`).  For Lean the operator is then an arbitrary
function — the quantification of the theorems — and the Spec verdict is computed by Lean from the
expression, the inputs' tokens and that graph.  In the *arith* families (`arith`, `hist`) all values
are small integers, only + - * occur, tokens are the integers themselves and Lean computes the
arithmetic itself.
"""
import ast
import itertools
import operator
import struct
import warnings

from harness.core import Family, Property, use_repo, sx

use_repo()
import numpy as np  # noqa: E402

from glue.core import Data, ComponentID, Component  # noqa: E402
from glue.core.component import DerivedComponent  # noqa: E402
from glue.core.component_link import ComponentLink, BinaryComponentLink  # noqa: E402
from glue.core.coordinates import AffineCoordinates  # noqa: E402
from glue.core.exceptions import IncompatibleAttribute  # noqa: E402
from glue.core.parse import ParsedCommand, ParsedComponentLink, InvalidTagError  # noqa: E402

warnings.filterwarnings("ignore")

OPS = {"add": operator.add, "sub": operator.sub, "mul": operator.mul,
       "div": operator.truediv, "pow": operator.pow}
OPSYM = {"add": "+", "sub": "-", "mul": "*", "div": "/", "pow": "**"}


# ------------------------------------------------------------------------------------------
# tokens
# ------------------------------------------------------------------------------------------

class Tokens:
    """Interning of numpy / Python numbers.  arith=True: tokens are the integers themselves."""

    def __init__(self, arith=False):
        self.arith = arith
        self.tab = {}

    def key(self, v):
        if isinstance(v, (bool, np.bool_)):
            return ("b", bool(v))
        if isinstance(v, (int, np.integer)):
            return ("i", int(v))
        f = float(v)
        if f != f:
            return ("f", "nan")
        return ("f", struct.pack("<d", f))

    def tok(self, v):
        k = self.key(v)
        if self.arith:
            if k[0] != "i":
                return -(10 ** 15)  # a float where only integers may occur: never matches
            return k[1]
        t = self.tab.get(k)
        if t is None:
            t = len(self.tab) + 1
            self.tab[k] = t
        return t



def const_value(c):
    """['i', n] -> python int, ['f', num, den] -> python float (exact dyadic)."""
    if c[0] == "i":
        return int(c[1])
    return float(c[1]) / float(c[2])


def make_array(spec, shape):
    """spec = {"den": d, "num": [...], "z": [bool per axis]}; den == 0 -> int64 array.
    Axes with z = True are broadcast (stride 0): `num` holds the values of the unbroadcast base."""
    z = spec["z"]
    ushape = tuple(1 if zi else n for n, zi in zip(shape, z))
    n = int(np.prod(ushape)) if len(ushape) else 1
    num = list(spec["num"])[:n]
    assert len(num) == n
    if spec["den"] == 0:
        base = np.array(num, dtype=np.int64).reshape(ushape)
    else:
        base = (np.array(num, dtype=np.float64) / float(spec["den"])).reshape(ushape)
    return np.broadcast_to(base, tuple(shape))


def canon_arr(a, T):
    """Real array -> (shape, strides in elements with 0 on broadcast axes, buffer tokens) of an
    equivalent strided array whose buffer is the unbroadcast base in row-major order."""
    a = np.asarray(a)
    z = [(st == 0 and n != 1) for n, st in zip(a.shape, a.strides)]
    u = a[tuple(slice(0, 1) if zi else slice(None) for zi in z)]
    strides, acc = [], 1
    for n in reversed(u.shape):
        strides.append(acc)
        acc *= n
    strides = list(reversed(strides))
    strides = [0 if zi else s for s, zi in zip(strides, z)]
    return [list(a.shape), strides, [T.tok(x) for x in u.ravel()]]


def out_of(res, T, with_strides=False):
    """Observable of a result: [shape, tokens] (+ zero-stride pattern)."""
    if isinstance(res, np.ndarray) and res.ndim > 0:
        o = [list(res.shape), [T.tok(x) for x in res.ravel()]]
        if with_strides:
            # numpy does not define meaningful strides for empty arrays: report no broadcast axis
            o.append([bool(st == 0 and n != 1 and res.size > 0) for n, st in zip(res.shape, res.strides)])
        return o
    v = res[()] if isinstance(res, np.ndarray) else res
    o = [[], [T.tok(v)]]
    if with_strides:
        o.append([])
    return o


def mk_view(view):
    if view is None:
        return None
    if isinstance(view, dict):  # {"bare": item}: a single index that is not wrapped in a tuple
        return mk_item(view["bare"])
    return tuple(mk_item(x) for x in view)


def mk_item(x):
    return x[1] if x[0] == "i" else slice(x[1], x[2], x[3])


def view_items(view):
    if view is None:
        return []
    if isinstance(view, dict):
        return [view["bare"]]
    return list(view)


# ------------------------------------------------------------------------------------------
# building the real dataset of a case
# ------------------------------------------------------------------------------------------

PIX0, WORLD0, STORED0, DERIVED0 = 0, 10, 20, 40

AFFINE = {
    # integer matrices: world values are exact; "diag" gives world axes that depend on one pixel
    # axis each (broadcast structure), "mix" couples the axes (dense world arrays)
    "diag": lambda n: _affine(n, False),
    "mix": lambda n: _affine(n, True),
}


def _affine(n, mix):
    m = np.eye(n + 1)
    for i in range(n):
        m[i, i] = 2.0 * (i + 1)
        m[i, n] = float(i) - 1.0
    if mix and n >= 2:
        m[0, 1] = 1.0
        m[n - 1, 0] = -1.0
    return m


class Built:
    """A real Data object plus the bookkeeping the harness needs."""

    def __init__(self, shape, coords=None):
        self.shape = tuple(shape)
        self.cids = {}        # key -> ComponentID
        self.links = {}       # key -> link description (for the reference evaluation)
        self.order = []
        c = AffineCoordinates(AFFINE[coords](len(shape))) if coords else None
        self.data = Data(coords=c, label="d")
        self.keep = []
        # round 3: re-use of link OBJECTS.  share=True: structurally equal subtrees of the
        # expressions of a case are built ONCE and the link object is re-used as operand wherever
        # the subtree occurs (left, right, both sides, nested); ["o", key] leaves stand for the link
        # object that backs the derived component `key` (same value as ["k", key])
        self.share = False
        self.memo = {}
        self.linkobj = {}

    def add_stored(self, key, spec):
        arr = make_array(spec, self.shape)
        cid = self.cids.get(key)
        if cid is None:
            cid = ComponentID("s%d" % key)
            self.cids[key] = cid
        comp = Component(arr)
        self.keep.append(comp)
        self.data.add_component(comp, cid)
        self.links.pop(key, None)
        self._coords_ids()

    def _coords_ids(self):
        for i, c in enumerate(self.data.pixel_component_ids):
            self.cids.setdefault(PIX0 + i, c)
        for i, c in enumerate(self.data.world_component_ids):
            self.cids.setdefault(WORLD0 + i, c)

    def tree(self, t):
        """Expression tree -> glue object through the operator overloads of ComponentID /
        ComponentLink (cid+cid, cid+number, number+cid, link+..., ...)."""
        if t[0] == "c":
            return const_value(t[1])
        if t[0] == "k":
            return self.cids[t[1]]
        if t[0] == "o":
            return self.linkobj[t[1]]
        if not self.share:
            return OPS[t[1]](self.tree(t[2]), self.tree(t[3]))
        key = repr(t)
        link = self.memo.get(key)
        if link is None:
            link = OPS[t[1]](self.tree(t[2]), self.tree(t[3]))
            if isinstance(link, ComponentLink):
                self.memo[key] = link
        return link

    def _new_cid(self, key, prefix):
        """The identifier of `key`: a derived component that is added *before* a component reading
        it was (forward reference) must get the very ComponentID the reader already holds."""
        cid = self.cids.get(key)
        if cid is None:
            cid = ComponentID("%s%d" % (prefix, key))
            self.cids[key] = cid
        return cid

    def _add_link(self, link, cid, raw):
        self.keep.append(link)
        self.linkobj[self.key_of(cid)] = link
        if raw:
            # what `data[label] = DerivedComponent(...)` / session loading / the component manager
            # do: Data.add_component with a ready DerivedComponent does not look at the inputs
            link.set_to_id(cid)
            dc = DerivedComponent(self.data, link)
            self.keep.append(dc)
            self.data.add_component(dc, cid)
        elif isinstance(link, BinaryComponentLink) or link.get_to_id() is None:
            self.data.add_component_link(link, cid)
        else:
            self.data.add_component_link(link)

    def add_binary(self, key, t, direct=False, raw=False):
        if direct:  # BinaryComponentLink(left, right, op) with literal operands (may be two numbers)
            link = BinaryComponentLink(self.tree(t[2]), self.tree(t[3]), OPS[t[1]])
        else:
            link = self.tree(t)
        cid = self._new_cid(key, "d")
        self._add_link(link, cid, raw)
        self.links[key] = ["B", t]

    def add_using(self, key, froms, fcode, ravel, raw=False):
        f = USER_FUNCS[fcode]
        if ravel:
            g = f
            f = _raveled(g)
        cid = self._new_cid(key, "u")
        link = ComponentLink([self.cids[k] for k in froms], cid, using=f)
        self._add_link(link, cid, raw)
        self.links[key] = ["U", list(froms), fcode, ravel]

    def add_parsed(self, key, text, refs, raw=False):
        cid = self._new_cid(key, "p")
        pc = ParsedCommand(text, dict((lab, self.cids[k]) for lab, k in refs))
        link = ParsedComponentLink(cid, pc)
        self._add_link(link, cid, raw)
        self.links[key] = ["X", text, refs]

    def key_of(self, cid):
        for k, c in self.cids.items():
            if c is cid:
                return k
        return 999


def _raveled(g):
    def f(*args):
        return np.asarray(g(*args)).ravel()
    f.__name__ = "raveled"
    return f


def _f1(a):
    return a * 2 + 1


def _f2(a, b):
    return a * 3 - b


def _f3(a, b, c):
    return a + b * c


USER_FUNCS = {1: _f1, 2: _f2, 3: _f3}
USER_ARITY = {1: 1, 2: 2, 3: 3}


# ------------------------------------------------------------------------------------------
# reference evaluation on the FULL arrays: produces the operator graph (never a verdict)
# ------------------------------------------------------------------------------------------

class Reference:
    def __init__(self, built, T, links=None):
        self.b = built
        self.T = T
        self.links = built.links if links is None else links
        self.memo = {}
        self.ops = {}
        self.fns = {}
        self.depth = 0

    def record(self, op, a, b, r):
        aa, bb, rr = np.broadcast_arrays(np.asarray(a), np.asarray(b), np.asarray(r))
        for x, y, z in zip(aa.ravel(), bb.ravel(), rr.ravel()):
            self.ops[(op, self.T.tok(x), self.T.tok(y))] = self.T.tok(z)

    def key(self, k):
        if k in self.memo:
            return self.memo[k]
        self.depth += 1
        if self.depth > 40:
            raise RecursionError()
        try:
            if k in self.links:
                v = self.link(self.links[k])
            else:
                v = np.asarray(self.b.data[self.b.cids[k]])
        finally:
            self.depth -= 1
        self.memo[k] = v
        return v

    def link(self, l):
        if l[0] == "B":
            return self.tree(l[1])
        if l[0] == "U":
            args = [self.key(k) for k in l[1]]
            r = USER_FUNCS[l[2]](*args)
            bs = np.broadcast_arrays(*([np.asarray(a) for a in args] + [np.asarray(r)]))
            for row in zip(*[x.ravel() for x in bs]):
                self.fns[(l[2], tuple(self.T.tok(x) for x in row[:-1]))] = self.T.tok(row[-1])
            return r
        if l[0] == "X":
            return self.ptree(l[3])
        raise ValueError(l)

    def tree(self, t):
        if t[0] == "c":
            return const_value(t[1])
        if t[0] in ("k", "o"):
            return self.key(t[1])
        a, b = self.tree(t[2]), self.tree(t[3])
        with np.errstate(all="ignore"):
            r = OPS[t[1]](a, b)
        self.record(t[1], a, b, r)
        return r

    def ptree(self, t):
        """Parsed-expression tree: ['n', text] | ['r', label, key] | ['neg', e] | ['b', op, l, r]."""
        if t[0] == "n":
            return lit_value(t[1])
        if t[0] == "r":
            return self.key(t[2])
        if t[0] == "neg":
            a = self.ptree(t[1])
            with np.errstate(all="ignore"):
                r = operator.neg(a)
            # the second operand of a unary entry is the literal token 0
            aa, rr = np.broadcast_arrays(np.asarray(a), np.asarray(r))
            for x, z in zip(aa.ravel(), rr.ravel()):
                self.ops[("neg", self.T.tok(x), 0)] = self.T.tok(z)
            return r
        a, b = self.ptree(t[2]), self.ptree(t[3])
        with np.errstate(all="ignore"):
            r = OPS[t[1]](a, b)
        self.record(t[1], a, b, r)
        return r

    def tables(self):
        ops = [[op, a, b, r] for (op, a, b), r in self.ops.items()]
        fns = [[f, list(args), r] for (f, args), r in self.fns.items()]
        return ops, fns


def lit_value(text):
    return float(text) if "." in text else int(text)


# ------------------------------------------------------------------------------------------
# serialisation of a world for the driver
# ------------------------------------------------------------------------------------------

def sx_tree(t, T):
    if t[0] == "c":
        return ["c", T.tok(const_value(t[1]))]
    if t[0] in ("k", "o"):
        # a link OBJECT used as operand has the value of the derived component it backs: for the
        # value model of these families it is that component
        return ["k", t[1]]
    return ["b", t[1], sx_tree(t[2], T), sx_tree(t[3], T)]


def sx_link(l, T):
    if l[0] == "B":
        return ["B", sx_tree(l[1], T)]
    if l[0] == "U":
        return ["U", list(l[1]), l[2], bool(l[3])]
    if l[0] == "X":
        text, refs = l[1], l[2]
        lits = sorted(set(literals_of(text)))
        return ["X", [ord(ch) for ch in text],
                [[[ord(ch) for ch in lab], k] for lab, k in refs],
                [[[ord(ch) for ch in lit], T.tok(lit_value(lit))] for lit in lits]]
    raise ValueError(l)


def literals_of(text):
    """Numeric literals outside the {tags}."""
    out, i, n = [], 0, len(text)
    while i < n:
        ch = text[i]
        if ch == "{":
            i = text.index("}", i) + 1
        elif ch.isdigit() or ch == ".":
            j = i
            while j < n and (text[j].isdigit() or text[j] == "."):
                j += 1
            out.append(text[i:j])
            i = j
        else:
            i += 1
    return out


def sx_table(built, T, order=None):
    rows = []
    d = built.data
    for cid in d.components if order is None else order:
        k = built.key_of(cid)
        if k in built.links:
            rows.append([k, sx_link(built.links[k], T)])
        else:
            rows.append([k, ["P"] + canon_arr(d[cid], T)])
    return rows


def sx_view(view):
    return [list(x) for x in view_items(view)]


# ------------------------------------------------------------------------------------------
# generators
# ------------------------------------------------------------------------------------------

def stored_spec(rng, shape, kind="f", z=None, lo=-6, hi=6):
    if z is None:
        z = [False] * len(shape)
    n = int(np.prod([1 if zi else s for s, zi in zip(shape, z)])) if len(shape) else 1
    if kind == "i":
        return {"den": 0, "num": [rng.randint(lo, hi) for _ in range(n)], "z": list(z)}
    return {"den": 4, "num": [rng.randint(4 * lo, 4 * hi) for _ in range(n)], "z": list(z)}


def det_spec(shape, z, kind, salt):
    """Deterministic distinct-ish values (exhaustive families do not use the rng)."""
    n = int(np.prod([1 if zi else s for s, zi in zip(shape, z)])) if len(shape) else 1
    if kind == "i":
        return {"den": 0, "num": [((3 * i + salt) % 7) - 2 for i in range(n)], "z": list(z)}
    return {"den": 4, "num": [((5 * i + 3 * salt) % 23) - 9 for i in range(n)], "z": list(z)}


def axis_items(n, rich):
    items = [["i", 0], ["i", n - 1], ["i", -1], ["s", None, None, None], ["s", 1, None, None],
             ["s", None, None, -1], ["s", None, None, 2]]
    if rich:
        items += [["i", -n], ["s", None, -1, None], ["s", n, None, None], ["s", -2, None, -1],
                  ["s", 0, 1, None], ["s", None, None, -2], ["s", 5, 1, -1]]
    return items


def all_views(shape, rich=False):
    """None, partial and full tuples of per-axis items."""
    yield None
    per = [axis_items(n, rich) for n in shape]
    for k in range(1, len(shape) + 1):
        for v in itertools.product(*per[:k]):
            yield [list(x) for x in v]
    yield {"bare": ["i", 0]}
    yield {"bare": ["s", None, None, -1]}


def rand_view(rng, shape):
    r = rng.random()
    if r < 0.15:
        return None
    if r < 0.2:
        return {"bare": rng.choice(axis_items(shape[0], True))}
    k = rng.randint(1, len(shape)) if rng.random() < 0.3 else len(shape)
    out = []
    for n in shape[:k]:
        if rng.random() < 0.08:
            out.append(["i", rng.choice([n, -n - 1, n + 3])])      # out of range: IndexError
        elif rng.random() < 0.3:
            out.append(["s", rng.choice([None, rng.randint(-n - 1, n + 1)]),
                        rng.choice([None, rng.randint(-n - 1, n + 1)]),
                        rng.choice([None, 1, 2, -1, -2, 3])])
        else:
            out.append(list(rng.choice(axis_items(n, True))))
    return out


CONSTS = [["i", 2], ["i", -1], ["i", 0], ["i", 3], ["f", 1, 2], ["f", -3, 4], ["f", 2, 1], ["f", 5, 2]]
INT_CONSTS = [["i", 2], ["i", -1], ["i", 0], ["i", 3]]
EXPONENTS = [["i", 0], ["i", 1], ["i", 2], ["i", 3], ["f", 2, 1], ["f", 3, 1]]


def rand_tree(rng, depth, leaves, ops, exp_leaves, no_div=False, top=True, consts=None):
    """Random tree; never a node with two constant-only children; `**` only with an exponent from
    `exp_leaves`/EXPONENTS and a base without `/` (results stay exact: numpy's SIMD and scalar pow
    differ in the last bit on inexact results)."""
    if depth == 0 or (not top and rng.random() < 0.25):
        if not top and rng.random() < 0.3:
            return ["c", list(rng.choice(consts or CONSTS))]
        return ["k", rng.choice(leaves)]
    op = rng.choice([o for o in ops if not (no_div and o == "div")])
    if op == "pow":
        # base: a leaf or leaf +- leaf (cubes stay exactly representable)
        base = ["k", rng.choice(leaves)]
        if depth >= 2 and rng.random() < 0.5:
            base = ["b", rng.choice(["add", "sub"]), base, ["k", rng.choice(leaves)]]
        if exp_leaves and rng.random() < 0.3:
            e = ["k", rng.choice(exp_leaves)]
        else:
            e = ["c", list(rng.choice(EXPONENTS))]
        return ["b", "pow", base, e]
    l = rand_tree(rng, depth - 1, leaves, ops, exp_leaves, no_div, False, consts)
    r = rand_tree(rng, depth - 1, leaves, ops, exp_leaves, no_div, False, consts)
    if not has_key(l) and not has_key(r):
        r = ["k", rng.choice(leaves)]
    return ["b", op, l, r]


def has_key(t):
    return t[0] in ("k", "o") or (t[0] == "b" and (has_key(t[2]) or has_key(t[3])))


def tree_keys(t):
    if t[0] in ("k", "o"):
        return [t[1]]
    if t[0] == "b":
        return tree_keys(t[2]) + tree_keys(t[3])
    return []


def tree_depth(t):
    return 0 if t[0] != "b" else 1 + max(tree_depth(t[2]), tree_depth(t[3]))


def shrink_tree(t):
    if t[0] == "b":
        for c in (t[2], t[3]):
            if has_key(c):
                yield c
        for c in shrink_tree(t[2]):
            yield ["b", t[1], c, t[3]]
        for c in shrink_tree(t[3]):
            yield ["b", t[1], t[2], c]


def subtrees(t):
    if t[0] == "b":
        yield t
        for c in (t[2], t[3]):
            for x in subtrees(c):
                yield x


def objectify(rng, t, keys, p=0.5):
    """Replace leaves ["k", key] (key in `keys`: derived components of the case) by ["o", key]: the
    link OBJECT that backs the component is used as operand instead of its identifier."""
    if t[0] == "k" and t[1] in keys and rng.random() < p:
        return ["o", t[1]]
    if t[0] == "b":
        return ["b", t[1], objectify(rng, t[2], keys, p), objectify(rng, t[3], keys, p)]
    return t


def reuse_variant(rng, t, leaves, ops=("add", "sub", "mul")):
    """Expressions in which a subtree of `t` occurs again — with hash-consing (`share`) the SAME
    link object is then an operand in several places.  Returns (t', extra tree): t' re-uses a
    subtree of t next to t itself (or twice), the extra tree has the subtree as LEFT or RIGHT
    operand of a further expression."""
    subs = list(subtrees(t))
    s1 = rng.choice(subs)
    r = rng.random()
    if r < 0.3:
        t2 = ["b", rng.choice(ops), t, s1]
    elif r < 0.6:
        t2 = ["b", rng.choice(ops), s1, t]
    elif r < 0.75:
        t2 = ["b", rng.choice(ops), s1, s1]
    else:
        t2 = t
    s2 = rng.choice(subs)
    leaf = ["k", rng.choice(leaves)]
    q = rng.random()
    if q < 0.45:
        extra = ["b", rng.choice(ops), s2, leaf]
    elif q < 0.8:
        extra = ["b", rng.choice(ops), leaf, s2]
    else:
        extra = ["b", rng.choice(ops), s2, s1]
    return t2, extra


# ------------------------------------------------------------------------------------------
# families
# ------------------------------------------------------------------------------------------

def sanitize(case):
    """World components (inputs of this property, C04/C15) raise IndexError on views that select
    nothing along their axes and on the empty tuple: such views are only used without coords."""
    if case.get("coords") and case["view"] is not None:
        v = case["view"]
        try:
            empty = (isinstance(v, list) and len(v) == 0) or np.empty(tuple(case["shape"]))[mk_view(v)].size == 0
        except IndexError:
            empty = False
        if empty:
            return dict(case, view=None)
    return case


class WorldFamily(Family):
    """Common machinery: case -> real Data -> observable + driver line.

    case = {"shape", "coords", "stored": [[key, spec]...], "derived": [[key, linkdesc]...],
            "view", "target", "arith"}"""
    with_strides = False
    case_timeout = 60.0

    def reset(self):
        self._aux = None

    def cases(self, tier, rng):
        for c in self._cases(tier, rng):
            yield sanitize(c)

    def build(self, case):
        b = Built(case["shape"], case.get("coords"))
        b.share = bool(case.get("share"))
        for key, spec in case["stored"]:
            b.add_stored(key, spec)
        for key, l in case["derived"]:
            if l[0] == "B":
                b.add_binary(key, l[1], direct=(len(l) > 2 and l[2] == "direct"))
            elif l[0] == "U":
                b.add_using(key, l[1], l[2], l[3])
            elif l[0] == "X":
                b.add_parsed(key, l[1], l[2])
                b.links[key] = ["X", l[1], l[2], l[3]]
        return b

    def run_impl(self, case):
        T = Tokens(arith=bool(case.get("arith")))
        self._aux = None
        try:
            b = self.build(case)
        except InvalidTagError:
            self._aux = ("early", case, T)
            return "invalid-tag"
        except SyntaxError:
            self._aux = ("early", case, T)
            return "syntax-error"
        # the model's inputs: the real arrays of the primary components, the link descriptions,
        # and the operator graph from the reference evaluation of every derived component
        ref = Reference(b, T)
        if not T.arith:
            for k in b.links:
                try:
                    ref.key(k)
                except (ValueError, ZeroDivisionError):
                    pass   # the operator itself rejects some element of the full arrays: no graph
        table = sx_table(b, T)
        ops, fns = ref.tables()
        self._aux = ("world", [list(b.shape), table, sx_view(case["view"]), case["target"],
                               "arith" if T.arith else ops, fns])
        view = mk_view(case["view"])
        try:
            cid = b.cids[case["target"]]
            if view is None:
                res = b.data[cid]
            else:
                res = b.data[cid, view]
        except IncompatibleAttribute:
            return "incompatible"
        except IndexError:
            return "index-error"
        except RecursionError:
            return "recursion"
        return out_of(res, T, self.with_strides)

    def line(self, case, pyout):
        aux = self._aux
        if aux is None or aux[0] == "early":
            # construction failed before a world existed: send the descriptions only
            T = Tokens()
            rows = [[key, sx_link(l if l[0] != "X" else ["X", l[1], l[2]], T)] for key, l in case["derived"]]
            world = [list(case["shape"]), rows, sx_view(case["view"]), case["target"], [], []]
            return sx([self.name, world, pyout])
        return sx([self.name, aux[1], pyout])

    def nontrivial(self, case, po):
        return isinstance(po, list) and len(po[1]) > 1

    def signature(self, case, po, res):
        return {"target_kind": next((l[0] for k, l in case["derived"] if k == case["target"]), "P")}

    def shrink(self, case):
        # smaller views, then smaller trees of the target
        v = case["view"]
        if isinstance(v, list) and len(v) > 1:
            yield sanitize(dict(case, view=v[:-1]))
        if v is not None:
            yield dict(case, view=None)
        for i, (key, l) in enumerate(case["derived"]):
            if l[0] == "B" and key == case["target"] and len(l) == 2:
                for t in shrink_tree(l[1]):
                    if t[0] == "b":
                        nd = list(case["derived"])
                        nd[i] = [key, ["B", t]]
                        yield dict(case, derived=nd)


def zero_patterns(shape):
    return itertools.product([False, True], repeat=len(shape))


class Bcl(WorldFamily):
    """`BinaryComponentLink.compute` on stored components with every combination of broadcast
    (stride-0) axes on both sides, array/number operands, every operator; also the zero-stride
    pattern of the result (comparison (a) only)."""
    name = "bcl"
    exhaustive = True
    with_strides = True
    batch = 400

    def shapes(self, tier):
        m = 2 if tier == "quick" else 3
        for nd in (1, 2, 3):
            for sh in itertools.product(range(1, m + 1), repeat=nd):
                if nd == 3 and tier == "quick" and sh.count(1) == 0 and sh != (2, 2, 2):
                    continue
                yield list(sh)

    def _cases(self, tier, rng):
        salt = 0
        for sh in self.shapes(tier):
            views = [None, [["s", None, None, -1]], [["i", 0]], [["s", 1, None, None]] + [["s", None, None, None]] * (len(sh) - 1)]
            for zl in zero_patterns(sh):
                for zr in zero_patterns(sh):
                    for op in ("add", "sub", "mul", "div"):
                        salt += 1
                        kind = "i" if salt % 3 == 0 else "f"
                        st = [[STORED0, det_spec(sh, zl, kind, salt)], [STORED0 + 1, det_spec(sh, zr, "f", salt + 1)]]
                        v = views[salt % len(views)]
                        yield {"shape": sh, "coords": None, "stored": st,
                               "derived": [[DERIVED0, ["B", ["b", op, ["k", STORED0], ["k", STORED0 + 1]], "direct"]]],
                               "view": v, "target": DERIVED0}
                # array (op) number and number (op) array
                for op in ("add", "sub", "mul", "div", "pow"):
                    for side in (0, 1):
                        salt += 1
                        c = EXPONENTS[salt % len(EXPONENTS)] if (op == "pow" and side == 0) else CONSTS[salt % len(CONSTS)]
                        if op == "pow" and side == 1:
                            # number ** array: integer exponents 0..3 only
                            spec = {"den": 0, "num": [(i + salt) % 4 for i in range(64)], "z": list(zl)}
                            c = ["i", 2] if salt % 2 else ["f", 3, 2]
                        else:
                            spec = det_spec(sh, zl, "i" if salt % 4 == 0 else "f", salt)
                        leaf = ["k", STORED0]
                        t = ["b", op, leaf, ["c", c]] if side == 0 else ["b", op, ["c", c], leaf]
                        yield {"shape": sh, "coords": None, "stored": [[STORED0, spec]],
                               "derived": [[DERIVED0, ["B", t, "direct"]]],
                               "view": views[salt % len(views)], "target": DERIVED0}
        # links that read no attribute at all (outside the property's quantifier; explicit branch)
        for op in ("add", "sub", "mul"):
            for sh in ([3], [2, 2]):
                yield {"shape": sh, "coords": None, "stored": [[STORED0, det_spec(sh, [False] * len(sh), "f", 1)]],
                       "derived": [[DERIVED0, ["B", ["b", op, ["c", ["i", 2]], ["c", ["f", 3, 2]]], "direct"]]],
                       "view": None, "target": DERIVED0}

    def signature(self, case, po, res):
        t = case["derived"][0][1][1]
        return {"construct": "const-only" if not has_key(t) else "binary"}


def standard_world(rng, shape, coords, arith=False, zstored=True):
    """x, y stored (+ optionally a broadcast-strided stored component), pixel and world ids, and
    two derived inputs: d1 = x + pixel0, d2 = d1 * y (derived of derived)."""
    nd = len(shape)
    kind = "i" if arith else "f"
    z = [False] * nd
    stored = [[STORED0, stored_spec(rng, shape, kind)], [STORED0 + 1, stored_spec(rng, shape, kind if arith else rng.choice("fi"), lo=-3, hi=3)]]
    if zstored:
        zz = [rng.random() < 0.5 for _ in range(nd)]
        stored.append([STORED0 + 2, stored_spec(rng, shape, kind, z=zz)])
    derived = [[DERIVED0, ["B", ["b", "add", ["k", STORED0], ["k", PIX0]]]],
               [DERIVED0 + 1, ["B", ["b", "mul", ["k", DERIVED0], ["k", STORED0 + 1]]]]]
    leaves = [k for k, _ in stored] + [PIX0 + i for i in range(nd)] + [DERIVED0, DERIVED0 + 1]
    if coords:
        leaves += [WORLD0 + i for i in range(nd)]
    exp_leaves = [PIX0 + i for i in range(nd)]
    return stored, derived, leaves, exp_leaves


class ExprFam(WorldFamily):
    """Expression trees built with the operator overloads over stored / pixel / world / derived
    inputs, evaluated through `Data.__getitem__` on the whole dataset and on views."""
    name = "expr"
    exhaustive = False
    batch = 200
    arith = False
    ops = ("add", "sub", "mul", "div", "pow")

    def shape_pool(self, tier):
        return [[3], [2, 3], [3, 2], [2, 2, 2], [1, 3], [2, 1, 2]] if tier == "quick" else \
            [[3], [4], [2, 3], [3, 2], [3, 3], [2, 2, 2], [2, 3, 2], [1, 3], [2, 1, 2], [3, 1]]

    def _cases(self, tier, rng):
        # (1) exhaustive: every pair of leaves x every operator at depth 1, a rotating rich view
        import random as _r
        det = _r.Random(14)
        for sh, coords in (([2, 3], "diag"), ([3], None), ([2, 2, 2], "diag")):
            stored, derived, leaves, exp_leaves = standard_world(det, sh, None if self.arith else coords, self.arith)
            operands = [["k", k] for k in leaves] + [["c", c] for c in (CONSTS[:2] if self.arith else CONSTS[:6:2])]
            views = list(all_views(sh, rich=True))
            i = 0
            for l in operands:
                for r in operands:
                    if l[0] == "c" and r[0] == "c":
                        continue
                    for op in self.ops:
                        if op == "pow":
                            if not (r[0] == "c" or r[1] in exp_leaves):
                                continue
                            if r[0] == "c":
                                r2 = ["c", EXPONENTS[i % len(EXPONENTS)]] if not self.arith else ["c", ["i", i % 4]]
                            else:
                                r2 = r
                            if l[0] == "k" and l[1] in (DERIVED0 + 1,) and False:
                                continue
                            t = ["b", op, l, r2]
                        else:
                            t = ["b", op, l, r]
                        i += 1
                        yield {"shape": sh, "coords": None if self.arith else coords, "stored": stored,
                               "derived": derived + [[DERIVED0 + 5, ["B", t]]],
                               "view": views[(7 * i) % len(views)], "target": DERIVED0 + 5, "arith": self.arith}
        # (2) all views of a fixed depth-2 tree over broadcast inputs
        for sh, coords in (([2, 3], "diag"), ([2, 2, 2], "diag"), ([3], "diag")):
            stored, derived, leaves, exp_leaves = standard_world(det, sh, None if self.arith else coords, self.arith)
            w = PIX0 + len(sh) - 1 if self.arith else WORLD0
            t = ["b", "mul", ["b", "add", ["k", PIX0], ["k", w]], ["b", "sub", ["k", STORED0 + 2], ["c", ["i", 2]]]]
            for v in all_views(sh, rich=(tier != "quick" or len(sh) < 3)):
                yield {"shape": sh, "coords": None if self.arith else coords, "stored": stored,
                       "derived": derived + [[DERIVED0 + 5, ["B", t]]], "view": v,
                       "target": DERIVED0 + 5, "arith": self.arith}
        # (3) seeded random trees, depth <= 3 (quick) / 5 (thorough)
        n = (6000 if tier == "quick" else 90000) // (2 if self.arith else 1)
        maxd = 3 if tier == "quick" else 5
        pool = self.shape_pool(tier)
        for _ in range(n):
            sh = rng.choice(pool)
            coords = None if self.arith else rng.choice([None, "diag", "diag", "mix"])
            stored, derived, leaves, exp_leaves = standard_world(rng, sh, coords, self.arith)
            d = rng.randint(1, maxd)
            t = rand_tree(rng, d, leaves, list(self.ops), exp_leaves, consts=INT_CONSTS if self.arith else None)
            if t[0] != "b":
                t = ["b", "add", t, ["k", rng.choice(leaves)]]
            # the tree may be the target itself or an input of a further derived component
            share = rng.random() < 0.4
            if share:
                # round 3: link OBJECTS are re-used — equal subtrees are one object (hash-consing
                # in Built.tree), derived inputs enter as the link object that backs them, and a
                # second derived attribute is built on a subtree of the first
                t = objectify(rng, t, (DERIVED0, DERIVED0 + 1))
                t, ex = reuse_variant(rng, t, leaves)
                extra = [[DERIVED0 + 5, ["B", t]], [DERIVED0 + 6, ["B", ex]]]
                if rng.random() < 0.5:
                    extra.append([DERIVED0 + 7, ["B", ["b", rng.choice(["add", "mul", "sub"]),
                                                       ["o", rng.choice([DERIVED0 + 5, DERIVED0 + 6])], ["o", DERIVED0 + 5]]]])
                target = rng.choice([e[0] for e in extra])
                yield {"shape": sh, "coords": coords, "stored": stored, "derived": derived + extra,
                       "view": rand_view(rng, sh), "target": target, "arith": self.arith, "share": True}
                continue
            extra = [[DERIVED0 + 5, ["B", t]]]
            target = DERIVED0 + 5
            if rng.random() < 0.25:
                extra.append([DERIVED0 + 6, ["B", ["b", rng.choice(["add", "mul", "sub"]), ["k", DERIVED0 + 5], ["k", rng.choice(leaves)]]]])
                target = DERIVED0 + 6
            yield {"shape": sh, "coords": coords, "stored": stored, "derived": derived + extra,
                   "view": rand_view(rng, sh), "target": target, "arith": self.arith}

    def signature(self, case, po, res):
        t = [l for k, l in case["derived"] if k == case["target"]][0][1]
        return {"depth": tree_depth(t)}


class ArithFam(ExprFam):
    """Same as `expr` with integer data and + - * only: tokens are the integers, Lean computes the
    arithmetic itself (ties the operator symbols to real arithmetic without the operator graph)."""
    name = "arith"
    arith = True
    ops = ("add", "sub", "mul")


class ULink(WorldFamily):
    """`ComponentLink.compute` with elementwise user functions of 1-3 inputs (optionally returning
    a ravelled array, which the code repairs), inputs with broadcast structure, views."""
    name = "ulink"
    exhaustive = False
    batch = 200

    def _cases(self, tier, rng):
        n = 2000 if tier == "quick" else 30000
        pool = [[3], [2, 3], [2, 2, 2], [1, 3], [3, 1]]
        for i in range(n):
            sh = rng.choice(pool)
            coords = rng.choice([None, "diag", "mix"])
            stored, derived, leaves, _ = standard_world(rng, sh, coords)
            f = rng.choice([1, 2, 3])
            froms = [rng.choice(leaves) for _ in range(USER_ARITY[f])]
            if i % 5 == 0:   # only broadcast inputs: the common shape is smaller than the view
                cands = [PIX0 + j for j in range(len(sh))] + ([WORLD0 + j for j in range(len(sh))] if coords == "diag" else []) + [STORED0 + 2]
                froms = [rng.choice(cands) for _ in range(USER_ARITY[f])]
            extra = [[DERIVED0 + 5, ["U", froms, f, rng.random() < 0.4]]]
            target = DERIVED0 + 5
            q = rng.random()
            if q < 0.2:
                extra.append([DERIVED0 + 6, ["B", ["b", "sub", ["k", DERIVED0 + 5], ["k", rng.choice(leaves)]]]])
                target = DERIVED0 + 6
            elif q < 0.55:
                # round 3: the user-function link OBJECT itself is an operand (left / right / twice /
                # nested); the function must still be called with exactly its own inputs afterwards
                me, leaf = ["o", DERIVED0 + 5], ["k", rng.choice(leaves)]
                op = rng.choice(["add", "sub", "mul"])
                extra.append([DERIVED0 + 6, ["B", rng.choice([["b", op, me, leaf], ["b", op, leaf, me],
                                                             ["b", op, me, me]])]])
                if rng.random() < 0.4:
                    extra.append([DERIVED0 + 7, ["B", ["b", rng.choice(["add", "sub", "mul"]), ["o", DERIVED0 + 6],
                                                       rng.choice([me, ["k", rng.choice(leaves)]])]]])
                target = rng.choice([e[0] for e in extra])
            yield {"shape": sh, "coords": coords, "stored": stored, "derived": derived + extra,
                   "view": rand_view(rng, sh), "target": target}


# ---- parsed commands ---------------------------------------------------------------------

TAG_LABELS = ["a", "ab", "a b", "x.y", "b", "a-b", "a+b", "2", "a(1)", "α", "a*b", "ba", "A", "a  b", "1.5", "x/y", "a**2", "(a)"]
LITERALS = ["2.0", "0.5", "3.0", "1.0", "0.25", "4.", "1.5"]
INT_LITERALS = ["2", "3", "1"]


def rand_ptree(rng, depth, labels, keys, top=True, no_div=False):
    """['n', text] | ['r', label, key] | ['neg', e] | ['b', op, l, r]; no constant-only subtrees."""
    if depth == 0 or (not top and rng.random() < 0.25):
        i = rng.randrange(len(labels))
        return ["r", labels[i], keys[i]]
    r = rng.random()
    if r < 0.15:
        return ["neg", rand_ptree(rng, depth - 1, labels, keys, False, no_div)]
    op = rng.choice(["add", "sub", "mul", "div", "pow"] if not no_div else ["add", "sub", "mul"])
    if op == "pow":
        i = rng.randrange(len(labels))
        base = ["r", labels[i], keys[i]]
        if depth >= 2 and rng.random() < 0.5:
            j = rng.randrange(len(labels))
            base = ["b", rng.choice(["add", "sub"]), base, ["r", labels[j], keys[j]]]
        if rng.random() < 0.2:
            base = ["neg", base]
        return ["b", "pow", base, ["n", rng.choice(["2", "3", "2.0", "1", "0", "3.0"])]]
    l = rand_ptree(rng, depth - 1, labels, keys, False, no_div)
    if rng.random() < 0.3:
        rr = ["n", rng.choice(LITERALS + INT_LITERALS)]
        return ["b", op, l, rr] if rng.random() < 0.5 else ["b", op, rr, l]
    return ["b", op, l, rand_ptree(rng, depth - 1, labels, keys, False, no_div)]


def rand_ptree_int(rng, depth, labels, keys, top=True):
    if depth == 0 or (not top and rng.random() < 0.3):
        i = rng.randrange(len(labels))
        return ["r", labels[i], keys[i]]
    if rng.random() < 0.15:
        return ["neg", rand_ptree_int(rng, depth - 1, labels, keys, False)]
    op = rng.choice(["add", "sub", "mul"])
    l = rand_ptree_int(rng, depth - 1, labels, keys, False)
    if rng.random() < 0.3:
        rr = ["n", rng.choice(INT_LITERALS)]
        return ["b", op, l, rr] if rng.random() < 0.5 else ["b", op, rr, l]
    return ["b", op, l, rand_ptree_int(rng, depth - 1, labels, keys, False)]


PREC = {"add": 0, "sub": 0, "mul": 1, "div": 1, "neg": 2, "pow": 3}


def pprec(t):
    if t[0] in ("n", "r"):
        return 4
    if t[0] == "neg":
        return 2
    return PREC[t[1]]


def pprint(t, rng=None):
    """Minimal-parentheses printer (+ random redundant parentheses / blanks when rng is given)."""
    def sp():
        return "" if rng is None else rng.choice(["", "", " ", "  "])

    def wrap(lvl, e):
        s = pprint(e, rng)
        if pprec(e) < lvl or (rng is not None and rng.random() < 0.1):
            return "(" + sp() + s + sp() + ")"
        return s
    if t[0] == "n":
        return t[1]
    if t[0] == "r":
        pad = "" if rng is None else rng.choice(["", "", " ", "\t"])
        return "{" + pad + t[1] + pad + "}"
    if t[0] == "neg":
        return "-" + sp() + wrap(2, t[1])
    op, l, r = t[1], t[2], t[3]
    ll, rl = {"add": (0, 1), "sub": (0, 1), "mul": (1, 2), "div": (1, 2), "pow": (4, 2)}[op]
    return wrap(ll, l) + sp() + OPSYM[op] + sp() + wrap(rl, r)


def ptree_refs(t):
    if t[0] == "r":
        return [(t[1], t[2])]
    if t[0] == "neg":
        return ptree_refs(t[1])
    if t[0] == "b":
        return ptree_refs(t[2]) + ptree_refs(t[3])
    return []


class ParsedFam(WorldFamily):
    """`ParsedCommand` strings printed from the grammar, with adversarial tag names, evaluated as
    derived components through `ParsedComponentLink` on the whole dataset and on views."""
    name = "parsed"
    exhaustive = False
    batch = 200

    def _cases(self, tier, rng):
        n = 4000 if tier == "quick" else 60000
        pool = [[3], [2, 3], [2, 2, 2], [1, 3]]
        # constant commands (the scalar rule) on every kind of view
        for sh in ([3], [2, 3]):
            stored = [[STORED0, det_spec(sh, [False] * len(sh), "f", 3)]]
            for text, tr in (("3.0 + 4.0", ["b", "add", ["n", "3.0"], ["n", "4.0"]]),
                             ("2.0", ["n", "2.0"]),
                             ("-(1.5 * 2.0)", ["neg", ["b", "mul", ["n", "1.5"], ["n", "2.0"]]])):
                for v in all_views(sh):
                    yield {"shape": sh, "coords": None, "stored": stored,
                           "derived": [[DERIVED0, ["X", text, [], tr]]], "view": v, "target": DERIVED0}
        # a tag that is not in the reference mapping
        yield {"shape": [3], "coords": None, "stored": [[STORED0, det_spec([3], [False], "f", 3)]],
               "derived": [[DERIVED0, ["X", "{a} + {zz}", [["a", STORED0]], ["n", "0.0"]]]], "view": None, "target": DERIVED0}
        for _ in range(n):
            sh = rng.choice(pool)
            coords = rng.choice([None, "diag", "mix"])
            stored, derived, leaves, _ = standard_world(rng, sh, coords)
            # float inputs only (see design.md: the scalar rule multiplies by np.ones)
            fl = [k for k in leaves if not (PIX0 <= k < WORLD0)]
            fl = [k for k in fl if not (k == STORED0 + 1)] or fl
            k = rng.randint(1, 4)
            labels = rng.sample(TAG_LABELS, k)
            keys = [rng.choice(fl) for _ in range(k)]
            tr = rand_ptree(rng, rng.randint(1, 3 if tier == "quick" else 4), labels, keys)
            text = pprint(tr, rng)
            refs = [[lab, key] for lab, key in zip(labels, keys)]
            extra = [[DERIVED0 + 5, ["X", text, refs, tr]]]
            target = DERIVED0 + 5
            q = rng.random()
            if q < 0.15:
                extra.append([DERIVED0 + 6, ["B", ["b", "add", ["k", DERIVED0 + 5], ["k", STORED0]]]])
                target = DERIVED0 + 6
            elif q < 0.4:
                # round 3: the ParsedComponentLink OBJECT as an operand of binary links
                me, leaf = ["o", DERIVED0 + 5], ["k", STORED0]
                op = rng.choice(["add", "sub", "mul"])
                extra.append([DERIVED0 + 6, ["B", rng.choice([["b", op, me, leaf], ["b", op, leaf, me],
                                                             ["b", op, me, me]])]])
                if rng.random() < 0.4:
                    extra.append([DERIVED0 + 7, ["B", ["b", "sub", ["o", DERIVED0 + 6], me]]])
                target = rng.choice([e[0] for e in extra])
            yield {"shape": sh, "coords": coords, "stored": stored, "derived": derived + extra,
                   "view": rand_view(rng, sh), "target": target}

    def signature(self, case, po, res):
        l = [l for k, l in case["derived"] if l[0] == "X"]
        const = bool(l) and not ptree_refs(l[-1][3])
        return {"construct": "constant-command" if const else "command",
                "viewed": case["view"] is not None}

    def shrink(self, case):
        v = case["view"]
        if isinstance(v, list) and len(v) > 1:
            yield sanitize(dict(case, view=v[:-1]))
        if v is not None:
            yield dict(case, view=None)


class GramFam(Family):
    """L0: the Lean lexer + parser against Python's own parser (`ast`) on command strings."""
    name = "gram"
    exhaustive = False
    batch = 1000

    def cases(self, tier, rng):
        n = 4000 if tier == "quick" else 60000
        labels = TAG_LABELS
        for i in range(n):
            k = rng.randint(1, 3)
            labs = rng.sample(labels, k)
            tr = rand_ptree(rng, rng.randint(1, 4), labs, list(range(k)))
            text = pprint(tr, rng)
            if i % 7 == 0 and len(text) > 2:   # damage the string: mostly syntax errors
                j = rng.randrange(len(text))
                text = text[:j] + rng.choice(["", "+", "*", "(", ")", "-", "**", " 2.0 "]) + text[j + rng.randint(0, 1):]
            yield text

    @staticmethod
    def _render(node, names):
        if isinstance(node, ast.BinOp):
            op = {ast.Add: "add", ast.Sub: "sub", ast.Mult: "mul", ast.Div: "div", ast.Pow: "pow"}.get(type(node.op))
            if op is None:
                raise SyntaxError()
            return [op, GramFam._render(node.left, names), GramFam._render(node.right, names)]
        if isinstance(node, ast.UnaryOp) and isinstance(node.op, ast.USub):
            return ["neg", GramFam._render(node.operand, names)]
        if isinstance(node, ast.Constant) and isinstance(node.value, (int, float)):
            raise SyntaxError()   # literals are replaced by names before parsing
        if isinstance(node, ast.Name):
            kind, text = names[node.id]
            return [kind, [ord(c) for c in text]]
        raise SyntaxError()

    def run_impl(self, case):
        # replace tags and literals by identifiers, then let Python parse
        text, names, out, i = case, {}, [], 0
        n = len(text)
        try:
            while i < n:
                ch = text[i]
                if ch == "{":
                    j = text.index("}", i)
                    body = text[i + 1:j]
                    if "{" in body or not body.strip(" \t\n\r"):
                        return "syntax-error"
                    nm = "t%d" % len(names)
                    names[nm] = ("t", body.strip(" \t\n\r"))
                    out.append(" " + nm + " ")
                    i = j + 1
                elif ch.isdigit() or ch == ".":
                    j = i
                    while j < n and (text[j].isdigit() or text[j] == "."):
                        j += 1
                    nm = "n%d" % len(names)
                    names[nm] = ("n", text[i:j])
                    out.append(" " + nm + " ")
                    i = j
                elif ch == "}":
                    return "syntax-error"
                else:
                    out.append(ch)
                    i += 1
            tree = ast.parse("".join(out).strip(), mode="eval")
            return self._render(tree.body, names)
        except (SyntaxError, ValueError):
            return "syntax-error"

    def line(self, case, pyout):
        return sx(["gram", [ord(c) for c in case], pyout])

    def nontrivial(self, case, po):
        return isinstance(po, list)


# ---- histories ---------------------------------------------------------------------------

def hist_link_op(kind, key, reads, raw=False, alt=0):
    """A deterministic derived component of the given link kind (B binary / X parsed / U user
    function) reading one or two identifiers, as a history op (`r`-prefixed = added through
    Data.add_component(DerivedComponent(...)), which does not look at the inputs)."""
    pre = "r" if raw else ""
    if kind == "B":
        if len(reads) == 1:
            t = ["b", ["add", "mul", "sub"][alt % 3], ["k", reads[0]], ["c", ["i", [1, 2, 3][alt % 3]]]]
        else:
            t = ["b", ["sub", "add", "mul"][alt % 3], ["k", reads[0]], ["k", reads[1]]]
        return [pre + "add_d", key, t]
    if kind == "X":
        if len(reads) == 1:
            tr = ["b", "sub", ["b", "mul", ["r", "x", reads[0]], ["n", "2"]], ["n", "1"]]
            return [pre + "add_x", key, "{x} * 2 - 1", [["x", reads[0]]], tr]
        tr = ["b", "sub", ["r", "x", reads[0]], ["r", "y z", reads[1]]]
        return [pre + "add_x", key, "{x} - { y z }", [["x", reads[0]], ["y z", reads[1]]], tr]
    if len(reads) == 1:
        return [pre + "add_u", key, [reads[0]], 1, bool(alt % 2)]
    return [pre + "add_u", key, [reads[0], reads[1]], 2, bool(alt % 2)]


def hist_op_reads(op):
    if op[0].endswith("add_d"):
        return tree_keys(op[2])
    if op[0].endswith("add_x"):
        return [k for _, k in op[3]]
    if op[0].endswith("add_u"):
        return list(op[2])
    return []


def order_cases(tier):
    """Exhaustive core for component orders that do NOT respect the dependencies: small dependency
    patterns (chains of depth 2 and 3, diamond, pixel input, cycle) x every order of their table x
    the two ways glue offers to reach that order (`reorder_components` after adding in dependency
    order / adding derived components before their inputs) x mixed link kinds x every removal,
    and `update_id` followed by a removal."""
    sh = [2]
    A, S, T = STORED0 - 1, STORED0, STORED0 + 1      # anchor, stored, second stored
    P = PIX0
    D = DERIVED0

    def stored(k, salt):
        return ["add_s", k, det_spec(sh, [False], "i", salt)]

    def build(nodes, perm, mode, front):
        """nodes: name -> ("s", salt) | (kind, reads...) ; perm: names in table order (after the
        fixed `front`).  mode 'reorder': add in the given (dependency respecting) node order, then
        reorder_components(front + perm) ; mode 'raw': add in table order, derived components whose
        inputs are not all there yet through the unchecked route."""
        key = dict((nm, nodes[nm][2]) for nm in nodes)
        ops = [stored(A, 7)]

        def add(nm, present):
            kind, reads, k = nodes[nm][0], nodes[nm][1], nodes[nm][2]
            if kind == "s":
                return stored(k, reads)
            rk = [key.get(r, r) for r in reads]
            raw = not all(r in present for r in rk)
            return hist_link_op(kind, k, rk, raw=raw, alt=nodes[nm][3])
        if mode == "reorder":
            present = set([P, A])
            for nm in nodes:            # dict order = dependency order
                ops.append(add(nm, present | set(key.values())))
                present.add(key[nm])
            ops.append(["reorder", front + [key[nm] for nm in perm], True])
        else:
            present = set([P, A])
            for nm in perm:
                ops.append(add(nm, present))
                present.add(key[nm])
        return ops, key

    def variants(nodes, perms, victims, front, modes, updates=()):
        for perm in perms:
            for mode in modes:
                if mode == "raw" and front != [P, A]:
                    continue
                for v in victims:
                    ops, key = build(nodes, perm, mode, front)
                    yield {"shape": sh, "ops": ops + [["remove", key.get(v, v)]]}
                for u in updates:
                    ops, key = build(nodes, perm, mode, front)
                    yield {"shape": sh, "ops": ops + [["update", key[u], 90], ["remove", 90]]}
                    # onto the pixel id: refused (F22), nothing changes, the removal works as before
                    ops, key = build(nodes, perm, mode, front)
                    yield {"shape": sh, "ops": ops + [["update", key[u], P], ["remove", key[u]]]}

    kinds = "BXU"
    # chain of depth 2 + an independent derived component: a -> c -> d ; t -> e ; all 9 kind pairs
    for kc in kinds:
        for kd in kinds:
            nodes = {"a": ("s", 1, S), "t": ("s", 2, T), "c": (kc, ["a"], D, 0), "d": (kd, ["c"], D + 1, 1),
                     "e": ("B", ["t"], D + 2, 2)}
            perms = [list(p) + ["t", "e"] for p in itertools.permutations(["a", "c", "d"])]
            perms += [["t", "e"] + list(p) for p in itertools.permutations(["a", "c", "d"])][3:4]
            for c in variants(nodes, perms, ["a", "c", "t", P], [P, A], ["reorder", "raw"], updates=["a"]):
                yield c
    # chain of depth 3 with a side input: a -> c -> d -> e, e also reads a
    for rot in range(4):
        ks = ["BBB", "BXU", "XUB", "UBX"][rot]
        nodes = {"a": ("s", 3, S), "c": (ks[0], ["a"], D, rot), "d": (ks[1], ["c"], D + 1, rot + 1),
                 "e": (ks[2], ["d", "a"], D + 2, rot)}
        perms = [list(p) for p in itertools.permutations(["a", "c", "d", "e"])]
        if tier == "quick" and rot > 0:
            perms = perms[rot::3]
        for c in variants(nodes, perms, ["a", "c", "d"], [P, A], ["reorder", "raw"], updates=["a", "c"]):
            yield c
    # diamond + independent pair: a -> b, a -> c, (b, c) -> d ; s -> e
    for rot in range(2):
        ks = ["BBBB", "XBUX"][rot]
        nodes = {"a": ("s", 4, S), "s": ("s", 5, T), "b": (ks[0], ["a"], D, 0), "c": (ks[1], ["a"], D + 1, 1),
                 "d": (ks[2], ["b", "c"], D + 2, rot), "e": (ks[3], ["s"], D + 3, 2)}
        if tier == "quick":
            perms = [["s"] + list(p) for p in itertools.permutations(["a", "b", "c", "d", "e"])]
            perms = perms[rot::2]
        else:
            perms = [list(p) for p in itertools.permutations(["a", "b", "c", "d", "e", "s"])]
        for c in variants(nodes, perms, ["a", "b", "s"], [P, A], ["reorder", "raw"]):
            yield c
    # the pixel component as input and as a movable table entry: c = a + pix, d = c * 2
    nodes = {"a": ("s", 6, S), "c": ("B", ["a", P], D, 1), "d": ("X", ["c"], D + 1, 0)}
    for perm in itertools.permutations([P, A, "a", "c", "d"]):
        key = {"a": S, "c": D, "d": D + 1}
        order = [key.get(x, x) for x in perm]
        for v in [P, S, D]:
            ops, _ = build(nodes, ["a", "c", "d"], "reorder", [])
            ops[-1] = ["reorder", order, True]
            yield {"shape": sh, "ops": ops + [["remove", v]]}
    # cyclic definitions (reachable because the unchecked route accepts forward references):
    # x = y + 1 (added first), y = x - a ; z = a * 2
    for perm in itertools.permutations(["a", "x", "y", "z"]):
        key = {"a": S, "x": D, "y": D + 1, "z": D + 2}
        base = [stored(A, 7), stored(S, 8), hist_link_op("B", D, [D + 1], raw=True),
                hist_link_op("U", D + 1, [D, S]), hist_link_op("X", D + 2, [S]),
                ["reorder", [P, A] + [key[n] for n in perm], True]]
        for v in [S, D, D + 1, A]:
            yield {"shape": sh, "ops": base + [["remove", v]]}


class HistFam(Family):
    """add / remove / update_id / reorder_components histories on one dataset (integer data, + - *
    only); derived components are also added before their inputs.  Observables: `Data.components`
    (as keys) after every operation; after every remove / update_id / reorder, after every call
    that raised ValueError, and at the end also the value of every remaining component (or that
    evaluating it raises).  The Spec removes exactly the dependency closure, renames identifiers
    everywhere, and reorders without changing anything else; the calls the repaired `Data` refuses
    (remove_component of a pixel component, update_id onto an id in use, add_component onto an id
    in use for another kind of component: C17's F20-F22) are generated on purpose: the Spec demands
    the ValueError and that nothing changed."""
    name = "hist"
    exhaustive = False
    batch = 100
    case_timeout = 60.0

    def reset(self):
        self._aux = None

    def cases(self, tier, rng):
        # exhaustive part: every insertion order of a small dependency pattern, remove each root
        base = [("a", ["b", "add", ["k", STORED0], ["k", PIX0]]),
                ("b", ["b", "mul", ["k", "a"], ["k", STORED0 + 1]]),
                ("c", ["b", "sub", ["k", "b"], ["k", "a"]]),
                ("d", ["b", "add", ["k", STORED0 + 1], ["c", ["i", 2]]]),
                ("e", ["b", "mul", ["k", "d"], ["k", "c"]])]
        deps = {"a": [], "b": ["a"], "c": ["a", "b"], "d": [], "e": ["c", "d"]}
        sh = [3]
        st = [["add_s", STORED0, det_spec(sh, [False], "i", 1)], ["add_s", STORED0 + 1, det_spec(sh, [False], "i", 2)]]
        for perm in itertools.permutations(range(5)):
            names = [base[i][0] for i in perm]
            if any(names.index(d) > names.index(n) for n in names for d in deps[n]):
                continue
            keymap = dict((nm, DERIVED0 + j) for j, nm in enumerate(names))

            def sub(t):
                if t[0] == "k":
                    return ["k", keymap.get(t[1], t[1])]
                if t[0] == "b":
                    return ["b", t[1], sub(t[2]), sub(t[3])]
                return t
            adds = [["add_d", keymap[base[i][0]], sub(base[i][1])] for i in perm]
            for victim in [STORED0, STORED0 + 1, PIX0] + [keymap[n] for n in "abcd"]:
                yield {"shape": sh, "ops": st + adds + [["remove", victim]]}
            for old in [STORED0, STORED0 + 1, keymap["a"], keymap["c"]]:
                yield {"shape": sh, "ops": st + adds + [["update", old, 90], ["remove", keymap["d"]]]}
            # calls the repaired code refuses (F20 / F21 / F22: ValueError, nothing may change),
            # each followed by a removal that must still take exactly the closure
            for old in [STORED0, keymap["a"], PIX0, 77]:
                for new in [STORED0 + 1, PIX0, keymap["c"]]:
                    yield {"shape": sh, "ops": st + adds + [["update", old, new], ["remove", keymap["d"]]]}
            ov = det_spec(sh, [False], "i", 5)
            yield {"shape": sh, "ops": st + adds + [["update", PIX0, 90], ["add_s", 90, ov], ["remove", 90],
                                                    ["update", 90, STORED0], ["remove", STORED0]]}
            yield {"shape": sh, "ops": st + adds + [["add_s", keymap["a"], ov], ["add_s", PIX0, ov],
                                                    ["radd_d", STORED0, ["b", "add", ["k", STORED0 + 1], ["c", ["i", 1]]]],
                                                    ["add_d", STORED0 + 1, ["b", "add", ["k", STORED0], ["c", ["i", 1]]]],
                                                    ["remove", keymap["b"]]]}
            # accepted replacements under an id in use: new values / a new definition in place
            yield {"shape": sh, "ops": st + adds + [["add_s", STORED0, ov], ["remove", keymap["c"]]]}
            yield {"shape": sh, "ops": st + adds + [["radd_d", keymap["a"], ["b", "mul", ["k", STORED0 + 1], ["c", ["i", 3]]]],
                                                    ["remove", STORED0], ["remove", PIX0]]}
        # round 3: the same expressions with the common subtree `S0 + 1` built ONCE (share): the
        # link object is the left / right / both operand(s) of several derived attributes
        s0 = ["b", "add", ["k", STORED0], ["c", ["i", 1]]]
        Y, P = ["k", STORED0 + 1], ["k", PIX0]
        for pat, trees in (("left", [s0, ["b", "mul", s0, Y], ["b", "sub", s0, P]]),
                           ("right", [s0, ["b", "mul", Y, s0], ["b", "sub", P, s0]]),
                           ("tops", [["b", "mul", s0, Y], ["b", "sub", s0, P]]),
                           ("twice", [["b", "mul", s0, s0], ["b", "add", s0, Y], s0]),
                           ("nested", [["b", "add", s0, Y], ["b", "mul", ["b", "add", s0, Y], P],
                                       ["b", "sub", ["b", "mul", ["b", "add", s0, Y], P], s0]])):
            adds = [["add_d", DERIVED0 + j, t] for j, t in enumerate(trees)]
            for shared in (True, False):
                tails = [[["remove", v]] for v in (STORED0, STORED0 + 1, PIX0, DERIVED0, DERIVED0 + 1)]
                tails += [[["update", o, 90], ["remove", v]] for o in (STORED0, STORED0 + 1, DERIVED0)
                          for v in (90, STORED0 + 1)]
                for tl in tails:
                    c = {"shape": sh, "ops": st + adds + tl}
                    if shared:
                        c["share"] = True
                    yield c
        # component orders that do not respect the dependencies (reorder_components, forward adds)
        for c in order_cases(tier):
            yield c
        # seeded random histories
        n = 3000 if tier == "quick" else 40000
        maxlen = 7 if tier == "quick" else 10
        for _ in range(n):
            sh = rng.choice([[3], [2, 2], [2]])
            # key 19 is an anchor that is never removed: a dataset emptied of all components and
            # then refilled recurses forever in Data.add_component (C17's domain, see design.md)
            ops = [["add_s", STORED0 - 1, stored_spec(rng, sh, "i", lo=-3, hi=3)],
                   ["add_s", STORED0, stored_spec(rng, sh, "i", lo=-3, hi=3)]]
            live_prim = [STORED0] + [PIX0 + i for i in range(len(sh))]
            coord = set(PIX0 + i for i in range(len(sh)))   # keys naming a coordinate component
            live_der = []
            fresh_s, fresh_d, fresh_n = STORED0 + 1, DERIVED0, 90
            L = rng.randint(2, maxlen)
            # round 3: in half of the histories equal subtrees of the binary expressions are ONE
            # link object (hash-consing in Built.tree), and new expressions are built on the trees
            # of earlier ones — left, right, twice, nested
            share = rng.random() < 0.5
            prev_trees = []
            for _ in range(L):
                r = rng.random()
                live = live_prim + live_der
                if r < 0.12 or not live:
                    q = rng.random()
                    if q < 0.25 and [k for k in live_prim if k >= STORED0]:
                        # overwrite values (refused, F21, when an earlier update_id gave the key to
                        # a pixel component)
                        k = rng.choice([k for k in live_prim if k >= STORED0])
                    elif q < 0.37 and live:
                        k = rng.choice(live)     # any id in use: refused unless it names stored values
                    else:
                        k = fresh_s
                        fresh_s += 1
                        live_prim.append(k)
                    ops.append(["add_s", k, stored_spec(rng, sh, "i", lo=-3, hi=3)])
                elif r < 0.19:
                    # a parsed command over integer data (integer literals, + - * and unary minus)
                    k = rng.randint(1, 2)
                    labels = rng.sample(TAG_LABELS, k)
                    keys = [rng.choice(live) for _ in range(k)]
                    tr = rand_ptree_int(rng, rng.randint(1, 2), labels, keys)
                    ops.append(["add_x", fresh_d, pprint(tr, rng), [[lab, key] for lab, key in zip(labels, keys)], tr])
                    live_der.append(fresh_d)
                    fresh_d += 1
                elif r < 0.25:
                    f = rng.choice([1, 2, 3])
                    ops.append(["add_u", fresh_d, [rng.choice(live) for _ in range(USER_ARITY[f])], f, rng.random() < 0.3])
                    live_der.append(fresh_d)
                    fresh_d += 1
                elif r < 0.42:
                    t = rand_tree(rng, rng.randint(1, 2), live, ["add", "sub", "mul"], [], consts=INT_CONSTS)
                    if share and prev_trees and rng.random() < 0.6:
                        pt = rng.choice(prev_trees[-3:])
                        leaf = ["k", rng.choice(live)]
                        q = rng.random()
                        op = rng.choice(["add", "sub", "mul"])
                        if q < 0.35:
                            t = ["b", op, pt, leaf]
                        elif q < 0.6:
                            t = ["b", op, leaf, pt]
                        elif q < 0.75:
                            t = ["b", op, pt, pt]
                        elif q < 0.9:
                            t = ["b", op, pt, rng.choice(prev_trees)]
                        else:
                            t = ["b", op, ["b", "add", pt, leaf], pt]
                        if tree_depth(t) > 4:
                            t = ["b", op, pt[2] if pt[2][0] == "b" else pt, leaf]
                    if rng.random() < 0.04:   # reads an id that is not (or no longer) in the dataset
                        t = ["b", "add", t, ["k", 89]]
                    if t[0] != "b":
                        t = ["b", "add", t, ["c", ["i", 1]]]
                    if rng.random() < 0.07 and live:
                        # onto an id in use: a new definition in place when it names a derived
                        # component (possibly reading itself), refused (F21) otherwise
                        ops.append([rng.choice(["add_d", "radd_d"]), rng.choice(live), t])
                    else:
                        ops.append(["add_d", fresh_d, t])
                        if 89 not in tree_keys(t):
                            live_der.append(fresh_d)
                            if t[0] == "b":
                                prev_trees.append(t)
                        fresh_d += 1
                elif r < 0.54:
                    # a derived component E added BEFORE the derived component D it reads (the
                    # unchecked route Data.add_component(DerivedComponent) accepts that); D follows
                    # (sometimes never, sometimes reading E in turn: a cyclic definition)
                    kd, ke = fresh_d, fresh_d + 1
                    fresh_d += 2
                    other = [rng.choice(live)] if rng.random() < 0.4 else []
                    reads_e = [kd] + other if rng.random() < 0.5 else other + [kd]
                    ops.append(hist_link_op(rng.choice("BXU"), ke, reads_e, raw=True, alt=rng.randrange(6)))
                    q = rng.random()
                    if q < 0.9:
                        reads_d = [rng.choice(live)]
                        if q < 0.12:
                            reads_d.append(ke)
                        elif q < 0.4:
                            reads_d.append(rng.choice(live))
                        ops.append(hist_link_op(rng.choice("BXU"), kd, reads_d, raw=rng.random() < 0.3, alt=rng.randrange(6)))
                        live_der.append(kd)
                    live_der.append(ke)
                elif r < 0.67:
                    # reorder_components: listed identifiers first, the others keep their order;
                    # sometimes an exact list (wrong as soon as an earlier removal took dependents
                    # along: ValueError branch), a list with a repetition or an unknown identifier
                    pool = live + [STORED0 - 1]
                    q = rng.random()
                    if q < 0.7:
                        pref = rng.sample(pool, rng.randint(1, len(pool)))
                        ops.append(["reorder", pref, False])
                    elif q < 0.9:
                        pref = list(pool)
                        rng.shuffle(pref)
                        ops.append(["reorder", pref, True])
                    else:
                        pref = rng.sample(pool, rng.randint(1, len(pool)))
                        pref.insert(rng.randrange(len(pref) + 1), rng.choice(pref + [fresh_d + 7]))
                        ops.append(["reorder", pref, rng.random() < 0.5])
                elif r < 0.85:
                    k = rng.choice(live + [fresh_d + 7])
                    ops.append(["remove", k])
                    # (the generator does not track the closure; later ops may name removed ids,
                    # which is part of the scope: add_component_link then raises ValueError)
                    if k in coord:
                        pass                     # refused (F20): the coordinate component stays
                    elif k in live_prim:
                        live_prim.remove(k)
                    if k in live_der:
                        live_der.remove(k)
                else:
                    old = rng.choice(live + [fresh_d + 7])
                    if rng.random() < 0.15 and [k for k in live if k != old]:
                        # an identifier already in use (stored, pixel or derived; `old` may be
                        # unknown): refused (F22), nothing changes
                        new = rng.choice([k for k in live if k != old])
                    else:
                        new = fresh_n
                        fresh_n += 1
                        if old in live_prim:
                            live_prim[live_prim.index(old)] = new
                        if old in coord:
                            coord.discard(old)
                            coord.add(new)
                        if old in live_der:
                            live_der[live_der.index(old)] = new
                    if rng.random() < 0.05:
                        new = old
                    ops.append(["update", old, new])
                    # expressions over the old identifier are not re-used after update_id
                    prev_trees = [t for t in prev_trees if old not in tree_keys(t)]
            yield {"shape": sh, "ops": ops, "share": share} if share else {"shape": sh, "ops": ops}

    def run_impl(self, case):
        T = Tokens(arith=True)
        b = Built(case["shape"], None)
        b.share = bool(case.get("share"))
        extra = {}
        steps = []

        def cid_of(k):
            if k in b.cids:
                return b.cids[k]
            if k not in extra:
                extra[k] = ComponentID("n%d" % k)
            return extra[k]
        sx_ops = []

        def values():
            out = []
            for c in b.data.components:
                k = b.key_of(c)
                try:
                    out.append([k, out_of(b.data[c], T)])
                except IncompatibleAttribute:
                    out.append([k, "incompatible"])
                except RecursionError:
                    out.append([k, "recursion"])
            return out
        for op in case["ops"]:
            err = None
            valued = False
            raw = op[0].startswith("radd_")
            kind = op[0][1:] if raw else op[0]
            if kind == "add_s":
                b.cids.setdefault(op[1], cid_of(op[1]))
                try:
                    b.add_stored(op[1], op[2])
                    arr = b.data[b.cids[op[1]]]
                except ValueError:     # F21: the id is in use for a component of another kind
                    err = "value-error"
                    arr = make_array(op[2], b.shape)
                sx_ops.append(["add", op[1], ["P"] + canon_arr(arr, T)])
            elif kind == "add_d":
                for k in tree_keys(op[2]):
                    b.cids.setdefault(k, cid_of(k))
                try:
                    b.add_binary(op[1], op[2], raw=raw)
                except ValueError:
                    err = "value-error"
                sx_ops.append(["radd" if raw else "add", op[1], ["B", sx_tree(op[2], T)]])
            elif kind == "add_x":     # parsed command: [op, key, text, refs, ptree]
                for _, k in op[3]:
                    b.cids.setdefault(k, cid_of(k))
                try:
                    b.add_parsed(op[1], op[2], op[3], raw=raw)
                except ValueError:
                    err = "value-error"
                sx_ops.append(["radd" if raw else "add", op[1], sx_link(["X", op[2], op[3]], T)])
            elif kind == "add_u":     # user function: [op, key, froms, fcode, ravel]
                for k in op[2]:
                    b.cids.setdefault(k, cid_of(k))
                try:
                    b.add_using(op[1], op[2], op[3], op[4], raw=raw)
                except ValueError:
                    err = "value-error"
                sx_ops.append(["radd" if raw else "add", op[1], ["U", list(op[2]), op[3], bool(op[4])]])
            elif kind == "remove":
                try:
                    b.data.remove_component(cid_of(op[1]))
                except ValueError:     # F20: a pixel / world coordinate component
                    err = "value-error"
                sx_ops.append(["remove", op[1]])
                valued = True
            elif kind == "update":
                new = cid_of(op[2])
                b.cids.setdefault(op[2], new)
                try:
                    b.data.update_id(cid_of(op[1]), new)
                except ValueError:     # F22: `new` already names another component
                    err = "value-error"
                # link objects built before this call are rewritten in place when the data set
                # reaches them (and are stale otherwise): the trees they were memoised under no
                # longer describe them — later expressions are built from new objects
                b.memo.clear()
                sx_ops.append(["update", op[1], op[2]])
                valued = True
            elif kind == "reorder":   # [op, listed keys, exact]
                ids = [cid_of(k) for k in op[1]]
                if not op[2]:
                    ids = ids + [c for c in b.data.components if not any(c is x for x in ids)]
                try:
                    b.data.reorder_components(ids)
                except ValueError:
                    err = "value-error"
                sx_ops.append(["reorder", list(op[1]), bool(op[2])])
                valued = True
            keys = [b.key_of(c) for c in b.data.components]
            # a refused call is observed together with the component list and every value right
            # after it: the Spec demands that it changed nothing
            steps.append([err, [keys, values()]] if err else ([keys, values()] if valued else keys))
        final = values()
        # initial table: the pixel components exist as soon as the first component is added; the
        # driver starts from the empty table and the first add creates them (see `line`)
        self._aux = (sx_ops, b, T)
        return [steps, final]

    def line(self, case, pyout):
        aux = self._aux
        if aux is None:
            return sx(["hist", [list(case["shape"]), [], [], "arith", []], pyout])
        sx_ops, b, T = aux
        # pixel components are created by glue together with the first stored component: they are
        # part of the initial table of the model, placed before it (values read from the real data)
        nd = len(case["shape"])
        init = []
        for i in range(nd):
            arr = np.broadcast_to(np.arange(case["shape"][i], dtype=np.int64).reshape([-1 if j == i else 1 for j in range(nd)]), tuple(case["shape"]))
            init.append([PIX0 + i, ["C"] + canon_arr(arr, T)])     # C = coordinate component
        return sx(["hist", [list(case["shape"]), init, sx_ops, "arith", []], pyout])

    def nontrivial(self, case, po):
        return any(o[0] in ("remove", "update", "reorder") for o in case["ops"])

    def signature(self, case, po, res):
        kinds = sorted(set(o[0] for o in case["ops"]))
        sig = {"ops": "+".join(kinds)}
        if isinstance(po, list) and len(po) == 2 and any(isinstance(x, list) and len(x) == 2 and x[1] == "incompatible" for x in po[1]):
            sig["construct"] = "derived-unreadable-after-update_id" if "update" in kinds else "derived-unreadable"
        return sig

    def shrink(self, case):
        ops = case["ops"]
        for i in range(len(ops) - 1, 0, -1):
            yield dict(case, ops=ops[:i] + ops[i + 1:])


# ---- link OBJECTS: re-use, sharing, in-place update ----------------------------------------

class Prog:
    """Builder of an `obj` program: keeps count of the link objects / ParsedCommand objects so
    that steps can name them by index (creation order = the index the driver uses)."""

    def __init__(self, shape):
        self.shape = list(shape)
        self.steps = []
        self.nobj = 0
        self.ncmd = 0

    def stored(self, key, salt):
        self.steps.append(["add_s", key, det_spec(self.shape, [False] * len(self.shape), "i", salt)])

    def bin(self, op, l, r, direct=False):
        self.steps.append(["bin", op, l, r] + ([True] if direct else []))
        self.nobj += 1
        return self.nobj - 1

    def fn(self, keys, f, ravel=False):
        self.steps.append(["fn", list(keys), f, bool(ravel)])
        self.nobj += 1
        return self.nobj - 1

    def cmd(self, text, refs, tr, dict_of=None):
        """ParsedCommand(text, references).  dict_of = j: the very dict OBJECT that command j was
        given is passed again (`refs = {...}; ParsedCommand(a, refs); ParsedCommand(b, refs)`)."""
        self.steps.append(["cmd", text, [list(r) for r in refs], tr] + ([dict_of] if dict_of is not None else []))
        self.ncmd += 1
        return self.ncmd - 1

    def pl(self, c):
        self.steps.append(["pl", c])
        self.nobj += 1
        return self.nobj - 1

    def sub(self, kind, key, alt=0):
        """A link object of the given kind reading `key` (B: key + 1, U: f1(key), X: {x} * 2 - 1)."""
        if kind == "B":
            return self.bin(["add", "mul", "sub"][alt % 3], K(key), ["c", ["i", 1 + alt % 3]])
        if kind == "U":
            return self.fn([key], 1, bool(alt % 2))
        c = self.cmd("{x} * 2 - 1", [["x", key]], ["b", "sub", ["b", "mul", ["r", "x", key], ["n", "2"]], ["n", "1"]])
        return self.pl(c)

    def case(self, tail=()):
        return {"shape": self.shape, "steps": [list(x) for x in self.steps] + [list(x) for x in tail]}


def K(key):
    return ["k", key]


def O(i):
    return ["o", i]


OBJ_PATTERNS = ("left", "right", "twice", "both", "nested", "nested-right", "const", "diamond")


def obj_pattern(pr, kind, pat, X, Y, Z):
    """Expressions that RE-USE link objects as operands.  Returns (s, tops): the shared sub-link
    and the link objects built on top of it (in creation order)."""
    s = pr.sub(kind, X)
    if pat == "left":
        return s, [pr.bin("mul", O(s), K(Y)), pr.bin("sub", O(s), K(Z))]
    if pat == "right":
        return s, [pr.bin("mul", K(Y), O(s)), pr.bin("sub", K(Z), O(s), direct=True)]
    if pat == "twice":
        return s, [pr.bin("mul", O(s), O(s)), pr.bin("add", O(s), K(Z))]
    if pat == "both":
        s2 = pr.sub("BUX"[("BUX".index(kind) + 1) % 3], Y, alt=1)
        return s, [pr.bin("sub", O(s), O(s2)), pr.bin("mul", O(s2), K(Z)), pr.bin("add", O(s2), O(s))]
    if pat == "nested":
        d1 = pr.bin("add", O(s), K(Y))
        e = pr.bin("mul", O(d1), K(Z))
        g = pr.bin("sub", O(e), O(s))
        return s, [d1, e, g]
    if pat == "nested-right":
        d1 = pr.bin("add", K(Y), O(s), direct=True)
        e = pr.bin("mul", K(Z), O(d1))
        g = pr.bin("sub", O(s), O(e))
        return s, [d1, e, g]
    if pat == "const":
        d1 = pr.bin("mul", O(s), ["c", ["i", 2]])
        d2 = pr.bin("sub", ["c", ["i", 3]], O(s))
        e = pr.bin("add", O(d1), O(d2))
        return s, [d1, d2, e]
    # diamond of objects: e = (s + y) * (s - z)
    d1 = pr.bin("add", O(s), K(Y))
    d2 = pr.bin("sub", O(s), K(Z))
    return s, [d1, d2, pr.bin("mul", O(d1), O(d2))]


def obj_core(tier):
    """Exhaustive core of the `obj` family: sub-link kind x re-use pattern x which of the objects
    back a derived attribute (and in which order / under how many identifiers) x every removal /
    update_id of an input, of the shared attribute, and update_id followed by a removal or by a
    further construction on the renamed objects."""
    sh = [2]
    A, X, Y, Z = STORED0 - 1, STORED0, STORED0 + 1, STORED0 + 2
    D = DERIVED0
    n = 0
    for kind in "BUX":
        for pat in OBJ_PATTERNS:
            for cfg in ("all", "tops", "s-last", "s-twice", "interleaved"):
                n += 1
                if tier == "quick" and cfg in ("s-last", "s-twice") and (n % 3) != 0:
                    continue
                pr = Prog(sh)
                pr.stored(A, 7)
                pr.stored(X, 1)
                pr.stored(Y, 2)
                pr.stored(Z, 3)
                if cfg == "interleaved":
                    # every object is added as soon as it exists: later constructions re-use link
                    # objects that already back a derived attribute
                    s = pr.sub(kind, X)
                    pr.steps.append(["add", D, s])
                    mark = len(pr.steps)
                    pr2 = Prog(sh)
                    pr2.nobj, pr2.ncmd = 0, 0
                    s_, tops = obj_pattern(pr2, kind, pat, X, Y, Z)
                    # replay the constructions of the pattern (skipping the one of `s`), adding each
                    skip = 2 if kind == "X" else 1
                    keys = {s: D}
                    for j, st in enumerate(pr2.steps[skip:]):
                        pr.steps.append(st)
                        if st[0] in ("bin", "fn", "pl"):
                            o = pr.nobj
                            pr.nobj += 1
                            keys[o] = D + len(keys)
                            pr.steps.append(["add", keys[o], o])
                        elif st[0] == "cmd":
                            pr.ncmd += 1
                    attached = keys
                else:
                    s, tops = obj_pattern(pr, kind, pat, X, Y, Z)
                    attached = {}
                    order = {"all": [s] + tops, "tops": tops, "s-last": tops + [s], "s-twice": [s] + tops + [s]}[cfg]
                    for o in order:
                        k = D + len(attached) if o not in attached else D + 20
                        if o in attached:
                            pr.steps.append(["add", k, o])       # the same link object under a second id
                        else:
                            attached[o] = k
                            # the unchecked route for every third attachment
                            pr.steps.append(["radd" if (n + k) % 3 == 0 else "add", k, o])
                akeys = sorted(set(attached.values()))
                tails = [[["remove", v]] for v in [X, Y, Z] + akeys[:2]]
                for old in [X, Y] + ([attached[s]] if s in attached else []):
                    tails.append([["update", old, 90], ["remove", 90]])
                    tails.append([["update", old, 90], ["remove", Z], ["remove", Y]])
                # construction on the renamed objects after update_id
                o_new = pr.nobj
                tails.append([["update", X, 90], ["bin", "add", O(s), K(Z)], ["add", D + 30, o_new], ["remove", Z]])
                tails.append([["update", Z, 91], ["bin", "mul", O(tops[-1]), K(91)], ["add", D + 30, o_new], ["remove", 91]])
                if tier == "quick":
                    tails = tails[(n % 2)::2] + tails[-2:]
                for t in tails:
                    yield pr.case(t)
    # two ParsedComponentLinks on ONE ParsedCommand object (as coded they share it), one of them
    # also an operand; a user-function link under two identifiers
    for variant in range(4):
        pr = Prog(sh)
        pr.stored(A, 7)
        pr.stored(X, 1)
        pr.stored(Y, 2)
        c = pr.cmd("{x} - { y z }", [["x", X], ["y z", Y]], ["b", "sub", ["r", "x", X], ["r", "y z", Y]])
        p1 = pr.pl(c)
        p2 = pr.pl(c)
        d = pr.bin("add", O(p1), K(Y)) if variant % 2 == 0 else pr.bin("mul", K(X), O(p2))
        for j, o in enumerate([p1, p2, d] if variant < 2 else [d, p2]):
            pr.steps.append(["add", D + j, o])
        for t in ([["remove", X]], [["remove", Y]], [["update", X, 90], ["remove", 90]],
                  [["update", Y, 90], ["remove", X]], [["update", X, 90], ["update", Y, 91], ["remove", 91]]):
            yield pr.case(t)
    # two ParsedCommands built from ONE reference dict object (as coded each makes its own copy):
    # the first is attached, the second only after update_id — it still names the old identifier
    for variant in range(3):
        pr = Prog(sh)
        pr.stored(A, 7)
        pr.stored(X, 1)
        pr.stored(Y, 2)
        refs = [["x", X], ["y z", Y]]
        c1 = pr.cmd("{x} - { y z }", refs, ["b", "sub", ["r", "x", X], ["r", "y z", Y]])
        p1 = pr.pl(c1)
        pr.steps.append(["add", D, p1])
        if variant == 0:
            c2 = pr.cmd("{x} * 2", refs[:1], ["b", "mul", ["r", "x", X], ["n", "2"]], dict_of=c1)
            p2 = pr.pl(c2)
            tails = [[["update", X, 90], ["add", D + 1, p2], ["remove", 90]],
                     [["add", D + 1, p2], ["update", X, 90], ["remove", 90]]]
        elif variant == 1:
            c2 = pr.cmd("{x} * 2", refs[:1], ["b", "mul", ["r", "x", X], ["n", "2"]], dict_of=c1)
            tails = [[["update", X, 90], ["pl", c2], ["add", D + 1, pr.nobj], ["remove", 90]],
                     [["update", Y, 91], ["pl", c2], ["radd", D + 1, pr.nobj], ["remove", X]]]
        else:
            tails = [[["update", X, 90], ["cmd", "{ y z } + 1", [["y z", Y]], ["b", "add", ["r", "y z", Y], ["n", "1"]], c1],
                      ["pl", pr.ncmd], ["add", D + 1, pr.nobj], ["remove", Y]]]
        for t in tails:
            yield pr.case(t)


class ObjFam(Family):
    """Link OBJECTS: expressions built by re-using link objects as operands (left, right, both, the
    same object twice, nested to depth 2-3; binary, user-function and parsed links; two
    ParsedComponentLinks on one ParsedCommand), several derived attributes backed by overlapping
    objects (also one object under two identifiers), then removals and update_id (which rewrites
    link objects in place).  Observables after EVERY step: `Data.components`,
    `link.get_from_ids()` of every link object ever created, and — after every remove / update_id /
    refused call and at the end — the value of every component (or that evaluating it raises)."""
    name = "obj"
    exhaustive = False
    batch = 100
    case_timeout = 60.0

    def reset(self):
        self._aux = None

    def cases(self, tier, rng):
        for c in obj_core(tier):
            yield c
        n = 2500 if tier == "quick" else 40000
        for _ in range(n):
            yield self.random_case(rng, tier)

    def random_case(self, rng, tier):
        sh = rng.choice([[2], [3], [2, 2]])
        pr = Prog(sh)
        A = STORED0 - 1
        pr.steps.append(["add_s", A, stored_spec(rng, sh, "i", lo=-3, hi=3)])
        live = []                        # identifiers believed to be components (approximation)
        for j in range(rng.randint(2, 4)):
            pr.steps.append(["add_s", STORED0 + j, stored_spec(rng, sh, "i", lo=-3, hi=3)])
            live.append(STORED0 + j)
        live.append(PIX0)
        fresh_d, fresh_n = DERIVED0, 90
        attached = {}                    # object -> identifiers it was added under
        cmd_refs = []                    # per command: the reference dict it was built from
        L = rng.randint(5, 11 if tier == "quick" else 15)

        def pick():
            return rng.choice(live) if live else STORED0

        def operand(allow_const=True):
            r = rng.random()
            if pr.nobj and r < 0.55:
                # re-use a link object: recent ones more often (nesting), any one sometimes
                if rng.random() < 0.5:
                    return O(rng.randrange(max(0, pr.nobj - 3), pr.nobj))
                return O(rng.randrange(pr.nobj))
            if allow_const and r < 0.65:
                return ["c", list(rng.choice(INT_CONSTS))]
            return K(pick())
        if rng.random() < 0.8:
            # most programs start with a link object (any kind) that is re-used at once
            k0 = pick()
            s0 = pr.sub(rng.choice("BUX"), k0, alt=rng.randrange(6))
            if pr.ncmd:
                cmd_refs.append([["x", k0]])
            for _ in range(rng.randint(1, 2)):
                l, rr = O(rng.randrange(s0, pr.nobj)), operand()
                if rng.random() < 0.4:
                    l, rr = rr, l
                if l[0] == "c" and rr[0] == "c":
                    rr = K(pick())
                pr.bin(rng.choice(["add", "sub", "mul"]), l, rr, direct=rng.random() < 0.2)
        for i in range(L):
            r = rng.random()
            late = i >= L // 2
            if r < (0.30 if not late else 0.12):
                l = operand()
                rr = operand(allow_const=(l[0] != "c"))
                if rng.random() < 0.15 and l[0] == "o":
                    rr = list(l)                              # the same object twice
                pr.bin(rng.choice(["add", "sub", "mul"]), l, rr, direct=rng.random() < 0.2)
            elif r < (0.38 if not late else 0.16):
                f = rng.choice([1, 2, 3])
                pr.fn([pick() for _ in range(USER_ARITY[f])], f, rng.random() < 0.3)
            elif r < (0.46 if not late else 0.20):
                if pr.ncmd and rng.random() < 0.35:
                    pr.pl(rng.randrange(pr.ncmd))            # another link on an existing command
                elif cmd_refs and rng.random() < 0.3:
                    # a further command from the reference dict OBJECT of an earlier one
                    j = rng.randrange(len(cmd_refs))
                    labels = [lab for lab, _ in cmd_refs[j]]
                    keys = [key for _, key in cmd_refs[j]]
                    tr = rand_ptree_int(rng, rng.randint(1, 2), labels, keys)
                    used = sorted(set(ptree_refs(tr)))
                    c = pr.cmd(pprint(tr, rng), [[lab, key] for lab, key in used], tr, dict_of=j)
                    cmd_refs.append(cmd_refs[j])
                    pr.pl(c)
                else:
                    k = rng.randint(1, 3)
                    labels = rng.sample(TAG_LABELS, k)
                    keys = [pick() for _ in range(k)]
                    tr = rand_ptree_int(rng, rng.randint(1, 2), labels, keys)
                    c = pr.cmd(pprint(tr, rng), [[lab, key] for lab, key in zip(labels, keys)], tr)
                    cmd_refs.append([[lab, key] for lab, key in zip(labels, keys)])
                    pr.pl(c)
            elif r < (0.72 if not late else 0.45) and pr.nobj:
                # attach: mostly objects that are not attached yet, sometimes an attached one again
                cands = [o for o in range(pr.nobj) if o not in attached]
                if cands and rng.random() < 0.85:
                    o = rng.choice(cands)
                else:
                    o = rng.randrange(pr.nobj)
                if rng.random() < 0.06 and live:
                    k = rng.choice(live)                      # an identifier in use
                else:
                    k = fresh_d
                    fresh_d += 1
                    live.append(k)
                attached.setdefault(o, []).append(k)
                pr.steps.append(["radd" if rng.random() < 0.25 else "add", k, o])
            elif r < 0.86:
                k = rng.choice(live + [fresh_d + 7]) if live else fresh_d + 7
                pr.steps.append(["remove", k])
                if k in live and k != PIX0:
                    live.remove(k)
            else:
                old = rng.choice(live + [fresh_d + 7]) if live else fresh_d + 7
                if rng.random() < 0.12 and [k for k in live if k != old]:
                    new = rng.choice([k for k in live if k != old])    # in use: refused
                else:
                    new = fresh_n
                    fresh_n += 1
                    if old in live:
                        live[live.index(old)] = new
                pr.steps.append(["update", old, new])
        return pr.case()

    def run_impl(self, case):
        T = Tokens(arith=True)
        b = Built(case["shape"], None)
        extra = {}
        objs, cmds, refdicts = [], [], []
        sx_steps, obs = [], []

        def cid_of(k):
            if k in b.cids:
                return b.cids[k]
            if k not in extra:
                extra[k] = ComponentID("n%d" % k)
            b.cids[k] = extra[k]
            return extra[k]

        def operand(o):
            if o[0] == "c":
                return const_value(o[1])
            if o[0] == "k":
                return cid_of(o[1])
            return objs[o[1]]

        def sx_operand(o):
            if o[0] == "c":
                return ["c", T.tok(const_value(o[1]))]
            return [o[0], o[1]]

        def values():
            out = []
            for c in b.data.components:
                k = b.key_of(c)
                try:
                    out.append([k, out_of(b.data[c], T)])
                except IncompatibleAttribute:
                    out.append([k, "incompatible"])
                except RecursionError:
                    out.append([k, "recursion"])
                except Exception as exc:      # e.g. a user function called with the wrong inputs
                    out.append([k, "raises-" + type(exc).__name__])
            return out

        def from_ids():
            return [sorted(b.key_of(c) for c in o.get_from_ids()) for o in objs]
        for st in case["steps"]:
            err, valued = None, False
            kind = st[0]
            if kind == "add_s":
                cid_of(st[1])
                try:
                    b.add_stored(st[1], st[2])
                    arr = b.data[b.cids[st[1]]]
                except ValueError:
                    err = "value-error"
                    arr = make_array(st[2], b.shape)
                sx_steps.append(["addS", st[1], ["P"] + canon_arr(arr, T)])
            elif kind == "bin":
                l, r = operand(st[2]), operand(st[3])
                if len(st) > 4 and st[4]:
                    link = BinaryComponentLink(l, r, OPS[st[1]])
                else:
                    link = OPS[st[1]](l, r)       # the operator overloads of ComponentID / ComponentLink
                objs.append(link)
                sx_steps.append(["bin", st[1], sx_operand(st[2]), sx_operand(st[3])])
            elif kind == "fn":
                f = USER_FUNCS[st[2]]
                if st[3]:
                    f = _raveled(f)
                objs.append(ComponentLink([cid_of(k) for k in st[1]], ComponentID("u"), using=f))
                sx_steps.append(["fn", list(st[1]), st[2], bool(st[3])])
            elif kind == "cmd":
                if len(st) > 4 and st[4] is not None:
                    refd = refdicts[st[4]]          # the caller's dict object, passed once more
                    assert all(refd[lab] is cid_of(k) for lab, k in st[2])
                else:
                    refd = dict((lab, cid_of(k)) for lab, k in st[2])
                refdicts.append(refd)
                cmds.append(ParsedCommand(st[1], refd))
                sx_steps.append(["cmd"] + sx_link(["X", st[1], st[2]], T)[1:])
            elif kind == "pl":
                objs.append(ParsedComponentLink(ComponentID("p"), cmds[st[1]]))
                sx_steps.append(["pl", st[1]])
            elif kind in ("add", "radd"):
                cid = cid_of(st[1])
                link = objs[st[2]]
                try:
                    if kind == "radd":
                        link.set_to_id(cid)
                        dc = DerivedComponent(b.data, link)
                        b.keep.append(dc)
                        b.data.add_component(dc, cid)
                    else:
                        b.data.add_component_link(link, cid)
                except ValueError:
                    err = "value-error"
                sx_steps.append([kind, st[1], st[2]])
            elif kind == "remove":
                try:
                    b.data.remove_component(cid_of(st[1]))
                except ValueError:
                    err = "value-error"
                sx_steps.append(["remove", st[1]])
                valued = True
            elif kind == "update":
                try:
                    b.data.update_id(cid_of(st[1]), cid_of(st[2]))
                except ValueError:
                    err = "value-error"
                sx_steps.append(["update", st[1], st[2]])
                valued = True
            keys = [b.key_of(c) for c in b.data.components]
            if err:
                obs.append([err, [keys, values(), from_ids()]])
            elif valued:
                obs.append([keys, values(), from_ids()])
            else:
                obs.append([keys, "-", from_ids()])
        self._aux = (sx_steps, T)
        self._keep = (b, objs, cmds)
        return [obs, values(), from_ids()]

    def line(self, case, pyout):
        aux = self._aux
        if aux is None:
            return sx(["obj", [list(case["shape"]), [], [], "arith", []], pyout])
        sx_steps, T = aux
        nd = len(case["shape"])
        init = []
        for i in range(nd):
            arr = np.broadcast_to(np.arange(case["shape"][i], dtype=np.int64).reshape([-1 if j == i else 1 for j in range(nd)]), tuple(case["shape"]))
            init.append([PIX0 + i, ["C"] + canon_arr(arr, T)])
        return sx(["obj", [list(case["shape"]), init, sx_steps, "arith", []], pyout])

    def nontrivial(self, case, po):
        return any(s[0] in ("remove", "update") for s in case["steps"]) and \
            any(s[0] == "bin" and (s[2][0] == "o" or s[3][0] == "o") for s in case["steps"])

    def signature(self, case, po, res):
        kinds = sorted(set(s[0] for s in case["steps"]))
        return {"steps": "+".join(kinds)}

    def shrink(self, case):
        """Drop one step (renumbering the link objects / commands the later steps name)."""
        steps = case["steps"]
        for i in range(len(steps) - 1, 0, -1):
            st = steps[i]
            made_obj = st[0] in ("bin", "fn", "pl")
            made_cmd = st[0] == "cmd"
            oi = sum(1 for x in steps[:i] if x[0] in ("bin", "fn", "pl"))
            ci = sum(1 for x in steps[:i] if x[0] == "cmd")
            out, ok = [], True
            for x in steps[:i] + steps[i + 1:]:
                x = [list(y) if isinstance(y, list) else y for y in x]
                if x[0] == "bin":
                    for j in (2, 3):
                        if x[j][0] == "o" and made_obj:
                            if x[j][1] == oi:
                                ok = False
                            elif x[j][1] > oi:
                                x[j] = ["o", x[j][1] - 1]
                elif x[0] in ("add", "radd") and made_obj:
                    if x[2] == oi:
                        ok = False
                    elif x[2] > oi:
                        x[2] -= 1
                elif x[0] == "pl" and made_cmd:
                    if x[1] == ci:
                        ok = False
                    elif x[1] > ci:
                        x[1] -= 1
                elif x[0] == "cmd" and made_cmd and len(x) > 4 and x[4] is not None:
                    if x[4] == ci:
                        ok = False
                    elif x[4] > ci:
                        x[4] -= 1
                out.append(x)
            if ok:
                yield dict(case, steps=out)


PROP = Property(
    id="C14",
    title="Derived attributes compute their defining expression and go with their inputs",
    theorems=["C14.binary_compute_elementwise", "C14.expr_eval", "C14.link_compute_elementwise",
              "C14.getitem_elementwise", "C14.getitem_view_commutes",
              "C14.remove_closure", "C14.depClosure_iff_reach", "C14.remove_keeps_inputs", "C14.remove_absent", "C14.remove_spec",
              "C14.reorder_is_permutation", "C14.remove_order_invariant", "C14.reorder_preserves_values",
              "C14.update_id_preserves_order", "C14.update_id_preserves_values",
              "C14.refusal_exact", "C14.refused_changes_nothing", "C14.call_refines_spec",
              "C14.update_id_breaks_dependents", "C14.parse_print",
              "C14.build_no_aliasing", "C14.heap_remove_closure", "C14.heap_getitem_elementwise",
              "C14.heap_update_id_preserves", "C14.heap_update_visits_once", "C14.heap_calls_keep_invariant",
              "C14.shared_list_breaks_remove"],
    families=[GramFam(), Bcl(), ExprFam(), ArithFam(), ULink(), ParsedFam(), HistFam(), ObjFam()],
    trusted_base=[
        "numpy ufuncs are pure elementwise functions of (dtype, bit pattern) independent of array layout (`**` is only generated on operands whose result is exact, because numpy's SIMD and scalar pow differ in the last bit otherwise); numpy basic indexing, broadcast_to/broadcast_arrays striding (L0 model in Model/Derived.lean, the zero-stride pattern of results is compared in the bcl family)",
        "Python's expression evaluator and the tag regex of glue.core.parse (the Lean lexer/parser is compared with Python's own parser in the gram family)",
        "the reference evaluation in harness/props/c14.py only tabulates the operators' graphs (numpy applied to the full arrays); every verdict is computed by the Lean Spec",
        "Python object identity / list mutation semantics as modelled by the heap of Model/DerivedHeap.lean (link objects, their _from list objects, ParsedCommand objects); `link.get_from_ids()` of every link object ever created is compared after every step of the obj family",
    ],
    assumptions=["pixel / world component values are inputs (read from the real dataset); their correctness is C04/C15"],
    rule="exhaustive: all zero-stride patterns x operators x operand kinds (bcl), all leaf pairs x operators at depth 1 and all views of a fixed tree (expr/arith), all insertion orders of a 5-node dependency pattern x every removal, every component order (reorder_components / derived components added before their inputs) of chains of depth 2-3, a diamond, a pixel input and a cyclic pair x link kinds x every removal, the refused calls (pixel component as removal victim, update_id onto stored / pixel / derived ids from a stored, derived, pixel or unknown id, add_component across kinds) on every insertion order (hist); link OBJECTS (obj): sub-link kind (binary / user function / parsed) x 8 re-use patterns (left, right, same object twice, both sides, nested to depth 3, with constants, diamond) x which objects back a derived attribute x every removal / update_id of an input or of the shared attribute, two parsed links on one command, two commands from one reference dict; seeded random trees to depth 3/5 (40% with hash-consed subtrees and link objects as operands), user functions, command strings, histories and object programs beyond; non-trivial = result with more than one element / history with a removal, update_id or reorder / object program with a re-used link object and a removal or update_id",
)

for _f, _share in zip(PROP.families, (0.4, 1.0, 2.0, 1.0, 0.7, 1.5, 1.2, 1.2)):
    _f.budget_share = _share
