"""C12 — every serialisation protocol version ever registered still loads what it saved."""
import itertools
import json
import os
import subprocess
import sys

from harness import core
from harness.core import Family, Property, use_repo, sx, VERIF, REPO

use_repo()
import warnings  # noqa: E402

warnings.simplefilter("ignore")
import numpy as np  # noqa: E402
from glue.core import state as S  # noqa: E402
from glue.core.state import GlueSerializer, GlueUnSerializer, VersionedDict  # noqa: E402
from glue.utils import lookup_class  # noqa: E402


# ------------------------------------------------------------------------------------------
# findings: KNOWN_FINDINGS.json is assembled from props.d/ by the integrator; until then (and
# in a builder worktree) read this property's fragment as well.  Entries are merged by id.
# ------------------------------------------------------------------------------------------

_orig_load_findings = core.load_findings


def _load_findings(prop_id):
    got = list(_orig_load_findings(prop_id))
    if prop_id != "C12":
        return got
    frag = os.path.join(VERIF, "props.d", "C12", "findings.json")
    try:
        extra = json.load(open(frag))
    except Exception:
        extra = []
    have = {f.get("id") for f in got}
    return got + [f for f in extra if f.get("property") == "C12" and f.get("id") not in have]


core.load_findings = _load_findings


# ------------------------------------------------------------------------------------------
# translator
# ------------------------------------------------------------------------------------------

def pre_build():
    """Regenerate lean/GlueVerif/Generated/C12Tables.lean from the tree under test (in a
    subprocess: the translator imports every module of the package)."""
    env = dict(os.environ)
    env["GLUE_REPO"] = REPO
    env.setdefault("MPLBACKEND", "Agg")
    p = subprocess.run([sys.executable, "-m", "harness.translate.c12"], cwd=VERIF, env=env,
                       capture_output=True, text=True, timeout=600)
    if p.returncode != 0:
        raise RuntimeError("translator exit %s: %s" % (p.returncode, (p.stdout + p.stderr)[-800:]))


def qual(t):
    return "%s.%s" % (getattr(t, "__module__", "?"), getattr(t, "__qualname__", getattr(t, "__name__", repr(t))))


# ------------------------------------------------------------------------------------------
# VersionedDict op sequences
# ------------------------------------------------------------------------------------------

KEYS = ["a", "b", "c"]


def _probe(keys):
    out = []
    for k in keys:
        out += [["contains", k], ["getitem", k], ["getv", k, None], ["getv", k, 1], ["getv", k, 2], ["getv", k, 3]]
    out.append(["len"])
    return out


class VDict(Family):
    """Op sequences on the real VersionedDict vs the Lean state machine (Impl) and Spec."""
    name = "vdict"
    exhaustive = True
    batch = 1500
    budget_share = 1.0

    def cases(self, tier, rng):
        keys = KEYS[:2]
        vers = [0, 1, 2, 3, "bad"] if tier == "quick" else [-1, 0, 1, 2, 3, "bad"]
        alpha = []
        for k in keys:
            for v in vers:
                alpha.append(("set", k, v))
        alpha += [("getitem", "a"), ("getv", "a", None), ("getv", "a", 2), ("getv", "b", 1), ("contains", "b"),
                  ("len",), ("del", "a"), ("setbad", "a")]
        L = 3 if tier == "quick" else 4
        for n in range(0, L + 1):
            for seq in itertools.product(alpha, repeat=n):
                ops, val = [], 10
                for o in seq:
                    if o[0] == "set":
                        ops.append(["set", o[1], o[2], val])
                        val += 1
                    else:
                        ops.append(list(o))
                yield ops + _probe(keys)
        # random longer histories, mostly valid registrations (next version of some key)
        nr = 3000 if tier == "quick" else 60000
        for _ in range(nr):
            n = rng.randint(4, 16)
            cnt = {k: 0 for k in KEYS}
            ops = []
            for i in range(n):
                r = rng.random()
                k = rng.choice(KEYS)
                if r < 0.55:
                    v = cnt[k] + 1
                    cnt[k] += 1
                    ops.append(["set", k, v, rng.randint(-50, 50)])
                elif r < 0.75:
                    v = rng.choice([cnt[k], cnt[k] + 2, 0, -1, 1, "bad", cnt[k] - 1, 7])
                    if v == cnt[k] + 1 and isinstance(v, int) and v >= 1:
                        cnt[k] += 1
                    ops.append(["set", k, v, rng.randint(-50, 50)])
                elif r < 0.85:
                    ops.append(["getv", k, rng.choice([None, 1, 2, 3, 0, cnt[k], cnt[k] + 1])])
                elif r < 0.92:
                    ops.append(["getitem", k])
                else:
                    ops.append(rng.choice([["contains", k], ["len"], ["del", k], ["setbad", k]]))
            yield ops + _probe(KEYS)

    def run_impl(self, case):
        d = VersionedDict()
        out = []
        for op in case:
            try:
                kind = op[0]
                if kind == "set":
                    d[op[1], ("x" if op[2] == "bad" else op[2])] = op[3]
                    r = "done"
                elif kind == "setbad":
                    d[(op[1], 1, 2)] = 0
                    r = "done"
                elif kind == "getv":
                    r = ["val", d.get_version(op[1], op[2])]
                elif kind == "getitem":
                    v, ver = d[op[1]]
                    r = ["pair", v, ver]
                elif kind == "contains":
                    r = op[1] in d
                elif kind == "len":
                    r = ["n", len(d)]
                elif kind == "del":
                    del d[op[1]]
                    r = "done"
                else:
                    raise RuntimeError("bad op")
            except KeyError:
                r = "key-error"
            except ValueError:
                r = "value-error"
            out.append(r)
        return out

    def line(self, case, pyout):
        ops = [[o[0]] + [("bad" if x == "bad" else x) for x in o[1:]] for o in case]
        return sx(["vdict", ops, pyout])

    def nontrivial(self, case, po):
        return any(o[0] == "set" for o in case)

    def signature(self, case, po, res):
        sig = {}
        if any(o[0] == "set" and isinstance(o[2], int) and o[2] < 1 for o in case):
            sig["construct"] = "nonpositive-version"
        elif any(o[0] == "set" for o in case):
            sig["construct"] = "refused-set-or-lookup"
        return sig

    def shrink(self, case):
        n = len(case)
        for i in range(n):
            yield case[:i] + case[i + 1:]


# ------------------------------------------------------------------------------------------
# live tables == generated tables
# ------------------------------------------------------------------------------------------

class Tables(Family):
    """The registries and PATH_PATCHES of *this* process against the generated Lean tables the
    theorems were checked on (and the translator's name interning, re-checked by the driver)."""
    name = "tables"
    exhaustive = True
    max_jobs = 1

    def cases(self, tier, rng):
        yield "live"

    def run_impl(self, case):
        sav = [[qual(t), list(vs)] for t, vs in GlueSerializer.dispatch._data.items()]
        lod = [[qual(t), list(vs)] for t, vs in GlueUnSerializer.dispatch._data.items()]
        pat = [[k, v] for k, v in S.PATH_PATCHES.items()]
        return [sav, lod, pat]


# ------------------------------------------------------------------------------------------
# dispatch: a save uses the newest version, loaders exist for the same versions
# ------------------------------------------------------------------------------------------

class Dispatch(Family):
    name = "dispatch"
    exhaustive = True
    max_jobs = 1

    def setup(self):
        self.types = {qual(t): t for t in GlueSerializer.dispatch._data}

    def cases(self, tier, rng):
        self.setup()
        for n in self.types:
            yield n

    def run_impl(self, case):
        t = self.types[case]
        sd, ld = GlueSerializer.dispatch, GlueUnSerializer.dispatch
        fn, newest = sd[t]
        svers = list(sd._data[t])
        fn_ok = fn is sd.get_version(t, newest) and fn is sd.get_version(t)
        if t in ld._data and len(ld._data[t]):
            lvers = list(ld._data[t])
            for v in lvers:
                assert callable(ld.get_version(t, v))
        else:
            lvers = None
        try:
            sd.get_version(t, newest + 1)
            nxt = False
        except KeyError:
            nxt = True
        return [newest, bool(fn_ok), svers, lvers, nxt]

    def nontrivial(self, case, po):
        return isinstance(po, list) and len(po[2]) > 1


# ------------------------------------------------------------------------------------------
# lookup_class_with_patches vs the model chase
# ------------------------------------------------------------------------------------------

class Patch(Family):
    name = "patch"
    exhaustive = True
    max_jobs = 1
    case_timeout = 10.0

    def cases(self, tier, rng):
        P = S.PATH_PATCHES
        seen = []
        for k, v in P.items():
            for n in (k, v):
                if n not in seen:
                    seen.append(n)
        for n in seen:
            yield n
        for n in ["glue.core.data.Data", "glue.core.subset.AndState", "glue.core.roi.RectangularROI",
                  "glue.core.component.Component", "builtins.dict", "numpy.ndarray",
                  "glue.core.coordinates.IdentityCoordinates", "glue.no_such_module.Thing",
                  "glue.core.data.NoSuchClass"]:
            yield n

    def run_impl(self, case):
        calls = []
        real = S.lookup_class

        def spy(ref):
            calls.append(ref)
            return real(ref)
        S.lookup_class = spy
        try:
            try:
                S.lookup_class_with_patches(case)
                status = "ok"
            except ValueError:
                status = "value-error"
        finally:
            S.lookup_class = real
        if len(calls) != 1:
            return ["no-single-lookup", status]
        return [calls[0], status]

    def nontrivial(self, case, po):
        return case in S.PATH_PATCHES

    def signature(self, case, po, res):
        br = res.get("br", "")
        if br == "captured-listed":
            return {"construct": "captured-live-class-listed-in-F12"}
        if br == "captured-unlisted":
            return {"construct": "captured-live-class-NOT-listed", "key": case}
        return {"construct": str(br)}


PROP = Property(
    id="C12",
    title="Every serialisation protocol version ever registered still loads what it saved",
    theorems=[
        "C12.versioned_inv", "C12.versioned_set", "C12.versioned_never_overwritten",
        "C12.versioned_refines_spec", "C12.save_uses_newest", "C12.orig_set_violates_inv",
        "C12.chase_terminates_of_check", "C12.chase_acyclic_of_check", "C12.chase_deterministic",
        "C12.patches_terminate", "C12.patches_acyclic", "C12.patches_fixpoint_not_key",
        "C12.patch_keys_unique", "C12.patch_targets_importable", "C12.no_capture_partial",
        "C12.no_capture_witness_F12", "C12.registry_consecutive", "C12.saver_loader_versions_match",
        "C12.save_uses_newest_table", "C12.registry_keys_unique",
    ],
    families=[Tables(), Dispatch(), Patch(), VDict()],
    pre_build=pre_build,
    trusted_base=[
        "harness/translate/c12.py reads the registries, PATH_PATCHES and the class table off the imported package and interns names (interning and the inside-'glue.' flags are re-checked by the compiled driver on every run, the live tables of the harness process are compared with the generated ones)",
        "json, base64, np.save/np.load are trusted codecs",
    ],
    assumptions=["old-format records are produced by this tree's own version-v savers (dispatch.get_version(type, v)), as the property prescribes"],
    rule="VersionedDict: every op sequence of length <= 3 (quick) / 4 (thorough) over 2 keys x versions {0,1,2,3,bad} + queries, each followed by a full probe of the state, plus seeded random histories of length 4-16 over 3 keys; tables/dispatch/patch: every row of the live registries and every name of the rename table; non-trivial = at least one set / a multi-version type / a table key",
)
