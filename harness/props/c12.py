"""C12 — every serialisation protocol version ever registered still loads what it saved."""
import itertools
import json
import os
import subprocess
import sys

from harness import core
from harness.core import Family, Property, use_repo, sx, VERIF, REPO

use_repo()
import warnings  # noqa: E402

warnings.simplefilter("ignore")
import numpy as np  # noqa: E402
from glue.core import state as S  # noqa: E402
from glue.core.state import GlueSerializer, GlueUnSerializer, VersionedDict  # noqa: E402
from glue.utils import lookup_class  # noqa: E402


# ------------------------------------------------------------------------------------------
# findings: KNOWN_FINDINGS.json is assembled from props.d/ by the integrator; until then (and
# in a builder worktree) read this property's fragment as well.  Entries are merged by id.
# ------------------------------------------------------------------------------------------

_orig_load_findings = core.load_findings


def _load_findings(prop_id):
    got = list(_orig_load_findings(prop_id))
    if prop_id != "C12":
        return got
    frag = os.path.join(VERIF, "props.d", "C12", "findings.json")
    try:
        extra = json.load(open(frag))
    except Exception:
        extra = []
    have = {f.get("id") for f in got}
    return got + [f for f in extra if f.get("property") == "C12" and f.get("id") not in have]


core.load_findings = _load_findings


# ------------------------------------------------------------------------------------------
# translator
# ------------------------------------------------------------------------------------------

def pre_build():
    """Regenerate lean/GlueVerif/Generated/C12Tables.lean from the tree under test (in a
    subprocess: the translator imports every module of the package)."""
    env = dict(os.environ)
    env["GLUE_REPO"] = REPO
    env.setdefault("MPLBACKEND", "Agg")
    p = subprocess.run([sys.executable, "-m", "harness.translate.c12"], cwd=VERIF, env=env,
                       capture_output=True, text=True, timeout=600)
    if p.returncode != 0:
        raise RuntimeError("translator exit %s: %s" % (p.returncode, (p.stdout + p.stderr)[-800:]))


def qual(t):
    return "%s.%s" % (getattr(t, "__module__", "?"), getattr(t, "__qualname__", getattr(t, "__name__", repr(t))))


# ------------------------------------------------------------------------------------------
# VersionedDict op sequences
# ------------------------------------------------------------------------------------------

KEYS = ["a", "b", "c"]


def _probe(keys):
    out = []
    for k in keys:
        out += [["contains", k], ["getitem", k], ["getv", k, None], ["getv", k, 1], ["getv", k, 2], ["getv", k, 3]]
    out.append(["len"])
    return out


class VDict(Family):
    """Op sequences on the real VersionedDict vs the Lean state machine (Impl) and Spec."""
    name = "vdict"
    exhaustive = True
    batch = 1500
    budget_share = 1.0

    def cases(self, tier, rng):
        keys = KEYS[:2]
        vers = [0, 1, 2, 3, "bad"] if tier == "quick" else [-1, 0, 1, 2, 3, "bad"]
        alpha = []
        for k in keys:
            for v in vers:
                alpha.append(("set", k, v))
        alpha += [("getitem", "a"), ("getv", "a", None), ("getv", "a", 2), ("getv", "b", 1), ("contains", "b"),
                  ("len",), ("del", "a"), ("setbad", "a")]
        L = 3 if tier == "quick" else 4
        for n in range(0, L + 1):
            for seq in itertools.product(alpha, repeat=n):
                ops, val = [], 10
                for o in seq:
                    if o[0] == "set":
                        ops.append(["set", o[1], o[2], val])
                        val += 1
                    else:
                        ops.append(list(o))
                yield ops + _probe(keys)
        # random longer histories, mostly valid registrations (next version of some key)
        nr = 3000 if tier == "quick" else 60000
        for _ in range(nr):
            n = rng.randint(4, 16)
            cnt = {k: 0 for k in KEYS}
            ops = []
            for i in range(n):
                r = rng.random()
                k = rng.choice(KEYS)
                if r < 0.55:
                    v = cnt[k] + 1
                    cnt[k] += 1
                    ops.append(["set", k, v, rng.randint(-50, 50)])
                elif r < 0.75:
                    v = rng.choice([cnt[k], cnt[k] + 2, 0, -1, 1, "bad", cnt[k] - 1, 7])
                    if v == cnt[k] + 1 and isinstance(v, int) and v >= 1:
                        cnt[k] += 1
                    ops.append(["set", k, v, rng.randint(-50, 50)])
                elif r < 0.85:
                    ops.append(["getv", k, rng.choice([None, 1, 2, 3, 0, cnt[k], cnt[k] + 1])])
                elif r < 0.92:
                    ops.append(["getitem", k])
                else:
                    ops.append(rng.choice([["contains", k], ["len"], ["del", k], ["setbad", k]]))
            yield ops + _probe(KEYS)

    def run_impl(self, case):
        d = VersionedDict()
        out = []
        for op in case:
            try:
                kind = op[0]
                if kind == "set":
                    d[op[1], ("x" if op[2] == "bad" else op[2])] = op[3]
                    r = "done"
                elif kind == "setbad":
                    d[(op[1], 1, 2)] = 0
                    r = "done"
                elif kind == "getv":
                    r = ["val", d.get_version(op[1], op[2])]
                elif kind == "getitem":
                    v, ver = d[op[1]]
                    r = ["pair", v, ver]
                elif kind == "contains":
                    r = op[1] in d
                elif kind == "len":
                    r = ["n", len(d)]
                elif kind == "del":
                    del d[op[1]]
                    r = "done"
                else:
                    raise RuntimeError("bad op")
            except KeyError:
                r = "key-error"
            except ValueError:
                r = "value-error"
            out.append(r)
        return out

    def line(self, case, pyout):
        ops = [[o[0]] + [("bad" if x == "bad" else x) for x in o[1:]] for o in case]
        return sx(["vdict", ops, pyout])

    def nontrivial(self, case, po):
        return any(o[0] == "set" for o in case)

    def signature(self, case, po, res):
        sig = {}
        if any(o[0] == "set" and isinstance(o[2], int) and o[2] < 1 for o in case):
            sig["construct"] = "nonpositive-version"
        elif any(o[0] == "set" for o in case):
            sig["construct"] = "refused-set-or-lookup"
        return sig

    def shrink(self, case):
        n = len(case)
        for i in range(n):
            yield case[:i] + case[i + 1:]


# ------------------------------------------------------------------------------------------
# live tables == generated tables
# ------------------------------------------------------------------------------------------

class Tables(Family):
    """The registries and PATH_PATCHES of *this* process against the generated Lean tables the
    theorems were checked on (and the translator's name interning, re-checked by the driver)."""
    name = "tables"
    exhaustive = True
    max_jobs = 1

    def cases(self, tier, rng):
        yield "live"

    def run_impl(self, case):
        sav = [[qual(t), list(vs)] for t, vs in GlueSerializer.dispatch._data.items()]
        lod = [[qual(t), list(vs)] for t, vs in GlueUnSerializer.dispatch._data.items()]
        pat = [[k, v] for k, v in S.PATH_PATCHES.items()]
        return [sav, lod, pat]


# ------------------------------------------------------------------------------------------
# dispatch: a save uses the newest version, loaders exist for the same versions
# ------------------------------------------------------------------------------------------

class Dispatch(Family):
    name = "dispatch"
    exhaustive = True
    max_jobs = 1

    def setup(self):
        self.types = {qual(t): t for t in GlueSerializer.dispatch._data}

    def cases(self, tier, rng):
        self.setup()
        for n in self.types:
            yield n

    def run_impl(self, case):
        t = self.types[case]
        sd, ld = GlueSerializer.dispatch, GlueUnSerializer.dispatch
        fn, newest = sd[t]
        svers = list(sd._data[t])
        fn_ok = fn is sd.get_version(t, newest) and fn is sd.get_version(t)
        if t in ld._data and len(ld._data[t]):
            lvers = list(ld._data[t])
            for v in lvers:
                assert callable(ld.get_version(t, v))
        else:
            lvers = None
        try:
            sd.get_version(t, newest + 1)
            nxt = False
        except KeyError:
            nxt = True
        return [newest, bool(fn_ok), svers, lvers, nxt]

    def nontrivial(self, case, po):
        return isinstance(po, list) and len(po[2]) > 1


# ------------------------------------------------------------------------------------------
# lookup_class_with_patches vs the model chase
# ------------------------------------------------------------------------------------------

import types  # noqa: E402
import importlib.util  # noqa: E402


def _patch_names():
    out = []
    for k, v in S.PATH_PATCHES.items():
        for n in (k, v):
            if n not in out:
                out.append(n)
    return out


def _importable(names):
    """the environment: which names `lookup_class` (un-patched) finds right now"""
    ok = []
    for n in names:
        try:
            lookup_class(n)
            ok.append(n)
        except ValueError:
            pass
    return ok


def _install_stubs():
    """Simulate an environment in which the external packages the table points to (glue_qt, ...) are
    installed: for every patch target outside `glue.` whose top-level package does not exist here, a
    stub module chain is put into sys.modules and the target attribute is a fresh class.
    -> names of the modules added"""
    added = []
    for t in _patch_names():
        if t.startswith("glue.") or "." not in t:
            continue
        mod, attr = t.rsplit(".", 1)
        parts = mod.split(".")
        top = parts[0]
        if top not in added and (top in sys.modules or importlib.util.find_spec(top) is not None):
            continue  # really installed: leave it alone
        for i in range(1, len(parts) + 1):
            name = ".".join(parts[:i])
            if name not in sys.modules:
                m = types.ModuleType(name)
                m.__path__ = []
                sys.modules[name] = m
                added.append(name)
                if i > 1:
                    setattr(sys.modules[".".join(parts[:i - 1])], parts[i - 1], m)
        if not hasattr(sys.modules[mod], attr):
            setattr(sys.modules[mod], attr, type(attr, (), {"__module__": mod}))
    return added


def _remove_stubs(added):
    for name in added:
        sys.modules.pop(name, None)


class Patch(Family):
    """The real `lookup_class_with_patches` under two environments: the one of this machine, and one in
    which the external packages the table redirects to are importable (stub modules in sys.modules).
    Observed: the names handed to `lookup_class` (recording spy around the module attribute), whether
    a ValueError came out, and under which name the returned object was found."""
    name = "patch"
    exhaustive = True
    max_jobs = 1
    case_timeout = 20.0
    _env = {}

    def cases(self, tier, rng):
        for n in _patch_names():
            yield n
        for n in ["glue.core.data.Data", "glue.core.subset.AndState", "glue.core.roi.RectangularROI",
                  "glue.core.component.Component", "builtins.dict", "numpy.ndarray",
                  "glue.core.coordinates.IdentityCoordinates", "glue.no_such_module.Thing",
                  "glue.core.data.NoSuchClass"]:
            yield n

    def _situation(self, case, tag):
        if tag not in Patch._env:
            Patch._env[tag] = _importable(_patch_names())
        env = list(Patch._env[tag])
        if case not in env and _importable([case]):
            env.append(case)
        calls = []
        real = S.lookup_class

        def spy(ref):
            try:
                obj = real(ref)
            except ValueError:
                calls.append([ref, False])
                raise
            calls.append([ref, True])
            return obj
        S.lookup_class = spy
        try:
            try:
                obj = S.lookup_class_with_patches(case)
                status = "ok"
            except ValueError:
                obj = None
                status = "value-error"
        finally:
            S.lookup_class = real
        result = None
        if status == "ok":
            # the name under which the returned object was found (identity with what lookup_class gives)
            for ref, ok in calls:
                if ok and real(ref) is obj:
                    result = ref
            if result is None:
                result = "not-from-lookup-class"
        return [env, [c[0] for c in calls], status, result]

    def run_impl(self, case):
        a = self._situation(case, "here")
        added = _install_stubs()
        try:
            b = self._situation(case, "stubbed")
        finally:
            _remove_stubs(added)
        return [a, b]

    def nontrivial(self, case, po):
        return case in S.PATH_PATCHES

    def signature(self, case, po, res):
        br = res.get("br", "")
        if br == "captured-listed":
            return {"construct": "captured-live-class-listed-in-F12"}
        if br == "captured-unloadable":
            return {"construct": "captured-live-class-unloadable", "key": case}
        if br == "captured-unlisted":
            return {"construct": "captured-live-class-NOT-listed", "key": case}
        return {"construct": str(br)}


# ------------------------------------------------------------------------------------------
# round trips: save with the saver of version v, load through GlueUnSerializer
# ------------------------------------------------------------------------------------------

import gc  # noqa: E402
from glue.core import Data, DataCollection, ComponentID, ComponentLink  # noqa: E402
from glue.core.component_link import BinaryComponentLink, CoordinateComponentLink  # noqa: E402
from glue.core.registry import Registry  # noqa: E402
from glue.core.link_helpers import LinkSame, LinkTwoWay, MultiLink, LinkAligned, PartialResult  # noqa: E402
from glue.core.subset import RangeSubsetState, AndState, OrState, InvertState  # noqa: E402
from glue.core.exceptions import IncompatibleAttribute  # noqa: E402
from glue.core.coordinates import IdentityCoordinates  # noqa: E402
from harness.props import c12_linkfns as LF  # noqa: E402

PALETTE = ['#595959', '#ff0000', '#00ff00', '#0000ff', '#123456']
CATS = ['a', 'b', 'c', 'd']
PIX = 'Pixel_Axis_0_[x]'
WORLD = 'World_0'


class VersionedSerializer(GlueSerializer):
    """GlueSerializer that writes the types in `force` with `dispatch.get_version(type, v)` and the
    individual objects in `force_obj` (id(obj) -> v) with the version chosen for *that object*; the
    record is tagged `_protocol=v` by GlueSerializer.do exactly as for the newest version."""

    def __init__(self, obj, force, force_obj=None, **kw):
        self.force = force
        self.force_obj = force_obj or {}
        super().__init__(obj, **kw)

    def _dispatch(self, obj):
        if hasattr(obj, '__gluestate__'):
            return super()._dispatch(obj)
        for typ in type(obj).mro():
            if typ in self.dispatch:
                if id(obj) in self.force_obj:
                    v = self.force_obj[id(obj)]
                    return self.dispatch.get_version(typ, v), v
                if typ in self.force:
                    v = self.force[typ]
                    return self.dispatch.get_version(typ, v), v
                break
        return super()._dispatch(obj)


def _lab(sv):
    return str(sv).replace(' ', '_')


def _build_state(st, d):
    k = st[0]
    if k == 'gt':
        return d.id[st[1]] > st[2]
    if k == 'range':
        return RangeSubsetState(st[2], st[3], d.id[st[1]])
    if k == 'and':
        return AndState(_build_state(st[1], d), _build_state(st[2], d))
    if k == 'or':
        return OrState(_build_state(st[1], d), _build_state(st[2], d))
    if k == 'not':
        return InvertState(_build_state(st[1], d))
    raise ValueError(k)


def _set_style(style, sv):
    style.color = PALETTE[sv[0]]
    style.markersize = sv[1]
    style.alpha = sv[2] / 4.0


def _cid(ds, ref):
    d = ds[ref[0]]
    if ref[1] == PIX:
        return d.pixel_component_ids[0]
    if ref[1] == WORLD:
        return d.world_component_ids[0]
    return d.id[ref[1]]


def _fn(name):
    if name is None:
        return None
    if name == 'identity':
        from glue.core.link_helpers import identity
        return identity
    return getattr(LF, name)


def build_link(spec, ds):
    """one entry of dc.external_links from its recipe spelling"""
    if not isinstance(spec[0], str):          # round-1 spelling (i, a, j, b) of LinkSame
        i, a, j, b = spec
        return LinkSame(ds[i].id[a], ds[j].id[b])
    k = spec[0]
    if k == 'same':
        return LinkSame(_cid(ds, spec[1]), _cid(ds, spec[2]))
    if k == 'cl':
        return ComponentLink([_cid(ds, r) for r in spec[1]], _cid(ds, spec[2]), using=_fn(spec[3]), inverse=_fn(spec[4]))
    if k == 'two':
        return LinkTwoWay(_cid(ds, spec[1]), _cid(ds, spec[2]), _fn(spec[3]), _fn(spec[4]))
    if k == 'pair':
        return LF.PairLink(cids1=[_cid(ds, spec[1]), _cid(ds, spec[2])], cids2=[_cid(ds, spec[3]), _cid(ds, spec[4])])
    if k == 'multi':
        return MultiLink([_cid(ds, spec[1]), _cid(ds, spec[2])], [_cid(ds, spec[3]), _cid(ds, spec[4])],
                         forwards=LF.pair_fw, backwards=LF.pair_bw)
    if k == 'aligned':
        return LinkAligned(ds[spec[1]], ds[spec[2]])
    raise ValueError(k)


def build_dc(recipe, cv):
    datas, sels, links, joins, sgc = recipe
    ds = []
    for (label, comps, derived, style, meta, coords) in datas:
        d = Data(label=label)
        for (cl, kind, vals) in comps:
            if kind == 'int':
                d.add_component(np.array(vals, dtype=np.int64), cl)
            elif kind == 'half':
                d.add_component(np.array(vals, dtype=float) / 2, cl)
            else:
                d.add_component(np.array([CATS[v] for v in vals]), cl)
        if coords == 'id':
            d.coords = IdentityCoordinates(n_dim=1)
        for der in derived:
            if der[1] == 'dbl':
                d[der[0]] = d.id[der[2]] * 2
            elif der[1] == 'sum':
                d[der[0]] = d.id[der[2]] + d.id[der[3]]
            else:   # a user function on components of this dataset
                srcs = [d.id[x] for x in der[3:]]
                d.add_component_link(ComponentLink(srcs, ComponentID(der[0]), using=_fn(der[2])), der[0])
        _set_style(d.style, style)
        for k, v in meta:
            d.meta[k] = v
        ds.append(d)
    dc = DataCollection(ds)
    for spec in links:
        dc.add_link(build_link(spec, ds))
    for (i, aa, j, bb) in joins:
        ds[i].join_on_key(ds[j], tuple(aa) if len(aa) > 1 else aa[0], tuple(bb) if len(bb) > 1 else bb[0])
    keep = []
    for (label, di, st, style) in sels:
        state = _build_state(st, ds[di])
        if cv == 1:   # protocol 1 pre-dates subset groups: plain subsets
            sub = ds[di].new_subset(label=label)
            sub.subset_state = state
        else:
            sub = dc.new_subset_group(label=label, subset_state=state)
        _set_style(sub.style, style)
        keep.append(sub)
    dc._sg_count += sgc
    return dc, ds, keep


def _obs_style(st):
    col = PALETTE.index(st.color) if st.color in PALETTE else _lab(st.color)
    a4 = st.alpha * 4
    return [col, st.markersize, int(a4) if a4 == int(a4) else 'frac']


def _obs_vals(arr):
    arr = np.asarray(arr)
    if arr.dtype.kind in 'US':
        return ['cat', [CATS.index(str(x)) for x in arr.ravel()]]
    if arr.dtype.kind in 'iu':
        return ['int', [int(x) for x in arr.ravel()]]
    t = arr.ravel() * 2
    if not np.all(t == np.round(t)):
        return ['inexact', []]
    return ['half', [int(x) for x in t]]


def _ref_atom(dsl, cid):
    """`<dataset index>.<label>` of a component ID of the collection (by identity)"""
    for k, d in enumerate(dsl):
        if any(c is cid for c in d.components):
            return '%d.%s' % (k, _lab(cid.label))
    par = getattr(cid, 'parent', None)
    for k, d in enumerate(dsl):
        if par is d:
            return '%d.%s' % (k, _lab(cid.label))
    return 'nowhere.%s' % _lab(cid.label)


def _fn_name(f):
    if f is None:
        return None
    if isinstance(f, PartialResult):
        return '%s_%d' % (_lab(getattr(f.func, '__name__', 'fn')), f.index + 1)
    return _lab(getattr(f, '__name__', type(f).__name__))


def _obs_clink(dsl, l):
    if isinstance(l, CoordinateComponentLink):
        fn, inv = 'coord', None
    elif isinstance(l, BinaryComponentLink):
        fn, inv = 'binop_' + _lab(getattr(l._op, '__name__', 'op')), None
    else:
        fn, inv = _fn_name(l.get_using()), _fn_name(l.get_inverse())
    return [[_ref_atom(dsl, c) for c in l.get_from_ids()], _ref_atom(dsl, l.get_to_id()), fn, inv]


_HELPER_KIND = {'ComponentLink': 'plain', 'LinkSame': 'same', 'LinkTwoWay': 'two', 'PairLink': 'pair',
                'MultiLink': 'multi', 'LinkAligned': 'aligned'}


def _obs_ext(dsl, l):
    kind = _HELPER_KIND.get(type(l).__name__, _lab(type(l).__name__))
    if isinstance(l, ComponentLink):
        return [kind, [], [], [_obs_clink(dsl, l)]]
    c1 = [_ref_atom(dsl, c) for c in (getattr(l, 'cids1', None) or [])]
    c2 = [_ref_atom(dsl, c) for c in (getattr(l, 'cids2', None) or [])]
    return [kind, c1, c2, sorted([_obs_clink(dsl, x) for x in l], key=sx)]


def observe_dc(dc, orig_ds, cares):
    """cares[k]: is the uuid of dataset k carried by the protocol it was written with"""
    out = []
    dsl = list(dc)
    for k, d in enumerate(dsl):
        main = [[_lab(c.label)] + _obs_vals(d[c]) for c in d.main_components]
        der = [[_lab(c.label)] + _obs_vals(d[c]) for c in d.derived_components]
        subs = []
        for sub in d.subsets:
            try:
                m = [int(x) for x in sub.to_mask().ravel()]
            except IncompatibleAttribute:
                m = 'inc'
            subs.append([_lab(sub.label), m, _obs_style(sub.style)])
        if all(isinstance(a, tuple) and isinstance(b, tuple) for a, b in d._key_joins.values()):
            kj = sorted([[_lab(o.label), [_lab(c.label) for c in a], [_lab(c.label) for c in b]]
                         for o, (a, b) in d._key_joins.items()])
        else:
            kj = 'key-joins-not-tuples'
        meta = sorted([[_lab(k_), _lab(v)] for k_, v in d.meta.items()])
        parents = all(c.parent is d for c in d.main_components)
        coords = 'none' if d.coords is None else type(d.coords).__name__
        world = [_lab(c.label) for c in d.world_component_ids]
        pix = [_lab(c.label) for c in d.pixel_component_ids]
        care = cares[k] if k < len(cares) else True
        if not care:
            uu = None
        else:
            uu = bool(k < len(orig_ds) and d.uuid == orig_ds[k].uuid)
        out.append([_lab(d.label), main, der, subs, _obs_style(d.style), kj, meta, bool(parents), coords, world, pix, uu])
    groups = [[_lab(g.label), _obs_style(g.style)] for g in dc.subset_groups]
    # the link zoo: dc.external_links (helpers with their sub-links), dc.links (every ComponentLink the
    # link manager knows, helpers expanded), and what every dataset can read of the others, with values
    ext = sorted([_obs_ext(dsl, l) for l in dc.external_links], key=sx)
    links = sorted([_obs_clink(dsl, l) for l in dc.links], key=sx)
    acc = []
    for k, d in enumerate(dsl):
        row = []
        for j, e in enumerate(dsl):
            if j == k:
                continue
            for cid in list(e.pixel_component_ids) + list(e.main_components) + list(e.world_component_ids) + list(e.derived_components):
                ref = '%d.%s' % (j, _lab(cid.label))
                try:
                    row.append([ref] + _obs_vals(d[cid]))
                except IncompatibleAttribute:
                    row.append([ref, 'inc'])
        acc.append(row)
    return [out, groups, dc._sg_count, ext, links, acc]


# -- generators ---------------------------------------------------------------------------

UNARY = ['twice', 'plus3', 'minus3', 'neg']
BINARY = ['add2', 'sub2']
INVERTIBLE = [('plus3', 'minus3'), ('minus3', 'plus3'), ('neg', 'neg')]
TWOWAY = [('plus3', 'minus3'), ('twice', 'neg'), ('neg', 'neg'), ('twice', 'plus3')]
LINK_KINDS = ['same', 'same', 'cl1', 'cl1inv', 'clF', 'clM', 'clM', 'two', 'pair', 'multi', 'aligned']


def _mains(datas, k):
    return [c[0] for c in datas[k][1] if c[1] in ('int', 'half')]


def _sources(datas, k):
    return _mains(datas, k) + [d[0] for d in datas[k][2]] + [PIX] + ([WORLD] if datas[k][5] == 'id' else [])


def gen_link(rng, datas, kind, produced):
    """-> (spec, targets) or None.  Generated collections give every component at most ONE
    producing link (forward or inverse), so what a dataset reads through the links does not depend on
    the order in which the link manager discovers them."""
    nd = len(datas)
    i, j = rng.sample(range(nd), 2)
    mi, mj = _mains(datas, i), _mains(datas, j)
    if not mi or not mj:
        return None
    b = [j, rng.choice(mj)]
    if kind == 'same':
        a = [i, rng.choice(mi + [PIX])]
        return ['same', a, b], [a, b]
    if kind == 'cl1':
        return ['cl', [[i, rng.choice(_sources(datas, i))]], b, rng.choice(UNARY), None], [b]
    if kind == 'cl1inv':
        a = [i, rng.choice(mi)]
        f, g = rng.choice(INVERTIBLE + [('identity', 'identity')])
        return ['cl', [a], b, f, g], [a, b]
    if kind == 'clF':      # several inputs, all from other datasets than the output
        src = _sources(datas, i)
        frm = [[i, rng.choice(src)], [i, rng.choice(src)]]
        if nd >= 3 and rng.random() < 0.4:
            m = rng.choice([x for x in range(nd) if x not in (i, j)])
            frm.insert(rng.randint(0, 2), [m, rng.choice(_sources(datas, m))])
            return ['cl', frm, b, 'lin3', None], [b]
        return ['cl', frm, b, rng.choice(BINARY), None], [b]
    if kind == 'clM':      # several inputs, some from the output's own dataset, some from another one
        own = [x for x in _sources(datas, j) if x != b[1]]
        frm = [[j, rng.choice(own)], [i, rng.choice(_sources(datas, i))]]
        if rng.random() < 0.3:
            frm.append(rng.choice([[j, rng.choice(own)], [i, rng.choice(_sources(datas, i))]]))
        rng.shuffle(frm)
        return ['cl', frm, b, 'lin3' if len(frm) == 3 else rng.choice(BINARY), None], [b]
    if kind == 'two':
        a = [i, rng.choice(mi)]
        f, g = rng.choice(TWOWAY)
        return ['two', a, b, f, g], [a, b]
    if kind in ('pair', 'multi'):
        if len(mi) < 2 or len(mj) < 2:
            return None
        a1, a2 = rng.sample(mi, 2)
        b1, b2 = rng.sample(mj, 2)
        refs = [[i, a1], [i, a2], [j, b1], [j, b2]]
        return [kind] + refs, refs
    if kind == 'aligned':
        if len(datas[i][1][0][2]) != len(datas[j][1][0][2]):
            return None
        return ['aligned', i, j], [[i, PIX], [j, PIX]]
    raise ValueError(kind)


def gen_links(rng, datas, n):
    links, produced = [], set()
    for _ in range(n):
        got = gen_link(rng, datas, rng.choice(LINK_KINDS), produced)
        if got is None:
            continue
        spec, targets = got
        keys = [tuple(t) for t in targets]
        if len(set(keys)) != len(keys) or any(k in produced for k in keys):
            continue
        produced.update(keys)
        links.append(spec)
    return links


def gen_recipe(rng, small=False):
    nd = rng.randint(1, 2 if small else 3)
    datas = []
    for k in range(nd):
        n = rng.randint(1, 4 if small else 5)
        comps = []
        for c in range(rng.randint(1, 3)):
            kind = 'int' if c == 0 else rng.choice(['int', 'int', 'half', 'cat'])
            vals = [rng.randint(0, 3) if kind == 'cat' else rng.randint(-3, 6) for _ in range(n)]
            comps.append(['c%d%d' % (k, c), kind, vals])
        derived = []
        nums = [c[0] for c in comps if c[1] in ('int', 'half')]
        for t in range(2):
            if rng.random() < (0.45 if t == 0 else 0.2):
                lab = '%s%d' % ('zt'[t], k)
                r = rng.random()
                if r < 0.3 or (r < 0.5 and len(nums) < 2):
                    derived.append([lab, 'dbl', rng.choice(nums)])
                elif r < 0.5:
                    a, b = rng.sample(nums, 2)
                    derived.append([lab, 'sum', a, b])
                elif r < 0.75:
                    derived.append([lab, 'fn1', rng.choice(UNARY), rng.choice(nums)])
                else:
                    derived.append([lab, 'fn2', rng.choice(BINARY), rng.choice(nums), rng.choice(nums)])
                nums = nums + [lab]        # a derived component may feed the next one
        style = [rng.randint(0, 4), rng.randint(1, 9), rng.randint(0, 4)]
        meta = [['m%d' % i, rng.choice([1, 2, 'txt', 'other'])] for i in range(rng.randint(0, 2))]
        coords = rng.choice(['none', 'none', 'id'])
        datas.append(['d%d' % k, comps, derived, style, meta, coords])

    def st(ints, depth=0):
        r = rng.random()
        if depth < 2 and r < 0.15:
            return ['and', st(ints, depth + 1), st(ints, depth + 1)]
        if depth < 2 and r < 0.25:
            return ['or', st(ints, depth + 1), st(ints, depth + 1)]
        if depth < 2 and r < 0.35:
            return ['not', st(ints, depth + 1)]
        if r < 0.7:
            return ['gt', rng.choice(ints), rng.randint(-2, 5)]
        lo = rng.randint(-3, 4)
        return ['range', rng.choice(ints), lo, lo + rng.randint(0, 4)]
    sels = []
    for i in range(rng.randint(0, 2)):
        di = rng.randrange(nd)
        ints = [c[0] for c in datas[di][1] if c[1] == 'int']
        sels.append(['s%d' % i, di, st(ints), [rng.randint(0, 4), rng.randint(1, 9), rng.randint(0, 4)]])
    links, joins = [], []
    if nd >= 2:
        r = rng.random()
        i, j = rng.sample(range(nd), 2)
        ai = [c[0] for c in datas[i][1] if c[1] == 'int']
        bj = [c[0] for c in datas[j][1] if c[1] == 'int']
        if r < 0.6:
            links = gen_links(rng, datas, rng.choice([1, 1, 2, 2, 3, 4]))
        if r >= 0.45 and r < 0.85:
            m = 2 if (len(ai) >= 2 and len(bj) >= 2 and rng.random() < 0.35) else 1
            joins.append([i, ai[:m], j, bj[:m]])
    return [datas, sels, links, joins, rng.randint(0, 3)]


FIXED_RECIPES = [
    # two datasets, derived component, both selection kinds, a link
    [[['d0', [['x', 'int', [1, 2, 3, 4]], ['y', 'half', [3, 4, 5, 6]], ['c', 'cat', [0, 1, 0, 2]]], [['z', 'dbl', 'x']], [1, 7, 2], [['k', 3], ['s', 'st']], 'none'],
      ['d1', [['u', 'int', [1, 2, 3, 9]], ['w', 'int', [3, 1, 2, 2]]], [], [2, 5, 4], [], 'id']],
     [['s0', 0, ['gt', 'x', 2], [3, 4, 3]], ['s1', 1, ['and', ['gt', 'u', 1], ['not', ['range', 'u', 3, 9]]], [4, 2, 1]]],
     [[0, 'x', 1, 'u']], [], 2],
    # single-component key join
    [[['d0', [['x', 'int', [1, 2, 3, 4]]], [['z', 'sum', 'x', 'x']], [1, 7, 2], [['k', 3]], 'none'],
      ['d1', [['u', 'int', [1, 2, 3]], ['w', 'half', [3, 1, 2]]], [['q', 'sum', 'u', 'w']], [2, 5, 4], [], 'none']],
     [['s0', 0, ['gt', 'x', 2], [3, 4, 3]], ['s1', 1, ['range', 'u', 2, 2], [0, 1, 0]]],
     [], [[1, ['u'], 0, ['x']]], 0],
    # two-component key join
    [[['d0', [['x', 'int', [1, 2, 3, 4]], ['y', 'int', [0, 0, 1, 1]]], [], [0, 3, 4], [], 'none'],
      ['d1', [['u', 'int', [1, 2, 3]], ['w', 'int', [0, 1, 1]]], [], [2, 5, 4], [['m', 'v']], 'none']],
     [['s0', 1, ['or', ['gt', 'u', 2], ['gt', 'w', 0]], [3, 4, 3]]],
     [], [[0, ['x', 'y'], 1, ['u', 'w']]], 1],
    # one bare dataset
    [[['d0', [['x', 'int', [5]]], [], [0, 3, 0], [], 'none']], [], [], [], 0],
]

# the link zoo, one collection per corner (every one is run under all 20 version pairs)
ZOO_RECIPES = [
    # identity helper + a link whose inputs come from the output's own dataset AND from another one
    # (d1.w from d1.u and d0.y; d0 reads d1.u through the identity link, hence also d1.w)
    [[['d0', [['x', 'int', [1, 2, 3]], ['y', 'int', [4, 5, 6]]], [], [1, 7, 2], [], 'none'],
      ['d1', [['u', 'int', [7, 8, 9, 1]], ['w', 'int', [1, 0, 1, 5]]], [], [2, 5, 4], [['m', 'v']], 'none']],
     [['s0', 1, ['gt', 'w', 4], [3, 4, 3]]],
     [['same', [0, 'x'], [1, 'u']], ['cl', [[1, 'u'], [0, 'y']], [1, 'w'], 'add2', None]], [], 0],
    # single input without / with inverse, several inputs all foreign, a chain over three datasets,
    # three inputs from three places (own, foreign, foreign)
    [[['d0', [['x', 'int', [1, 2, 3]], ['y', 'half', [3, 4, 5]]], [], [1, 7, 2], [], 'none'],
      ['d1', [['u', 'int', [7, 8]], ['w', 'int', [1, 0]], ['v', 'int', [2, 2]]], [], [2, 5, 4], [], 'none'],
      ['d2', [['p', 'int', [0, 5, 5, 1]], ['q', 'half', [1, 1, 2, 3]], ['r', 'int', [9, 8, 7, 6]]], [], [0, 3, 0], [['k', 1]], 'none']],
     [['s0', 2, ['gt', 'p', 1], [3, 4, 3]]],
     [['cl', [[0, 'x']], [1, 'u'], 'twice', None],
      ['cl', [[0, 'y']], [1, 'w'], 'plus3', 'minus3'],
      ['cl', [[1, 'u'], [1, 'w']], [2, 'p'], 'sub2', None],
      ['cl', [[2, 'r'], [0, 'x'], [1, 'v']], [2, 'q'], 'lin3', None]], [], 1],
    # two-way helper with a non-inverse pair + a multi-link helper class + a plain identity link
    [[['d0', [['x', 'int', [1, 2, 3]], ['y', 'int', [4, 5, 6]], ['g', 'int', [0, 1, 0]]], [], [1, 7, 2], [], 'id'],
      ['d1', [['u', 'int', [7, 8, 9]], ['w', 'int', [1, 0, 1]], ['h', 'half', [1, 2, 3]], ['e', 'int', [5, 5, 5]]], [], [2, 5, 4], [], 'none']],
     [['s0', 0, ['range', 'x', 2, 3], [3, 4, 3]], ['s1', 1, ['gt', 'h', 0], [0, 1, 0]]],
     [['pair', [0, 'x'], [0, 'y'], [1, 'u'], [1, 'w']], ['two', [0, 'g'], [1, 'h'], 'twice', 'plus3'],
      ['cl', [[0, WORLD]], [1, 'e'], 'identity', 'identity']], [], 0],
    # MultiLink instance + LinkAligned + pixel / world coordinates as link inputs
    [[['d0', [['x', 'int', [1, 2, 3]], ['y', 'int', [4, 5, 6]]], [], [1, 7, 2], [], 'id'],
      ['d1', [['u', 'int', [7, 8, 9]], ['w', 'int', [1, 0, 1]], ['e', 'int', [0, 0, 0]]], [], [2, 5, 4], [], 'none']],
     [['s0', 1, ['gt', 'e', 0], [3, 4, 3]]],
     [['multi', [0, 'x'], [0, 'y'], [1, 'u'], [1, 'w']], ['aligned', 0, 1],
      ['cl', [[1, PIX], [0, WORLD]], [1, 'e'], 'add2', None]], [], 0],
    # derived components through arithmetic and through user functions (also one of another derived
    # component), and links that start at them
    [[['d0', [['x', 'int', [1, 2, 3]], ['y', 'half', [3, 4, 5]]],
       [['z', 'dbl', 'x'], ['t', 'fn1', 'plus3', 'z'], ['f', 'fn2', 'sub2', 'y', 't']], [1, 7, 2], [], 'none'],
      ['d1', [['u', 'int', [7, 8]], ['w', 'half', [1, 0]]], [['q', 'fn2', 'add2', 'u', 'w'], ['o', 'sum', 'u', 'q']], [2, 5, 4], [], 'id']],
     [['s0', 0, ['gt', 'x', 1], [3, 4, 3]]],
     [['cl', [[0, 't']], [1, 'u'], 'neg', 'neg'], ['cl', [[1, 'q'], [0, 'f']], [1, 'w'], 'sub2', None]], [], 0],
]

# two Data records, every pair of Data protocols, both load orders
MIX_RECIPE = [[['d0', [['x', 'int', [1, 2, 3, 4]], ['y', 'half', [3, 4, 5, 6]]], [['z', 'dbl', 'x']], [1, 7, 2], [['k', 3], ['s', 'st']], 'none'],
               ['d1', [['u', 'int', [1, 2, 3]], ['w', 'int', [3, 1, 2]]], [['t', 'fn1', 'neg', 'w']], [2, 5, 4], [['o', 'other']], 'id']],
              [['s0', 0, ['gt', 'x', 2], [3, 4, 3]], ['s1', 1, ['range', 'u', 2, 3], [4, 2, 1]]],
              [['same', [0, 'x'], [1, 'w']]], [[1, ['u'], 0, ['x']]], 1]


def _shrink_recipe(recipe):
    datas, sels, links, joins, sgc = recipe
    for i in range(len(sels)):
        yield [datas, sels[:i] + sels[i + 1:], links, joins, sgc]
    for i in range(len(links)):
        yield [datas, sels, links[:i] + links[i + 1:], joins, sgc]
    if joins:
        yield [datas, sels, links, [], sgc]
    if sgc:
        yield [datas, sels, links, joins, 0]

    def used(k, lab):
        for l in links:
            if not isinstance(l[0], str):
                if (l[0] == k and l[1] == lab) or (l[2] == k and l[3] == lab):
                    return True
            elif l[0] == 'cl':
                if [k, lab] in l[1] or l[2] == [k, lab]:
                    return True
            elif l[0] != 'aligned' and [k, lab] in l[1:5]:
                return True
        return False
    for k, d in enumerate(datas):
        if d[2]:
            last = d[2][-1][0]
            if not used(k, last):
                yield [datas[:k] + [[d[0], d[1], d[2][:-1], d[3], d[4], d[5]]] + datas[k + 1:], sels, links, joins, sgc]
        if d[4]:
            yield [datas[:k] + [[d[0], d[1], d[2], d[3], [], d[5]]] + datas[k + 1:], sels, links, joins, sgc]
        if d[5] != 'none' and not used(k, WORLD):
            yield [datas[:k] + [[d[0], d[1], d[2], d[3], d[4], 'none']] + datas[k + 1:], sels, links, joins, sgc]
    # drop the last dataset when nothing refers to it
    if len(datas) > 1:
        k = len(datas) - 1

        def mentions(l):
            if not isinstance(l[0], str):
                return k in (l[0], l[2])
            if l[0] == 'cl':
                return any(r[0] == k for r in l[1]) or l[2][0] == k
            if l[0] == 'aligned':
                return k in l[1:3]
            return any(isinstance(r, list) and r[0] == k for r in l[1:5])
        if not any(s_[1] == k for s_ in sels) and not any(mentions(l) for l in links) and not any(k in (j[0], j[2]) for j in joins):
            yield [datas[:k], sels, links, joins, sgc]


class RoundTrip(Family):
    """Documents of DataCollection / Data records, every record written with an independently
    chosen registered version of its type's saver, loaded by ONE GlueUnSerializer after the caller has
    asked for some of the records in some order; observed after the load."""
    name = "rt"
    exhaustive = False
    batch = 40
    budget_share = 8.0
    case_timeout = 30.0

    def setup(self):
        self.dvs = sorted(GlueSerializer.dispatch._data[Data])
        self.cvs = sorted(GlueSerializer.dispatch._data[DataCollection])

    def cases(self, tier, rng):
        self.setup()
        dvs, cvs = self.dvs, self.cvs
        # 1. every (Data version, DataCollection version) pair on the fixed collections and the link zoo
        for r in FIXED_RECIPES + ZOO_RECIPES:
            for dv in dvs:
                for cv in cvs:
                    yield [dv, cv, r]
        # 2. mixed documents, exhaustive core: two Data records, every pair (v_i, v_j) of registered
        #    versions, every collection version, loaded in both orders (and in the collection's own)
        for cv in cvs:
            for vi in dvs:
                for vj in dvs:
                    for order in ([], [0, 1], [1, 0]):
                        yield [[vi, vj], cv, MIX_RECIPE, order]
        #    … and two collection records of every pair of collection versions in one document
        for ci in cvs:
            for cj in cvs:
                a = [[rng.choice(dvs), rng.choice(dvs)], ci, ZOO_RECIPES[0]]
                b = [[rng.choice(dvs), rng.choice(dvs)], cj, MIX_RECIPE]
                for order in ([], [[1]], [[1, 1], [0, 1], [1], [0, 0]]):
                    yield ["doc", [a, b], order]
        # 3. generated collections
        n = 300 if tier == "quick" else 4000
        prev = None
        for t in range(n):
            r = gen_recipe(rng, small=(t % 3 == 0))
            nd = len(r[0])
            if tier == "quick" and t % 5 != 0:
                # every Data version with the newest collection, every collection version with the
                # newest Data, and two random pairs
                pairs = {(dv, cvs[-1]) for dv in dvs} | {(dvs[-1], cv) for cv in cvs}
                pairs |= {(rng.choice(dvs), rng.choice(cvs)) for _ in range(2)}
            else:
                pairs = {(dv, cv) for dv in dvs for cv in cvs}
            for dv, cv in sorted(pairs):
                yield [dv, cv, r]
            # random version assignments, random request orders
            if nd >= 2:
                for _ in range(2 if tier == "quick" else 6):
                    order = [rng.randrange(nd) for _ in range(rng.randint(0, nd))]
                    yield [[rng.choice(dvs) for _ in range(nd)], rng.choice(cvs), r, order]
            if prev is not None and t % 4 == 0:
                parts = [[[rng.choice(dvs) for _ in range(len(x[0]))], rng.choice(cvs), x] for x in (prev, r)]
                reqs = []
                for _ in range(rng.randint(0, 3)):
                    k = rng.randrange(2)
                    reqs.append([k] if rng.random() < 0.3 else [k, rng.randrange(len(parts[k][2][0]))])
                yield ["doc", parts, reqs]
            prev = r

    _n = 0

    def reset(self):
        Registry()._registry.clear()
        # cyclic garbage of earlier cases (Subset.__del__ broadcasts) is collected here, between
        # cases, never while a case is being observed (gc is disabled during a case)
        RoundTrip._n += 1
        if RoundTrip._n % 25 == 0:
            gc.collect()

    @staticmethod
    def _norm(case):
        """-> (single, parts [(dvs list, cv, recipe)], requests [(k, i) | (k,)])"""
        if case[0] == "doc":
            parts = [(p[0] if isinstance(p[0], list) else [p[0]] * len(p[2][0]), p[1], p[2]) for p in case[1]]
            return False, parts, [tuple(q) for q in case[2]]
        dv, cv, recipe = case[0], case[1], case[2]
        dvs = dv if isinstance(dv, list) else [dv] * len(recipe[0])
        order = case[3] if len(case) > 3 else []
        return True, [(dvs, cv, recipe)], [(0, i) for i in order]

    def run_impl(self, case):
        single, parts, reqs = self._norm(case)
        gc_was = gc.isenabled()
        gc.disable()
        try:
            built = [build_dc(recipe, cv) for (dvs, cv, recipe) in parts]
            force_obj = {}
            for (dvs, cv, recipe), (dc, ds, keep) in zip(parts, built):
                force_obj[id(dc)] = cv
                for d, v in zip(ds, dvs):
                    force_obj[id(d)] = v
            main = built[0][0] if single else [b[0] for b in built]
            gs = VersionedSerializer(main, {}, force_obj, include_data=True)
            try:
                txt = gs.dumps()
            except S.GlueSerializeError:
                return "save-error"
            rec = json.loads(txt)
            # the records really are of the requested versions
            for (dvs, cv, recipe), (dc, ds, keep) in zip(parts, built):
                got = rec[gs.id(dc)].get('_protocol', 1)
                if got != cv:
                    return ["wrong-protocol", "dc", got]
                for d, v in zip(ds, dvs):
                    got = rec[gs.id(d)].get('_protocol', 1)
                    if got != v:
                        return ["wrong-protocol", "data", got]
            us = GlueUnSerializer.loads(txt)
            for q in reqs:
                us.object(gs.id(built[q[0]][0] if len(q) == 1 else built[q[0]][1][q[1]]))
            loaded = us.object('__main__')
            if single:
                loaded = [loaded]
            out = [observe_dc(dc2, b[1], [v >= 4 for v in p[0]]) for dc2, b, p in zip(loaded, built, parts)]
            del built
            return out[0] if single else out
        finally:
            if gc_was:
                gc.enable()

    def line(self, case, pyout):
        return sx(["rt", case, pyout])

    def nontrivial(self, case, po):
        single, parts, reqs = self._norm(case)
        return isinstance(po, list) and any(cv < 4 or any(v < 5 for v in dvs) for dvs, cv, _ in parts)

    def signature(self, case, po, res):
        single, parts, reqs = self._norm(case)
        if not single:
            return {"doc": len(parts)}
        dvs, cv, _ = parts[0]
        return {"dv": dvs[0] if len(set(dvs)) == 1 else "mixed", "cv": cv}

    def shrink(self, case):
        if case[0] == "doc":
            ps, order = case[1], case[2]
            for p in ps:                                   # one collection alone
                yield [p[0], p[1], p[2], []]
            if order:
                yield ["doc", ps, []]
                for i in range(len(order)):
                    yield ["doc", ps, order[:i] + order[i + 1:]]
            for k, p in enumerate(ps):
                for r in _shrink_recipe(p[2]):
                    if len(r[0]) == len(p[2][0]) and all(len(q) == 1 or q[0] != k or q[1] < len(r[0]) for q in order):
                        yield ["doc", ps[:k] + [[p[0], p[1], r]] + ps[k + 1:], order]
            return
        dv, cv, recipe = case[0], case[1], case[2]
        order = case[3] if len(case) > 3 else []
        if order:
            yield [dv, cv, recipe, []]
            for i in range(len(order)):
                yield [dv, cv, recipe, order[:i] + order[i + 1:]]
        if isinstance(dv, list):
            for v in sorted(set(dv)):                      # one version for all
                yield [v, cv, recipe] + ([order] if order else [])
        for r in _shrink_recipe(recipe):
            nd = len(r[0])
            dv2 = dv[:nd] if isinstance(dv, list) else dv
            if order:
                if all(i < nd for i in order):
                    yield [dv2, cv, r, order]
            else:
                yield [dv2, cv, r]


# ------------------------------------------------------------------------------------------
# round trips of the other registered types (all single-version today; every registered version
# of each is exercised, so a second version added later is run against its own records too)
# ------------------------------------------------------------------------------------------

def _atom(x):
    t = "".join(ch if (ch.isalnum() or ch in "._-+[]{}:,=/#*<>'") else "_" for ch in str(x))
    return t or "empty"


def _canon(o):
    """Python value -> nested lists of ints / atoms (types are part of the canonical form)."""
    import astropy.units as u
    import shapely
    from matplotlib.colors import Colormap
    from glue.core import ComponentID, Component, VisualAttributes
    from glue.core.component_id import PixelComponentID
    from glue.core.component import CategoricalComponent
    if o is None or isinstance(o, bool):
        return o
    if isinstance(o, (int, np.integer)):
        return ["i", int(o)]
    if isinstance(o, (float, np.floating)):
        return ["f", _atom(repr(float(o)))]
    if isinstance(o, str):
        return ["s", _atom(o)]
    if isinstance(o, np.datetime64):
        return ["dt", _atom(o)]
    if isinstance(o, np.ndarray):
        return ["nd", _atom(o.dtype.str), list(o.shape), [_canon(x) for x in o.ravel().tolist()]]
    if isinstance(o, slice):
        return ["slice", _canon(o.start), _canon(o.stop), _canon(o.step)]
    if isinstance(o, dict):
        return ["dict", sorted(([_canon(k), _canon(v)] for k, v in o.items()), key=repr)]
    if isinstance(o, tuple):
        return ["tuple"] + [_canon(x) for x in o]
    if isinstance(o, list):
        return ["list"] + [_canon(x) for x in o]
    if isinstance(o, set):
        return ["set", sorted((_canon(x) for x in o), key=repr)]
    if isinstance(o, u.UnitBase):
        return ["unit", _atom(o.to_string())]
    if isinstance(o, Colormap):
        return ["cmap", _atom(o.name)]
    if isinstance(o, shapely.Geometry):
        return ["geom", _atom(shapely.to_wkt(o))]
    if isinstance(o, PixelComponentID):
        return ["pixcid", o.axis, _atom(o.label)]
    if isinstance(o, ComponentID):
        return ["cid", _atom(o.label), _atom(o.uuid)]
    if isinstance(o, CategoricalComponent):
        return ["catcomp", _canon(np.asarray(o.labels)), _canon(np.asarray(o.categories)), _atom(o.units)]
    if isinstance(o, Component):
        return ["comp", _canon(np.asarray(o.data)), _atom(o.units)]
    if isinstance(o, VisualAttributes):
        return ["style"] + [[_atom(a), _canon(getattr(o, a)) if not isinstance(getattr(o, a), Colormap) else _canon(getattr(o, a))]
                            for a in sorted(o._atts) if a != 'preferred_cmap']
    if isinstance(o, Data):
        return ["data", _atom(o.label), [[_atom(c.label), _canon(np.asarray(o[c]))] for c in o.main_components + o.derived_components]]
    raise TypeError("no canonical form for %r" % (type(o),))


def _gen_other(kind, rng):
    """-> (object to wrap, type forced, observe(loaded wrapper) -> canonical form)"""
    import astropy.units as u
    import shapely
    from glue.core import ComponentID, Component, VisualAttributes
    from glue.core.component_id import PixelComponentID
    from glue.core.component import CategoricalComponent
    from glue.core.roi import RectangularROI
    from glue.core.subset import RoiSubsetState, SubsetState
    from glue.core.component_link import ComponentLink
    from glue.core.link_helpers import identity
    ints = lambda n: [rng.randint(-9, 9) for _ in range(n)]  # noqa: E731
    if kind == "slice":
        return slice(rng.choice([None, 1, 2]), rng.choice([None, 5, 9]), rng.choice([None, 1, 3])), slice, None
    if kind == "dict":
        return {"a": slice(1, rng.randint(2, 9)), "b": rng.randint(0, 9), "c": "txt", "d": [1, 2, rng.randint(0, 5)]}, dict, None
    if kind == "list":
        return [slice(0, rng.randint(1, 5)), rng.randint(0, 9), "s", [1, 2]], list, None
    if kind == "tuple":
        return (slice(0, rng.randint(1, 5)), rng.randint(0, 9), "s"), tuple, None
    if kind == "set":
        return {slice(0, rng.randint(1, 5))} if sys.version_info >= (3, 12) else {ComponentID("q")}, set, None
    if kind == "ndarray":
        shape = rng.choice([(3,), (2, 2), (0,), (1, 3)])
        dt = rng.choice([np.int64, np.float64, np.int32, bool])
        return (np.arange(int(np.prod(shape))).reshape(shape) * rng.randint(1, 3)).astype(dt), np.ndarray, None
    if kind == "datetime64":
        return np.datetime64("2019-0%d-1%d" % (rng.randint(1, 9), rng.randint(0, 9))), np.datetime64, None
    if kind == "unit":
        return rng.choice([u.m / u.s, u.Jy, u.km, u.deg, u.m ** 2]), u.UnitBase, None
    if kind == "cmap":
        from matplotlib import cm
        return rng.choice([cm.viridis, cm.gray, cm.plasma]), type(cm.viridis).__mro__[1] if False else __import__("matplotlib").colors.Colormap, None
    if kind == "geom":
        return shapely.Point(rng.randint(0, 5), rng.randint(0, 5)), shapely.Geometry, None
    if kind == "cid":
        return ComponentID("lab%d" % rng.randint(0, 9)), ComponentID, None
    if kind == "pixcid":
        a = rng.randint(0, 2)
        return PixelComponentID(a, "Pixel Axis %d [x]" % a), PixelComponentID, None
    if kind == "comp":
        return Component(np.array(ints(rng.randint(1, 4)), dtype=rng.choice([np.int64, float])), units=rng.choice([None, "m", "Jy"])), Component, None
    if kind == "catcomp":
        return CategoricalComponent(np.array([rng.choice(["a", "b", "c"]) for _ in range(rng.randint(1, 5))]), units=rng.choice([None, "m"])), CategoricalComponent, None
    if kind == "style":
        v = VisualAttributes()
        v.color = rng.choice(PALETTE)
        v.markersize = rng.randint(1, 9)
        v.alpha = rng.randint(0, 4) / 4
        v.linewidth = rng.randint(1, 4)
        v.marker = rng.choice(["o", "s", "^"])
        return v, VisualAttributes, None
    if kind in ("roistate", "emptystate", "complink"):
        d = Data(x=np.array(ints(4), dtype=np.int64), y=np.array(ints(4), dtype=np.int64), label="dd")
        if kind == "complink":
            cid = ComponentID("ident")
            d.add_component_link(ComponentLink([d.id["x"]], cid, using=identity))
            return [d], ComponentLink, (lambda w: _canon(w[0]))
        if kind == "roistate":
            lo, hi = sorted([rng.randint(-9, 9), rng.randint(-9, 9)])
            st = RoiSubsetState(d.id["x"], d.id["y"], RectangularROI(lo - 0.5, hi + 0.5, -3.5, 6.5))
            typ = RoiSubsetState
        else:
            st = SubsetState()
            typ = SubsetState
        sub = d.new_subset(label="sub")
        sub.subset_state = st
        return [d, st], typ, (lambda w: ["masked", _canon(w[0]), [int(x) for x in w[0].get_mask(w[1])], _atom(type(w[1]).__name__)])
    raise ValueError(kind)


OTHER_KINDS = ["slice", "dict", "list", "tuple", "set", "ndarray", "datetime64", "unit", "cmap", "geom", "cid",
               "pixcid", "comp", "catcomp", "style", "roistate", "emptystate", "complink"]


class RoundTripOther(Family):
    """Every registered version of the other saver/loader pairs, on generated objects."""
    name = "rt1"
    exhaustive = False
    batch = 60
    budget_share = 1.0

    def cases(self, tier, rng):
        import random as _r
        n = 6 if tier == "quick" else 60
        for kind in OTHER_KINDS:
            _, typ, _ = _gen_other(kind, _r.Random(0))
            reg = GlueSerializer.dispatch._data.get(typ, {})
            for v in (sorted(reg) or [1]):
                for i in range(n):
                    yield [kind, v, rng.randint(0, 10 ** 6)]

    def reset(self):
        Registry()._registry.clear()

    def run_impl(self, case):
        import random as _r
        kind, v, seed = case
        obj, typ, obs = _gen_other(kind, _r.Random(seed))
        wrapper = obj if isinstance(obj, list) and obs is not None else [obj, "wrap"]
        force = {typ: v}
        before = obs(wrapper) if obs is not None else _canon(wrapper[0])
        try:
            txt = VersionedSerializer(wrapper, force, include_data=True).dumps()
        except S.GlueSerializeError:
            return "save-error"
        rec = json.loads(txt)
        want = "%s.%s" % (typ.__module__, typ.__name__)
        seen = [r_ for r_ in rec.values() if isinstance(r_, dict) and lookup_is_subclass(r_.get("_type"), typ)]
        if typ is not list and not any(r_.get("_protocol", 1) == v for r_ in seen) and not _inline_has(rec, typ, v):
            return ["type-not-written", _atom(want)]
        w2 = GlueUnSerializer.loads(txt).object("__main__")
        after = obs(w2) if obs is not None else _canon(w2[0])
        return [before, after]

    def line(self, case, pyout):
        return sx(["rt1", [case[0], case[1]], pyout])

    def signature(self, case, po, res):
        return {"kind": case[0], "version": case[1]}


def lookup_is_subclass(name, typ):
    if not isinstance(name, str):
        return False
    try:
        c = S.lookup_class_with_patches(name)
    except Exception:
        return False
    try:
        return isinstance(c, type) and issubclass(c, typ)
    except TypeError:
        return False


def _inline_has(rec, typ, v):
    """records nested inside other records (context.do) also count"""
    def walk(x):
        if isinstance(x, dict):
            if lookup_is_subclass(x.get("_type"), typ) and x.get("_protocol", 1) == v:
                return True
            return any(walk(y) for y in x.values())
        if isinstance(x, list):
            return any(walk(y) for y in x)
        return False
    return walk(rec)



class SaveNewest(Family):
    """An ordinary save (unmodified GlueSerializer) tags every record of a registered type with the
    newest protocol of that type."""
    name = "newest"
    exhaustive = True
    max_jobs = 1

    def cases(self, tier, rng):
        for i in range(len(FIXED_RECIPES)):
            yield i

    def reset(self):
        Registry()._registry.clear()

    def run_impl(self, case):
        dc, ds, keep = build_dc(FIXED_RECIPES[case], 4)
        rec = json.loads(GlueSerializer(dc, include_data=True).dumps())
        names = {qual(t) for t in GlueSerializer.dispatch._data}
        pairs = set()

        def walk(x):
            if isinstance(x, dict):
                t = x.get("_type")
                if isinstance(t, str) and t in names:
                    pairs.add((t, x.get("_protocol", 1)))
                for y in x.values():
                    walk(y)
            elif isinstance(x, list):
                for y in x:
                    walk(y)
        walk(rec)
        del keep
        return [[t, v] for t, v in sorted(pairs)]

    def nontrivial(self, case, po):
        return isinstance(po, list) and any(str(v) != "1" for _, v in po)



PROP = Property(
    id="C12",
    title="Every serialisation protocol version ever registered still loads what it saved",
    theorems=[
        "C12.versioned_inv", "C12.versioned_set", "C12.versioned_never_overwritten",
        "C12.versioned_refines_spec", "C12.save_uses_newest", "C12.orig_set_violates_inv",
        "C12.chase_terminates_of_check", "C12.chase_acyclic_of_check", "C12.chase_deterministic",
        "C12.lookup_fallback_spec", "C12.lookup_with_patches_total", "C12.captured_live_class_still_loads",
        "C12.patches_terminate", "C12.patches_acyclic", "C12.patches_fixpoint_not_key",
        "C12.patch_keys_unique", "C12.patch_targets_importable", "C12.no_capture_partial",
        "C12.no_capture_witness_F12", "C12.registry_consecutive", "C12.saver_loader_versions_match",
        "C12.save_uses_newest_table", "C12.registry_keys_unique",
        "C12.load_v_save_v_data", "C12.load_v_save_v", "C12.unser_recordwise", "C12.load_doc_mixed",
        "C12.newest_is_lossless",
    ],
    families=[Tables(), Dispatch(), SaveNewest(), Patch(), VDict(), RoundTrip(), RoundTripOther()],
    pre_build=pre_build,
    partial_note="no_capture_partial: no rename-table key names a live, written, concrete class EXCEPT the four names of known finding F12 (knownCaptured); the full statement is false on the pinned tree (witness no_capture_witness_F12). With fix F12b the captured classes still load as themselves whenever their new location cannot be imported (captured_live_class_still_loads); when it can, their records are redirected - that is the capture F12 keeps reporting. All other theorems are full.",
    trusted_base=[
        "harness/translate/c12.py reads the registries, PATH_PATCHES and the class table off the imported package and interns names (interning and the inside-'glue.' flags are re-checked by the compiled driver on every run, the live tables of the harness process are compared with the generated ones)",
        "json, base64, np.save/np.load are trusted codecs",
        "family patch: importability (`lookup_class(name)` un-patched) is an input read off the environment; the second environment is simulated by stub modules in sys.modules for the external packages (glue_qt, ...) the rename table points to",
        "harness/props/c12_linkfns.py: importable user link functions and a BaseMultiLink sub-class used by the generated collections",
    ],
    assumptions=["old-format records are produced by this tree's own version-v savers (dispatch.get_version(type, v)), as the property prescribes",
                 "generated links give every component at most one producing link (forward or inverse), so that what a dataset reads through the link web does not depend on the discovery order of the link manager"],
    rule="VersionedDict: every op sequence of length <= 3 (quick) / 4 (thorough) over 2 keys x versions {(-1),0,1,2,3,bad} + queries, each followed by a full probe of the state, plus seeded random histories of length 4-16 over 3 keys; tables/dispatch/patch: every row of the live registries and every name of the rename table (patch: each name through the real lookup_class_with_patches in this machine's environment and in one where the external targets are importable); rt: documents written record by record with independently chosen registered versions and loaded by one GlueUnSerializer: (1) 4 fixed collections + 5 link-zoo collections x all 20 (Data version, DataCollection version) pairs, (2) two Data records x every pair of Data versions x every collection version x 3 request orders, two collection records x every pair of collection versions x 3 request orders, (3) generated collections (1-3 datasets, arithmetic / user-function derived components, selections, styles, meta, up to 4 links of the zoo [single-input, inverse, multi-input foreign, multi-input mixed own/foreign, LinkSame, LinkTwoWay, PairLink, MultiLink, LinkAligned, coordinate components as inputs], key join) x version pairs + random per-dataset version assignments with random request orders + two-collection documents; rt1: 18 other registered types x registered versions; non-trivial = at least one set / a multi-version type / a table key / some record of an old (non-newest) version",
)
