"""C19 — exported data files load back to the same table or image.

Real glue: every registered data exporter (looked up in glue.config.data_exporter) writes a
dataset / subset into a scratch directory, glue.core.data_factories.load_data reads it back, the
canonicalised result goes to the Lean driver, which returns the Impl model's prediction and the
Spec verdict on the implementation's own output.

Round 2: every component is built under a STORAGE LAYOUT (byte order, strides, C / Fortran order,
read-only, window of a larger buffer, unaligned, broadcast, bytes / object / wide text) chosen
independently of its values — the model carries the tag and provably ignores it
(Props.C19.layout_irrelevant) —, and exporters are chained (export A -> load -> export B -> load).
"""
import gc
import itertools
import json
import os
import shutil
import tempfile
import warnings
from fractions import Fraction

from harness.core import Family, Property, use_repo, sx

use_repo()
import numpy as np  # noqa: E402
import pandas as pd  # noqa: E402
from glue.core import Data, DataCollection  # noqa: E402
from glue.core.component import Component, CategoricalComponent  # noqa: E402
from glue.core.component_id import ComponentID  # noqa: E402
from glue.core.component_link import ComponentLink  # noqa: E402
from glue.core.subset import MaskSubsetState  # noqa: E402
from glue.core.data_factories import load_data  # noqa: E402
from glue.core.state import GlueSerializer, GlueUnSerializer  # noqa: E402
from glue.config import data_exporter, data_factory  # noqa: E402
import glue.core.data_exporters as _de  # noqa: E402

_de.setup()

# model format -> (exporter function name in the registry, file extension)
FORMATS = {
    "csv": ("ascii_csv_factory", "csv"),
    "ipac": ("ascii_ipac_factory", "tbl"),
    "latex": ("ascii_latex_factory", "tex"),
    "votable": ("votable_factory", "xml"),
    "fitstab": ("fits_factory", "fits"),
    "hdf5": ("hdf5_writer", "hdf5"),
    "fitsimg": ("fits_writer", "fits"),
}
TABLE_FORMATS = ["csv", "ipac", "latex", "votable", "fitstab", "hdf5", "fitsimg"]
IMAGE_FORMATS = ["hdf5", "fitsimg"]


# IPAC and LaTeX are not in the property's list of formats: glue never auto-selects their readers
# (identifier always False), so "the matching data factory" is named explicitly.
EXPLICIT_FACTORY = {"ipac": "ipac_factory", "latex": "latex_factory"}


def factory_for(fmt):
    name = EXPLICIT_FACTORY.get(fmt)
    if name is None:
        return None
    for f in data_factory.members:
        if f.function.__name__ == name:
            return f.function
    raise LookupError("data factory %s is no longer registered" % name)


def exporter(fmt):
    name = FORMATS[fmt][0]
    for e in data_exporter.members:
        if e.function.__name__ == name:
            return e.function
    raise LookupError("exporter %s is no longer registered" % name)


def S(text):
    """text -> ["s", code points...]"""
    return ["s"] + [ord(c) for c in text]


def N(text):
    return [ord(c) for c in text]


def Q(x):
    f = Fraction(x)
    return ["q", f.numerator, f.denominator]


NAN = "nan"

_GC = {"n": 0, "frozen": False}


def _freeze():
    # the imported libraries are a large, immortal heap: keep them out of every later collection
    if not _GC["frozen"]:
        gc.collect()
        gc.freeze()
        _GC["frozen"] = True


def _collect():
    _GC["n"] += 1
    if _GC["n"] % 8 == 0:
        gc.collect()


# ------------------------------------------------------------------------------------------
# case -> glue objects
# ------------------------------------------------------------------------------------------

_DT = {"f": "f8", ("i", 8): "i1", ("i", 16): "i2", ("i", 32): "i4", ("i", 64): "i8",
       ("u", 8): "u1", ("u", 16): "u2", ("u", 32): "u4", ("u", 64): "u8"}


def cell_value(c):
    if c == NAN:
        return float("nan")
    if c[0] == "q":
        return Fraction(c[1], c[2])
    return "".join(chr(x) for x in c[1:])


# ------------------------------------------------------------------------------------------
# storage layouts: HOW the values of a component sit in memory.  The values (which go to Lean as
# exact rationals / code points) are the same under every layout; the model ignores the tag
# (Props.C19.layout_irrelevant), so a layout-dependent result is a violation by definition.
# ------------------------------------------------------------------------------------------

NONNATIVE = ">" if np.little_endian else "<"

# numeric and text
LAYOUTS_COMMON = ["native", "swapped", "strided", "reversed", "fortran", "readonly", "window",
                  "unaligned", "swapstrided", "fitslike", "bcast"]
# text only: fixed-width bytes, object dtype holding str, over-wide items
LAYOUTS_TEXT = ["bytes", "object", "wide"]
LAYOUTS_NUM = LAYOUTS_COMMON
LAYOUTS_STR = LAYOUTS_COMMON + LAYOUTS_TEXT
LAYOUTS_ALL = LAYOUTS_COMMON + LAYOUTS_TEXT


def _garbage(dtype):
    """a value that is visibly wrong if the gaps / padding of a view leak into a file"""
    k = np.dtype(dtype).kind
    if k == "f":
        return 77.5
    if k in "iu":
        return 77
    if k == "S":
        return b"#"
    return "#"


def _swap(a):
    """same values, non-native byte order (a real conversion, not a relabelling)"""
    if a.dtype.kind == "O" or a.dtype.itemsize == 1 or a.dtype.kind == "S":
        return a
    return a.astype(a.dtype.newbyteorder(NONNATIVE))


def _strided(a):
    """every second element (along the last axis) of an array twice as large"""
    shape = a.shape[:-1] + (2 * a.shape[-1] + 1,)
    big = np.full(shape, _garbage(a.dtype), dtype=a.dtype)
    v = big[..., 1::2]
    v[...] = a
    return v


def store(a, layout):
    """The array `a` (C-contiguous, native) re-stored under `layout`; always equal to `a` element-wise."""
    nd = a.ndim
    if layout in (None, "native"):
        out = a
    elif layout == "swapped":
        out = _swap(a)
    elif layout == "strided":
        out = _strided(a)
    elif layout == "swapstrided":
        out = _strided(_swap(a))
    elif layout == "reversed":   # negative strides on every axis
        rev = (slice(None, None, -1),) * nd
        out = np.ascontiguousarray(a[rev])[rev]
    elif layout == "fortran":
        if nd >= 2:
            out = np.asfortranarray(a)
        else:                    # 1-d: a column of a C-ordered 2-d array
            big = np.full(a.shape + (3,), _garbage(a.dtype), dtype=a.dtype)
            big[:, 1] = a
            out = big[:, 1]
    elif layout == "readonly":
        out = a.copy()
        out.flags.writeable = False
    elif layout == "window":     # contiguous window into a larger buffer (offset, base is not None)
        n = a.size
        big = np.full(n + 5, _garbage(a.dtype), dtype=a.dtype)
        big[3:3 + n] = a.ravel()
        out = big[3:3 + n].reshape(a.shape)
    elif layout == "unaligned":
        if a.dtype.kind == "O" or a.dtype.itemsize == 1:
            out = a
        else:
            buf = np.zeros(a.nbytes + 1, dtype=np.uint8)
            out = buf[1:].view(a.dtype).reshape(a.shape)
            out[...] = a
    elif layout == "fitslike":   # what a memory-mapped FITS image holds: non-native, read-only
        out = _swap(a).copy()
        if nd >= 2:
            out = np.asfortranarray(out)
        out.flags.writeable = False
    elif layout == "bcast":      # a broadcast (stride 0, read-only) view when the values allow it
        flat = a.ravel()
        if a.dtype.kind != "O" and flat.size and all(x == flat[0] or (x != x and flat[0] != flat[0]) for x in flat.tolist()):
            out = np.broadcast_to(flat[:1].reshape((1,) * nd), a.shape)
        else:
            out = a.copy()
            out.flags.writeable = False
    elif layout == "bytes":      # fixed-width bytes 'S' (ASCII text only)
        if a.dtype.kind == "U" and all(ord(ch) < 128 for x in a.ravel().tolist() for ch in x):
            out = np.char.encode(a, "ascii") if a.size else a.astype("S1")
        else:
            out = a
    elif layout == "object":
        if a.dtype.kind == "U":
            out = np.empty(a.shape, dtype=object)
            out.ravel()[:] = [str(x) for x in a.ravel().tolist()] if a.size else []
        else:
            out = a
    elif layout == "wide":
        out = a.astype("U%d" % (a.dtype.itemsize // 4 + 5)) if a.dtype.kind == "U" else a
    else:
        raise ValueError("unknown layout %r" % (layout,))
    return out


def norm_col(col):
    """[name, kind, derived, cells, dtype-hint or None, layout, state] (older cases have 4 - 6 entries)"""
    col = list(col)
    while len(col) < 5:
        col.append(None)
    if len(col) < 6:
        col.append("native")
    if len(col) < 7:
        col.append(None)
    return col


def column_array(col, shape):
    name, kind, derived, cells, hint, layout = norm_col(col)[:6]
    vals = [cell_value(c) for c in cells]
    if kind == "s":
        arr = np.array([str(v) for v in vals], dtype="U") if vals else np.zeros(0, dtype="U1")
    elif kind == "f":
        arr = np.array([float(v) for v in vals], dtype=hint or "f8")
    else:
        arr = np.array([int(v) for v in vals], dtype=_DT[tuple(kind)])
    arr = arr.reshape(shape)
    out = store(arr, layout)
    assert out.shape == arr.shape
    return out


# ------------------------------------------------------------------------------------------
# object state: what the component objects and the Data object carry BEYOND the values.  Like the
# layouts it is chosen independently of the values, travels to Lean as a tag, and is provably ignored
# by the model (Props.C19.component_state_irrelevant): an exporter that reads any of it instead of
# data[cid] / cid.label disagrees with Impl and Spec.
#   column state : None or a list of  ["jit"]            CategoricalComponent.jitter('uniform')
#                                     ["cats", k]        explicit categories= list (recipe k: unsorted, unused entries)
#                                     ["units", cps]     Component.units
#                                     ["old", cps]       added under this name, renamed afterwards
#                                     ["from", j, fn]    derived from component j (fn 0 identity link, 1 text length)
#   dataset state: None or a list of  ["seed", n]        np.random.seed(n) before the data is built (jitter offsets)
#                                     ["label", cps]     Data.label (and the subset's label)
#                                     ["restored"]       the Data went through GlueSerializer / GlueUnSerializer
#                                     ["wcs"]            Data.coords is a WCS
#                                     ["extras", [[kind, pos]...]]   components that are present but NOT requested
# ------------------------------------------------------------------------------------------

UNITS_POOL = ["km/s", "deg", "m s-1", "Jy/beam", "erg s^-1 cm^-2", "counts", "mag", "'", " ", "%", "x" * 75,
              "\u00c5", "\u00b5m"]
UNITS_ASCII = [u for u in UNITS_POOL if all(ord(ch) < 128 for ch in u)]
OLD_NAMES = ["tmp_0", "old name", "Col#1", "\u00e9t\u00e9", "0", "Unnamed"]
LABEL_POOL = ["my data", "a/b", "x[1].fits", "", "\u00e9\u2713\u00fc", "q'r\"s", "<t>&amp;", "nan", " lead ",
              "100%", "#h,c", "tab\tnew\nline", "d" * 90, "PRIMARY", "0", "..", "{b}\\_$"]
N_CATS_RECIPES = 6
EXTRA_KINDS = 4   # 0 DateTimeComponent, 1 float with units, 2 jittered text, 3 derived


def st_item(state, key):
    for it in state or []:
        if it[0] == key:
            return it
    return None


def st_without(state, key):
    out = [it for it in (state or []) if it[0] != key]
    return out or None


def TXT(cps):
    return "".join(chr(x) for x in cps)


def categories_for(arr, k):
    """recipe k -> an explicit category list for the labels in `arr`: every label present, plus two
    that no row uses, in an order that is NOT the sorted one (k = 0: reversed; else a fixed shuffle)"""
    flat = arr.ravel().tolist()
    isb = arr.dtype.kind == "S"
    extra = [b"Zz_unused", b"Aa_unused"] if isb else ["Zz_unused", "Aa_unused"]
    present = sorted(set(flat))
    cats = present + [e for e in extra if e not in present]
    if k == 0:
        cats = cats[::-1]
    elif k == 1:      # unused first: every code shifted, order of the present labels kept
        cats = cats[len(present):] + present
    else:
        import random as _r
        _r.Random(k).shuffle(cats)
        if cats == sorted(cats):
            cats = cats[1:] + cats[:1]
    if arr.dtype.kind == "O":
        out = np.empty(len(cats), dtype=object)
        out[:] = cats
        return out
    return np.array(cats, dtype=arr.dtype.kind)


def _txtlen(x):
    """length of every label (a deterministic function of the VALUES of a text component)"""
    a = np.asarray(x)
    out = np.array([len(v.decode("latin-1")) if isinstance(v, bytes) else len(str(v)) for v in a.ravel().tolist()],
                   dtype=np.int64)
    return out.reshape(a.shape)


def fix_derived(cols):
    """Columns derived FROM another column take their kind / cells (/ dtype, layout) from the source;
    an invalid reference is dropped.  Idempotent; applied by generators, shrinkers, run and line."""
    cols = [norm_col(c) for c in cols]
    for i, c in enumerate(cols):
        it = st_item(c[6], "from")
        if it is None:
            continue
        j, fn = it[1], it[2]
        # glue has no derived TEXT components (get_kind: "Unknown data kind"), and a link cannot read an
        # object-dtype component (ComponentLink.compute needs `.shape` of a scalar view)
        ok = (c[2] and 0 <= j < i and not cols[j][2] and cols[j][5] != "object" and
              ((fn == 0 and cols[j][1] != "s") or (fn == 1 and cols[j][1] == "s")))
        if not ok:
            c[6] = st_without(c[6], "from")
            continue
        src = cols[j]
        if fn == 0:
            c[1], c[3], c[4], c[5] = src[1], list(src[3]), src[4], src[5]
        else:
            c[1], c[4], c[5] = ["i", 64], None, "native"
            c[3] = [Q(len(cell_value(x))) for x in src[3]]
    return cols


def sanitize(cols, comps, dst):
    """make a (shrunk / hand-written) case well-formed: states only where they mean something"""
    cols = fix_derived(cols)
    for c in cols:
        st = c[6]
        if c[1] != "s" or c[2]:
            st = st_without(st_without(st, "jit"), "cats")
        if c[2]:
            st = st_without(st, "units")
        c[6] = st
    if dst is not None:
        if comps is None:
            dst = st_without(dst, "extras")
        if dst and any((c[2] and st_item(c[6], "from") is None) or c[5] == "object" for c in cols):
            # a lambda link cannot be saved in a session, nor can an object array (allow_pickle=False)
            dst = st_without(dst, "restored")
    return cols, dst


def make_wcs(nd):
    from astropy.wcs import WCS
    w = WCS(naxis=nd)
    w.wcs.crpix = [1.0 + i for i in range(nd)]
    w.wcs.cdelt = [0.5] * nd
    w.wcs.crval = [10.0 * (i + 1) for i in range(nd)]
    w.wcs.ctype = ["AX%d" % i for i in range(nd)]
    return w


def add_extra(d, kind, idx, shape):
    """a component that is in the dataset but is not requested (components= leaves it out)"""
    n = int(np.prod(shape))
    if kind == 0:
        t = (np.datetime64("2020-01-01T00:00:00") + np.arange(n).astype("m8[h]")).reshape(shape)
        from glue.core.component import DateTimeComponent
        return d.add_component(DateTimeComponent(t), "zq_when%d" % idx)
    if kind == 1:
        return d.add_component(Component((np.arange(n, dtype=float) * 1.5 - 1).reshape(shape), units="Jy"),
                               "zq_flux%d" % idx)
    if kind == 2:
        t = np.array([("u", "v", "w")[i % 3] for i in range(n)]).reshape(shape)
        comp = CategoricalComponent(t, categories=np.array(["w", "x", "u", "v"]), units="class")
        comp.jitter("uniform")
        return d.add_component(comp, "zq_cls%d" % idx)
    cid = ComponentID("zq_der%d" % idx)
    d.add_component_link(ComponentLink([d.pixel_component_ids[0]], cid))
    return cid


def restore_data(d, cids):
    """the dataset as a restored session holds it"""
    text = GlueSerializer(d).dumps()
    d2 = GlueUnSerializer.loads(text).object("__main__")
    by = {}
    for c in d2.main_components + d2.derived_components:
        by.setdefault(c.label, c)
    return d2, [by[c.label] for c in cids]


def build_data(shape, cols, dst=None):
    seed = st_item(dst, "seed")
    np.random.seed(seed[1] if seed else 0)
    label = st_item(dst, "label")
    kw = {}
    if st_item(dst, "wcs"):
        kw["coords"] = make_wcs(len(shape))
    d = Data(label=TXT(label[1]) if label else "d", **kw)
    extras = (st_item(dst, "extras") or [None, []])[1]
    cols = fix_derived(cols)
    cids = []
    renames = []
    for i, col in enumerate(cols + [None]):
        for ei, (ek, epos) in enumerate(extras):
            # (a link from the pixel coordinates needs a dataset that already has a shape)
            if max(min(epos, len(cols)), 1 if ek == 3 else 0) == i:
                add_extra(d, ek, ei, tuple(shape))
        if col is None:
            break
        st = col[6]
        name = TXT(col[0])
        old = st_item(st, "old")
        first_name = TXT(old[1]) if old else name
        src = st_item(st, "from")
        if col[2] and src is not None:   # derived from another component of the dataset
            cid = ComponentID(first_name)
            d.add_component_link(ComponentLink([cids[src[1]]], cid, using=None if src[2] == 0 else _txtlen))
        elif col[2]:  # derived component: a link whose function returns the column's values
            arr = column_array(col, tuple(shape))
            cid = ComponentID(first_name)
            # a function of the pixel coordinates, so that it is correct under every view
            link = ComponentLink(list(d.pixel_component_ids), cid,
                                 using=lambda *idx, _v=arr: _v[tuple(np.asarray(i, dtype=int) for i in idx)])
            d.add_component_link(link)
        else:
            arr = column_array(col, tuple(shape))
            units = st_item(st, "units")
            units = TXT(units[1]) if units else None
            if col[1] == "s":
                cats = st_item(st, "cats")
                comp = CategoricalComponent(arr, categories=categories_for(arr, cats[1]) if cats else None, units=units)
                if st_item(st, "jit"):
                    comp.jitter("uniform")
            else:
                comp = Component(arr, units=units)
            cid = d.add_component(comp, first_name)
        if old:
            renames.append((cid, name))
        cids.append(cid)
    for cid, name in renames:     # renamed after creation (all components exist by then)
        cid.label = name
    if st_item(dst, "restored"):
        d0 = d
        d, cids = restore_data(d, cids)
        d._c19_keep = d0
    return d, cids


def canon_cell(x):
    if isinstance(x, bytes):
        return S(x.decode("latin-1"))
    if isinstance(x, str):
        return S(x)
    if isinstance(x, (bool, np.bool_)):
        return ["q", int(x), 1]
    if isinstance(x, (int, np.integer)):
        return ["q", int(x), 1]
    x = float(x)
    if x != x:
        return NAN
    if x in (float("inf"), float("-inf")):
        return "inf" if x > 0 else "-inf"
    return Q(x)


_KINDCODE = {"f": 102, "i": 105, "u": 117, "U": 115, "S": 115, "O": 115, "b": 98, "M": 77}


def canon_data(data):
    comps = []
    for cid in data.main_components:
        comp = data.get_component(cid)
        arr = np.asarray(data[cid])
        flat = arr.ravel().tolist()
        comps.append([N(cid.label), isinstance(comp, CategoricalComponent),
                      _KINDCODE.get(arr.dtype.kind, 63) if flat else 0,
                      [canon_cell(x) for x in flat]])
    return [list(data.shape), comps]


def as_list(r):
    return r if isinstance(r, list) else [r]


def export_data(tmp, fmt, d, cids, sel, comps, fname="f"):
    """export the Data `d` (or the subset `sel` of it) with fmt's registered exporter"""
    obj = d
    keep = [d]
    if sel is not None:
        sub = d.new_subset()
        if d.label != "d":
            sub.label = d.label
        sub.subset_state = MaskSubsetState(np.array(sel, dtype=bool).reshape(d.shape), d.pixel_component_ids)
        obj = sub
        keep.append(sub)
    path = os.path.join(tmp, "%s.%s" % (fname, FORMATS[fmt][1]))
    fn = exporter(fmt)
    if comps is None:
        fn(path, obj)
    else:
        fn(path, obj, components=[cids[i] for i in comps])
    return path, keep


def export_case(tmp, fmt, shape, cols, sel, comps, fname="f", dst=None):
    d, cids = build_data(shape, cols, dst)
    return export_data(tmp, fmt, d, cids, sel, comps, fname)


def load_back(fmt, path):
    """load_data on an exported file: list of Data, or the atom of a loud, modelled failure"""
    try:
        fac = factory_for(fmt)
        return as_list(load_data(path) if fac is None else load_data(path, factory=fac))
    except (KeyError, IndexError) as e:
        # astropy cannot read back an empty LaTeX table
        if fmt == "latex" and (isinstance(e, IndexError) or "Don't know how to open" in str(e)):
            return "no-reader"
        raise


def round_trip(fmt, shape, cols, sel, comps, dst=None):
    tmp = tempfile.mkdtemp(prefix="c19_")
    try:
        with warnings.catch_warnings():
            warnings.simplefilter("ignore")
            try:
                path, keep = export_case(tmp, fmt, shape, cols, sel, comps, dst=dst)
            except UnicodeEncodeError:
                return "unicode-error"
            loaded = load_back(fmt, path)
            if isinstance(loaded, str):
                return loaded
            out = ["ok", [canon_data(x) for x in loaded]]
            del keep
            return out
    finally:
        shutil.rmtree(tmp, ignore_errors=True)


def kind_of(arr, comp):
    """the model's Kind of a loaded component: what the next exporter is handed"""
    if isinstance(comp, CategoricalComponent):
        return "s"
    k = arr.dtype.kind
    if k == "f":
        return "f"
    if k in "iu":
        return [k, arr.dtype.itemsize * 8]
    return "other-" + k


def chain_trip(fmt_a, shape, cols, fmt_b, sel, comps, dst=None):
    """export with A -> load_data -> export the LOADED dataset (or a subset of it) with B -> load_data.
    The second exporter is handed whatever storage the first reader produced (big-endian FITS
    arrays, memory-mapped read-only HDF5 arrays, object / bytes text columns ...)."""
    tmp = tempfile.mkdtemp(prefix="c19_")
    try:
        with warnings.catch_warnings():
            warnings.simplefilter("ignore")
            try:
                path, keep = export_case(tmp, fmt_a, shape, cols, None, None, dst=dst)
            except UnicodeEncodeError:
                return ["chain", "unicode-error", "N", "N"]
            loaded = load_back(fmt_a, path)
            if isinstance(loaded, str):
                return ["chain", loaded, "N", "N"]
            hop1 = ["ok", [canon_data(x) for x in loaded]]
            d1 = loaded[0]
            cids1 = list(d1.main_components)
            kinds1 = [kind_of(np.asarray(d1[c]), d1.get_component(c)) for c in cids1]
            try:
                path2, keep2 = export_data(tmp, fmt_b, d1, cids1, sel, comps, fname="g")
            except UnicodeEncodeError:
                return ["chain", hop1, kinds1, "unicode-error"]
            loaded2 = load_back(fmt_b, path2)
            hop2 = loaded2 if isinstance(loaded2, str) else ["ok", [canon_data(x) for x in loaded2]]
            del keep, keep2, loaded, loaded2
            return ["chain", hop1, kinds1, hop2]
    finally:
        shutil.rmtree(tmp, ignore_errors=True)


# ------------------------------------------------------------------------------------------
# generators
# ------------------------------------------------------------------------------------------

NAMES = ["zeta", "a", "m", "Flux", "x1", "col_2", "b", "K", "ra", "DEC_deg", "w", "y"]

FLOATS = [NAN, Q(0), Q(1.5), Q(-2.25), Q(3), Q(4), Q(0.5), Q(-1), Q(1024.125), Q(2.0 ** -10), Q(1000), Q(2.0 ** 40 + 0.5)]
FLOATS32 = [NAN, Q(0), Q(1.5), Q(-2.25), Q(3), Q(0.5), Q(-1), Q(1024.125)]
FLOATS16 = [NAN, Q(0), Q(1.5), Q(-2.25), Q(3), Q(0.5), Q(-1), Q(1024), Q(0.125), Q(48.5)]
FLOAT_POOL = {None: FLOATS, "f8": FLOATS, "f4": FLOATS32, "f2": FLOATS16}
# formats that can hold the narrow types (float16: VOTable / gridded FITS refuse loudly; int8: no FITS /
# VOTable type — astropy writes a logical column, raises, or BZERO + BLANK cannot be read back)
F2_FORMATS = ("csv", "ipac", "latex", "fitstab", "hdf5")
I8_FORMATS = ("csv", "ipac", "latex", "hdf5")


def ints_for(kind, rng, risky=False, fmt=None):
    k, b = kind
    if fmt == "fitsimg" and not risky and b == 64:
        # values that the FITS BLANK -> float64 conversion keeps exact (finding F6 otherwise)
        return [Q(v) for v in ([0, 1, -1, 2, -3, 5, 7, 100, 2 ** 53, -(2 ** 53), 2 ** 40] if k == "i" else [0, 1, 2, 3, 5, 7, 100, 2 ** 53])]
    if k == "i":
        base = [0, 1, -1, 2, -3, 5, 7, 100 if b > 8 else 77, 2 ** (b - 1) - 1, -(2 ** (b - 1)) + 1]
        if b == 64:
            base += [2 ** 53, -(2 ** 53), 2 ** 40]
            if risky:
                base += [2 ** 53 + 1, 2 ** 62 + 1, -(2 ** 63)]
        elif risky:
            base += [-(2 ** (b - 1))]
    else:
        base = [0, 1, 2, 3, 5, 7, 100, 2 ** b - 1 if b < 64 else 2 ** 53]
        if b == 64 and risky:
            base += [2 ** 64 - 1, 2 ** 53 + 1]
    return [Q(v) for v in base]


TEXT_SIMPLE = ["a", "b", "ab", "Qx", "x1", "q r", "a-b", "a.b", "abc_d", "NaNo", "e5"]
TEXT_PUNCT = ["a,b", "q\"r", "it's", "x&y", "c<d", "a;b", "p|q", "a\\b", "z%", "h#i"]
TEXT_NONASCII = ["aé", "naïve", "xα"]
TEXT_NUMERIC = ["1", "25", "-3", "2.5", "0.25", "007"]
TEXT_ODD = ["", "é", "7x", "-"]


def text_pool(fmt, domain_only):
    pool = list(TEXT_SIMPLE)
    if fmt in ("csv", "votable", "fitstab", "hdf5"):
        pool += TEXT_PUNCT
    if fmt in ("csv", "votable", "hdf5"):
        pool += TEXT_NONASCII
    if fmt == "fitstab" and not domain_only:
        pool += TEXT_NONASCII[:1]
    if not domain_only and fmt in ("csv", "votable", "fitstab", "hdf5"):
        pool += TEXT_NUMERIC + TEXT_NUMERIC + TEXT_ODD
    return pool


KINDS_TABLE = ["f", "s", ["i", 64], ["i", 32], ["i", 16], ["u", 8], ["u", 16], ["u", 32], ["u", 64]]


def kinds_for(fmt):
    ks = ["f", "f", ["i", 64], ["i", 32], ["i", 16], ["u", 8]]
    if fmt in I8_FORMATS:
        ks += [["i", 8]]
    if fmt != "votable":
        ks += [["u", 16], ["u", 32], ["u", 64]]
    if fmt != "fitsimg":
        ks += ["s", "s"]
    else:
        ks += ["s"]
    return ks


def layouts_for(kind):
    return LAYOUTS_STR if kind == "s" else LAYOUTS_NUM


def random_layout(rng, kind):
    """half of the components are plain arrays, the others get one of the non-trivial layouts"""
    if rng.random() < 0.5:
        return "native"
    return rng.choice(layouts_for(kind)[1:])


def make_col(rng, fmt, name, kind, n, derived=False, domain_only=True, risky=False, layout="native", hint=None,
             fmt2=None, state=None):
    """[name, kind, derived, cells, dtype hint, layout, state]; `fmt2`: a second format the values must also suit"""
    fmts = [fmt] + ([fmt2] if fmt2 else [])
    if kind == "f":
        if hint is None:
            r = rng.random()
            if r < 0.25:
                hint = "f4"
            elif r < 0.35 and all(f in F2_FORMATS for f in fmts):
                hint = "f2"
        cells = [rng.choice(FLOAT_POOL[hint]) for _ in range(n)]
    elif kind == "s":
        pool = text_pool(fmt, domain_only)
        if fmt2:
            p2 = text_pool(fmt2, domain_only)
            pool = [t for t in pool if t in p2]
        mode = rng.random()
        if not domain_only and mode < 0.25:
            pool = TEXT_NUMERIC + ([""] if fmt == "csv" else [])
        elif not domain_only and mode < 0.5:
            pool = TEXT_NUMERIC + TEXT_SIMPLE[:3] + ([""] if fmt == "csv" else [])
        cells = [S(rng.choice(pool)) for _ in range(n)]
    else:
        pool = ints_for(tuple(kind), rng, risky, "fitsimg" if "fitsimg" in fmts else fmt)
        cells = [rng.choice(pool) for _ in range(n)]
    return [N(name), kind, derived, cells, hint, layout, state]


def lean_cols(cols):
    """what the model sees: values, the layout tag and the object-state tag (the dtype hint only
    picks the value pool)"""
    out = []
    for c in fix_derived(cols):
        out.append(c[:4] + [c[5], c[6]])
    return out


def random_state(rng, kind, derived):
    """object state of one component, drawn independently of its values"""
    st = []
    if kind == "s" and not derived:
        if rng.random() < 0.6:
            st.append(["jit"])
        if rng.random() < 0.5:
            st.append(["cats", rng.randrange(N_CATS_RECIPES)])
    if not derived and rng.random() < 0.35:
        st.append(["units", N(rng.choice(UNITS_POOL))])
    if rng.random() < 0.25:
        st.append(["old", N(rng.choice(OLD_NAMES))])
    return st or None


def decorate(rng, cols, comps, p_col=0.35, p_data=0.45):
    """give the components and the Data object of a generated case a random object state"""
    cols = [norm_col(c) for c in cols]
    for i, c in enumerate(cols):
        if c[2] and rng.random() < 0.5:
            srcs = [j for j in range(i) if not cols[j][2] and cols[j][5] != "object"]
            if srcs:
                j = rng.choice(srcs)
                c[6] = [["from", j, 1 if cols[j][1] == "s" else 0]]
        if rng.random() < p_col:
            c[6] = (c[6] or []) + (random_state(rng, c[1], c[2]) or []) or None
    dst = [["seed", rng.randrange(1, 2 ** 31 - 1)]]
    if rng.random() < p_data:
        if rng.random() < 0.5:
            dst.append(["label", N(rng.choice(LABEL_POOL))])
        if rng.random() < 0.25:
            dst.append(["wcs"])
        if comps is not None and rng.random() < 0.6:
            dst.append(["extras", [[rng.randrange(EXTRA_KINDS), rng.randint(0, len(cols))]
                                   for _ in range(rng.randint(1, 2))]])
        if rng.random() < 0.35:
            dst.append(["restored"])
    return sanitize(cols, comps, dst)


def state_sig(cols, dst):
    """the one kind of object state a (shrunk) case carries, 'plain', or 'mixed'"""
    ks = set(it[0] for c in cols for it in (norm_col(c)[6] or []))
    ks |= set(it[0] for it in (dst or []) if it[0] != "seed")
    ks = sorted(ks)
    return "plain" if not ks else ks[0] if len(ks) == 1 else "mixed"


def state_shrinks(cols, comps, dst):
    """plain objects first: if the failure survives, it is about values / layout, not object state"""
    cols = [norm_col(c) for c in cols]
    seed_only = [it for it in (dst or []) if it[0] == "seed"] or None
    if any(c[6] for c in cols) or (dst or None) != seed_only:
        yield [c[:6] + [None] for c in cols], comps, seed_only
        if (dst or None) != seed_only:
            yield cols, comps, seed_only
        for ci, c in enumerate(cols):
            if c[6]:
                yield cols[:ci] + [c[:6] + [None]] + cols[ci + 1:], comps, dst
        for ci, c in enumerate(cols):
            if c[6] and len(c[6]) > 1:
                for it in c[6]:
                    yield cols[:ci] + [c[:6] + [[x for x in c[6] if x is not it]]] + cols[ci + 1:], comps, dst
        for it in (dst or []):
            if it[0] != "seed":
                yield cols, comps, [x for x in dst if x is not it]
        ex = st_item(dst, "extras")
        if ex and len(ex[1]) > 1:
            for k in range(len(ex[1])):
                yield cols, comps, [x if x is not ex else ["extras", ex[1][:k] + ex[1][k + 1:]] for x in dst]


def drop_column(cols, dst, k):
    """cols without column k: references to it / positions after it are adjusted"""
    out = []
    for i, c in enumerate(norm_col(c) for c in cols):
        if i == k:
            continue
        it = st_item(c[6], "from")
        if it is not None:
            st = st_without(c[6], "from")
            if it[1] != k:
                st = (st or []) + [["from", it[1] - (1 if it[1] > k else 0), it[2]]]
            c = c[:6] + [st]
        out.append(c)
    ex = st_item(dst, "extras")
    if ex:
        dst = [x if x is not ex else ["extras", [[a, b - (1 if b > k else 0)] for a, b in ex[1]]] for x in dst]
    return out, dst


def drop_comp_index(comps, k):
    if comps is None:
        return None
    return [i - (1 if i > k else 0) for i in comps if i != k]


def masks_small(n):
    return [list(m) for m in itertools.product([False, True], repeat=n)]


def random_case(rng, fmt, image, domain_only, risky=False, layouts=True, states=True):
    if image:
        shape = rng.choice([[2, 2], [2, 3], [1, 3], [3, 1], [2, 1, 2], [4], [2, 2, 2]])
    else:
        shape = [rng.choice([1, 2, 3, 3, 4, 5, 8])]
    n = int(np.prod(shape))
    ncol = rng.choice([1, 2, 2, 3, 3, 4])
    names = rng.sample(NAMES, ncol)
    cols = []
    have_main = False
    for i, name in enumerate(names):
        kind = rng.choice(kinds_for(fmt))
        if image and kind == "s" and fmt == "hdf5" and rng.random() < 0.5:
            kind = "f"
        derived = have_main and kind != "s" and rng.random() < 0.25
        cols.append(make_col(rng, fmt, name, kind, n, derived, domain_only, risky,
                             layout=random_layout(rng, kind) if layouts else "native"))
        if not derived:
            have_main = True
    if fmt == "fitsimg" and all(c[1] == "s" for c in cols):
        cols[0] = make_col(rng, fmt, names[0], "f", n, False, domain_only, risky)
    r = rng.random()
    if r < 0.3:
        sel = None
    elif r < 0.4:
        sel = [False] * n
    elif r < 0.5:
        sel = [True] * n
    else:
        sel = [rng.random() < 0.5 for _ in range(n)]
    r = rng.random()
    if r < 0.6:
        comps = None
    else:
        k = rng.randint(1, ncol)
        comps = rng.sample(range(ncol), k)  # order of the list must not matter
    if comps is not None and fmt == "fitsimg" and all(cols[i][1] == "s" for i in comps):
        comps = None
    dst = None
    if states:
        cols, dst = decorate(rng, cols, comps)
    return [fmt, shape, cols, sel, comps, dst]


def layout_sig(cols):
    """the one non-native layout of a (shrunk) case, 'native', or 'mixed'"""
    ls = sorted(set(norm_col(c)[5] for c in cols) - {"native"})
    return "native" if not ls else ls[0] if len(ls) == 1 else "mixed"


def case_dst(case, k=5):
    return case[k] if len(case) > k else None


class RoundTrip(Family):
    batch = 40
    case_timeout = 60.0

    def line(self, case, pyout):
        fmt, shape, cols, sel, comps = case[:5]
        return sx([self.name, [fmt, shape, lean_cols(cols), sel, comps, case_dst(case)], pyout])

    def run_impl(self, case):
        fmt, shape, cols, sel, comps = case[:5]
        return round_trip(fmt, shape, cols, sel, comps, case_dst(case))

    def setup(self):
        _freeze()

    def reset(self):
        _collect()

    def nontrivial(self, case, po):
        return case[3] is not None and any(case[3]) and not all(case[3])

    def signature(self, case, po, res):
        return {"br": res.get("br"), "fmt": case[0], "layout": layout_sig(case[2]),
                "state": state_sig(case[2], case_dst(case))}

    def describe(self, case):
        return {"fmt": case[0], "shape": case[1], "ncols": len(case[2]), "kinds": [c[1] for c in case[2]],
                "layouts": [norm_col(c)[5] for c in case[2]], "sel": case[3], "comps": case[4],
                "states": [norm_col(c)[6] for c in case[2]], "data_state": case_dst(case)}

    def shrink(self, case):
        seen = [case]
        for cand in self._shrink(case):
            cols, dst = sanitize(cand[2], cand[4], cand[5])
            cand = [cand[0], cand[1], cols, cand[3], cand[4], dst]
            if cand not in seen:
                seen.append(cand)
                yield cand

    def _shrink(self, case):
        fmt, shape, cols, sel, comps = case[:5]
        dst = case_dst(case)
        cols = [norm_col(c) for c in cols]
        # object state first, then storage: if the failure survives plain objects / plain arrays it is
        # about the values
        for c2, k2, d2 in state_shrinks(cols, comps, dst):
            yield [fmt, shape, c2, sel, k2, d2]
        if any(c[5] != "native" for c in cols):
            yield [fmt, shape, [c[:5] + ["native", c[6]] for c in cols], sel, comps, dst]
            for ci, c in enumerate(cols):
                if c[5] != "native":
                    yield [fmt, shape, cols[:ci] + [c[:5] + ["native", c[6]]] + cols[ci + 1:], sel, comps, dst]
        if comps is not None:
            yield [fmt, shape, cols, sel, None, dst]
        if len(shape) == 1 and shape[0] > 1:
            n = shape[0]
            for drop in range(n):
                yield [fmt, [n - 1], [c[:3] + [c[3][:drop] + c[3][drop + 1:]] + c[4:] for c in cols],
                       None if sel is None else sel[:drop] + sel[drop + 1:], comps, dst]
        if len(cols) > 1:
            for drop in range(len(cols)):
                rest, d2 = drop_column(cols, dst, drop)
                k2 = drop_comp_index(comps, drop)
                if k2 is not None and not k2:
                    continue
                if fmt == "fitsimg" and all(rest[i][1] == "s" for i in (k2 if k2 is not None else range(len(rest)))):
                    continue
                if rest and not rest[0][2]:
                    yield [fmt, shape, rest, sel, k2, d2]
        if sel is not None:
            yield [fmt, shape, cols, None, comps, dst]
        for ci, c in enumerate(cols):
            if st_item(c[6], "from") is not None:
                continue
            simple = S("a") if c[1] == "s" else Q(1)
            for k, cell in enumerate(c[3]):
                if cell != simple:
                    nc = c[:3] + [c[3][:k] + [simple] + c[3][k + 1:]] + c[4:]
                    yield [fmt, shape, cols[:ci] + [nc] + cols[ci + 1:], sel, comps, dst]


class Tab(RoundTrip):
    """1-d tables through all seven registered exporters."""
    name = "tab"
    budget_share = 5.0

    def cases(self, tier, rng):
        # --- structured small scope: every format x column templates x every mask (n <= 3) x filters
        def T(kinds, n, rr, fmt, derived_at=None, domain_only=True):
            cols = []
            for i, k in enumerate(kinds):
                cols.append(make_col(rr, fmt, NAMES[i], k, n, derived=(derived_at == i), domain_only=domain_only))
            return cols
        templates = [
            ["f"], ["s"], [["i", 64]], ["f", ["i", 32], "s"], ["s", "f"], [["i", 16], "s", "f"],
            [["u", 8], "f"], ["f", "f", ["i", 64], "s"],
        ]
        import random as _r
        for fmt in TABLE_FORMATS:
            for ti, kinds in enumerate(templates):
                if fmt == "fitsimg" and all(k == "s" for k in kinds):
                    continue
                for n in (1, 2, 3):
                    rr = _r.Random(1000 * ti + n)  # the structured part does not depend on the seed
                    cols = T(kinds, n, rr, fmt)
                    for sel in [None] + masks_small(n):
                        yield [fmt, [n], cols, sel, None]
                # derived component in the middle, component filters (order of the list irrelevant)
                rr = _r.Random(77 + ti)
                if len(kinds) >= 3:
                    cols = T(kinds, 3, rr, fmt, derived_at=1 if kinds[1] != "s" else None)
                    for comps in ([0], [2, 0], [1, 2], [2, 1, 0]):
                        if fmt == "fitsimg" and all(cols[i][1] == "s" for i in comps):
                            continue
                        for sel in (None, [True, False, True], [False, False, False]):
                            yield [fmt, [3], cols, sel, comps]
        # --- seeded random: in the quantifier
        nr = 1680 if tier == "quick" else 12000
        for i in range(nr):
            fmt = TABLE_FORMATS[i % len(TABLE_FORMATS)]
            yield random_case(rng, fmt, False, True)
        # --- seeded random: outside the quantifier (numeric-looking text, empty text, non-ASCII) — model fidelity
        nr = 800 if tier == "quick" else 6000
        for i in range(nr):
            fmt = ("csv", "votable", "fitstab", "hdf5")[i % 4]
            yield random_case(rng, fmt, False, False)


class Img(RoundTrip):
    """n-d images through the two exporters that keep the shape (HDF5, gridded FITS)."""
    name = "img"
    budget_share = 2.5

    def cases(self, tier, rng):
        import random as _r
        kinds = ["f", ["i", 16], ["i", 32], ["i", 64], ["u", 8], ["u", 16], "s"]
        for fmt in IMAGE_FORMATS:
            for ki, k in enumerate(kinds):
                rr = _r.Random(500 + ki)
                cols = [make_col(rr, fmt, "im", k, 4), make_col(rr, fmt, "aux", "f", 4)]
                for sel in [None] + masks_small(4):
                    yield [fmt, [2, 2], cols, sel, None]
                yield [fmt, [2, 2], cols, [True, False, False, True], [0]] if not (fmt == "fitsimg" and k == "s") else [fmt, [2, 2], cols, None, [1]]
        nr = 1200 if tier == "quick" else 8000
        for i in range(nr):
            yield random_case(rng, IMAGE_FORMATS[i % 2], True, True)
        # finding stratum: integer pixels the BLANK mechanism cannot keep (F6), and out-of-quantifier text
        nr = 240 if tier == "quick" else 2000
        for i in range(nr):
            yield random_case(rng, IMAGE_FORMATS[i % 2], True, i % 3 == 0, risky=True)

    def nontrivial(self, case, po):
        return case[3] is not None and any(case[3]) and not all(case[3])


def _const(cell, n):
    return [cell] * n


def layout_table(fmt, n, which, layout, rot=None):
    """The fixed small table / image of the layout core: every dtype the format can hold, all
    components stored under `layout` (text-only layouts: numeric components rotate through the
    common ones); `rot` = k gives every component a different layout instead."""
    def vals(xs):
        return [xs[i % len(xs)] for i in range(n)]
    if which == 0:
        cols = [["a", "f", vals([Q(1.5), NAN, Q(-2.25), Q(2.0 ** 40 + 0.5)]), "f8"],
                ["b", ["i", 32], vals([Q(1), Q(-2), Q(40000), Q(-2 ** 31 + 1)]), None],
                ["s", "s", vals([S("ab"), S("Qx"), S("abc_d"), S("e5")]), None],
                ["i", ["i", 16], vals([Q(1), Q(-2), Q(300), Q(32767)]), None],
                ["u", ["u", 16] if fmt != "votable" else ["u", 8], vals([Q(1), Q(2), Q(255), Q(7)]), None]]
    else:
        cols = [["h", "f", vals([Q(1.5), Q(3), Q(-2.25), Q(1024.125)]), "f4"],
                ["j", ["i", 64], vals([Q(1), Q(-2), Q(2 ** 40), Q(2 ** 53)]), None],
                ["c", "f", _const(Q(7), n), "f8"],
                ["t", "s", _const(S("Qx"), n), None],
                ["w", ["u", 8], vals([Q(1), Q(2), Q(255), Q(0)]), None]]
        if fmt in F2_FORMATS:
            cols.append(["k", "f", vals([Q(1.5), NAN, Q(0.125), Q(1024)]), "f2"])
        if fmt in I8_FORMATS:
            cols.append(["g", ["i", 8], vals([Q(1), Q(-2), Q(127), Q(-127)]), None])
        if fmt != "votable":
            cols.append(["v", ["u", 32], vals([Q(1), Q(2), Q(2 ** 32 - 1), Q(7)]), None])
            cols.append(["x", ["u", 64], vals([Q(1), Q(2), Q(2 ** 53), Q(7)]), None])
    out = []
    for i, (name, kind, cells, hint) in enumerate(cols):
        if kind == "s" and fmt == "fitsimg":
            continue
        pool = layouts_for(kind)
        if rot is not None:
            lay = pool[(i * 3 + rot) % len(pool)]
        elif layout in pool:
            lay = layout
        else:
            lay = LAYOUTS_COMMON[1 + (i + LAYOUTS_TEXT.index(layout)) % (len(LAYOUTS_COMMON) - 1)]
        out.append([N(name), kind, False, cells, hint, lay])
    return out


class Lay(RoundTrip):
    """Exhaustive storage-layout core: every exporter x every layout x one small table / image with
    every dtype the format holds x whole / proper / empty (/ full) subset.  Seed-independent."""
    name = "lay"
    budget_share = 2.0
    exhaustive = True

    def cases(self, tier, rng):
        proper3 = [True, False, True]
        for fmt in TABLE_FORMATS:
            lays = LAYOUTS_COMMON if fmt == "fitsimg" else LAYOUTS_ALL
            for which in (0, 1):
                for lay in lays:
                    cols = layout_table(fmt, 3, which, lay)
                    for sel in (None, proper3, [False] * 3):
                        yield [fmt, [3], cols, sel, None]
                    yield [fmt, [3], cols, proper3, [1, 0]]
                for rot in range(4):
                    cols = layout_table(fmt, 3, which, None, rot)
                    for sel in (None, proper3, [False] * 3):
                        yield [fmt, [3], cols, sel, None]
        proper6 = [True, False, True, False, False, True]
        for fmt in IMAGE_FORMATS:
            lays = LAYOUTS_COMMON if fmt == "fitsimg" else LAYOUTS_ALL
            for which in (0, 1):
                for lay in lays:
                    cols = layout_table(fmt, 6, which, lay)
                    for sel in (None, proper6, [False] * 6, [True] * 6):
                        yield [fmt, [2, 3], cols, sel, None]
                    yield [fmt, [3, 1, 2], cols, proper6, None]
                    yield [fmt, [3, 1, 2], cols, None, [0, 1]]
                for rot in range(4):
                    cols = layout_table(fmt, 6, which, None, rot)
                    for sel in (None, proper6):
                        yield [fmt, [3, 2], cols, sel, None]


def state_variants(fmt, image):
    """The structured object-state core: (cols, comps, dataset-state items) over one fixed table /
    image.  Every kind of state alone, the combinations that matter (jitter x explicit categories,
    derived components fed by stateful inputs, restored sessions of stateful components), and every
    Data label / unit string of the pools."""
    if not image:
        n = 6
        base = [["a", "f", [Q(1.5), NAN, Q(-2.25), Q(3), Q(0.5), Q(1024.125)], "f8"],
                ["s", "s", [S(x) for x in ("ab", "Qx", "ab", "e5", "Qx", "x1")], None],
                ["b", ["i", 32], [Q(1), Q(-2), Q(40000), Q(7), Q(0), Q(5)], None],
                ["t", "s", [S(x) for x in ("Flux", "abc_d", "Flux", "Flux", "a-b", "abc_d")], None]]
        txt = [1, 3]
    else:
        n = 6
        base = [["a", "f", [Q(1.5), NAN, Q(-2.25), Q(3), Q(0.5), Q(1024.125)], "f8"],
                ["b", ["i", 16], [Q(1), Q(-2), Q(300), Q(7), Q(0), Q(5)], None],
                ["u", ["u", 8], [Q(1), Q(2), Q(255), Q(7), Q(0), Q(5)], None]]
        txt = []
        if fmt == "hdf5":
            base.append(["s", "s", [S(x) for x in ("ab", "Qx", "ab", "e5", "Qx", "x1")], None])
            txt = [3]

    def cols_with(states, extra_cols=()):
        cols = [[N(nm), kind, False, cells, hint, "native", states.get(i)] for i, (nm, kind, cells, hint) in enumerate(base)]
        for pos, nm, src, fn, st in extra_cols:   # derived columns, inserted at `pos`
            cols.insert(pos, [N(nm), None, True, [], None, "native", [["from", src, fn]] + (st or [])])
        return fix_derived(cols)

    out = []

    def add(states=None, dst=None, comps=None, extra_cols=(), light=False):
        out.append((cols_with(states or {}, extra_cols), comps, dst or [], light))

    J, U = ["jit"], lambda u: ["units", N(u)]
    O = lambda nm: ["old", N(nm)]
    # --- categorical state
    for i in txt[:1]:
        add({i: [J]})
        for k in range(N_CATS_RECIPES):
            add({i: [["cats", k]]})
        for k in range(4):
            add({i: [J, ["cats", k]]})
    if len(txt) > 1:
        add({txt[0]: [J], txt[1]: [J, ["cats", 2]]})
        add({txt[0]: [["cats", 3]], txt[1]: [J]})
    # --- units (gridded FITS writes them into the header: every string of the pool)
    for u in (UNITS_POOL if fmt == "fitsimg" else UNITS_POOL[:3] + UNITS_POOL[-2:]):
        add({0: [U(u)]})
    add({i: [U(UNITS_POOL[(3 * i + 1) % len(UNITS_ASCII)])] for i in range(len(base))})
    if txt:
        add({txt[0]: [U("class"), J]})
    # --- renamed after creation
    for i in range(len(base)):
        add({i: [O(OLD_NAMES[i % len(OLD_NAMES)])]})
    add({i: [O(OLD_NAMES[(i + 2) % len(OLD_NAMES)])] for i in range(len(base))})
    add({0: [O("b")]})    # the old name is another component's (later) name
    # --- derived components whose inputs carry state (and their own: renamed)
    add({0: [U("km/s"), O("tmp_0")]}, extra_cols=[(1, "c", 0, 0, None)])
    add({}, extra_cols=[(len(base), "c", 1 if image else 2, 0, [O("old name")])])
    if txt:
        i = txt[0]
        add({}, extra_cols=[(i + 1, "L", i, 1, None)])
        add({i: [J]}, extra_cols=[(i + 1, "L", i, 1, None)])
        add({i: [J, ["cats", 0]], 0: [U("deg")]}, extra_cols=[(1, "c", 0, 0, None), (i + 2, "L", i + 1, 1, [O("tmp_0")])])
    # --- the Data object: label, WCS
    for lab in LABEL_POOL:
        add({}, [["label", N(lab)]], light=True)
    add({}, [["wcs"]])
    add({0: [U("Jy/beam")]}, [["wcs"], ["label", N("a/b")]])
    # --- restored session
    add({}, [["restored"]])
    add({0: [U("km/s"), O("tmp_0")]}, [["restored"], ["label", N("my data")]])
    add({}, [["restored"], ["wcs"]], extra_cols=[(1, "c", 0, 0, None)])
    if txt:
        i = txt[0]
        add({i: [J]}, [["restored"]])
        add({i: [J, ["cats", 0]]}, [["restored"]])
        add({i: [["cats", 2]], 0: [U("\u00c5")]}, [["restored"]], extra_cols=[(i + 1, "L", i, 1, None)])
    # --- components that are present but not requested
    allc = list(range(len(base)))
    for kind in range(EXTRA_KINDS):
        add({}, [["extras", [[kind, 0]]]], comps=allc, light=True)
        add({}, [["extras", [[kind, len(base)], [(kind + 1) % EXTRA_KINDS, 1]]]], comps=allc[::-1], light=True)
    add({0: [U("deg")]}, [["extras", [[0, 1], [2, 2]]], ["restored"]], comps=allc[:2])
    return out


class St(RoundTrip):
    """Exhaustive object-state core: every exporter x every kind of state a component / Data object
    carries beyond its values x one fixed table / image x whole / proper / empty subset.
    Seed-independent (the np.random seed of a case is its index)."""
    name = "st"
    budget_share = 2.0
    exhaustive = True

    def cases(self, tier, rng):
        k = 0
        proper6 = [True, False, True, True, False, True]
        for fmt in TABLE_FORMATS:
            for cols, comps, dst, light in state_variants(fmt, False):
                for sel in (None, proper6, [False] * 6):
                    if sel is not None and not any(sel) and (fmt == "latex" or light):
                        continue
                    k += 1
                    c2, d2 = sanitize(cols, comps, [["seed", 100 + k]] + dst)
                    yield [fmt, [6], c2, sel, comps, d2]
        for fmt in IMAGE_FORMATS:
            for cols, comps, dst, light in state_variants(fmt, True):
                for shape, sel in (([2, 3], None), ([2, 3], proper6), ([3, 1, 2], proper6), ([2, 3], [False] * 6)):
                    if light and shape == [3, 1, 2]:
                        continue
                    k += 1
                    c2, d2 = sanitize(cols, comps, [["seed", 100 + k]] + dst)
                    yield [fmt, shape, c2, sel, comps, d2]


def both_kinds(fa, fb):
    kb = kinds_for(fb)
    return [k for k in kinds_for(fa) if k in kb]


def chain_case(rng, fa, fb, image):
    if image:
        shape = rng.choice([[2, 2], [2, 3], [3, 1], [2, 1, 2]])
    else:
        shape = [rng.choice([1, 2, 3, 3, 4, 5])]
    n = int(np.prod(shape))
    ncol = rng.choice([1, 2, 3, 3, 4])
    names = rng.sample(NAMES, ncol)
    kinds = both_kinds(fa, fb)
    cols = []
    for i, name in enumerate(names):
        kind = rng.choice(kinds)
        if fa == "fitsimg" and i == 0 and kind == "s":
            kind = "f"
        cols.append(make_col(rng, fa, name, kind, n, False, True, layout=random_layout(rng, kind), fmt2=fb))
    nd1 = 1 if fa == "fitsimg" else ncol          # components of the dataset loaded at hop 1
    kinds1 = [c[1] for c in cols][:nd1]
    if fb == "fitsimg" and all(k == "s" for k in kinds1):
        cols[0] = make_col(rng, fa, names[0], "f", n, False, True, layout=random_layout(rng, "f"), fmt2=fb)
        kinds1[0] = "f"
    r = rng.random()
    sel = None if r < 0.3 else [False] * n if r < 0.4 else [True] * n if r < 0.5 else [rng.random() < 0.5 for _ in range(n)]
    comps = None
    if rng.random() < 0.35:
        comps = rng.sample(range(nd1), rng.randint(1, nd1))
        if fb == "fitsimg" and all(kinds1[i] == "s" for i in comps):
            comps = None
    # object state of the dataset the FIRST exporter is handed (the loaded dataset has none of it)
    cols, dst = decorate(rng, cols, None)
    return [fa, shape, cols, fb, sel, comps, dst]


class Chain(Family):
    """export with A -> load_data -> export the loaded dataset / a subset of it with B -> load_data.
    Every ordered pair of exporters; the second exporter is handed the storage the first reader
    produced (big-endian FITS columns and images, read-only memory-mapped HDF5 arrays, bytes text)."""
    name = "chain"
    batch = 20
    budget_share = 2.5
    case_timeout = 60.0

    def cases(self, tier, rng):
        proper3 = [True, False, True]
        k = 0
        for fa in TABLE_FORMATS:
            for fb in TABLE_FORMATS:
                kinds = both_kinds(fa, fb)
                for which in (0, 1):
                    k += 1
                    cols = [c for c in layout_table(fa, 3, which, None, k % 7)
                            if c[1] in kinds and (c[4] != "f2" or fb in F2_FORMATS)]
                    if fb == "fitsimg":   # hop 2 with BLANK: values the int -> float64 conversion keeps
                        cols = [c for c in cols if c[1] != ["u", 64]]
                    if fa == "fitsimg":
                        cols = [c for c in cols if c[1] != "s"]
                    for sel in (None, proper3, [False] * 3):
                        yield [fa, [3], cols, fb, sel, None]
                    if which == 0:
                        yield [fa, [3], cols, fb, proper3, [0] if fa == "fitsimg" else [1, 0]]
        proper4 = [True, False, False, True]
        for fa in IMAGE_FORMATS:
            for fb in IMAGE_FORMATS:
                for which in (0, 1):
                    k += 1
                    cols = [c for c in layout_table(fa, 4, which, None, k % 7)
                            if c[1] != "s" and c[4] != "f2" and c[1] != ["i", 8] and c[1] != ["u", 64]]
                    for sel in (None, proper4, [False] * 4, [True] * 4):
                        yield [fa, [2, 2], cols, fb, sel, None]
        nr = 600 if tier == "quick" else 5000
        for i in range(nr):
            if i % 5 == 4:
                fa, fb = rng.choice(IMAGE_FORMATS), rng.choice(IMAGE_FORMATS)
                yield chain_case(rng, fa, fb, True)
            else:
                fa, fb = rng.choice(TABLE_FORMATS), rng.choice(TABLE_FORMATS)
                yield chain_case(rng, fa, fb, False)

    def line(self, case, pyout):
        fa, shape, cols, fb, sel, comps = case[:6]
        return sx([self.name, [fa, shape, lean_cols(cols), fb, sel, comps, case_dst(case, 6)], pyout])

    def run_impl(self, case):
        fa, shape, cols, fb, sel, comps = case[:6]
        return chain_trip(fa, shape, cols, fb, sel, comps, case_dst(case, 6))

    def setup(self):
        _freeze()

    def reset(self):
        _collect()

    def nontrivial(self, case, po):
        return case[4] is not None and any(case[4]) and not all(case[4])

    def signature(self, case, po, res):
        return {"br": res.get("br"), "fmt": case[3], "fmtA": case[0], "layout": layout_sig(case[2]),
                "state": state_sig(case[2], case_dst(case, 6))}

    def describe(self, case):
        return {"fmtA": case[0], "fmtB": case[3], "shape": case[1], "kinds": [c[1] for c in case[2]],
                "layouts": [norm_col(c)[5] for c in case[2]], "sel": case[4], "comps": case[5],
                "states": [norm_col(c)[6] for c in case[2]], "data_state": case_dst(case, 6)}

    def shrink(self, case):
        seen = [case]
        for cand in self._shrink(case):
            cols, dst = sanitize(cand[2], None, cand[6])   # hop 1 exports everything: no `extras`
            cand = cand[:2] + [cols] + cand[3:6] + [dst]
            if cand not in seen:
                seen.append(cand)
                yield cand

    def _shrink(self, case):
        fa, shape, cols, fb, sel, comps = case[:6]
        dst = case_dst(case, 6)
        cols = [norm_col(c) for c in cols]
        for c2, _k, d2 in state_shrinks(cols, None, dst):
            yield [fa, shape, c2, fb, sel, comps, d2]
        if any(c[5] != "native" for c in cols):
            yield [fa, shape, [c[:5] + ["native", c[6]] for c in cols], fb, sel, comps, dst]
            for ci, c in enumerate(cols):
                if c[5] != "native":
                    yield [fa, shape, cols[:ci] + [c[:5] + ["native", c[6]]] + cols[ci + 1:], fb, sel, comps, dst]
        if comps is not None:
            yield [fa, shape, cols, fb, sel, None, dst]
        if sel is not None:
            yield [fa, shape, cols, fb, None, comps, dst]
        if len(cols) > 1 and comps is None:
            for drop in range(len(cols)):
                rest, d2 = drop_column(cols, dst, drop)
                if "fitsimg" in (fa, fb) and (rest[0][1] == "s" or all(c[1] == "s" for c in rest)):
                    continue
                yield [fa, shape, rest, fb, sel, None, d2]
        if len(shape) == 1 and shape[0] > 1:
            n = shape[0]
            for drop in range(n):
                yield [fa, [n - 1], [c[:3] + [c[3][:drop] + c[3][drop + 1:]] + c[4:] for c in cols], fb,
                       None if sel is None else sel[:drop] + sel[drop + 1:], comps, dst]


class Sess(Family):
    """Session saved by reference (include_data=False): the restored session re-reads the files."""
    name = "sess"
    batch = 20
    budget_share = 1.5
    case_timeout = 60.0

    def cases(self, tier, rng):
        nr = 420 if tier == "quick" else 2100
        for i in range(nr):
            fmt = TABLE_FORMATS[i % len(TABLE_FORMATS)]
            image = fmt in IMAGE_FORMATS and rng.random() < 0.5
            fmt_, shape, cols, sel, comps, dst = random_case(rng, fmt, image, True)
            n = int(np.prod(shape))
            # same names / kinds / dtypes / layouts / object states, new values
            cols2 = fix_derived([make_col(rng, fmt, "".join(chr(x) for x in c[0]), c[1], n, c[2], True, layout=c[5],
                                          hint=c[4] or ("f8" if c[1] == "f" else None), state=c[6]) for c in cols])
            yield [fmt, shape, cols, sel, comps, cols2, dst]

    def line(self, case, pyout):
        fmt, shape, cols, sel, comps, cols2 = case[:6]
        return sx([self.name, [fmt, shape, lean_cols(cols), sel, comps, lean_cols(cols2), case_dst(case, 6)], pyout])

    def setup(self):
        _freeze()

    def reset(self):
        _collect()

    def run_impl(self, case):
        fmt, shape, cols, sel, comps, cols2 = case[:6]
        dst = case_dst(case, 6)
        tmp = tempfile.mkdtemp(prefix="c19_")
        try:
            with warnings.catch_warnings():
                warnings.simplefilter("ignore")
                path, keep = export_case(tmp, fmt, shape, cols, sel, comps, dst=dst)
                fac = factory_for(fmt)
                try:
                    loaded = as_list(load_data(path) if fac is None else load_data(path, factory=fac))
                except IndexError:
                    if fmt == "latex":  # astropy cannot read back an empty LaTeX table
                        return ["sess", False, "no-reader"]
                    raise
                dc = DataCollection(loaded)
                text = GlueSerializer(dc, include_data=False).dumps()
                # nothing may be stored inline: every non-coordinate component is a reference into a LoadLog
                rec = json.loads(text)
                inline = any(isinstance(v, dict) and ("data" in v or "categorical_data" in v)
                             and str(v.get("_type", "")).endswith("Component") for v in rec.values())
                nlogs = sum(1 for v in rec.values() if isinstance(v, dict) and str(v.get("_type", "")).endswith("LoadLog"))
                if nlogs == 0:
                    inline = True
                # overwrite the file (atomically: the old one may still be memory-mapped) with new values
                path2, keep2 = export_case(tmp, fmt, shape, cols2, sel, comps, fname="g", dst=dst)
                os.replace(path2, path)
                dc2 = GlueUnSerializer.loads(text).object("__main__")
                out = ["sess", bool(inline), ["ok", [canon_data(x) for x in dc2]]]
                del keep, keep2, dc, loaded
                return out
        finally:
            shutil.rmtree(tmp, ignore_errors=True)

    def nontrivial(self, case, po):
        return True

    def signature(self, case, po, res):
        return {"br": res.get("br"), "fmt": case[0], "layout": layout_sig(case[2]),
                "state": state_sig(case[2], case_dst(case, 6))}

    def describe(self, case):
        return {"fmt": case[0], "shape": case[1], "kinds": [c[1] for c in case[2]], "sel": case[3], "comps": case[4],
                "states": [norm_col(c)[6] for c in case[2]], "data_state": case_dst(case, 6)}

    def shrink(self, case):
        seen = [case]
        for cand in self._shrink(case):
            cols, dst = sanitize(cand[2], cand[4], cand[6])
            cols2, dst = sanitize(cand[5], cand[4], dst)
            cand = [cand[0], cand[1], cols, cand[3], cand[4], cols2, dst]
            if cand not in seen:
                seen.append(cand)
                yield cand

    def _shrink(self, case):
        fmt, shape, cols, sel, comps, cols2 = case[:6]
        dst = case_dst(case, 6)
        cols, cols2 = [norm_col(c) for c in cols], [norm_col(c) for c in cols2]
        seed_only = [it for it in (dst or []) if it[0] == "seed"] or None
        if any(c[6] for c in cols) or (dst or None) != seed_only:
            yield [fmt, shape, [c[:6] + [None] for c in cols], sel, comps, [c[:6] + [None] for c in cols2], seed_only]
            for it in (dst or []):
                if it[0] != "seed":
                    yield [fmt, shape, cols, sel, comps, cols2, [x for x in dst if x is not it]]
            for ci in range(len(cols)):
                if cols[ci][6]:
                    yield [fmt, shape, cols[:ci] + [cols[ci][:6] + [None]] + cols[ci + 1:], sel, comps,
                           cols2[:ci] + [cols2[ci][:6] + [None]] + cols2[ci + 1:], dst]
        if any(c[5] != "native" for c in cols + cols2):
            yield [fmt, shape, [c[:5] + ["native", c[6]] for c in cols], sel, comps,
                   [c[:5] + ["native", c[6]] for c in cols2], dst]
        if comps is not None:
            yield [fmt, shape, cols, sel, None, cols2, dst]
        if sel is not None:
            yield [fmt, shape, cols, None, comps, cols2, dst]
        if len(cols) > 1 and comps is None:
            for drop in range(1, len(cols)):
                rest, d2 = drop_column(cols, dst, drop)
                rest2, _ = drop_column(cols2, dst, drop)
                yield [fmt, shape, rest, sel, None, rest2, d2]


class Registry(Family):
    """Every registered data exporter must be known to the model (a new one cannot escape silently)."""
    name = "reg"
    exhaustive = True

    def cases(self, tier, rng):
        yield 0

    def run_impl(self, case):
        return sorted(e.function.__name__ for e in data_exporter.members)


class ParseNum(Family):
    """L0: the model's reading of text (finite number? integer literal? ASCII-with-replace) against
    pandas.to_numeric / numpy on the generator's whole token universe, as str and as bytes."""
    name = "pnum"
    exhaustive = True

    def cases(self, tier, rng):
        toks = TEXT_SIMPLE + TEXT_PUNCT + TEXT_NONASCII + TEXT_NUMERIC + TEXT_ODD + NAMES + ["nan", "+4", "-0.5", "10.125", "1.5x", "x1.5", "- 3"]
        seen = set()
        for t in toks:
            if t not in seen:
                seen.add(t)
                yield N(t)

    def run_impl(self, case):
        t = "".join(chr(x) for x in case)
        arr = np.array([t, "zz"])  # an extra non-numeric entry, as in a text column
        with warnings.catch_warnings():
            warnings.simplefilter("ignore")
            v = pd.to_numeric(arr, errors="coerce")[0]
            enc = np.char.encode(np.array([t]) if t else np.array([t], dtype="U1"), encoding="ascii", errors="replace")[0]
            vb = pd.to_numeric(np.array([enc, b"zz"]), errors="coerce")[0] if all(ord(c) < 128 for c in t) else v
            alone = pd.to_numeric(np.array([t]), errors="coerce")
        fin = bool(np.isfinite(v))
        if bool(np.isfinite(vb)) != fin or (fin and float(vb) != float(v)):
            return "str-bytes-disagree"
        val = Q(float(v)) if fin else None
        intlike = bool(fin and alone.dtype.kind == "i")
        return [val, intlike, list(enc)]


PROP = Property(
    id="C19",
    title="Exported data files load back to the same table or image",
    theorems=["C19.export_import_channel", "C19.channels_honour_contract", "C19.export_import_table", "C19.export_import_fitsImage_partial", "C19.subset_rows_exact", "C19.export_order", "C19.export_order_filter_is_a_set", "C19.image_mask_fill", "C19.autotyped_stable", "C19.autotyped_flips_iff", "C19.autotyped_numeric_text_flips", "C19.fitsImage_blank_witness", "C19.fitsImage_int64_witness", "C19.autotyped_flip_witness", "C19.ascii_empty_text_witness", "C19.hdf5_zero_fill_ambiguous", "C19.layout_irrelevant", "C19.relayout_values", "C19.export_import_any_layout", "C19.restate_values", "C19.component_state_irrelevant", "C19.export_import_chain"],
    families=[Registry(), ParseNum(), Lay(), St(), Tab(), Img(), Chain(), Sess()],
    trusted_base=["astropy (io.ascii, io.fits, io.votable, table), h5py, pandas.to_numeric, numpy: exercised, not modelled; "
                  "each format is a channel with a stated contract (Model/Export.lean: idealRead / asciiRead)"],
    assumptions=["codec contracts: a written column comes back under nameRepr with the same values (FITS BLANK -> NaN as float64; "
                 "ASCII readers: empty field = missing, column type inferred); validated on the explored scope only"],
    rule="non-trivial = a proper subset (some but not all rows/pixels selected); distinct = distinct (family, input) hash",
    partial_note="partial: codec contracts assumed (astropy / h5py / pandas are exercised, not modelled)",
)
