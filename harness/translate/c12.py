"""
C12 translator: serializer registries, PATH_PATCHES and the class table of the tree under test
-> lean/GlueVerif/Generated/C12Tables.lean.

    python -m harness.translate.c12            # (re)writes the file if its content changed
    python -m harness.translate.c12 --print    # prints the Lean text instead

The tree is $GLUE_REPO (default /repo).  Everything emitted is *read off the imported package*:

  saverTable / loaderTable : GlueSerializer.dispatch._data / GlueUnSerializer.dispatch._data,
                             type name -> versions in *registration (dict) order* (not sorted:
                             `registry_consecutive` is about the stored keys as they are)
  patches                  : glue.core.state.PATH_PATCHES items in file order
  patchFileLines           : number of ` -> ` lines of state_path_patches.txt (duplicates would
                             make it differ from patches.length)
  liveClasses              : every class *defined* in a module of the glue package (tests
                             excluded), as written by GlueSerializer.do
                             (`__module__ + '.' + __name__`), with flags
                             concrete (not inspect.isabstract) and written (defines/inherits
                             __gluestate__ or has a class with a registered saver in its MRO)
  importable               : for every name of the patch table (key or target) inside `glue.`,
                             whether glue.utils.lookup_class finds it un-patched
"""
from __future__ import annotations

import os
import sys

VERIF = os.path.dirname(os.path.dirname(os.path.dirname(os.path.abspath(__file__))))
OUT = os.path.join(VERIF, "lean", "GlueVerif", "Generated", "C12Tables.lean")
REPO = os.environ.get("GLUE_REPO", "/repo")


def qual(t) -> str:
    return "%s.%s" % (getattr(t, "__module__", "?"), getattr(t, "__qualname__", getattr(t, "__name__", repr(t))))


def written_name(cls) -> str:
    """The `_type` string GlueSerializer.do writes for an instance of cls."""
    return "%s.%s" % (cls.__module__, cls.__name__)


def registries():
    from glue.core.state import GlueSerializer, GlueUnSerializer
    sav = [(qual(t), [v for v in vs]) for t, vs in GlueSerializer.dispatch._data.items()]
    lod = [(qual(t), [v for v in vs]) for t, vs in GlueUnSerializer.dispatch._data.items()]
    return sav, lod


def patch_table():
    from glue.core import state
    items = [(k, v) for k, v in state.PATH_PATCHES.items()]
    nlines = 0
    with open(state.PATCH_FILE) as fp:
        for line in fp:
            if " -> " in line:
                nlines += 1
    return items, nlines


def walk_modules():
    """Import every non-test module of the glue package; returns (modules, failed)."""
    import importlib
    import pkgutil
    import glue
    mods, failed = [], []
    for m in pkgutil.walk_packages(glue.__path__, "glue."):
        parts = m.name.split(".")
        if "tests" in parts or parts[-1] in ("conftest", "__main__", "_version"):
            continue
        try:
            mods.append(importlib.import_module(m.name))
        except BaseException as e:  # optional GUI dependencies (qtpy) are not installed here
            failed.append((m.name, type(e).__name__))
    return mods, failed


def live_classes():
    import inspect
    from glue.core.state import GlueSerializer
    savers = GlueSerializer.dispatch._data
    mods, failed = walk_modules()
    out = {}
    for m in mods:
        for name, o in list(vars(m).items()):
            if not inspect.isclass(o) or getattr(o, "__module__", None) != m.__name__:
                continue
            if o.__name__ != name:
                continue
            concrete = not inspect.isabstract(o)
            try:
                mro = o.mro()
            except TypeError:
                mro = []
            written = hasattr(o, "__gluestate__") or any(t in savers and len(savers[t]) > 0 for t in mro)
            out[written_name(o)] = (concrete, bool(written))
    return sorted((k, c, w) for k, (c, w) in out.items()), failed


def importability(items):
    from glue.utils import lookup_class
    # keys as well as targets: the fallback of `fix: patch fallback to live class` asks whether the
    # *original* name can still be imported
    targets = sorted({n for kv in items for n in kv if n.startswith("glue.")})
    res = []
    for t in targets:
        try:
            lookup_class(t)
            ok = True
        except Exception:
            ok = False
        res.append((t, ok))
    return res


def collect():
    if REPO not in sys.path[:1]:
        sys.path.insert(0, REPO)
    os.environ.setdefault("MPLBACKEND", "Agg")
    import warnings
    warnings.simplefilter("ignore")
    sav, lod = registries()          # before walking the package: registration as `import glue.core.state` leaves it
    items, nlines = patch_table()
    classes, failed = live_classes()
    sav2, lod2 = registries()        # plug-in modules may register more savers: keep the final state
    imp = importability(items)
    import glue
    return {
        "glue_file": os.path.dirname(glue.__file__),
        "saver": sav2, "loader": lod2, "patches": items, "patch_file_lines": nlines,
        "classes": classes, "importable": imp, "failed_imports": failed,
    }


def lstr(s: str) -> str:
    out = ['"']
    for ch in s:
        if ch == '"':
            out.append('\\"')
        elif ch == "\\":
            out.append("\\\\")
        elif ch == "\n":
            out.append("\\n")
        elif 32 <= ord(ch) < 127:
            out.append(ch)
        else:
            out.append("\\u{%x}" % ord(ch))
    out.append('"')
    return "".join(out)


def lbool(b) -> str:
    return "true" if b else "false"


def lver(v) -> str:
    # versions are stored as python ints (VersionedDict applies int()); negative ones need parentheses
    v = int(v)
    return str(v) if v >= 0 else "(%d)" % v


def llist(xs, indent="  ") -> str:
    xs = list(xs)
    if not xs:
        return "[]"
    return "[\n" + ",\n".join(indent + x for x in xs) + "]"


def render(t) -> str:
    # String comparison is prohibitively slow in the Lean kernel (~ms .. 0.5 s per operation), so
    # every name is interned: id = position in the sorted name table; the tables hold ids and a
    # trailing comment with the name for the human reader.
    allnames = set()
    for k, _ in t["saver"] + t["loader"]:
        allnames.add(k)
    for k, v in t["patches"]:
        allnames.add(k)
        allnames.add(v)
    for k, _, _ in t["classes"]:
        allnames.add(k)
    for k, _ in t["importable"]:
        allnames.add(k)
    names = sorted(allnames)
    ident = {n: i for i, n in enumerate(names)}

    def rows(items):
        items = list(items)
        if not items:
            return "[]"
        out = []
        for i, (code, comment) in enumerate(items):
            sep = "," if i + 1 < len(items) else "]"
            out.append("  %s%s  -- %s" % (code, sep, comment))
        return "[\n" + "\n".join(out)

    L = []
    L.append("/-! GENERATED by harness/translate/c12.py from the glue tree under test — do not edit.")
    L.append("Names are interned: id = position in `names`. -/")
    L.append("namespace GlueVerif.Generated.C12")
    L.append("")
    L.append("/-- id ↦ (name, name.startsWith \"glue.\") -/")
    L.append("def names : List (String × Bool) := %s" % rows(
        ("(%s, %s)" % (lstr(n), lbool(n.startswith("glue."))), "id %d" % i) for i, n in enumerate(names)))
    L.append("")
    for name, key in (("saverTable", "saver"), ("loaderTable", "loader")):
        L.append("/-- `%s.dispatch._data`: type ↦ stored version keys, in dict order. -/" % ("GlueSerializer" if key == "saver" else "GlueUnSerializer"))
        L.append("def %s : List (Nat × List Int) := %s" % (
            name, rows(("(%d, [%s])" % (ident[k], ", ".join(lver(v) for v in vs)), k) for k, vs in t[key])))
        L.append("")
    L.append("/-- `glue.core.state.PATH_PATCHES` items (old name, new name). -/")
    L.append("def patches : List (Nat × Nat) := %s" % rows(
        ("(%d, %d)" % (ident[k], ident[v]), "%s -> %s" % (k, v)) for k, v in t["patches"]))
    L.append("")
    L.append("/-- number of ` -> ` lines in state_path_patches.txt -/")
    L.append("def patchFileLines : Nat := %d" % t["patch_file_lines"])
    L.append("")
    L.append("/-- classes defined by the package: (written `_type` name, concrete, written by a saver). -/")
    L.append("def liveClasses : List (Nat × Bool × Bool) := %s" % rows(
        ("(%d, %s, %s)" % (ident[k], lbool(c), lbool(w)), k) for k, c, w in t["classes"]))
    L.append("")
    L.append("/-- names of the patch table (keys and targets) inside `glue.`: does `lookup_class` find them (un-patched)? -/")
    L.append("def importable : List (Nat × Bool) := %s" % rows(
        ("(%d, %s)" % (ident[k], lbool(b)), k) for k, b in t["importable"]))
    L.append("")
    L.append("/-- modules of the package that could not be imported in this environment (their classes are not in `liveClasses`). -/")
    L.append("def failedImports : List String := %s" % llist(lstr(m) for m, _ in t["failed_imports"]))
    L.append("")
    L.append("end GlueVerif.Generated.C12")
    return "\n".join(L) + "\n"


def write(text: str) -> bool:
    os.makedirs(os.path.dirname(OUT), exist_ok=True)
    try:
        if open(OUT).read() == text:
            return False
    except OSError:
        pass
    tmp = OUT + ".tmp%d" % os.getpid()
    with open(tmp, "w") as fh:
        fh.write(text)
    os.replace(tmp, OUT)
    return True


def main(argv=None):
    argv = sys.argv[1:] if argv is None else argv
    text = render(collect())
    if "--print" in argv:
        sys.stdout.write(text)
        return 0
    changed = write(text)
    print("C12Tables.lean %s (%s)" % ("rewritten" if changed else "unchanged", os.path.relpath(OUT, VERIF)))
    return 0


if __name__ == "__main__":
    sys.exit(main())
