"""Translators: table-like source of the tree under test -> lean/GlueVerif/Generated/*.lean."""
