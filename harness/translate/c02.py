"""
C02 translator: the saver/loader dispatch table of the tree under test
-> lean/GlueVerif/Generated/C02Registry.lean   (git-ignored, rewritten when its content changes).

    /venv/bin/python -m harness.translate.c02            # (re)write the file
    /venv/bin/python -m harness.translate.c02 --print    # print the Lean text
    /venv/bin/python -m harness.translate.c02 --json     # the table as JSON (used by harness/props/c02.py)

The tree is $GLUE_REPO (default /repo).  Everything is read off the imported package:

  scope      every class defined in a non-test module of the `glue` package that is a (transitive)
             subclass of one of ROOTS (selection states, ROIs, components, coordinates, links and link
             helpers, subsets and groups, datasets, the collection, styles, component ids) or one of
             the root-less helper classes in EXTRA (ROI pre-transforms, ParsedCommand, PartialResult,
             LoadLog), and is not abstract (inspect.isabstract)
  rows       every class in scope and every class in one of their MROs: its MRO (as ids), whether its
             own __dict__ defines __gluestate__ / __setgluestate__, whether it is a key of
             GlueSerializer.dispatch / GlueUnSerializer.dispatch
  observed   what GlueSerializer._dispatch / GlueUnSerializer._dispatch actually return for the class
             (called on an un-initialised instance / on {'_type': written name}), as the id of the class
             that owns the function — the Lean dispatch model must reproduce it (`dispatch_matches`)
  faithful / loud   ids of the names listed in Model/C02Serial.lean (declaredFaithful / declaredLoud);
             the Lean side re-checks that the ids denote exactly those names
"""
from __future__ import annotations

import json
import os
import re
import sys

VERIF = os.path.dirname(os.path.dirname(os.path.dirname(os.path.abspath(__file__))))
OUT = os.path.join(VERIF, "lean", "GlueVerif", "Generated", "C02Registry.lean")
MODEL = os.path.join(VERIF, "lean", "GlueVerif", "Model", "C02Serial.lean")
REPO = os.environ.get("GLUE_REPO", "/repo")

ROOTS = [
    "glue.core.subset.SubsetState", "glue.core.roi.Roi", "glue.core.component.Component",
    "glue.core.coordinates.Coordinates", "glue.core.component_link.ComponentLink",
    "glue.core.link_helpers.LinkCollection", "glue.core.subset.Subset",
    "glue.core.subset_group.SubsetGroup", "glue.core.data.Data",
    "glue.core.data_collection.DataCollection", "glue.core.visual.VisualAttributes",
    "glue.core.component_id.ComponentID",
]
EXTRA = [
    "glue.core.roi_pretransforms.ProjectionMplTransform", "glue.core.roi_pretransforms.RadianTransform",
    "glue.core.roi_pretransforms.FullSphereLongitudeTransform", "glue.core.parse.ParsedCommand",
    "glue.core.link_helpers.PartialResult", "glue.core.link_helpers.ManualLinkCollection",
    "glue.core.data_factories.helpers.LoadLog",
]


def written_name(cls) -> str:
    """The `_type` string GlueSerializer.do writes for an instance of cls."""
    return "%s.%s" % (cls.__module__, cls.__name__)


def walk_modules():
    import importlib
    import pkgutil
    import glue
    failed = []
    for m in pkgutil.walk_packages(glue.__path__, "glue."):
        parts = m.name.split(".")
        if "tests" in parts or parts[-1] in ("conftest", "__main__", "_version"):
            continue
        try:
            importlib.import_module(m.name)
        except BaseException as e:  # optional GUI dependencies are not installed here
            failed.append((m.name, type(e).__name__))
    return failed


def all_subclasses(c):
    seen, todo = [], [c]
    while todo:
        x = todo.pop()
        for s in x.__subclasses__():
            if s not in seen:
                seen.append(s)
                todo.append(s)
    return seen


def lean_string_list(name: str) -> list:
    """The string literals of `def <name> : List String := [ ... ]` in Model/C02Serial.lean."""
    txt = open(MODEL).read()
    m = re.search(r"def %s : List String := \[(.*?)\n\]" % name, txt, re.S)
    if not m:
        raise RuntimeError("cannot find %s in the model" % name)
    body = re.sub(r"--[^\n]*", "", m.group(1))
    return re.findall(r'"([^"]*)"', body)


def owner_of(func, mro, attr, registry):
    """id-able owner (a class) of the function a dispatch returned."""
    f = getattr(func, "__func__", func)
    for c in mro:
        d = c.__dict__.get(attr)
        if d is not None and getattr(d, "__func__", d) is f:
            return c
    for c in mro:
        if c in registry._data:
            for v, g in registry._data[c].items():
                if g is f:
                    return c
    return None


def collect():
    if REPO not in sys.path[:1]:
        sys.path.insert(0, REPO)
    os.environ.setdefault("MPLBACKEND", "Agg")
    import warnings
    warnings.simplefilter("ignore")
    import inspect
    from glue.utils import lookup_class
    from glue.core.state import GlueSerializer, GlueUnSerializer
    failed = walk_modules()
    roots = [lookup_class(r) for r in ROOTS]
    extra = [lookup_class(r) for r in EXTRA]
    scope = []
    for r in roots:
        for c in [r] + all_subclasses(r):
            if c not in scope:
                scope.append(c)
    for c in extra:
        for d in [c] + all_subclasses(c):
            if d not in scope:
                scope.append(d)
    scope = [c for c in scope if c.__module__.startswith("glue.") and ".tests" not in c.__module__
             and "<locals>" not in c.__qualname__]
    scope.sort(key=written_name)
    classes = list(scope)
    for c in scope:
        for b in c.mro():
            if b not in classes:
                classes.append(b)
    ids = {c: i for i, c in enumerate(classes)}
    sav, lod = GlueSerializer.dispatch, GlueUnSerializer.dispatch
    gs = GlueSerializer.__new__(GlueSerializer)
    gu = GlueUnSerializer.__new__(GlueUnSerializer)
    rows, observed = [], []
    for c in classes:
        in_scope = c in scope and not inspect.isabstract(c)
        rows.append({
            "id": ids[c], "name": written_name(c), "mro": [ids[b] for b in c.mro()],
            "ownSave": "__gluestate__" in c.__dict__, "ownLoad": "__setgluestate__" in c.__dict__,
            "regSave": c in sav._data and len(sav._data[c]) > 0, "regLoad": c in lod._data and len(lod._data[c]) > 0,
            "scope": bool(in_scope),
        })
        so = lo = None
        if in_scope:
            try:
                inst = object.__new__(c)
            except TypeError:
                inst = None
            if inst is not None:
                try:
                    f, _v = gs._dispatch(inst)
                    o = owner_of(f, c.mro(), "__gluestate__", sav)
                    so = ids.get(o)
                except Exception:
                    so = None
            try:
                typ = lookup_class(written_name(c))
            except Exception:
                typ = None
            if typ is c:
                try:
                    f = gu._dispatch({"_type": written_name(c), "_protocol": max(lod._data[c]) if c in lod._data and lod._data[c] else 1})
                    o = owner_of(f, c.mro(), "__setgluestate__", lod)
                    lo = ids.get(o)
                except Exception:
                    lo = None
            else:
                lo = -1   # the written name does not resolve to this class
        observed.append({"id": ids[c], "saver": so, "loader": lo})
    faithful = lean_string_list("declaredFaithful")
    loud = lean_string_list("declaredLoud")
    by_name = {r["name"]: r["id"] for r in rows}
    return {
        "rows": rows, "observed": observed,
        "faithful": [[n, by_name.get(n)] for n in faithful],
        "loud": [[n, by_name.get(n)] for n in loud],
        "import_failures": failed,
    }


def lean_str(s: str) -> str:
    return '"' + s.replace("\\", "\\\\").replace('"', '\\"') + '"'


def lean_opt(x) -> str:
    return "none" if x is None else "(some %d)" % x if x >= 0 else "none"


def lean_bool(b) -> str:
    return "true" if b else "false"


def render(t) -> str:
    L = []
    L.append("/- GENERATED by harness/translate/c02.py from the tree under test — do not edit. -/")
    L.append("import GlueVerif.Model.C02Serial")
    L.append("namespace GlueVerif.C02.Gen")
    L.append("open GlueVerif.C02")
    L.append("")
    L.append("/-- `_type` names, indexed by class id -/")
    L.append("def names : List String := [")
    L.append(",\n".join("  " + lean_str(r["name"]) for r in t["rows"]))
    L.append("]")
    L.append("")
    L.append("def rows : List ClassRow := [")
    L.append(",\n".join(
        "  { id := %d, mro := [%s], ownSave := %s, ownLoad := %s, regSave := %s, regLoad := %s, concrete := %s }" % (
            r["id"], ", ".join(str(i) for i in r["mro"]), lean_bool(r["ownSave"]), lean_bool(r["ownLoad"]),
            lean_bool(r["regSave"]), lean_bool(r["regLoad"]), lean_bool(r["scope"])) for r in t["rows"]))
    L.append("]")
    L.append("")
    L.append("/-- (class, owner of the saver `_dispatch` returned, owner of the loader) for the classes in scope -/")
    L.append("def observed : List (Nat × Option Nat × Option Nat) := [")
    obs = {o["id"]: o for o in t["observed"]}
    L.append(",\n".join("  (%d, %s, %s)" % (r["id"], lean_opt(obs[r["id"]]["saver"]), lean_opt(obs[r["id"]]["loader"]))
                        for r in t["rows"] if r["scope"]))
    L.append("]")
    L.append("")
    for key in ("faithful", "loud"):
        present = [(n, i) for n, i in t[key] if i is not None]
        L.append("def %sIds : List Nat := [%s]" % (key, ", ".join(str(i) for _, i in present)))
        L.append("def %sMissing : List String := [%s]" % (key, ", ".join(lean_str(n) for n, i in t[key] if i is None)))
    L.append("")
    L.append("end GlueVerif.C02.Gen")
    return "\n".join(L) + "\n"


def write(force=False):
    t = collect()
    txt = render(t)
    os.makedirs(os.path.dirname(OUT), exist_ok=True)
    old = open(OUT).read() if os.path.exists(OUT) else None
    if force or old != txt:
        with open(OUT, "w") as fh:
            fh.write(txt)
    return t


def main(argv):
    if "--print" in argv:
        sys.stdout.write(render(collect()))
    elif "--json" in argv:
        json.dump(collect(), sys.stdout)
    else:
        t = write()
        print("C02Registry.lean: %d rows (%d in scope), %d import failures" % (
            len(t["rows"]), sum(1 for r in t["rows"] if r["scope"]), len(t["import_failures"])))
    return 0


if __name__ == "__main__":
    sys.exit(main(sys.argv[1:]))
