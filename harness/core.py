"""
Harness core for the glue Lean-4 verification framework.

Per property Cxx a module harness/props/cxx.py defines

    PROP = Property(id="C20", theorems=[...], families=[Family, ...], ...)

and this module provides everything around it:

  * proof step      : lake build of GlueVerif.Props.Cxx + driver exe, forbidden-token scan,
                      `#print axioms` audit (Audit/Cxx.lean), leanchecker in the thorough tier;
  * correspondence  : cases -> real glue (run_impl) -> S-expression line -> Lean driver ->
                      (impl, spec verdict) -> three comparisons (a) py==Impl (b) Impl ok by Spec
                      (c) py ok by Spec;
  * verdict         : VIOLATION / KNOWN-FINDING lines, replay files, exit code;
  * evidence        : evidence/Cxx.json per EVIDENCE.schema.json.

Exit codes: 0 held / 1 violation / 2 internal error or time-out (never a VIOLATION line).
"""
from __future__ import annotations

import hashlib
import itertools
import json
import os
import random
import re
import subprocess
import sys
import time
import traceback
from dataclasses import dataclass, field
from typing import Any, Callable, Iterable, Iterator, Optional

VERIF = os.path.dirname(os.path.dirname(os.path.abspath(__file__)))
LEAN_DIR = os.path.join(VERIF, "lean")
REPO = os.environ.get("GLUE_REPO", "/repo")
HOOK_GUARD = "GLUE_VERIF_HOOKS"

ALLOWED_AXIOMS = {"propext", "Classical.choice", "Quot.sound"}
FORBIDDEN = re.compile(
    r"\bsorry\b|\badmit\b|^\s*axiom\s|native_decide|bv_decide|implemented_by|\bunsafe\s|maxHeartbeats\s+0\b"
)


def use_repo():
    """Make `import glue` resolve to the working tree under test (default /repo)."""
    if REPO not in sys.path[:1]:
        sys.path.insert(0, REPO)
    os.environ.setdefault("MPLBACKEND", "Agg")
    os.environ[HOOK_GUARD] = "1"


# ------------------------------------------------------------------------------------------
# S-expressions
# ------------------------------------------------------------------------------------------

_ATOM_BAD = re.compile(r"[\s()]")


def sx(obj) -> str:
    """Serialise nested lists / tuples / ints / bools / None / atom-safe strings."""
    if obj is True:
        return "T"
    if obj is False:
        return "F"
    if obj is None:
        return "N"
    if isinstance(obj, (list, tuple)):
        return "(" + " ".join(sx(o) for o in obj) + ")"
    if isinstance(obj, int):
        return str(obj)
    if isinstance(obj, str):
        if obj == "" or _ATOM_BAD.search(obj):
            raise ValueError("not atom-safe: %r" % (obj,))
        return obj
    if hasattr(obj, "item"):  # numpy scalar
        return sx(obj.item())
    if isinstance(obj, float):
        raise ValueError("floats are never sent as text: %r" % (obj,))
    raise TypeError("cannot serialise %r" % (obj,))


_TOK = re.compile(r"\(|\)|[^\s()]+")


def parse_sx(s: str):
    """Parse one line into nested lists of atoms (str)."""
    stack = [[]]
    for t in _TOK.findall(s):
        if t == "(":
            stack.append([])
        elif t == ")":
            x = stack.pop()
            stack[-1].append(x)
        else:
            stack[-1].append(t)
    if len(stack) != 1:
        raise ValueError("unbalanced: " + s[:200])
    return stack[0]


def canon(obj):
    """Canonical python value -> nested lists of atom strings (what parse_sx returns)."""
    return parse_sx(sx(obj))[0] if not isinstance(obj, str) or True else obj


def frac_sx(q) -> list:
    """Exact rational as (q num den)."""
    from fractions import Fraction
    f = Fraction(q)
    return ["q", f.numerator, f.denominator]


# ------------------------------------------------------------------------------------------
# Lean side
# ------------------------------------------------------------------------------------------

def _run(cmd, cwd=None, timeout=3600, input=None):
    p = subprocess.run(cmd, cwd=cwd, input=input, capture_output=True, text=True, timeout=timeout)
    return p.returncode, p.stdout, p.stderr


def lean_sources_for(prop_id: str, extra_modules: Iterable[str] = ()) -> list[str]:
    """Transitive closure of GlueVerif.* imports of Props.Cxx, Drivers/Cxx and Audit/Cxx."""
    roots = [
        os.path.join(LEAN_DIR, "GlueVerif", "Props", prop_id + ".lean"),
        os.path.join(LEAN_DIR, "Drivers", prop_id + ".lean"),
        os.path.join(LEAN_DIR, "Audit", prop_id + ".lean"),
    ]
    for m in extra_modules:
        roots.append(os.path.join(LEAN_DIR, *m.split(".")) + ".lean")
    seen, todo = [], [r for r in roots if os.path.exists(r)]
    while todo:
        f = todo.pop()
        if f in seen:
            continue
        seen.append(f)
        try:
            txt = open(f).read()
        except OSError:
            continue
        for m in re.findall(r"^\s*(?:public\s+)?import\s+(GlueVerif[\w.]*)", txt, re.M):
            p = os.path.join(LEAN_DIR, *m.split(".")) + ".lean"
            if os.path.exists(p):
                todo.append(p)
    return sorted(seen)


def strip_comments(txt: str) -> str:
    # nested block comments /- ... -/ and line comments --
    out, i, depth = [], 0, 0
    while i < len(txt):
        if txt.startswith("/-", i):
            depth += 1
            i += 2
        elif depth and txt.startswith("-/", i):
            depth -= 1
            i += 2
        elif depth:
            if txt[i] == "\n":
                out.append("\n")
            i += 1
        elif txt.startswith("--", i):
            j = txt.find("\n", i)
            i = len(txt) if j < 0 else j
        else:
            out.append(txt[i])
            i += 1
    return "".join(out)


@dataclass
class ProofReport:
    ok: bool = True
    obligations: int = 0
    discharged: int = 0
    theorems: dict = field(default_factory=dict)  # name -> axioms list
    problems: list = field(default_factory=list)
    checker_cmd: str = ""
    wall_s: float = 0.0
    leanchecker: Optional[str] = None


def proof_step(prop, tier: str) -> ProofReport:
    t0 = time.time()
    rep = ProofReport()
    pid = prop.id
    drv = "drv_" + pid.lower()
    pre = getattr(prop, "pre_build", None)
    if pre is not None:
        try:
            pre()
        except Exception as e:  # translator failure = proof obligation not established
            rep.ok = False
            rep.problems.append("translator failed: %r" % (e,))
    targets = ["GlueVerif.Props." + pid, drv]
    cmd = ["lake", "build"] + targets
    rep.checker_cmd = "cd lean && " + " ".join(cmd) + " && lake env lean Audit/%s.lean" % pid
    rc, out, err = _run(cmd, cwd=LEAN_DIR, timeout=3000)
    if rc != 0:
        rep.ok = False
        rep.problems.append("lake build failed: " + (out + err)[-1500:])
    # forbidden tokens outside comments
    for f in lean_sources_for(pid):
        body = strip_comments(open(f).read())
        for n, line in enumerate(body.split("\n"), 1):
            if FORBIDDEN.search(line):
                rep.ok = False
                rep.problems.append("forbidden token in %s:%d: %s" % (os.path.relpath(f, VERIF), n, line.strip()[:80]))
    # axiom audit
    audit = os.path.join(LEAN_DIR, "Audit", pid + ".lean")
    listed = list(prop.theorems)
    rep.obligations = len(listed)
    if rc == 0:
        rc2, out2, err2 = _run(["lake", "env", "lean", audit], cwd=LEAN_DIR, timeout=1200)
        if rc2 != 0:
            rep.ok = False
            rep.problems.append("audit failed: " + (out2 + err2)[-1500:])
        text = out2
        # "'GlueVerif.foo' depends on axioms: [propext, Quot.sound]" or "... does not depend on any axioms"
        for m in re.finditer(r"'([^']+)' depends on axioms: \[([^\]]*)\]", text, re.S):
            rep.theorems[m.group(1)] = [a.strip() for a in m.group(2).replace("\n", " ").split(",") if a.strip()]
        for m in re.finditer(r"'([^']+)' does not depend on any axioms", text):
            rep.theorems[m.group(1)] = []
        for name in listed:
            full = name if name in rep.theorems else "GlueVerif." + name
            if full not in rep.theorems:
                rep.ok = False
                rep.problems.append("theorem not found by audit: " + name)
                continue
            bad = [a for a in rep.theorems[full] if a not in ALLOWED_AXIOMS]
            if bad:
                rep.ok = False
                rep.problems.append("theorem %s uses axioms %s" % (name, bad))
            else:
                rep.discharged += 1
        # every theorem declared in Props/Cxx.lean must be listed (no silent deletions / renames)
        props_file = os.path.join(LEAN_DIR, "GlueVerif", "Props", pid + ".lean")
        declared = re.findall(r"^\s*theorem\s+([\w.']+)", strip_comments(open(props_file).read()), re.M)
        missing = [d for d in listed if d.split(".")[-1] not in [x.split(".")[-1] for x in declared]]
        if missing:
            rep.ok = False
            rep.problems.append("listed theorems not declared in Props/%s.lean: %s" % (pid, missing))
    if tier == "thorough" and rc == 0 and os.environ.get("VERIF_NO_LEANCHECKER") != "1":
        rc3, out3, err3 = _run(["lake", "env", "leanchecker", "GlueVerif.Props." + pid], cwd=LEAN_DIR, timeout=3000)
        rep.leanchecker = "ok" if rc3 == 0 else "failed: " + (out3 + err3)[-500:]
        if rc3 != 0:
            rep.ok = False
            rep.problems.append("leanchecker: " + rep.leanchecker)
    rep.wall_s = time.time() - t0
    return rep


class LeanDriver:
    """Runs batches of lines through the compiled driver (fallback: interpreter)."""

    def __init__(self, prop_id: str):
        self.prop_id = prop_id
        exe = os.path.join(LEAN_DIR, ".lake", "build", "bin", "drv_" + prop_id.lower())
        if os.path.exists(exe):
            self.cmd = [exe]
        else:
            self.cmd = ["lake", "env", "lean", "--run", os.path.join("Drivers", prop_id + ".lean")]

    def run(self, lines: list[str], timeout=1800) -> list[str]:
        if not lines:
            return []
        inp = "\n".join(lines) + "\n"
        rc, out, err = _run(self.cmd, cwd=LEAN_DIR, input=inp, timeout=timeout)
        outs = [l for l in out.split("\n") if l.strip()]
        if rc != 0 or len(outs) != len(lines):
            raise DriverError("driver rc=%s, %d lines in, %d out; stderr=%s" % (rc, len(lines), len(outs), err[-800:]))
        return outs


class DriverError(Exception):
    pass


# ------------------------------------------------------------------------------------------
# Property / family API
# ------------------------------------------------------------------------------------------

class Family:
    """
    One correspondence family.

    name        : str
    exhaustive  : whether `cases` enumerates its stated finite scope completely (per tier)
    cases(tier, rng) -> iterator of JSON-able case objects
    run_impl(case)   -> python-side observable (nested lists / ints / bools / atoms); exceptions
                        raised by glue should be mapped to an atom such as 'value-error' by the family
    line(case, pyout) -> the S-expression line (str) for the driver
    The driver answers `(r (impl X) (ok T|F) (implok T|F) (p T|F) (br atom))`:
        impl   : the model's prediction of the implementation output  (comparison (a): pyout == X)
        ok     : Spec verdict on the *python* output                   (comparison (c))
        implok : Spec verdict on the model's own output               (comparison (b), inside p)
        p      : whether the case lies inside the hypothesis P of the partial theorem (default T)
        br     : which branch of the model the case exercised
    nontrivial(case, pyout) -> bool
    signature(case, pyout, res) -> dict used to match KNOWN_FINDINGS entries
    shrink(case) -> iterator of smaller cases (optional)
    """
    name = "family"
    exhaustive = False
    batch = 2000

    def cases(self, tier, rng):
        raise NotImplementedError

    def run_impl(self, case):
        raise NotImplementedError

    def line(self, case, pyout):
        return sx([self.name, case, pyout])

    def nontrivial(self, case, pyout):
        return True

    def signature(self, case, pyout, res):
        return {}

    def shrink(self, case):
        return iter(())

    def describe(self, case):
        return case

    def setup(self):
        pass

    def reset(self):
        pass


@dataclass
class Property:
    id: str
    theorems: list
    families: list
    title: str = ""
    trusted_base: list = field(default_factory=list)
    assumptions: list = field(default_factory=list)
    technique: str = "Lean 4 proof + differential correspondence"
    pre_build: Optional[Callable] = None
    rule: str = ""
    partial_note: str = ""


def parse_result(line: str) -> dict:
    e = parse_sx(line)
    if len(e) != 1 or not isinstance(e[0], list) or not e[0] or e[0][0] != "r":
        return {"error": line[:300]}
    res = {}
    for item in e[0][1:]:
        if isinstance(item, list) and item:
            res[item[0]] = item[1] if len(item) == 2 else item[1:]
    return res


def _norm(x):
    """python observable -> same shape parse_sx gives (atoms as strings)."""
    return parse_sx(sx(x))[0]


@dataclass
class Failure:
    family: str
    case: Any
    pyout: Any
    res: dict
    kind: str  # 'property' (c fails) | 'model' (a fails, c holds) | 'theorem' (b fails inside P)
    signature: dict = field(default_factory=dict)


def load_findings(prop_id: str) -> list[dict]:
    p = os.path.join(VERIF, "KNOWN_FINDINGS.json")
    if not os.path.exists(p):
        return []
    data = json.load(open(p))
    return [f for f in data.get("findings", []) if f.get("property") == prop_id]


def match_finding(fail: Failure, findings: list[dict]) -> Optional[dict]:
    for f in findings:
        if f.get("status") != "known":
            continue  # fixed entries suppress nothing
        if f.get("family") not in (None, fail.family):
            continue
        if f.get("clause") not in (None, fail.kind):
            continue
        sig = f.get("signature", {})
        if all(fail.signature.get(k) == v for k, v in sig.items()):
            return f
    return None


class CaseTimeout(BaseException):
    pass


def _on_alarm(signum, frame):
    raise CaseTimeout()


def eval_cases(fam: "Family", driver: "LeanDriver", batch: list) -> list[tuple]:
    """batch of cases -> list of (case, pyout_norm, parsed driver result); runs in workers too."""
    import signal
    pyouts, lines = [], []
    # Per-case time limit. The limit is on the CPU time of this process (ITIMER_PROF), so that a
    # loaded machine cannot turn a slow case into a spurious `py-timeout`; a generous wall-clock limit
    # (10x, at least 60 s) still catches an implementation that blocks without using CPU.
    signal.signal(signal.SIGALRM, _on_alarm)
    signal.signal(signal.SIGPROF, _on_alarm)
    tmo = float(getattr(fam, "case_timeout", 20.0)) * float(os.environ.get("VERIF_TIMEOUT_SCALE", "1") or 1)
    n_to = 0
    evaluated = []
    for case in batch:
        if n_to >= 3:
            break  # the implementation hangs: three time-outs are enough evidence from this batch
        evaluated.append(case)
        try:
            signal.setitimer(signal.ITIMER_PROF, tmo)
            signal.setitimer(signal.ITIMER_REAL, max(10 * tmo, 60.0))
            try:
                fam.reset()
                out = fam.run_impl(case)
            finally:
                signal.setitimer(signal.ITIMER_PROF, 0)
                signal.setitimer(signal.ITIMER_REAL, 0)
        except CaseTimeout:
            n_to += 1
            out = "py-timeout"  # non-termination of the implementation: rejected by every Spec
        except Exception as e:  # un-mapped exception from the implementation
            out = ["py-exception", type(e).__name__]
            if os.environ.get("VERIF_DEBUG"):
                traceback.print_exc()
        try:
            po = _norm(out)
            line = fam.line(case, out)
        except Exception as e:
            po = ["py-unserialisable", type(e).__name__]
            line = fam.line(case, po)
        pyouts.append(po)
        lines.append(line)
    outs = driver.run(lines)
    return [(c, po, parse_result(o)) for c, po, o in zip(evaluated, pyouts, outs)]


_WORKER = {}


def _worker_eval(batch):
    return eval_cases(_WORKER["fam"], _WORKER["driver"], batch)


def _batched(it, n):
    while True:
        b = list(itertools.islice(it, n))
        if not b:
            return
        yield b


class Runner:
    def __init__(self, prop: Property, tier: str, seed: int, budget_s: float):
        self.prop = prop
        self.tier = tier
        self.seed = seed
        self.budget_s = budget_s
        self.t0 = time.time()
        self.driver = LeanDriver(prop.id)
        self.evaluations = 0
        self.nontrivial_keys = set()
        self.samples = []
        self.branches = {}
        self.per_family = {}
        self.failures: list[Failure] = []
        self.inside_p = 0
        self.exhaustive_all = True
        self.timed_out_families = []

    def elapsed(self):
        return time.time() - self.t0

    def eval_batch(self, fam: Family, batch: list) -> list[tuple]:
        return eval_cases(fam, self.driver, batch)

    def classify(self, fam: Family, case, po, res) -> Optional[Failure]:
        if "error" in res or "impl" not in res:
            return Failure(fam.name, case, po, res, "model", {"driver": "bad-output"})
        a = (po == res["impl"])
        c = (res.get("ok", "T") == "T")
        inP = (res.get("p", "T") == "T")
        b = (res.get("implok", "T") == "T")
        kind = None
        if not c:
            kind = "property"
        elif not a:
            kind = "model"
        elif inP and not b:
            kind = "theorem"
        if kind is None:
            return None
        f = Failure(fam.name, case, po, res, kind)
        try:
            f.signature = dict(fam.signature(case, po, res))
        except Exception:
            f.signature = {}
        f.signature.setdefault("a", a)
        f.signature.setdefault("inP", inP)
        return f

    def run_family(self, fam: Family, rng: random.Random, deadline: float):
        fam.setup()
        st = self.per_family.setdefault(fam.name, {"evaluations": 0, "nontrivial": 0, "failures": 0, "exhaustive": bool(fam.exhaustive)})
        it = iter(fam.cases(self.tier, rng))
        jobs = int(os.environ.get("VERIF_JOBS", "0") or 0) or (4 if self.tier == "quick" else 14)
        jobs = min(jobs, getattr(fam, "max_jobs", 64))
        pool = None
        if jobs > 1:
            import multiprocessing as mp
            _WORKER["fam"], _WORKER["driver"] = fam, self.driver
            pool = mp.get_context("fork").Pool(jobs)
            # At most 2*jobs batches are in flight, and once `stop` is set the feeder ends: the
            # remaining results are then drained before terminate().  (Pool.terminate() dead-locks
            # when its task-handler thread is blocked sending into a full pipe of killed workers,
            # which happened whenever a family with a long generator was stopped early.)
            import threading
            stop = threading.Event()
            slots = threading.Semaphore(jobs * 2)

            def _feed():
                for b in _batched(it, fam.batch):
                    slots.acquire()
                    if stop.is_set():
                        return
                    yield b
            results = pool.imap(_worker_eval, _feed())
        else:
            results = (self.eval_batch(fam, b) for b in _batched(it, fam.batch))
        try:
            for triples in results:
                if pool is not None:
                    slots.release()
                for case, po, res in triples:
                    self._account(fam, st, case, po, res)
                if st["failures"] >= 300:
                    st["exhaustive"] = False
                    st["stopped_on_failures"] = True
                    break
                if st.get("timeouts", 0) >= 6:
                    st["exhaustive"] = False
                    st["stopped_on_timeouts"] = True
                    break
                if time.time() > deadline:
                    st["exhaustive"] = False
                    st["stopped_on_budget"] = True
                    self.timed_out_families.append(fam.name)
                    break
        finally:
            if pool is not None:
                stop.set()
                for _ in range(jobs * 4):
                    slots.release()
                try:
                    for _ in results:   # in-flight batches only (<= 2*jobs); their results are dropped
                        pass
                except Exception:
                    pass
                pool.terminate()
                pool.join()
        if not st["exhaustive"]:
            self.exhaustive_all = False

    def _account(self, fam, st, case, po, res):
        self.evaluations += 1
        st["evaluations"] += 1
        br = res.get("br", "-")
        br = br if isinstance(br, str) else sx(br)
        key = fam.name + ":" + br
        self.branches[key] = self.branches.get(key, 0) + 1
        if res.get("p", "T") == "T":
            self.inside_p += 1
        try:
            nt = fam.nontrivial(case, po)
        except Exception:
            nt = False
        if nt:
            h = hashlib.blake2b(repr((fam.name, case)).encode(), digest_size=8).digest()
            if h not in self.nontrivial_keys:
                self.nontrivial_keys.add(h)
                st["nontrivial"] += 1
        if len(self.samples) < 14 and (st["evaluations"] in (1, 7, 97) or (nt and st["evaluations"] % 1013 == 5)):
            self.samples.append({"family": fam.name, "case": fam.describe(case), "python": po, "lean": res})
        if po == "py-timeout":
            st["timeouts"] = st.get("timeouts", 0) + 1
        fail = self.classify(fam, case, po, res)
        if fail is not None:
            if getattr(fam, "known_findings_uncounted", False) and match_finding(fail, self._known_findings()) is not None:
                # opt-in per family: a failure whose (unshrunk) signature is a listed known finding does
                # not count towards the stop-after-300-failures limit, so a finding stratum keeps running
                st["known_failures"] = st.get("known_failures", 0) + 1
                if st["known_failures"] <= 12:
                    self.failures.append(fail)
            else:
                st["failures"] += 1
                if st["failures"] <= 60:
                    self.failures.append(fail)

    def _known_findings(self):
        if not hasattr(self, "_kf"):
            self._kf = load_findings(self.prop.id)
        return self._kf

    def shrink(self, fam: Family, fail: Failure) -> Failure:
        cur = fail
        budget = 300
        improved = True
        while improved and budget > 0:
            improved = False
            try:
                cands = list(itertools.islice(fam.shrink(cur.case), 64))
            except Exception:
                break
            if not cands:
                break
            budget -= len(cands)
            try:
                results = self.eval_batch(fam, cands)
            except Exception:
                break
            for case, po, res in results:
                f2 = self.classify(fam, case, po, res)
                # a smaller case must fail in the same way: same comparison, same agreement with the Impl model
                # (a) and same side of the partial hypothesis (p) — otherwise a new defect could be shrunk
                # into a listed known finding and be suppressed
                if f2 is not None and f2.kind == cur.kind and \
                        f2.signature.get("a") == cur.signature.get("a") and \
                        f2.signature.get("inP") == cur.signature.get("inP"):
                    cur = f2
                    improved = True
                    break
        return cur


def write_replay(prop_id: str, fail: Failure, note: str = "") -> str:
    d = os.path.join(VERIF, "replays", prop_id)
    os.makedirs(d, exist_ok=True)
    body = {
        "property": prop_id,
        "family": fail.family,
        "kind": fail.kind,
        "case": fail.case,
        "python_output": fail.pyout,
        "lean_result": fail.res,
        "signature": fail.signature,
        "note": note,
        "how_to_replay": "./check %s --replay <this file>" % prop_id,
    }
    h = hashlib.blake2b(json.dumps([fail.family, fail.case], sort_keys=True, default=str).encode(), digest_size=6).hexdigest()
    path = os.path.join(d, "%s-%s.json" % (fail.family, h))
    with open(path, "w") as fh:
        json.dump(body, fh, indent=1, default=str)
    return os.path.relpath(path, VERIF)


def write_proof_replay(prop_id: str, rep: ProofReport, extra=None) -> str:
    d = os.path.join(VERIF, "replays", prop_id)
    os.makedirs(d, exist_ok=True)
    path = os.path.join(d, "proof-obligation-broken.json")
    with open(path, "w") as fh:
        json.dump({"property": prop_id, "kind": "proof", "problems": rep.problems, "theorems": rep.theorems, "extra": extra}, fh, indent=1, default=str)
    return os.path.relpath(path, VERIF)


def write_evidence(prop: Property, tier, seed, rep: ProofReport, runner: Optional[Runner], violations: int, known: list, wall: float, extra=None):
    # runs against a scratch tree (GLUE_REPO=<mutated worktree>) must not overwrite the committed evidence
    ev_dir = os.path.join(VERIF, "evidence") if os.path.realpath(REPO) == "/repo" else os.path.join(VERIF, "evidence", "_scratch")
    os.makedirs(ev_dir, exist_ok=True)
    cov = {
        "obligations": max(rep.obligations, 1),
        "discharged": rep.discharged,
        "checker_cmd": rep.checker_cmd,
        "trusted_base": [
            "Lean 4.33.0 kernel" + (" + leanchecker re-check" if rep.leanchecker == "ok" else ""),
            "axioms allowed: propext, Classical.choice, Quot.sound (audited by #print axioms per theorem)",
            "hand-written Lean model tied to /repo by the differential correspondence check (harness/props/%s.py)" % prop.id.lower(),
        ] + list(prop.trusted_base),
        "theorem_axioms": {k: v for k, v in rep.theorems.items()},
        "proof_problems": rep.problems,
        "proof_wall_s": round(rep.wall_s, 2),
        "leanchecker": rep.leanchecker,
    }
    if runner is not None:
        cov.update({
            "evaluations": runner.evaluations,
            "distinct_nontrivial": len(runner.nontrivial_keys),
            "rule": prop.rule or "cases are generated per family (see families); a case is non-trivial when the family's predicate says the interesting branch was exercised; distinct = distinct (family, input) hash",
            "samples": runner.samples[:12] or [{"note": "no cases"}],
            "exhaustive": bool(runner.exhaustive_all),
            "families": runner.per_family,
            "model_branches_hit": runner.branches,
            "cases_inside_partial_hypothesis": runner.inside_p,
            "disagreements_checked": len(runner.failures),
            "traces_validated_against_impl": runner.evaluations,
            "families_stopped_on_budget": runner.timed_out_families,
            "known_findings_reproduced": known,
            "corpus_cases_replayed_first": getattr(runner, "corpus_cases", 0),
        })
    else:
        cov.update({"evaluations": 0, "distinct_nontrivial": 0, "samples": [{"note": "correspondence not run"}]})
    if prop.partial_note:
        cov["partial"] = prop.partial_note
    if extra:
        cov.update(extra)
    ev = {
        "property_id": prop.id,
        "tier": tier,
        "seed": seed,
        "level": "proof",
        "coverage": cov,
        "assumptions": list(prop.assumptions),
        "wall_s": round(wall, 2),
        "violations": violations,
    }
    ev["tree_under_test"] = REPO
    with open(os.path.join(ev_dir, prop.id + ".json"), "w") as fh:
        json.dump(ev, fh, indent=1, default=str)


def main(prop: Property, argv=None):
    import argparse
    ap = argparse.ArgumentParser()
    ap.add_argument("tier", nargs="?", default=os.environ.get("VERIF_TIER", "quick"))
    ap.add_argument("--replay", default=None)
    ap.add_argument("--budget", type=float, default=None)
    args = ap.parse_args(argv)
    tier = args.tier if args.tier in ("quick", "thorough") else "quick"
    seed = int(os.environ.get("VERIF_SEED", "0") or 0)
    budget = args.budget or float(os.environ.get("VERIF_BUDGET_S", "0") or 0) or (150 if tier == "quick" else 1500)
    t0 = time.time()
    import threading

    try:
        os.setpgrp()  # own process group, so that the watchdog can take the worker processes down too
    except OSError:
        pass

    def _watchdog():
        print("INTERNAL: time-out (watchdog after %.0fs)" % (time.time() - t0))
        sys.stdout.flush()
        import signal as _sig
        _sig.signal(_sig.SIGTERM, _sig.SIG_IGN)
        try:
            if os.getpgrp() == os.getpid():  # only our own group (never the caller's)
                os.killpg(os.getpgrp(), _sig.SIGTERM)
        except OSError:
            pass
        os._exit(2)
    wd = threading.Timer(budget * 2.5 + 300, _watchdog)
    wd.daemon = True
    wd.start()
    try:
        code = _main(prop, tier, seed, budget, args.replay, t0)
    except subprocess.TimeoutExpired as e:
        print("INTERNAL: time-out: %s" % (e,))
        code = 2
    except DriverError as e:
        print("INTERNAL: driver error: %s" % (e,))
        code = 2
    except Exception:
        traceback.print_exc()
        print("INTERNAL: harness error")
        code = 2
    sys.stdout.flush()
    return code


def _main(prop, tier, seed, budget, replay, t0):
    use_repo()
    findings = load_findings(prop.id)
    rep = proof_step(prop, tier)
    proof_broken = not rep.ok
    if proof_broken:
        print("PROOF-STEP-BROKEN: " + " | ".join(p[:300] for p in rep.problems))
    fams = {f.name: f for f in prop.families}
    runner = Runner(prop, tier, seed, budget)

    if replay:
        body = json.load(open(replay))
        if body.get("kind") == "proof":
            print("replay names a proof obligation; re-running the proof step only")
            return 1 if proof_broken else 0
        fam = fams[body["family"]]
        fam.setup()
        (case, po, res), = runner.eval_batch(fam, [body["case"]])
        fail = runner.classify(fam, case, po, res)
        print(json.dumps({"case": case, "python": po, "lean": res, "failure": None if fail is None else fail.kind}, default=str))
        return 1 if fail is not None else 0

    # source anchors: the glue functions this property's model transcribes (props.d/Cxx/anchors.json,
    # AST fingerprints). A changed anchored function is not a violation by itself, but the model may no
    # longer describe the code: the quick tier then runs the thorough generators within its budget.
    anchors_n, anchors_changed = 0, []
    try:
        sys.path.insert(0, os.path.join(VERIF, "tools"))
        import anchors as _anchors
        anchors_n, anchors_changed = _anchors.drift(prop.id, REPO)
    except Exception as e:  # never let bookkeeping break a check
        anchors_changed = []
        print("NOTE: anchor fingerprints not evaluated: %r" % (e,))
    if anchors_changed:
        print("NOTE: %d of %d anchored source functions changed since the model was last tied to the code (%s%s): deeper search" % (
            len(anchors_changed), anchors_n, ", ".join(a.split("::")[1] for a in anchors_changed[:4]), ", ..." if len(anchors_changed) > 4 else ""))
    # if the proof step is broken or anchored code changed, the failing-input search uses the thorough generators
    gen_tier = "thorough" if (proof_broken or anchors_changed) and tier == "quick" else tier
    runner.tier = gen_tier
    rng_master = random.Random(seed)
    # first: replay the committed corpus — the replay case of every listed finding (known: must still
    # reproduce to be printed; fixed: must NOT fail any more) and corpus/Cxx/*.json (past failures,
    # confirmed seeded changes' minimal inputs)
    import glob as _glob
    corpus = []
    for f in findings:
        if f.get("replay_case") is not None and f.get("replay_family") in fams:
            corpus.append((f["replay_family"], f["replay_case"], f))
    for path in sorted(_glob.glob(os.path.join(VERIF, "corpus", prop.id, "*.json"))):
        try:
            body = json.load(open(path))
            if body.get("family") in fams:
                corpus.append((body["family"], body["case"], None))
        except Exception:
            pass
    corpus_failed = 0
    set_up = set()
    for famname, case, finding in corpus:
        fam = fams[famname]
        if famname not in set_up:
            fam.setup()
            set_up.add(famname)
        (c_, po, res), = runner.eval_batch(fam, [case])
        fail = runner.classify(fam, c_, po, res)
        runner.evaluations += 1
        if fail is not None:
            corpus_failed += 1
            runner.failures.append(fail)
        elif finding is not None and finding.get("status") == "known":
            print("NOTE: known finding %s no longer reproduces on its recorded replay case" % finding.get("id"))
    runner.corpus_cases = len(corpus)
    runner.corpus_failed = corpus_failed
    for i, fam in enumerate(prop.families):
        share = getattr(fam, "budget_share", 1.0)
        total_share = sum(getattr(f, "budget_share", 1.0) for f in prop.families)
        remaining = budget - (time.time() - t0)
        rest_share = sum(getattr(f, "budget_share", 1.0) for f in prop.families[i:])
        deadline = time.time() + max(5.0, remaining * share / rest_share)
        rng = random.Random(rng_master.getrandbits(64))
        runner.run_family(fam, rng, deadline)

    # verdict
    violations = 0
    known_hit = {}
    out_lines = []
    groups = {}
    for fail in runner.failures:
        groups.setdefault((fail.family, fail.kind, json.dumps(fail.signature, sort_keys=True, default=str)), []).append(fail)
    unreproducible_timeouts = 0
    for (famname, kind, _sig), fails in groups.items():
        fam = fams[famname]
        if fails[0].pyout == "py-timeout":
            # a time-out is only believed if it happens again when the case is run alone, serially,
            # with a 5x larger limit (a hang reproduces; scheduling noise does not)
            os.environ["VERIF_TIMEOUT_SCALE"] = "5"
            try:
                again = [runner.classify(fam, *runner.eval_batch(fam, [f.case])[0]) for f in fails[:3]]
            finally:
                os.environ["VERIF_TIMEOUT_SCALE"] = "1"
            if all(a is None for a in again):
                unreproducible_timeouts += len(fails)
                print("NOTE: %d time-out(s) in family %s did not reproduce when re-run alone; not reported" % (len(fails), famname))
                continue
            fails = [a for a in again if a is not None] + fails
        fail = runner.shrink(fam, fails[0])
        kf = match_finding(fail, findings) or match_finding(fails[0], findings)
        if kf is not None:
            known_hit.setdefault(kf["id"], kf)
            continue
        violations += 1
        if kind == "property":
            path = write_replay(prop.id, fail, "python output rejected by the Lean Spec: the property fails on the real code for this input")
            out_lines.append("VIOLATION property=%s replay=%s" % (prop.id, path))
        elif kind == "model":
            # correspondence broken while the property still holds on this case; did the search find a property failure?
            if any(f.kind == "property" and match_finding(f, findings) is None for f in runner.failures):
                violations -= 1  # reported through the property failure(s)
                continue
            path = write_replay(prop.id, fail, "correspondence family '%s' no longer checks: implementation and Lean Impl model disagree, Spec still accepts the implementation's output; failing-input search (tier=%s generators, %d evaluations) found no property failure" % (famname, gen_tier, runner.evaluations))
            out_lines.append("VIOLATION property=%s replay=%s no-failing-input-found" % (prop.id, path))
        else:
            path = write_replay(prop.id, fail, "model's own output rejected by Spec inside the partial-theorem hypothesis: proved theorem and executable model disagree (harness/model defect)")
            out_lines.append("VIOLATION property=%s replay=%s no-failing-input-found" % (prop.id, path))
    if proof_broken:
        unlisted_property_fail = any(l for l in out_lines if not l.endswith("no-failing-input-found"))
        if not unlisted_property_fail:
            path = write_proof_replay(prop.id, rep, {"evaluations": runner.evaluations})
            out_lines.append("VIOLATION property=%s replay=%s no-failing-input-found" % (prop.id, path))
            violations += 1
    for kid, kf in known_hit.items():
        print("KNOWN-FINDING: property=%s %s: %s" % (prop.id, kid, kf.get("what", "")))
    for l in out_lines:
        print(l)
    wall = time.time() - t0
    write_evidence(prop, tier, seed, rep, runner, violations, sorted(known_hit), wall,
                   extra={"unreproducible_timeouts": unreproducible_timeouts, "anchored_functions": anchors_n,
                          "anchored_changed": anchors_changed, "generators_tier": gen_tier})
    print("%s %s: proof %d/%d theorems, %d evaluations (%d distinct non-trivial), %d failures grouped, %d violations, %.1fs" % (
        prop.id, tier, rep.discharged, rep.obligations, runner.evaluations, len(runner.nontrivial_keys), len(groups), violations, wall))
    return 1 if violations else 0
