#!/bin/bash
# Offline build of the Lean library (models, lemmas, property theorems) and all driver executables.
set -e
cd "$(dirname "$0")"
export PATH="/usr/local/bin:$PATH"
# Translators first: lean/GlueVerif/Generated/*.lean is git-ignored and regenerated from the glue
# tree under test ($GLUE_REPO, default /repo); Props that import a Generated module need it to exist.
export MPLBACKEND=Agg PYTHONDONTWRITEBYTECODE=1
for t in harness/translate/*.py; do
  m=$(basename "$t" .py)
  [ "$m" = "__init__" ] && continue
  "${VERIF_PYTHON:-/venv/bin/python}" -m "harness.translate.$m"
done
cd lean
MODS=$(ls GlueVerif/Props/*.lean | sed 's#/#.#g; s#\.lean$##')
DRVS=$(ls Drivers/*.lean | sed 's#Drivers/\(C[0-9]*\)\.lean#drv_\L\1#')
lake build GlueVerif $MODS $DRVS
