#!/bin/bash
# Offline build of the Lean library (models, lemmas, property theorems) and all driver executables.
set -e
cd "$(dirname "$0")/lean"
export PATH="/usr/local/bin:$PATH"
MODS=$(ls GlueVerif/Props/*.lean | sed 's#/#.#g; s#\.lean$##')
DRVS=$(ls Drivers/*.lean | sed 's#Drivers/\(C[0-9]*\)\.lean#drv_\L\1#')
lake build GlueVerif $MODS $DRVS
