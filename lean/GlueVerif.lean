-- Root of the `GlueVerif` library: models, lemmas and property theorems.
import GlueVerif.Sexp
import GlueVerif.Model.ArrayUtil
