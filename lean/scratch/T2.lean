import GlueVerif.Model.Geometry
import Mathlib.Tactic.Linarith
import Mathlib.Tactic.Ring
open GlueVerif.Geometry

example (x a : Rat) (h : absLt x a = true) : x < a := by
  simp only [absLt, Bool.and_eq_true, decide_eq_true_eq] at h
  trace_state
  exact h.2
set_option pp.explicit true in
example (x a : Rat) (h : decide (x < a) = true) : x < a := by
  trace_state
  simp only [decide_eq_true_eq] at h
  exact h
