import GlueVerif.Model.Geometry
import Mathlib.Tactic.Linarith
import Mathlib.Tactic.Ring
open GlueVerif.Geometry

theorem absLt_iff (x a : Rat) : absLt x a = true ↔ -a < x ∧ x < a := by
  simp only [absLt, Bool.and_eq_true, decide_eq_true_eq]

example (r : Rect) (p : Pt) (h : branchOf r.c r.s = .axis) :
    Impl.rectContains r p = (absLt (p.1 - r.center.1) (r.width/2) && absLt (p.2 - r.center.2) (r.height/2)) := by
  rw [Bool.eq_iff_iff]
  simp only [Impl.rectContains, h, Bool.and_eq_true, absLt_iff, decide_eq_true_eq, Rect.center, Rect.width, Rect.height]
  constructor
  · rintro ⟨⟨⟨h1, h2⟩, h3⟩, h4⟩
    refine ⟨⟨?_, ?_⟩, ?_, ?_⟩ <;> linarith
  · rintro ⟨⟨h1, h2⟩, h3, h4⟩
    refine ⟨⟨⟨?_, ?_⟩, ?_⟩, ?_⟩ <;> linarith
