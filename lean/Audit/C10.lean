import GlueVerif.Props.C10
open GlueVerif.C10
#print axioms stat_bbox_eq
#print axioms stat_bbox_shape
#print axioms stat_chunked_eq
#print axioms stat_chunked_shape
#print axioms stat_slice_shortcut_eq
#print axioms stat_refines_spec_partial
#print axioms stat_shape
#print axioms F10c_witness
#print axioms reduce_partition_min
#print axioms reduce_partition_max
#print axioms reduce_partition_sum
#print axioms spec_dtype_independent
#print axioms spec_cell_reduce
#print axioms accept_exact
#print axioms stat_accepted_partial
#print axioms accept_witness
#print axioms hist_total
#print axioms hist_bin
#print axioms hist_bin_top
#print axioms hist_perbin_partial
#print axioms F10_witness
#print axioms stat_no_inplace_write
#print axioms stat_heap_refines_pure
#print axioms stat_sequence_independent
#print axioms stat_sequence_operands_unchanged
#print axioms seq_alias_witness
