import GlueVerif.Props.C10
open GlueVerif.C10
