import GlueVerif.Props.C10
open GlueVerif.C10
#print axioms stat_bbox_eq
#print axioms stat_bbox_shape
#print axioms hist_total
#print axioms hist_bin
#print axioms hist_bin_top
#print axioms hist_perbin_partial
