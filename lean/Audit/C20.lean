import GlueVerif.Props.C20
open GlueVerif.C20
#print axioms findChunkShape_spec
