import GlueVerif.Props.C20
open GlueVerif.C20
#print axioms findChunkShape_spec
#print axioms combineNorm_correct
#print axioms combineSlices_spec
#print axioms iterLoop_eq_prod
