import GlueVerif.Props.C20
open GlueVerif.C20
#print axioms findChunkShape_spec
#print axioms iterateChunks_partition
#print axioms iterateChunks_nmax
#print axioms unbroadcast_roundtrip
#print axioms unique_spec
#print axioms viewShape_slice_length
#print axioms combineNorm_correct
#print axioms combineSlices_spec
#print axioms iterLoop_eq_prod
#print axioms iterateChunksLoop_partition
#print axioms iterateChunksLoop_nmax
#print axioms iterateChunks_entry_nmax
#print axioms iterateChunks_entry_chunkShape
#print axioms GlueVerif.C20.derived_codes_spec
#print axioms GlueVerif.C20.unique_layout_independent
#print axioms GlueVerif.C20.lookupNd_spec
#print axioms GlueVerif.C20.derivedNd_spec
#print axioms GlueVerif.C20.unbroadcastNd_roundtrip
#print axioms GlueVerif.C20.helpers_depend_on_logical_array_only
