import GlueVerif.Props.C03
open GlueVerif.C03
#print axioms discover_terminates
#print axioms discover_reachable
#print axioms discover_depth_min
#print axioms discover_value
#print axioms spec_local_implies_composed
#print axioms specDepth_reachable
#print axioms manager_inv
#print axioms manager_inv_noRemove_unconditional
#print axioms manager_reads
#print axioms derived_reads_internal
#print axioms selection_via_links
#print axioms manager_no_dangling
#print axioms removal_forgets
#print axioms list_op_raising_midway_synced
