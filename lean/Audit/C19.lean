import GlueVerif.Props.C19
open GlueVerif.C19
#print axioms export_import_channel
#print axioms channels_honour_contract
#print axioms export_import_table
#print axioms export_import_fitsImage_partial
#print axioms subset_rows_exact
#print axioms export_order
#print axioms export_order_filter_is_a_set
#print axioms image_mask_fill
#print axioms autotyped_stable
#print axioms autotyped_flips_iff
#print axioms autotyped_numeric_text_flips
#print axioms fitsImage_blank_witness
#print axioms fitsImage_int64_witness
#print axioms autotyped_flip_witness
#print axioms ascii_empty_text_witness
#print axioms hdf5_zero_fill_ambiguous
#print axioms layout_irrelevant
#print axioms relayout_values
#print axioms export_import_any_layout
#print axioms restate_values
#print axioms component_state_irrelevant
#print axioms export_import_chain
