import GlueVerif.Props.C19
open GlueVerif.C19
