import GlueVerif.Props.C16
open GlueVerif.C16
#print axioms placeholder
