import GlueVerif.Props.C16
open GlueVerif.C16
#print axioms rne_nearest
#print axioms nearest_candidates
#print axioms nearest_unique_off_ties
#print axioms frb_pointwise
#print axioms frb_accepted
#print axioms frb_defined_iff
#print axioms frb_answer_accepted
#print axioms frb_indep_irrelevant_scalar
#print axioms wildcard_key_exact
#print axioms frb_indep_irrelevant_scalars
#print axioms dimensions_correct
#print axioms world_leaf_wf
#print axioms w2p_node_wf
#print axioms cache_step_sound
#print axioms cache_sound
#print axioms cache_sound_from
#print axioms cache_key_exact_needed
#print axioms hit_test_as_coded
#print axioms allclose_bounds_stale
#print axioms slice_to_bound_positions
#print axioms sliced_request_denotes
#print axioms selection_edited_in_place_stale
#print axioms data_changed_in_place_stale
#print axioms slice_to_bound_pinned_wrong
