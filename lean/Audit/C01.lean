import GlueVerif.Props.C01
open GlueVerif.C01
#print axioms classTable_faithful
#print axioms run_refines
#print axioms toMask_eq_denote
#print axioms reachable_cacheCoherent
#print axioms returned_arrays_stable
#print axioms operands_unchanged
#print axioms eval_order_irrelevant
#print axioms denote_bin
#print axioms denote_inv
#print axioms multiOr_eq_foldl_or
#print axioms editMode_masks
#print axioms editMode_denote
#print axioms shape_of_mask
#print axioms pinnedTable_not_faithful
#print axioms pinned_roiNd_counterexample
