import GlueVerif.Props.C12
open GlueVerif.C12
#print axioms versioned_inv
#print axioms versioned_set
#print axioms versioned_never_overwritten
#print axioms versioned_refines_spec
#print axioms save_uses_newest
#print axioms orig_set_violates_inv
#print axioms chase_terminates_of_check
#print axioms chase_acyclic_of_check
#print axioms chase_deterministic
#print axioms patches_terminate
#print axioms patches_acyclic
#print axioms patches_fixpoint_not_key
#print axioms patch_keys_unique
#print axioms patch_targets_importable
#print axioms no_capture_partial
#print axioms no_capture_witness_F12
#print axioms registry_consecutive
#print axioms saver_loader_versions_match
#print axioms save_uses_newest_table
#print axioms registry_keys_unique
#print axioms load_v_save_v_data
#print axioms load_v_save_v
#print axioms unser_recordwise
#print axioms load_doc_mixed
#print axioms newest_is_lossless
