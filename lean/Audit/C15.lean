import GlueVerif.Props.C15
