import GlueVerif.Props.C15
open GlueVerif.C15
#print axioms w2p_p2w
#print axioms w2p_p2w_coord
#print axioms inverse_le3
#print axioms det_ne_zero_iff
#print axioms mkAffine_wf
#print axioms coupledAxes_closed
#print axioms need_subset_dep
#print axioms need_subset_dep_of_diag
#print axioms world_eq_direct
#print axioms world_eq_direct_partial
#print axioms world_eq_direct_pinned_of_diag
#print axioms w2p_shortcut
#print axioms w2p_shortcut_partial
#print axioms inverse_pattern_covered
#print axioms corr_matrix_exact
#print axioms dep_scale_invariant
#print axioms links_eq_direct
#print axioms link_p2w_eq_direct_partial
#print axioms identity_coords
#print axioms permuted_axes_wrong
#print axioms triangular_inverse_wrong
#print axioms chain_from_needed_wrong
#print axioms world_eq_direct_history
#print axioms history_read_current_state
#print axioms cached_grid_survives_shape_change
