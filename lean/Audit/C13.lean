import GlueVerif.Props.C13
open GlueVerif.C13
#print axioms undo_do
#print axioms redo_undo_do
#print axioms redo_undo
#print axioms undo_redo
#print axioms do_clears_redo
#print axioms stack_le_max
#print axioms empty_stack_errors
#print axioms setup_wf
#print axioms zipper_refinement
#print axioms masks_of_observe
#print axioms spec_undo_after_do
#print axioms spec_redo_after_undo
#print axioms spec_redo_after_do
#print axioms spec_bound
#print axioms old_undo_apply_new_group
#print axioms old_redo_creates_nothing
#print axioms old_undo_empty_collection
#print axioms pre_f4b_remove_undo_reorders
#print axioms pre_f4b_add_present_undo_removes
#print axioms pre_f4b_remove_absent_undo_appends
#print axioms pre_f4b_refinement_on_clean
#print axioms impl_vs_pre_f4b
