import GlueVerif.Props.C18
open GlueVerif.C18
#print axioms placeholder
