import GlueVerif.Props.C18
open GlueVerif.C18
#print axioms viewer_inv_init
#print axioms viewer_step_inv
#print axioms viewer_reachable_inv
#print axioms viewer_reachable_spec
#print axioms viewer_mirrors_collection
#print axioms viewer_layers_plain
#print axioms restore_layers
#print axioms viewer_refusing_spec
#print axioms refresh_sound_complete
#print axioms kind_filter_whitelist
#print axioms unfiltered_kind_never_offered
#print axioms class_offered_iff
#print axioms kinds_covered
#print axioms refresh_order
#print axioms refresh_nodup
#print axioms refresh_none
#print axioms selection_valid_after_refresh
#print axioms selection_valid
#print axioms picker_after_refresh_ok
#print axioms explicit_none_accepted
#print axioms combo_history_valid
#print axioms dcombo_history_valid
#print axioms image_axes_distinct
#print axioms image_axes_spec
#print axioms image_1d_reference_crashes
