import GlueVerif.Props.C06
open GlueVerif.C06
#print axioms inv_init
#print axioms step_inv
#print axioms reachable_inv
#print axioms deliver_inv
#print axioms close_restores_inv
#print axioms depth_of_history
#print axioms quiescent_inv
#print axioms spec_of_inv
#print axioms reachable_spec
#print axioms reachable_ordered
#print axioms restore_roundtrip
#print axioms unguarded_group_in_block_duplicates
#print axioms immediate_step_inv
#print axioms immediate_reachable_inv
#print axioms immediate_agrees
#print axioms immediate_inv_quiescent
#print axioms old_removed_dataset_keeps_subsets
#print axioms old_reappend_duplicates
