import GlueVerif.Props.C06
open GlueVerif.C06
#print axioms inv_init
#print axioms step_inv
#print axioms reachable_inv
#print axioms spec_of_inv
#print axioms reachable_spec
#print axioms reachable_ordered
#print axioms restore_roundtrip
#print axioms old_removed_dataset_keeps_subsets
#print axioms old_reappend_duplicates
