import GlueVerif.Props.C08
open GlueVerif.C08
#print axioms rect_branches_agree
#print axioms bbox_contains_rotated_rect
#print axioms ellipse_branches_agree
#print axioms ellipse_bounds_contain
#print axioms circle_spec
#print axioms annulus_spec
#print axioms range_spec
#print axioms polygon_bbox_never_drops
#print axioms polygon_impl_eq_evenodd
#print axioms categorical_spec
#print axioms move_equivariant
#print axioms center_moveTo
#print axioms range_center_moveTo
#print axioms polygon_translate
#print axioms polygon_centroid_translate
#print axioms rotate_equivariant_rect
#print axioms rotate_equivariant_rect_spec
#print axioms rotate_equivariant_ellipse_spec
#print axioms rotate_equivariant_ellipse
#print axioms copy_same
#print axioms params_roundtrip
#print axioms restore_same
#print axioms shape_independent
#print axioms projected_chunking
