import GlueVerif.Props.C08
open GlueVerif.C08
