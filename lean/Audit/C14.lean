import GlueVerif.Props.C14
open GlueVerif.C14
#print axioms binary_compute_elementwise
#print axioms expr_eval
#print axioms link_compute_elementwise
#print axioms getitem_elementwise
#print axioms getitem_view_commutes
#print axioms remove_closure
#print axioms depClosure_iff_reach
#print axioms remove_keeps_inputs
#print axioms remove_absent
#print axioms remove_spec
#print axioms reorder_is_permutation
#print axioms remove_order_invariant
#print axioms reorder_preserves_values
#print axioms update_id_preserves_order
#print axioms update_id_preserves_values
#print axioms refusal_exact
#print axioms refused_changes_nothing
#print axioms call_refines_spec
#print axioms update_id_breaks_dependents
#print axioms parse_print
