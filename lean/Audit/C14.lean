import GlueVerif.Props.C14
