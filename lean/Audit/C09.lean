import GlueVerif.Props.C09
open GlueVerif.C09
