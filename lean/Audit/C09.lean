import GlueVerif.Props.C09
open GlueVerif.C09
#print axioms range_numeric
#print axioms from_range_positions
#print axioms range_categorical
#print axioms from_range_unsorted
#print axioms from_range_any_list
#print axioms contains_needs_sorted
#print axioms categorical_roi
#print axioms rect_categorical
#print axioms polygon_cat_cat
#print axioms polygonised_cat_num
#print axioms polygon_cat_num
#print axioms rect_rotated_cat_num
#print axioms numeric_numeric
#print axioms category_order_irrelevant
#print axioms categories_ok
#print axioms roi_selection
#print axioms rect_categorical_rotated_witness
#print axioms selection_scale_equivariant
