import GlueVerif.Props.C02
open GlueVerif.C02
#print axioms declared_ids_denote_declared_names
#print axioms dispatch_matches_observed
#print axioms table_offenders_nil
#print axioms no_silent_fallthrough
