import GlueVerif.Props.C02
open GlueVerif.C02
#print axioms names_injective
#print axioms disambiguate_total_fresh
#print axioms string_prefix_safe
#print axioms old_label_reads_as_literal
#print axioms roundtrip_framework
#print axioms roundtrip_framework_cycles
#print axioms roundtrip_framework_callbacks
#print axioms classes_field_faithful
#print axioms roundtrip_classes
#print axioms declared_ids_denote_declared_names
#print axioms dispatch_matches_observed
#print axioms table_offenders_nil
#print axioms no_silent_fallthrough
