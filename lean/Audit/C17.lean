import GlueVerif.Props.C17
open GlueVerif.C17
#print axioms inv_init
#print axioms inv_spec
#print axioms find_spec
#print axioms step_inv_partial
#print axioms inv_reachable_partial
