import GlueVerif.Props.C17
open GlueVerif.C17
#print axioms inv_init
#print axioms inv_spec
#print axioms find_spec
#print axioms step_inv_partial
#print axioms inv_reachable_partial
#print axioms messages_exact_partial
#print axioms trace_ok_partial
#print axioms remove_coordinate_breaks
#print axioms silent_replace
#print axioms update_id_merges
