import GlueVerif.Props.C17
open GlueVerif.C17
