import GlueVerif.Props.C17
open GlueVerif.C17
#print axioms inv_init
#print axioms inv_spec
#print axioms find_spec
#print axioms step_inv
#print axioms inv_reachable
#print axioms messages_exact
#print axioms trace_ok
#print axioms remove_coordinate_breaks
#print axioms silent_replace
#print axioms update_id_merges
#print axioms scalar_dataset_breaks
#print axioms rename_of_removed_id
