import GlueVerif.Props.C11
open GlueVerif.C11
#print axioms join_terminates
#print axioms join_terminates_flags
#print axioms join_first_path
#print axioms join_incompatible_iff
#print axioms paths_iff_joinPath
#print axioms join_1_1
#print axioms join_1_n
#print axioms join_n_1
#print axioms join_n_n
#print axioms enc_injective
#print axioms stripZ_injective
#print axioms bytes_eq_iff_tuple_eq
#print axioms join_chain
#print axioms join_view
#print axioms impl_eq_np
#print axioms np_eq_spec
#print axioms impl_eq_spec
#print axioms spec_rowMatch_imp_np
#print axioms join_correct
#print axioms nn_dtype_mismatch
#print axioms nn_dtype_false_positive
#print axioms nn_string_width_mismatch
#print axioms nn_float_specials
#print axioms nn_mixed_columns_exact
#print axioms int64_float_promotion
