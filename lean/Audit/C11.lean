import GlueVerif.Props.C11
