import GlueVerif.Props.C07
open GlueVerif.C07
#print axioms impl_refines_spec_from
#print axioms impl_refines_spec
#print axioms impl_idle_after
#print axioms impl_delayed_refines_held
#print axioms spec_silent_while_delayed
#print axioms spec_queue_in_order
#print axioms spec_queue_not_ignored
#print axioms spec_queue_complete
#print axioms spec_delay_block
#print axioms spec_exactly_once
#print axioms spec_ignored_dropped
#print axioms spec_nested_inside
#print axioms spec_sequential
#print axioms targets_mem
#print axioms bestSub_most_specific
#print axioms bestSub_none_iff_unsubscribed
#print axioms targets_priority_order
#print axioms targets_listeners_distinct
#print axioms spec_listeners_stay_distinct
#print axioms old_nested_delay_counterexample
#print axioms old_reentrant_flush_diverges
#print axioms old_raise_in_flush_redelivers
