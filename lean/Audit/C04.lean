import GlueVerif.Props.C04
open GlueVerif.C04
#print axioms GlueVerif.C04.index_tabulate
#print axioms GlueVerif.C04.viewPoints_in_range
#print axioms GlueVerif.C04.pixel_view_values
#print axioms GlueVerif.C04.pixel_view
#print axioms GlueVerif.C04.attr_view
#print axioms GlueVerif.C04.attr_view_values
#print axioms GlueVerif.C04.derived_view
#print axioms GlueVerif.C04.world_view
#print axioms GlueVerif.C04.roi_pixel_shortcut_values
#print axioms GlueVerif.C04.roi_pixel_shortcut_view
#print axioms GlueVerif.C04.slice_state_view
#print axioms GlueVerif.C04.slice_state_values
#print axioms GlueVerif.C04.mask_state_view
#print axioms GlueVerif.C04.mask_state_general_view
#print axioms GlueVerif.C04.element_state_view
#print axioms GlueVerif.C04.state_view
#print axioms GlueVerif.C04.state_view_values
#print axioms GlueVerif.C04.chunked_roi_scalar_view_pinned_raises
#print axioms GlueVerif.C04.loop1d_scalar_view_pinned_raises
#print axioms GlueVerif.C04.indexed_get
#print axioms GlueVerif.C04.indexed_pixel
#print axioms GlueVerif.C04.indexed_mask
#print axioms GlueVerif.C04.indexed_after_reindex
#print axioms GlueVerif.C04.indexed_histogram_selection
