import GlueVerif.Props.C04
