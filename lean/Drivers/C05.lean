import GlueVerif.Sexp
import GlueVerif.Model.SubsetEval
import GlueVerif.Model.C05Cache
/-!
Line-protocol driver for C05 (results always reflect the current data, regions and links).

Families
* `(hist (<views> <kinds> <epochs> <vals> <ops>) <pyout>)` — a history of constructions, evaluations,
  attribute setters, in-place parameter edits, data / link mutations, `compute_statistic` /
  `compute_histogram` calls, run on real glue objects.
  `impl`   = the heap model (`Impl.run classTable repairedPolicy`): every observation plus the contents of
             all `__memoize_cache` dicts at the end;
  `ok`     = Spec verdict on the *python* observations: each equals `denoteNow` (the current value in the
             current leaf environment, i.e. what a fresh never-evaluated copy returns — measured per epoch
             on fresh copies of probe objects), statistics / histograms computed from that mask;
  `p`      = `progClean`: no stale key reachable at any evaluation (hypothesis of `impl_fresh_partial`).
* `(slot (<key ids> <fresh values>) <pyout>)` — a single-slot keyed cache (`FloodFillSubsetState`,
  `HistogramLayerState`): requests with the key the code built and the value a freshly constructed object
  returns; `impl` = `slotRun`; `ok` = python returned the fresh value every time; `p` = the key separates
  the inputs (hypothesis of `keyed_cache_sound`).  A value is an atom or a flat list of tokens and **exact
  rationals** (`n` / `(q n d)`: every double as the rational it is), compared as `Rat`s — a stale answer that
  differs from the fresh one in the last bit of one bin edge is a different value.
* `(dict …)` — the same for a dictionary cache (`StateAttributeCacheHelper`).
-/
open GlueVerif GlueVerif.Sexp GlueVerif.SubsetEval GlueVerif.C05Cache

def bad (msg : String) : String := driverError msg

def kindOf? : String → Option Kind
  | "base" => some .base | "roiNd" => some .roiNd | "roi2d" => some .roi2d | "roi3d" => some .roi3d
  | "catRoi" => some .catRoi | "range" => some .range | "multiRange" => some .multiRange
  | "catRoi2d" => some .catRoi2d | "catMultiRange" => some .catMultiRange | "mask" => some .mask
  | "floodFill" => some .floodFill | "slice" => some .slice | "pixel" => some .pixel
  | "category" => some .category | "element" => some .element | "inequality" => some .inequality
  | "parsed" => some .parsed | _ => none

def tableAtom : Table → String
  | .composite => "composite" | .invert => "invert" | .multiOr => "multiOr" | .catRoi => "catRoi"
  | .catRoi2d => "catRoi2d" | .catMultiRange => "catMultiRange" | .category => "category"
  | .element => "element" | .inequality => "inequality"

def opOf? : String → Option BinOp
  | "and" => some .and | "or" => some .or | "xor" => some .xor | _ => none

def formOf? : String → Option Form
  | "pos" => some .pos | "kw" => some .kw | "bare" => some .bare | _ => none
def formAtom : Form → String
  | .pos => "pos" | .kw => "kw" | .bare => "bare"

def modeOf? : String → Option Mode
  | "replace" => some .replace | "new" => some .new | "and" => some .and | "or" => some .or
  | "xor" => some .xor | "andNot" => some .andNot | _ => none

def errOf? : String → Option Err
  | "incompatible" => some .incompatible | "shape" => some .shape | "other" => some .other | _ => none
def errAtom : Err → String
  | .incompatible => "incompatible" | .shape => "shape" | .other => "other"
  | .dangling => "model-dangling" | .fuel => "model-fuel"

def dataMutOf? : String → Option DataMut
  | "updateComponents" => some .updateComponents | "updateValues" => some .updateValues
  | "updateValuesShape" => some .updateValuesShape | "addLink" => some .addLink
  | "removeLink" => some .removeLink | _ => none

def bitsAtom (bs : List Bool) : Sexp := .atom ("b" ++ String.ofList (bs.map fun b => if b then '1' else '0'))

def bitsOf? : Sexp → Option (List Bool)
  | .atom s =>
    match s.toList with
    | 'b' :: cs => cs.mapM fun c => if c == '1' then some true else if c == '0' then some false else none
    | _ => none
  | _ => none

def resOf? : Sexp → Option (Except Err Mask)
  | .list [.atom "ok", sh, bs] => do some (.ok ⟨← sh.toNats?, ← bitsOf? bs⟩)
  | .list [.atom "err", .atom e] => (errOf? e).map .error
  | _ => none

/-- How an op's mask is turned into the observable. -/
inductive Post where
  | plain
  | stat (d : Nat)
  | hist (d : Nat) (nb : Nat)

structure Case where
  views : List Bool                                             -- hashable?
  kinds : List Kind                                             -- kind of every content
  epochs : List (List (List (Nat × Nat × Except Err Mask)))     -- epoch ↦ content ↦ rows (d, v, result)
  vals : List (List (Option (List Int)))                        -- epoch ↦ dataset ↦ values of the statistic attribute
  ops : List (C05Cache.Op × Post)

def viewOf (c : Case) (i : Nat) : View := ⟨i, (c.views[i]?).getD true⟩

def worldOf (c : Case) : World := fun ep =>
  ⟨fun ct d v =>
    match c.epochs[ep]? with
    | none => .error .dangling
    | some tab =>
      match tab[ct]? with
      | none => .error .dangling
      | some rows =>
        match rows.find? (fun r => r.1 == d && r.2.1 == v.id) with
        | some r => r.2.2
        | none => .error .dangling⟩

def parseOp (c : Case) : Sexp → Option (C05Cache.Op × Post)
  | .list [.atom "leaf", ct] => do
    let n ← ct.toNat?
    let k ← c.kinds[n]?
    some (.base (.leaf k n), .plain)
  | .list [.atom "bin", .atom o, a, b] => do some (.base (.bin (← opOf? o) (← a.toNat?) (← b.toNat?)), .plain)
  | .list [.atom "inv", a] => do some (.base (.inv (← a.toNat?)), .plain)
  | .list (.atom "mor" :: as) => do some (.base (.multiOr (← as.mapM toNat?)), .plain)
  | .list [.atom "copy", a] => do some (.base (.copy (← a.toNat?)), .plain)
  | .list [.atom "eval", a, d, v, .atom f] => do
    some (.base (.eval (← a.toNat?) (← d.toNat?) (viewOf c (← v.toNat?)) (← formOf? f)), .plain)
  | .list [.atom "edit", .atom m, a] => do some (.base (.edit (← modeOf? m) (← a.toNat?)), .plain)
  | .list [.atom "evalcur", d, v] => do some (.base (.evalCur (← d.toNat?) (viewOf c (← v.toNat?))), .plain)
  | .list [.atom "usecur"] => some (.base .useCur, .plain)
  | .list [.atom "child", a, i] => do some (.base (.child (← a.toNat?) (← i.toNat?)), .plain)
  | .list [.atom "setattr", a, ct] => do
    let n ← ct.toNat?
    some (.setAttr (← a.toNat?) (← c.kinds[n]?) n, .plain)
  | .list [.atom "editparam", a, ct] => do
    let n ← ct.toNat?
    some (.editParam (← a.toNat?) (← c.kinds[n]?) n, .plain)
  | .list [.atom "datamut", .atom m, d] => do some (.dataMut (← dataMutOf? m) (← d.toNat?), .plain)
  -- `data.compute_statistic('sum', cid, subset_state=a)` calls `a.to_mask(data, None)` (positional)
  | .list [.atom "stat", a, d] => do
    some (.base (.eval (← a.toNat?) (← d.toNat?) (viewOf c 0) .pos), .stat (← d.toNat?))
  -- `data.compute_histogram(…, subset_state=a)` calls `data.get_mask(a)` = `a.to_mask(data, view=None)`
  | .list [.atom "hist", a, d, nb] => do
    some (.base (.eval (← a.toNat?) (← d.toNat?) (viewOf c 0) .kw), .hist (← d.toNat?) (← nb.toNat?))
  | _ => none

def parseCase : Sexp → Option Case
  | .list [.list (.atom "views" :: vs), .list (.atom "kinds" :: ks), .list (.atom "epochs" :: es),
           .list (.atom "vals" :: vls), .list (.atom "ops" :: os)] => do
    let views ← vs.mapM toBool?
    let kinds ← ks.mapM fun | .atom k => kindOf? k | _ => none
    let epochs ← es.mapM fun
      | .list tabs => tabs.mapM fun
        | .list rows => rows.mapM fun
          | .list [d, v, r] => do some ((← d.toNat?), (← v.toNat?), (← resOf? r))
          | _ => none
        | _ => none
      | _ => none
    let vals ← vls.mapM fun
      | .list ds => ds.mapM fun
        | .atom "N" => some none
        | e => (e.toInts?).map some
      | _ => none
    let c0 : Case := ⟨views, kinds, epochs, vals, []⟩
    let ops ← os.mapM (parseOp c0)
    some { c0 with ops := ops }
  | _ => none

/-! ### observables -/

def intsSexp (xs : List Int) : Sexp := .list (xs.map ofInt)

/-- What the outside sees of one op, given the epoch it ran in. -/
def obsSexp (c : Case) (ep : Nat) (post : Post) : Obs → Sexp
  | .none => .atom "N"
  | .bad => .atom "bad"
  | .mask (.error e) =>
    match post, e with
    | .plain, _ => .list [.atom "err", .atom (errAtom e)]
    | _, .incompatible => .list [.atom "err", .atom "incompatible"]
    | _, _ => .list [.atom "err", .atom "stat-error"]
  | .mask (.ok m) =>
    match post with
    | .plain => .list [.atom "ok", ofNats m.shape, bitsAtom m.bits]
    | .stat d =>
      match (c.vals[ep]?).bind (fun r => (r[d]?).bind id) with
      | some vs =>
        if vs.length != m.bits.length then .list [.atom "err", .atom "stat-error"]   -- mask does not fit the data
        else if (maskedVals vs m).isEmpty then .atom "nan" else .list [.atom "int", ofInt (maskedSum vs m)]
      | none => .atom "novals"
    | .hist d nb =>
      match (c.vals[ep]?).bind (fun r => (r[d]?).bind id) with
      | some vs =>
        if vs.length != m.bits.length then .list [.atom "err", .atom "stat-error"]
        else .list (.atom "cnt" :: (maskedHist vs nb m).map ofNat)
      | none => .atom "novals"

/-- Epoch in which each op runs. -/
def epochsOf : Nat → List (C05Cache.Op × Post) → List Nat
  | _, [] => []
  | ep, (op, _) :: rest =>
    ep :: epochsOf (match op with | .dataMut _ _ => ep + 1 | _ => ep) rest

def obsList (c : Case) (obs : List Obs) : List Sexp :=
  let eps := epochsOf 0 c.ops
  (List.range obs.length).map fun i =>
    match obs[i]?, c.ops[i]?, eps[i]? with
    | some o, some (_, post), some ep => obsSexp c ep post o
    | _, _, _ => .atom "N"

def strLe (a b : String) : Bool := a < b || a == b

def memoSexp (h : Heap) : List Sexp :=
  let entries := h.memo.map fun x =>
    let m := (h.arrays[x.arr]?).getD ⟨[], []⟩
    Sexp.list [.atom (tableAtom x.key.table), ofNat x.key.data, ofNat x.key.view.id, .atom (formAtom x.key.form),
      ofNats m.shape, bitsAtom m.bits]
  let keyed := entries.map fun e => (Sexp.toString e, e)
  (keyed.mergeSort (fun a b => strLe a.1 b.1)).map (·.2)

def outSexp (obs : List Sexp) (memo : List Sexp) : Sexp :=
  .list [tagged "obs" obs, tagged "memo" memo]

def sexpListEq (a b : List Sexp) : Bool :=
  a.length == b.length && (a.zip b).all fun p => p.1 == p.2

def stepHist (cs pyout : Sexp) : String :=
  match parseCase cs with
  | none => bad "hist-case"
  | some c =>
    let w := worldOf c
    let prog := c.ops.map (·.1)
    let ri := C05Cache.Impl.run classTable repairedPolicy w {} prog
    let rs := C05Cache.Spec.run classTable w {} prog
    let implObs := obsList c (ri.2.map (·.obs))
    let specObs := obsList c rs.2
    let impl := outSexp implObs (memoSexp ri.1.s.h)
    let p := progClean classTable repairedPolicy w {} prog
    let ok := match pyout with
      | .list [.list (.atom "obs" :: po), .list (.atom "memo" :: _)] => sexpListEq po specObs
      | _ => false
    let hit := !ri.1.s.h.memo.isEmpty
    let hasMut := prog.any fun o => match o with | .base _ => false | _ => true
    let br := (if p then "clean" else "stale") ++ (if hit then "-memo" else "-nomemo") ++ (if hasMut then "-mut" else "")
    driverResult impl ok (sexpListEq implObs specObs) p br

/-! ### keyed caches -/

/-- One item of a cached value: a token or an **exact rational** (python sends every double as the integer /
`(q num den)` it is — `float.as_integer_ratio()` — so edges that differ by one ulp are different values here). -/
inductive VAtom where
  | tok (s : String)
  | num (q : Rat)
  deriving DecidableEq

def vatomOf? : Sexp → Option VAtom
  | .atom s => some (match s.toInt? with | some i => .num (i : Rat) | none => .tok s)
  | .list [.atom "q", n, d] => do
    let n ← n.toInt?
    let d ← d.toNat?
    if d == 0 then none else some (.num (mkRat n d))
  | _ => none

/-- A cached value: an atom (old-style canonical text, exception token) or a flat list of tokens / rationals. -/
def valueOf? : Sexp → Option (List VAtom)
  | .atom s => (vatomOf? (.atom s)).map ([·])
  | .list xs => xs.mapM vatomOf?

def vatomSexp : VAtom → Sexp
  | .tok s => .atom s
  | .num q => if q.den == 1 then ofInt q.num else .list [.atom "q", ofInt q.num, ofNat q.den]

def valueSexp (isAtom : Bool) (v : List VAtom) : Sexp :=
  match isAtom, v with
  | true, [a] => vatomSexp a
  | _, _ => .list (v.map vatomSexp)

def stepSlot (dict : Bool) (keys vals pyout : Sexp) : String :=
  match keys.toNats?, (vals.toList?).bind (·.mapM valueOf?) with
  | some ks, some vs =>
    if ks.length != vs.length then bad "slot-len" else
    let atomic := match vals.toList? with
      | some l => l.all fun | .atom _ => true | _ => false
      | none => true
    let inputs := ks.zip vs
    let key : Nat × List VAtom → Nat := fun i => i.1
    let f : Nat × List VAtom → List VAtom := fun i => i.2
    let outs := if dict then dictRun key f [] inputs else slotRun key f none inputs
    let want := inputs.map f
    let p := inputs.all fun i => inputs.all fun j => !(key i == key j) || decide (f i = f j)
    -- the Spec verdict: every answer python returned is, as a list of exact rationals, the one a freshly
    -- constructed object returns for the *current* inputs
    let ok := match (pyout.toList?).bind (·.mapM valueOf?) with
      | some po => decide (po = want)
      | none => false
    let reused := (List.range ks.length).any fun i =>
      match ks[i]? with
      | some k => (ks.take i).any (· == k)
      | none => false
    driverResult (.list (outs.map (valueSexp atomic))) ok (decide (outs = want)) p
      ((if dict then "dict" else "slot") ++ (if reused then "-hit" else "-miss") ++ (if p then "" else "-collide"))
  | _, _ => bad "slot-case"

def step (line : String) : String :=
  match Sexp.parse line with
  | some (.list [.atom "hist", cs, pyout]) => stepHist cs pyout
  | some (.list [.atom "slot", .list [keys, vals], pyout]) => stepSlot false keys vals pyout
  | some (.list [.atom "dict", .list [keys, vals], pyout]) => stepSlot true keys vals pyout
  | _ => bad "unknown-family"

def main : IO Unit := driverLoop step
