import GlueVerif.Sexp
import GlueVerif.Model.SubsetEval
import GlueVerif.Model.C05Cache
/-!
Line-protocol driver for C05 (results always reflect the current data, regions and links).

Families
* `(hist (<views> <kinds> <epochs> <vals> <ops>) <pyout>)` — a history of constructions, evaluations,
  attribute setters, in-place parameter edits, data / link mutations, `compute_statistic` /
  `compute_histogram` calls, run on real glue objects.
  `impl`   = the heap model (`Impl.run classTable repairedPolicy`): every observation plus the contents of
             all `__memoize_cache` dicts at the end;
  `ok`     = Spec verdict on the *python* observations: each equals `denoteNow` (the current value in the
             current leaf environment, i.e. what a fresh never-evaluated copy returns — measured per epoch
             on fresh copies of probe objects), statistics / histograms computed from that mask;
  `p`      = `progClean`: no stale key reachable at any evaluation (hypothesis of `impl_fresh_partial`).
  Re-entrant form (round 3): an optional 6th element `(listeners (<msg> <eval op>…)…)` and ops
  `(mutate <mutation descriptor> (seen <msg>…))`: the mutation is run **phase by phase** (`Mutation.phases`: the
  transcribed order of clears, state changes and broadcasts, link-manager blocks where python saw
  `ExternallyDerivableComponentsChangedMessage`s), listener evaluations are evaluations of the flat history
  (`expand`), the leaf environment is measured by python at every message and after the mutation and assigned to
  the ticks of the script (`ticksOf`).  The observable of a `mutate` op is `(m (tr (<clears> <msg>)… (<clears>
  END)) (ev <listener observations>…))`; `ok` compares the `ev` parts with the Spec (the state current at that
  moment), `impl` also the trace (messages and the number of `clear_all_caches()` calls between them).
* `(slot (<key ids> <fresh values>) <pyout>)` — a single-slot keyed cache (`FloodFillSubsetState`,
  `HistogramLayerState`): requests with the key the code built and the value a freshly constructed object
  returns; `impl` = `slotRun`; `ok` = python returned the fresh value every time; `p` = the key separates
  the inputs (hypothesis of `keyed_cache_sound`).  A value is an atom or a flat list of tokens and **exact
  rationals** (`n` / `(q n d)`: every double as the rational it is), compared as `Rat`s — a stale answer that
  differs from the fresh one in the last bit of one bin edge is a different value.
* `(dict …)` — the same for a dictionary cache (`StateAttributeCacheHelper`).
-/
open GlueVerif GlueVerif.Sexp GlueVerif.SubsetEval GlueVerif.C05Cache

def bad (msg : String) : String := driverError msg

def kindOf? : String → Option Kind
  | "base" => some .base | "roiNd" => some .roiNd | "roi2d" => some .roi2d | "roi3d" => some .roi3d
  | "catRoi" => some .catRoi | "range" => some .range | "multiRange" => some .multiRange
  | "catRoi2d" => some .catRoi2d | "catMultiRange" => some .catMultiRange | "mask" => some .mask
  | "floodFill" => some .floodFill | "slice" => some .slice | "pixel" => some .pixel
  | "category" => some .category | "element" => some .element | "inequality" => some .inequality
  | "parsed" => some .parsed | _ => none

def tableAtom : Table → String
  | .composite => "composite" | .invert => "invert" | .multiOr => "multiOr" | .catRoi => "catRoi"
  | .catRoi2d => "catRoi2d" | .catMultiRange => "catMultiRange" | .category => "category"
  | .element => "element" | .inequality => "inequality"

def opOf? : String → Option BinOp
  | "and" => some .and | "or" => some .or | "xor" => some .xor | _ => none

def formOf? : String → Option Form
  | "pos" => some .pos | "kw" => some .kw | "bare" => some .bare | _ => none
def formAtom : Form → String
  | .pos => "pos" | .kw => "kw" | .bare => "bare"

def modeOf? : String → Option Mode
  | "replace" => some .replace | "new" => some .new | "and" => some .and | "or" => some .or
  | "xor" => some .xor | "andNot" => some .andNot | _ => none

def errOf? : String → Option Err
  | "incompatible" => some .incompatible | "shape" => some .shape | "other" => some .other | _ => none
def errAtom : Err → String
  | .incompatible => "incompatible" | .shape => "shape" | .other => "other"
  | .dangling => "model-dangling" | .fuel => "model-fuel"

def dataMutOf? : String → Option DataMut
  | "updateComponents" => some .updateComponents | "updateValues" => some .updateValues
  | "updateValuesShape" => some .updateValuesShape | "addLink" => some .addLink
  | "removeLink" => some .removeLink | _ => none

def bitsAtom (bs : List Bool) : Sexp := .atom ("b" ++ String.ofList (bs.map fun b => if b then '1' else '0'))

def bitsOf? : Sexp → Option (List Bool)
  | .atom s =>
    match s.toList with
    | 'b' :: cs => cs.mapM fun c => if c == '1' then some true else if c == '0' then some false else none
    | _ => none
  | _ => none

def resOf? : Sexp → Option (Except Err Mask)
  | .list [.atom "ok", sh, bs] => do some (.ok ⟨← sh.toNats?, ← bitsOf? bs⟩)
  | .list [.atom "err", .atom e] => (errOf? e).map .error
  | _ => none

/-- How an op's mask is turned into the observable. -/
inductive Post where
  | plain
  | stat (d : Nat)
  | hist (d : Nat) (nb : Nat)

/-- A parsed op of the history: a primitive op, or a re-entrant mutation with its phases. -/
inductive POp where
  | op (o : C05Cache.Op) (post : Post)
  | mutate (ph : List Phase)

structure Case where
  views : List Bool                                             -- hashable?
  kinds : List Kind                                             -- kind of every content
  /-- measurement points, in the order python took them: the initial state, then for every atomic `datamut`
  one, for every `mutate` one per message delivered and one at its end: content ↦ rows (d, v, result) -/
  points : List (Option (List (List (Nat × Nat × Except Err Mask))))
  vals : List (List (Option (List Int)))                        -- point ↦ dataset ↦ values of the statistic attribute
  listeners : List (Msg × List (LEval × Post))
  ops : List POp

def viewOf (c : Case) (i : Nat) : View := ⟨i, (c.views[i]?).getD true⟩

def msgOf? : String → Option Msg
  | "numerical" => some .numerical | "remove" => some .remove | "compsChanged" => some .compsChanged
  | "add" => some .add | "extDerivable" => some .extDerivable | "update" => some .update
  | "replaced" => some .replaced | "pixelAligned" => some .pixelAligned | _ => none
def msgAtom : Msg → String
  | .numerical => "numerical" | .remove => "remove" | .compsChanged => "compsChanged" | .add => "add"
  | .extDerivable => "extDerivable" | .update => "update" | .replaced => "replaced" | .pixelAligned => "pixelAligned"

/-- A forest of removed components: a list of nodes, each node the list of its dependents. -/
partial def remOf? : Sexp → Option Script.Rem
  | .list [] => some .nil
  | .list (n :: rest) => do some (.node (← remOf? n) (← remOf? (.list rest)))
  | _ => none

def natPair? : Sexp → Option (Option (Nat × Nat))
  | .atom "N" => some none
  | .list [a, b] => do some (some ((← a.toNat?), (← b.toNat?)))
  | _ => none

def mutationOf? : Sexp → Option Mutation
  | .list [.atom "updateComponents"] => some .updateComponents
  | .list [.atom "updateValues", rem, ndim, added, label, coords] => do
    let nd ← match ndim with
      | .atom "N" => some none
      | .list [w, pix, n] => do some (some ((← w.toNat?), (← remOf? pix), (← n.toNat?)))
      | _ => none
    some (.updateValues (← remOf? rem) nd (← added.toNat?) (← label.toBool?) (← natPair? coords))
  | .list [.atom "addComponent"] => some .addComponent
  | .list [.atom "replaceComponent"] => some .replaceComponent
  | .list [.atom "removeComponent", rem] => do some (.removeComponent (← remOf? rem))
  | .list [.atom "updateId"] => some .updateId
  | .list [.atom "setCoords", a, b] => do some (.setCoords (← a.toNat?) (← b.toNat?))
  | .list [.atom "linkChange"] => some .linkChange
  | _ => none

/-- The evaluations (top level and inside listeners): the op and how its mask is turned into the observable. -/
def parseEval (views : List Bool) : Sexp → Option (LEval × Post)
  | .list [.atom "eval", a, d, v, .atom f] => do
    let vi ← v.toNat?
    some (.eval (← a.toNat?) (← d.toNat?) ⟨vi, (views[vi]?).getD true⟩ (← formOf? f), .plain)
  | .list [.atom "evalcur", d, v] => do
    let vi ← v.toNat?
    some (.evalCur (← d.toNat?) ⟨vi, (views[vi]?).getD true⟩, .plain)
  -- `data.compute_statistic('sum', cid, subset_state=a)` calls `a.to_mask(data, None)` (positional)
  | .list [.atom "stat", a, d] => do
    some (.eval (← a.toNat?) (← d.toNat?) ⟨0, (views[0]?).getD true⟩ .pos, .stat (← d.toNat?))
  -- `data.compute_histogram(…, subset_state=a)` calls `data.get_mask(a)` = `a.to_mask(data, view=None)`
  | .list [.atom "hist", a, d, nb] => do
    some (.eval (← a.toNat?) (← d.toNat?) ⟨0, (views[0]?).getD true⟩ .kw, .hist (← d.toNat?) (← nb.toNat?))
  | _ => none

def parseOp (views : List Bool) (kinds : List Kind) : Sexp → Option POp
  | .list [.atom "leaf", ct] => do
    let n ← ct.toNat?
    let k ← kinds[n]?
    some (.op (.base (.leaf k n)) .plain)
  | .list [.atom "bin", .atom o, a, b] => do some (.op (.base (.bin (← opOf? o) (← a.toNat?) (← b.toNat?))) .plain)
  | .list [.atom "inv", a] => do some (.op (.base (.inv (← a.toNat?))) .plain)
  | .list (.atom "mor" :: as) => do some (.op (.base (.multiOr (← as.mapM toNat?))) .plain)
  | .list [.atom "copy", a] => do some (.op (.base (.copy (← a.toNat?))) .plain)
  | .list [.atom "edit", .atom m, a] => do some (.op (.base (.edit (← modeOf? m) (← a.toNat?))) .plain)
  | .list [.atom "usecur"] => some (.op (.base .useCur) .plain)
  | .list [.atom "child", a, i] => do some (.op (.base (.child (← a.toNat?) (← i.toNat?))) .plain)
  | .list [.atom "setattr", a, ct] => do
    let n ← ct.toNat?
    some (.op (.setAttr (← a.toNat?) (← kinds[n]?) n) .plain)
  | .list [.atom "editparam", a, ct] => do
    let n ← ct.toNat?
    some (.op (.editParam (← a.toNat?) (← kinds[n]?) n) .plain)
  | .list [.atom "datamut", .atom m, d] => do some (.op (.dataMut (← dataMutOf? m) (← d.toNat?)) .plain)
  | .list [.atom "mutate", desc, .list (.atom "seen" :: ms)] => do
    let m ← mutationOf? desc
    let seen ← ms.mapM fun | .atom a => msgOf? a | _ => none
    some (.mutate (m.phases seen))
  | e => do
    let (ev, post) ← parseEval views e
    some (.op ev.toOp post)

def parseCase : Sexp → Option Case
  | .list (.list (.atom "views" :: vs) :: .list (.atom "kinds" :: ks) :: .list (.atom "epochs" :: es) ::
           .list (.atom "vals" :: vls) :: .list (.atom "ops" :: os) :: more) => do
    let views ← vs.mapM toBool?
    let kinds ← ks.mapM fun | .atom k => kindOf? k | _ => none
    -- `=`: not measured at this point (nothing is evaluated there)
    let tableOf? : Sexp → Option (List (Nat × Nat × Except Err Mask)) := fun
      | .list rows => rows.mapM fun
        | .list [d, v, r] => do some ((← d.toNat?), (← v.toNat?), (← resOf? r))
        | _ => none
      | _ => none
    let points ← es.mapM fun (e : Sexp) =>
      match e with
      | .atom "=" => some none
      | .list tabs => (tabs.mapM tableOf?).map some
      | _ => none
    let vals ← vls.mapM fun
      | .atom "=" => some []
      | .list ds => ds.mapM fun
        | .atom "N" => some none
        | e => (e.toInts?).map some
      | _ => none
    let listeners ← match more with
      | [] => some []
      | [.list (.atom "listeners" :: ls)] => ls.mapM fun
        | .list (.atom m :: evs) => do some ((← msgOf? m), (← evs.mapM (parseEval views)))
        | _ => none
      | _ => none
    let ops ← os.mapM (parseOp views kinds)
    some ⟨views, kinds, points, vals, listeners, ops⟩
  | _ => none

/-! ### the flat history -/

/-- A primitive step of the flat history: `vis = 0` a top-level op, `1` a phase (clear / change: not an
observation of its own), `2` an evaluation performed inside a listener. -/
structure FOp where
  op : C05Cache.Op
  post : Post
  vis : Nat

def flatOf (c : Case) : POp → List FOp
  | .op o post => [⟨o, post, 0⟩]
  | .mutate ph =>
    ph.flatMap (expandPhaseWith ⟨.clearAll, .plain, 1⟩ ⟨.change, .plain, 1⟩ fun m =>
      ((c.listeners.filter (fun e => e.1 == m)).flatMap (·.2)).map fun e => ⟨e.1.toOp, e.2, 2⟩)

/-- The listeners as the model takes them (`flatOf` and `expand` are the same combinator `expandPhaseWith`). -/
def listenersOf (c : Case) : Listeners := c.listeners.map fun e => (e.1, e.2.map (·.1))

def lopsOf (c : Case) : List LOp := c.ops.map fun
  | .op o _ => .op o
  | .mutate ph => .mutate ph

/-- Which measurement point belongs to which tick: `(tick, point index)` pairs, in order. -/
def pointTicks : Nat → Nat → List POp → List (Nat × Nat)
  | _, _, [] => []
  | t, k, .op (.dataMut _ _) _ :: r => (t + 1, k) :: pointTicks (t + 1) (k + 1) r
  | t, k, .op _ _ :: r => pointTicks t k r
  | t, k, .mutate ph :: r =>
    let ts := ticksOf t ph
    (ts.zip (List.range' k ts.length)) ++ pointTicks (ts.getLastD t) (k + ts.length) r

def measured (c : Case) (k : Nat) : Bool := ((c.points[k]?).bind id).isSome

/-- The point that gives tick `t` its environment: the first point measured in that tick; a tick in which nothing
was measured (no message a listener reacts to, not the end) gets the next measurement (nothing is evaluated in it). -/
def pointOfTick (c : Case) (pt : List (Nat × Nat)) (t : Nat) : Option Nat :=
  match pt.find? (fun e => e.1 == t && measured c e.2) with
  | some e => some e.2
  | none => (pt.find? (fun e => e.1 > t && measured c e.2)).map (·.2)

def resKey : Except Err Mask → Option Mask × Option Err
  | .ok m => (some m, none)
  | .error e => (none, some e)

def pointKey (c : Case) (k : Nat) : Option (List (List (Nat × Nat × Option Mask × Option Err))) :=
  ((c.points[k]?).bind id).map fun tab => tab.map fun rows => rows.map fun r => (r.1, r.2.1, resKey r.2.2)

/-- Two points of the same tick must have measured the same environment (no state change in between). -/
def ticksConsistent (c : Case) (pt : List (Nat × Nat)) : Bool :=
  pt.all fun e =>
    !measured c e.2 ||
    match pointOfTick c pt e.1 with
    | some k => k == e.2 || (pointKey c k == pointKey c e.2 && c.vals[k]? == c.vals[e.2]?)
    | none => true

def worldOf (c : Case) (pt : List (Nat × Nat)) : World := fun ep =>
  ⟨fun ct d v =>
    match (if ep == 0 then some 0 else pointOfTick c pt ep).bind (fun k => (c.points[k]?).bind id) with
    | none => .error .dangling
    | some tab =>
      match tab[ct]? with
      | none => .error .dangling
      | some rows =>
        match rows.find? (fun r => r.1 == d && r.2.1 == v.id) with
        | some r => r.2.2
        | none => .error .dangling⟩

def valsOf (c : Case) (pt : List (Nat × Nat)) (ep : Nat) : Option (List (Option (List Int))) :=
  (if ep == 0 then some 0 else pointOfTick c pt ep).bind (c.vals[·]?)

/-! ### observables -/

def intsSexp (xs : List Int) : Sexp := .list (xs.map ofInt)

/-- What the outside sees of one evaluation / op, given the statistic values of the tick it ran in. -/
def obsSexp (vals : Option (List (Option (List Int)))) (post : Post) : Obs → Sexp
  | .none => .atom "N"
  | .bad => .atom "bad"
  | .mask (.error e) =>
    match post, e with
    | .plain, _ => .list [.atom "err", .atom (errAtom e)]
    | _, .incompatible => .list [.atom "err", .atom "incompatible"]
    | _, _ => .list [.atom "err", .atom "stat-error"]
  | .mask (.ok m) =>
    match post with
    | .plain => .list [.atom "ok", ofNats m.shape, bitsAtom m.bits]
    | .stat d =>
      match vals.bind (fun r => (r[d]?).bind id) with
      | some vs =>
        if vs.length != m.bits.length then .list [.atom "err", .atom "stat-error"]   -- mask does not fit the data
        else if (maskedVals vs m).isEmpty then .atom "nan" else .list [.atom "int", ofInt (maskedSum vs m)]
      | none => .atom "novals"
    | .hist d nb =>
      match vals.bind (fun r => (r[d]?).bind id) with
      | some vs =>
        if vs.length != m.bits.length then .list [.atom "err", .atom "stat-error"]
        else .list (.atom "cnt" :: (maskedHist vs nb m).map ofNat)
      | none => .atom "novals"

/-- Tick in which each primitive step runs. -/
def epochsOf : Nat → List FOp → List Nat
  | _, [] => []
  | ep, f :: rest =>
    ep :: epochsOf (match f.op with | .dataMut _ _ => ep + 1 | .change => ep + 1 | _ => ep) rest

def traceSexp (ph : List Phase) : Sexp :=
  tagged "tr" ((traceOf 0 ph).map fun e =>
    .list [ofNat e.1, .atom (match e.2 with | some m => msgAtom m | none => "END")])

/-- The observables of the history, op by op: one per primitive op; for a mutation `(m (tr …) (ev …))`. With
`withTrace = false` the trace is left out (the Spec says nothing about it). -/
def obsList (c : Case) (pt : List (Nat × Nat)) (withTrace : Bool) (obs : List Obs) : List Sexp :=
  let flats := c.ops.map (flatOf c)
  let eps := epochsOf 0 flats.flatten
  let rec go : List POp → List (List FOp) → Nat → List Sexp
    | [], _, _ => []
    | _, [], _ => []
    | pop :: pr, fl :: fr, off =>
      let one (i : Nat) (f : FOp) : Sexp :=
        match obs[off + i]?, eps[off + i]? with
        | some o, some ep => obsSexp (valsOf c pt ep) f.post o
        | _, _ => .atom "N"
      let here :=
        match pop with
        | .op _ _ => (match fl with | f :: _ => one 0 f | [] => .atom "N")
        | .mutate ph =>
          let evs := ((List.range fl.length).zip fl).filterMap fun (i, f) => if f.vis == 2 then some (one i f) else none
          .list ([.atom "m"] ++ (if withTrace then [traceSexp ph] else []) ++ [tagged "ev" evs])
      here :: go pr fr (off + fl.length)
  go c.ops flats 0

/-- python's observation with the trace of every mutation removed. -/
def stripTrace : Sexp → Sexp
  | .list [.atom "m", .list (.atom "tr" :: _), ev] => .list [.atom "m", ev]
  | e => e

def strLe (a b : String) : Bool := a < b || a == b

def memoSexp (h : Heap) : List Sexp :=
  let entries := h.memo.map fun x =>
    let m := (h.arrays[x.arr]?).getD ⟨[], []⟩
    Sexp.list [.atom (tableAtom x.key.table), ofNat x.key.data, ofNat x.key.view.id, .atom (formAtom x.key.form),
      ofNats m.shape, bitsAtom m.bits]
  let keyed := entries.map fun e => (Sexp.toString e, e)
  (keyed.mergeSort (fun a b => strLe a.1 b.1)).map (·.2)

def outSexp (obs : List Sexp) (memo : List Sexp) : Sexp :=
  .list [tagged "obs" obs, tagged "memo" memo]

def sexpListEq (a b : List Sexp) : Bool :=
  a.length == b.length && (a.zip b).all fun p => p.1 == p.2

def stepHist (cs pyout : Sexp) : String :=
  match parseCase cs with
  | none => bad "hist-case"
  | some c =>
    let pt := (0, 0) :: pointTicks 0 1 c.ops
    let w := worldOf c pt
    let prog := expand (listenersOf c) (lopsOf c)
    let ri := C05Cache.Impl.run classTable repairedPolicy w {} prog
    let rs := C05Cache.Spec.run classTable w {} prog
    let implObs := obsList c pt true (ri.2.map (·.obs))
    let specObs := obsList c pt false rs.2
    let consistent := ticksConsistent c pt
    let impl := outSexp (implObs ++ (if consistent then [] else [.atom "model-tick-env-mismatch"])) (memoSexp ri.1.s.h)
    let p := progClean classTable repairedPolicy w {} prog
    let ok := match pyout with
      | .list [.list (.atom "obs" :: po), .list (.atom "memo" :: _)] => sexpListEq (po.map stripTrace) specObs
      | _ => false
    let hit := !ri.1.s.h.memo.isEmpty
    let hasMut := prog.any fun o => match o with | .base _ => false | _ => true
    let reent := c.ops.any fun | .mutate _ => true | _ => false
    let lev := (c.ops.map (flatOf c)).flatten.any (·.vis == 2)
    let br := (if p then "clean" else "stale") ++ (if hit then "-memo" else "-nomemo") ++ (if hasMut then "-mut" else "") ++
      (if lev then "-listener" else if reent then "-phased" else "")
    driverResult impl ok (sexpListEq (obsList c pt false (ri.2.map (·.obs))) specObs) p br

/-! ### keyed caches -/

/-- One item of a cached value: a token or an **exact rational** (python sends every double as the integer /
`(q num den)` it is — `float.as_integer_ratio()` — so edges that differ by one ulp are different values here). -/
inductive VAtom where
  | tok (s : String)
  | num (q : Rat)
  deriving DecidableEq

def vatomOf? : Sexp → Option VAtom
  | .atom s => some (match s.toInt? with | some i => .num (i : Rat) | none => .tok s)
  | .list [.atom "q", n, d] => do
    let n ← n.toInt?
    let d ← d.toNat?
    if d == 0 then none else some (.num (mkRat n d))
  | _ => none

/-- A cached value: an atom (old-style canonical text, exception token) or a flat list of tokens / rationals. -/
def valueOf? : Sexp → Option (List VAtom)
  | .atom s => (vatomOf? (.atom s)).map ([·])
  | .list xs => xs.mapM vatomOf?

def vatomSexp : VAtom → Sexp
  | .tok s => .atom s
  | .num q => if q.den == 1 then ofInt q.num else .list [.atom "q", ofInt q.num, ofNat q.den]

def valueSexp (isAtom : Bool) (v : List VAtom) : Sexp :=
  match isAtom, v with
  | true, [a] => vatomSexp a
  | _, _ => .list (v.map vatomSexp)

def stepSlot (dict : Bool) (keys vals pyout : Sexp) : String :=
  match keys.toNats?, (vals.toList?).bind (·.mapM valueOf?) with
  | some ks, some vs =>
    if ks.length != vs.length then bad "slot-len" else
    let atomic := match vals.toList? with
      | some l => l.all fun | .atom _ => true | _ => false
      | none => true
    let inputs := ks.zip vs
    let key : Nat × List VAtom → Nat := fun i => i.1
    let f : Nat × List VAtom → List VAtom := fun i => i.2
    let outs := if dict then dictRun key f [] inputs else slotRun key f none inputs
    let want := inputs.map f
    let p := inputs.all fun i => inputs.all fun j => !(key i == key j) || decide (f i = f j)
    -- the Spec verdict: every answer python returned is, as a list of exact rationals, the one a freshly
    -- constructed object returns for the *current* inputs
    let ok := match (pyout.toList?).bind (·.mapM valueOf?) with
      | some po => decide (po = want)
      | none => false
    let reused := (List.range ks.length).any fun i =>
      match ks[i]? with
      | some k => (ks.take i).any (· == k)
      | none => false
    driverResult (.list (outs.map (valueSexp atomic))) ok (decide (outs = want)) p
      ((if dict then "dict" else "slot") ++ (if reused then "-hit" else "-miss") ++ (if p then "" else "-collide"))
  | _, _ => bad "slot-case"

def step (line : String) : String :=
  match Sexp.parse line with
  | some (.list [.atom "hist", cs, pyout]) => stepHist cs pyout
  | some (.list [.atom "slot", .list [keys, vals], pyout]) => stepSlot false keys vals pyout
  | some (.list [.atom "dict", .list [keys, vals], pyout]) => stepSlot true keys vals pyout
  | _ => bad "unknown-family"

def main : IO Unit := driverLoop step
