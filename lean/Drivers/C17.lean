import GlueVerif.Sexp
import GlueVerif.Model.DataStruct
/-!
Line-protocol driver for C17 (dataset structural consistency + announcements).

Case line: `(seq (POOL PROBE (ROP ...)) (OBS0 (ERR MSGS OBS) ...))`
* `POOL`  = labels of the free-standing ComponentIDs 0..k-1, `PROBE` = labels looked up after
  every call, `ROP` = calls with *positional* references (resolved against the observation before
  the call — by `resolve` here and by the same rules in `harness/props/c17.py`);
* the second part is what the real `Data` object showed: the initial observation and, per call,
  the exception (or `N`), the messages a catch-all listener received, the observation after it.

Answer: `impl` = the model's trace (identifiers renamed by first appearance, exactly like the
harness numbers Python objects), `ok` = `specTrace` on the *python* trace, `implok` = `specTrace` on
the model's trace (the theorems are unconditional, so it is always `T`), `p` = on every call the model
claims to follow the code (`classify = ok`: everything but hand-set externally derivable ids inside
a collection, which the harness turns into a no-op), `br` = what the history exercises, plus
`(construct c)` = classification of the first call at which the python trace violates the Spec
(`none` if it does not) and `(failstep i)`.
-/
open GlueVerif GlueVerif.Sexp GlueVerif.DataStruct

/-! ## positional calls -/

/-- Positional reference to a ComponentID: `comp k` = k-th current component (cyclically),
`pix` / `world` = k-th listed pixel / world id, `pool j` = free-standing id `j`,
`nonCoord k` = k-th component that is not a coordinate component, `main k` = k-th main component
(both fall back to pool id 3, which is never a component), `free j` = pool id `j` provided it is not
in use in the dataset (otherwise the call is skipped), `new` = a ComponentID object made for this
call (`ComponentID("new")`: no parent, never seen by the dataset; the same object wherever the call
mentions it). -/
inductive Ref where
  | comp (k : Nat) | pool (j : Nat) | pix (k : Nat) | world (k : Nat)
  | nonCoord (k : Nat) | main (k : Nat) | free (j : Nat) | new
  deriving Repr, Inhabited

inductive RShape where
  | same | bump | grow | shrink | explicit (sh : Shape)
  deriving Repr, Inhabited

inductive RCoords where
  | new | cur | none
  deriving Repr, Inhabited, BEq

inductive RReorder where
  | same | rev | rot | swap (i j : Nat) | short | dup | foreign | fresh
  deriving Repr, Inhabited

inductive ROp where
  | addArray (l : Label) (sh : RShape)
  | addArrayAt (r : Ref) (sh : RShape)
  | addDerived (viaLink : Bool) (l : Label) (deps : List Ref)
  | remove (r : Ref)
  | reorder (k : RReorder)
  | updateId (old new : Ref)
  | updateComponents (ts : List (Ref × RShape))
  | updateFrom (l : Label) (comps : List Label) (sh : RShape) (coords : RCoords)
  | setCoords (c : RCoords)
  | rename (r : Ref) (l : Label)
  | setLabel (l : Label)
  | attach | detach | register
  | setLinked (js : List Nat)
  deriving Repr, Inhabited

def ROp.tag : ROp → String
  | .addArray .. => "add" | .addArrayAt .. => "addAt" | .addDerived .. => "addDerived"
  | .remove .. => "remove" | .reorder .. => "reorder" | .updateId .. => "updateId"
  | .updateComponents .. => "updateComponents" | .updateFrom .. => "updateFrom"
  | .setCoords .. => "setCoords" | .rename .. => "rename" | .setLabel .. => "setLabel"
  | .attach => "attach" | .detach => "detach" | .register => "register" | .setLinked .. => "setLinked"

def nth (xs : List Cid) (k : Nat) : Cid := if xs.isEmpty then 0 else xs[k % xs.length]!

def nthOr (xs : List Cid) (k : Nat) (dflt : Cid) : Cid := if xs.isEmpty then dflt else xs[k % xs.length]!

def resolveRef? (o : Obs) (fresh : Cid) : Ref → Option Cid
  | .new => some fresh
  | .comp k => some (nth (ocids o) k)
  | .pool j => some j
  | .pix k => some (nth o.pix k)
  | .world k => some (nth o.world k)
  | .nonCoord k => some (nthOr ((o.comps.filter (fun c => !c.kind.isCoord)).map (·.cid)) k 3)
  | .main k => some (nthOr ((o.comps.filter (fun c => c.kind.isMain)).map (·.cid)) k 3)
  | .free j => if (ocids o).contains j || o.pix.contains j || o.world.contains j then none else some j

def resolveRef (o : Obs) (fresh : Cid) (r : Ref) : Cid := (resolveRef? o fresh r).getD 3

def bumpLast : Shape → Shape
  | [] => [4]
  | [x] => [x + 1]
  | x :: xs => x :: bumpLast xs

def resolveShape (cur : Shape) : RShape → Shape
  | .same => if cur.isEmpty then [3] else cur
  | .bump => bumpLast cur
  | .grow => if cur.isEmpty then [2, 2] else cur ++ [2]
  | .shrink => if cur.length ≥ 2 then cur.dropLast else cur ++ [2]
  | .explicit sh => sh

/-- Shape of an array handed to `add_component`: while the dataset is still empty but already has a
coordinates object (created 1-dimensional by the harness), only 1-d arrays are offered. -/
def addShape (o : Obs) (r : RShape) : Shape :=
  let sh := resolveShape o.shape r
  if o.shape.isEmpty && o.coords.isSome && sh.length != 1 then [3] else sh

def dedupKeys (m : List (Cid × Shape × Nat)) : List (Cid × Shape × Nat) :=
  m.foldl (fun acc e => if acc.any (·.1 == e.1) then acc else acc ++ [e]) []

/-- Positional call → concrete call, against the observation before it. `tag` = index of the call
(value tags and coordinate-object tokens are derived from it), `fresh` = the identity a ComponentID
made for this call has (model: `next`; python trace: the number the harness gives the next object it
has not seen). -/
def resolve (o : Obs) (fresh : Cid) (tag : Nat) : ROp → Op
  | .addArray l sh => .addArray l (addShape o sh) (10 * tag)
  | .addArrayAt r sh =>
    match resolveRef? o fresh r with
    | some c => .addArrayAt c (addShape o sh) (10 * tag)
    | none => .nop
  | .addDerived v l deps => .addDerived v l (deps.map (resolveRef o fresh))
  | .remove r => .remove (resolveRef o fresh r)
  | .reorder k =>
    let cur := ocids o
    .reorder (match k with
      | .same => cur
      | .rev => cur.reverse
      | .rot => cur.drop 1 ++ cur.take 1
      | .swap i j =>
        if cur.isEmpty then [] else
        let a := i % cur.length
        let b := j % cur.length
        (List.range cur.length).map fun t => if t == a then cur[b]! else if t == b then cur[a]! else cur[t]!
      | .short => cur.dropLast
      | .dup => if cur.isEmpty then [] else cur.dropLast ++ [cur[0]!]
      | .foreign => cur.dropLast ++ [3]
      | .fresh => cur.dropLast ++ [fresh])
  | .updateId old new =>
    match resolveRef? o fresh new with
    | some nc => .updateId (resolveRef o fresh old) nc
    | none => .nop
  | .updateComponents ts =>
    .updateComponents (dedupKeys ((List.zipIdx ts).map fun p => (resolveRef o fresh p.1.1, resolveShape o.shape p.1.2, 10 * tag + p.2)))
  | .updateFrom l comps sh coords =>
    let shape := if comps.isEmpty then [] else resolveShape o.shape sh
    let c : Option Nat := match coords with
      | .none => none
      | .new => if shape.isEmpty then none else some (1000 + tag)
      | .cur => if shape.isEmpty then none
                else if o.coords.isSome && shape.length == o.shape.length then o.coords else some (1000 + tag)
    .updateFrom ⟨l, (List.zipIdx comps).map (fun p => (p.1, 10 * tag + p.2)), shape, c⟩
  | .setCoords c => .setCoords (match c with | .none => none | .new => some (1000 + tag) | .cur => o.coords)
  | .rename r l => .rename (resolveRef o fresh r) l
  | .setLabel l => .setLabel l
  | .attach => .attach
  | .detach => .detach
  | .register => .register
  | .setLinked js => if o.inDc then .nop else .setLinked js

/-! ## S-expression codecs -/

def refOf? : Sexp → Option Ref
  | .list [.atom "c", k] => k.toNat?.map .comp
  | .list [.atom "o", k] => k.toNat?.map .pool
  | .list [.atom "p", k] => k.toNat?.map .pix
  | .list [.atom "w", k] => k.toNat?.map .world
  | .list [.atom "m", k] => k.toNat?.map .nonCoord
  | .list [.atom "n", k] => k.toNat?.map .main
  | .list [.atom "f", k] => k.toNat?.map .free
  | .list [.atom "x", _] => some .new
  | _ => none

def rshapeOf? : Sexp → Option RShape
  | .atom "same" => some .same
  | .atom "bump" => some .bump
  | .atom "grow" => some .grow
  | .atom "shrink" => some .shrink
  | e => e.toNats?.map .explicit

def rcoordsOf? : Sexp → Option RCoords
  | .atom "new" => some .new
  | .atom "cur" => some .cur
  | .atom "none" => some .none
  | _ => none

def ropOf? : Sexp → Option ROp
  | .list [.atom "add", l, sh] => do some (.addArray (← l.toNat?) (← rshapeOf? sh))
  | .list [.atom "addAt", r, sh] => do some (.addArrayAt (← refOf? r) (← rshapeOf? sh))
  | .list [.atom "addDerived", v, l, .list deps] => do
    some (.addDerived (← v.toBool?) (← l.toNat?) (← deps.mapM refOf?))
  | .list [.atom "remove", r] => do some (.remove (← refOf? r))
  | .list [.atom "reorder", .atom "same"] => some (.reorder .same)
  | .list [.atom "reorder", .atom "rev"] => some (.reorder .rev)
  | .list [.atom "reorder", .atom "rot"] => some (.reorder .rot)
  | .list [.atom "reorder", .atom "short"] => some (.reorder .short)
  | .list [.atom "reorder", .atom "dup"] => some (.reorder .dup)
  | .list [.atom "reorder", .atom "foreign"] => some (.reorder .foreign)
  | .list [.atom "reorder", .atom "fresh"] => some (.reorder .fresh)
  | .list [.atom "reorder", .list [.atom "swap", i, j]] => do some (.reorder (.swap (← i.toNat?) (← j.toNat?)))
  | .list [.atom "updateId", a, b] => do some (.updateId (← refOf? a) (← refOf? b))
  | .list [.atom "updateComponents", .list ts] => do
    some (.updateComponents (← ts.mapM fun t => match t with
      | .list [r, sh] => do some ((← refOf? r), (← rshapeOf? sh))
      | _ => none))
  | .list [.atom "updateFrom", l, comps, sh, c] => do
    some (.updateFrom (← l.toNat?) (← comps.toNats?) (← rshapeOf? sh) (← rcoordsOf? c))
  | .list [.atom "setCoords", c] => do some (.setCoords (← rcoordsOf? c))
  | .list [.atom "rename", r, l] => do some (.rename (← refOf? r) (← l.toNat?))
  | .list [.atom "setLabel", l] => do some (.setLabel (← l.toNat?))
  | .atom "attach" => some .attach
  | .atom "detach" => some .detach
  | .atom "register" => some .register
  | .list [.atom "setLinked", js] => do some (.setLinked (← js.toNats?))
  | _ => none

def kindToSexp : Kind → Sexp
  | .main => .atom "m"
  | .derived deps => .list (.atom "d" :: deps.map ofNat)
  | .pixel a => .list [.atom "p", ofNat a]
  | .world a => .list [.atom "w", ofNat a]

def kindOf? : Sexp → Option Kind
  | .atom "m" => some .main
  | .list (.atom "d" :: deps) => (deps.mapM toNat?).map .derived
  | .list [.atom "p", a] => a.toNat?.map .pixel
  | .list [.atom "w", a] => a.toNat?.map .world
  | _ => none

def optNatToSexp : Option Nat → Sexp
  | none => .atom "N"
  | some n => ofNat n

def optNatOf? : Sexp → Option (Option Nat)
  | .atom "N" => some none
  | e => e.toNat?.map some

def obsToSexp (o : Obs) : Sexp :=
  .list [
    .list (o.comps.map fun c => .list [ofNat c.cid, ofNat c.label, kindToSexp c.kind, ofNats c.shape, ofNat c.val]),
    ofNats o.shape, ofNats o.pix, ofNats o.world, optNatToSexp o.coords, ofNat o.nlinks, ofNat o.dlabel,
    ofBool o.hub, ofBool o.inDc,
    .list (o.linked.map fun p => .list [ofNat p.1, ofNat p.2]),
    .list (o.finds.map fun p => .list [ofNat p.1, optNatToSexp p.2]) ]

def obsOf? : Sexp → Option Obs
  | .list [.list comps, shape, pix, world, coords, nlinks, dlabel, hub, dc, .list linked, .list finds] => do
    let cs ← comps.mapM fun c => match c with
      | .list [cid, l, k, sh, v] => do
        some (⟨← cid.toNat?, ← l.toNat?, ← kindOf? k, ← sh.toNats?, ← v.toNat?⟩ : OComp)
      | _ => none
    let lk ← linked.mapM fun p => match p with
      | .list [c, l] => do some ((← c.toNat?), (← l.toNat?))
      | _ => none
    let fs ← finds.mapM fun p => match p with
      | .list [l, r] => do some ((← l.toNat?), (← optNatOf? r))
      | _ => none
    some { comps := cs, shape := ← shape.toNats?, pix := ← pix.toNats?, world := ← world.toNats?,
           coords := ← optNatOf? coords, nlinks := ← nlinks.toNat?, dlabel := ← dlabel.toNat?,
           hub := ← hub.toBool?, inDc := ← dc.toBool?, linked := lk, finds := fs }
  | _ => none

def msgToSexp : Msg → Sexp
  | .add c => .list [.atom "add", ofNat c]
  | .remove c => .list [.atom "rm", ofNat c]
  | .changed => .atom "cc"
  | .replaced o n => .list [.atom "repl", ofNat o, ofNat n]
  | .reorder cs => .list (.atom "reord" :: cs.map ofNat)
  | .rename c => .list [.atom "ren", ofNat c]
  | .update => .atom "upd"
  | .numerical none => .atom "numall"
  | .numerical (some cs) => .list (.atom "num" :: cs.map ofNat)
  | .ext => .atom "ext"

def msgOf? : Sexp → Option Msg
  | .list [.atom "add", c] => c.toNat?.map .add
  | .list [.atom "rm", c] => c.toNat?.map .remove
  | .atom "cc" => some .changed
  | .list [.atom "repl", o, n] => do some (.replaced (← o.toNat?) (← n.toNat?))
  | .list (.atom "reord" :: cs) => (cs.mapM toNat?).map .reorder
  | .list [.atom "ren", c] => c.toNat?.map .rename
  | .atom "upd" => some .update
  | .atom "numall" => some (.numerical none)
  | .list (.atom "num" :: cs) => (cs.mapM toNat?).map (fun l => .numerical (some l))
  | .atom "ext" => some .ext
  | _ => none

def errToSexp : Option Err → Sexp
  | none => .atom "N"
  | some .value => .atom "value"
  | some .type => .atom "type"
  | some .incompatible => .atom "incompatible"

def errOf? : Sexp → Option (Option Err)
  | .atom "N" => some none
  | .atom "value" => some (some .value)
  | .atom "type" => some (some .type)
  | .atom "incompatible" => some (some .incompatible)
  | _ => none

/-! ## renaming identifiers by first appearance (as the harness numbers Python objects) -/

structure Ren where
  map : List (Cid × Nat)
  next : Nat

def Ren.get (r : Ren) (c : Cid) : Ren × Nat :=
  match r.map.lookup c with
  | some n => (r, n)
  | none => ({ map := (c, r.next) :: r.map, next := r.next + 1 }, r.next)

def Ren.gets (r : Ren) (cs : List Cid) : Ren × List Nat :=
  cs.foldl (fun acc c => let (r', n) := acc.1.get c; (r', acc.2 ++ [n])) (r, [])

def renMsg (r : Ren) : Msg → Ren × Msg
  | .add c => let (r, n) := r.get c; (r, .add n)
  | .remove c => let (r, n) := r.get c; (r, .remove n)
  | .replaced o n => let (r, a) := r.get o; let (r, b) := r.get n; (r, .replaced a b)
  | .reorder cs => let (r, ns) := r.gets cs; (r, .reorder ns)
  | .rename c => let (r, n) := r.get c; (r, .rename n)
  | .numerical (some cs) => let (r, ns) := r.gets cs; (r, .numerical (some ns))
  | m => (r, m)

def renKind (r : Ren) : Kind → Ren × Kind
  | .derived deps => let (r, ns) := r.gets deps; (r, .derived ns)
  | k => (r, k)

def renObs (r : Ren) (o : Obs) : Ren × Obs :=
  let (r, comps) := o.comps.foldl (fun (acc : Ren × List OComp) c =>
    let (r1, n) := acc.1.get c.cid
    let (r2, k) := renKind r1 c.kind
    (r2, acc.2 ++ [{ c with cid := n, kind := k }])) (r, [])
  let (r, pix) := r.gets o.pix
  let (r, world) := r.gets o.world
  let (r, lk) := o.linked.foldl (fun (acc : Ren × List (Cid × Label)) p =>
    let (r1, n) := acc.1.get p.1
    (r1, acc.2 ++ [(n, p.2)])) (r, [])
  let (r, fs) := o.finds.foldl (fun (acc : Ren × List (Label × Option Cid)) p =>
    match p.2 with
    | none => (acc.1, acc.2 ++ [(p.1, none)])
    | some c => let (r1, n) := acc.1.get c; (r1, acc.2 ++ [(p.1, some n)])) (r, [])
  (r, { o with comps := comps, pix := pix, world := world, linked := lk, finds := fs })

def renMsgs (r : Ren) (ms : List Msg) : Ren × List Msg :=
  ms.foldl (fun acc m => let (r', m') := renMsg acc.1 m; (r', acc.2 ++ [m'])) (r, [])

/-! ## running a case -/

structure MStep where
  op : Op
  construct : Construct
  out : Out
  note : String     -- which of the formerly excluded constructs the call exercises ("" = none)

/-- The constructs that used to lie outside the theorems (evidence: distribution of `br`). -/
def noteOf (s : State) (op : Op) : String :=
  if op.ids.any (· ≥ s.next) then "fresh-id"
  else match op with
  | .addArray _ sh _ => if sh.isEmpty || (s.shape.isEmpty && !s.comps.isEmpty) then "scalar" else ""
  | .addArrayAt _ sh _ => if sh.isEmpty || (s.shape.isEmpty && !s.comps.isEmpty) then "scalar" else ""
  | .updateFrom o => if (o.shape.isEmpty && !o.comps.isEmpty) || (s.shape.isEmpty && !s.comps.isEmpty) then "scalar" else ""
  | .updateComponents m =>
    if m.any (fun e => s.comps.any (fun x => x.cid == e.1 && !x.kind.isMain) || (s.linked.contains e.1 && !(cids s.comps).contains e.1))
    then "update-non-main" else if s.shape.isEmpty && !s.comps.isEmpty then "scalar" else ""
  | .rename c _ => if (cids s.comps).contains c then "" else "rename-non-component"
  | .updateId o n =>
    if n != o && s.comps.any (fun x => x.kind.dependsOn o || (x.cid == o && x.kind.isDerived)) then "update-id-dependents" else ""
  | _ => ""

/-- The model's run of the positional calls. -/
def runModel (probe : List Label) : State → Nat → List ROp → List MStep
  | _, _, [] => []
  | s, i, r :: rs =>
    let op := resolve (obs probe s) s.next i r
    let out := step s op
    ⟨op, classify s op, out, noteOf s op⟩ :: runModel probe out.state (i + 1) rs

def stepToSexp (e : Option Err) (ms : List Msg) (o : Obs) : Sexp :=
  .list [errToSexp e, .list (ms.map msgToSexp), obsToSexp o]

def modelTrace (probe : List Label) (npool : Nat) (s0 : State) (steps : List MStep) : Sexp :=
  let r0 : Ren := { map := (List.range npool).map (fun i => (i, i)), next := npool }
  let (r1, o0) := renObs r0 (obs probe s0)
  let (_, out) := steps.foldl (fun (acc : Ren × List Sexp) st =>
    let (ra, ms) := renMsgs acc.1 st.out.msgs
    let (rb, o) := renObs ra (obs probe st.out.state)
    (rb, acc.2 ++ [stepToSexp st.out.err ms o])) (r1, [])
  .list (obsToSexp o0 :: out)

/-- Every identifier an observation / a message mentions (the harness numbers Python objects densely
by first appearance, so one more than the largest number seen is the number of the next new object). -/
def obsIds (o : Obs) : List Cid :=
  o.comps.flatMap (fun c => c.cid :: (match c.kind with | .derived deps => deps | _ => []))
    ++ o.pix ++ o.world ++ o.linked.map (·.1) ++ o.finds.filterMap (·.2)

def msgIds : Msg → List Cid
  | .add c => [c] | .remove c => [c] | .replaced o n => [o, n] | .reorder cs => cs | .rename c => [c]
  | .numerical (some cs) => cs | _ => []

/-- Python trace → `Step`s, resolving each positional call against the python observation before it.
Returns `none` if anything does not parse (an unknown message / exception is not in the Spec's
vocabulary and is rejected). -/
def pySteps (o0 : Obs) (hi : Nat) : Nat → List ROp → List Sexp → Option (List Step)
  | _, [], [] => some []
  | i, r :: rs, .list [e, .list ms, ob] :: es => do
    let err ← errOf? e
    let msgs ← ms.mapM msgOf?
    let post ← obsOf? ob
    let hi' := max hi (max (idBound (msgs.flatMap msgIds)) (idBound (obsIds post)))
    let rest ← pySteps post hi' (i + 1) rs es
    some (⟨resolve o0 hi i r, post, msgs, err⟩ :: rest)
  | _, _, _ => none

/-- Index of the first call at which the trace violates the Spec (`none` = the trace is fine;
index = number of calls when only the final invariant fails cannot happen: the invariant after a
call is charged to that call). -/
def firstFail (o0 : Obs) : Nat → List Step → Option Nat
  | _, [] => none
  | i, st :: rest =>
    if specStep o0 st.op st.post st.msgs st.err && specInv st.post then firstFail st.post (i + 1) rest
    else some i

def stepSeq (line : Sexp) : String :=
  match line with
  | .list [.atom "seq", .list [pool, probe, .list rops], .list (py0 :: pysteps)] =>
    match pool.toNats?, probe.toNats?, rops.mapM ropOf? with
    | some poolLabels, some probeLabels, some ops =>
      let s0 := init poolLabels
      let steps := runModel probeLabels s0 0 ops
      let impl := modelTrace probeLabels poolLabels.length s0 steps
      let msteps : List Step := steps.map fun st => ⟨st.op, obs probeLabels st.out.state, st.out.msgs, st.out.err⟩
      let implok := specTrace (obs probeLabels s0) msteps
      let p := steps.all fun st => st.construct == .ok
      let (ok, construct, failstep) : Bool × String × String :=
        match obsOf? py0 with
        | none => (false, "unparsed", "init")
        | some o0 =>
          match pySteps o0 (max poolLabels.length (idBound (obsIds o0))) 0 ops pysteps with
          | none => (false, "unparsed", "parse")
          | some psteps =>
            if !specInv o0 then (false, "ok", "init") else
            match firstFail o0 0 psteps with
            | none => (true, "none", "none")
            | some i =>
              (false, (steps[i]?.map (·.construct.name)).getD "none", toString i)
      let firstBad := (steps.find? (fun st => st.construct != .ok)).map (·.construct.name)
      let note := ((steps.find? (fun st => st.note != "")).map (·.note)).getD ""
      let br := firstBad.getD (if note != "" then note else if steps.any (fun st => st.out.err.isSome) then "ok-with-errors" else "ok")
      Sexp.toString (Sexp.list [.atom "r", .list [.atom "impl", impl], .list [.atom "ok", Sexp.ofBool ok],
        .list [.atom "implok", Sexp.ofBool implok], .list [.atom "p", Sexp.ofBool p],
        .list [.atom "br", .atom br], .list [.atom "construct", .atom construct],
        .list [.atom "failstep", .atom failstep]])
    | _, _, _ => driverError "seq-args"
  | _ => driverError "unknown-family"

def step' (line : String) : String :=
  match Sexp.parse line with
  | some e => stepSeq e
  | none => driverError "parse"

def main : IO Unit := driverLoop step'
