import GlueVerif.Sexp
import GlueVerif.Model.ArrayUtil
import GlueVerif.Model.ArrayLayout
/-! Line-protocol driver for C20 (chunk / slice / broadcast helpers). -/
open GlueVerif GlueVerif.Sexp GlueVerif.ArrayUtil

def res (impl : Sexp) (ok implok : Bool) (br : String) : String := driverResult impl ok implok true br
def bad (msg : String) : String := driverError msg

def chunkToSexp (c : Chunk) : Sexp := .list (c.map fun p => .list [ofNat p.1, ofNat p.2])
def chunksToSexp (cs : List Chunk) : Sexp := .list (cs.map chunkToSexp)

def sexpToChunk? (e : Sexp) : Option Chunk := do
  let xs ← e.toList?
  xs.mapM fun x => do
    match ← x.toNats? with
    | [a, b] => some (a, b)
    | _ => none

def sexpToChunks? (e : Sexp) : Option (List Chunk) := do
  let xs ← e.toList?
  xs.mapM sexpToChunk?

def optNats? : Sexp → Option (Option (List Nat))
  | .atom "N" => some none
  | e => e.toNats?.map some

def optNat? : Sexp → Option (Option Nat)
  | .atom "N" => some none
  | e => e.toNat?.map some

def triple? (e : Sexp) : Option (Option Int × Option Int × Option Int) := do
  match ← e.toList? with
  | [a, b, c] => some (← a.toOptInt?, ← b.toOptInt?, ← c.toOptInt?)
  | _ => none

def viewItem? : Sexp → Option ViewItem
  | .list [.atom "i", n] => n.toInt?.map .int
  | .list [.atom "s", a, b, c] => do some (.slice (← a.toOptInt?) (← b.toOptInt?) (← c.toOptInt?))
  | _ => none

/-! ## Round 3: family `lay` — every array helper under every memory layout -/

def layout? : Sexp → Option Layout
  | .list [o, perm, step, rev, bc, sw, ro] => do
    let f ← match o with | .atom "C" => some false | .atom "F" => some true | _ => none
    some ⟨f, ← perm.toNats?, ← step.toNats?, ← rev.toBools?, ← bc.toBools?, ← sw.toBool?, ← ro.toBool?⟩
  | _ => none

def layoutClass (l : Layout) : String :=
  let permuted := l.perm != List.range l.perm.length
  let stepped := l.step.any (· != 0)
  if l.bcast.any id then "bcast"
  else if permuted && stepped then "perm-step"
  else if permuted && l.rev.any id then "perm-rev"
  else if permuted then "perm"
  else if stepped then "step"
  else if l.rev.any id then "rev"
  else if l.swapped then "swapped"
  else if l.fortran then "fortran"
  else if l.readonly then "readonly"
  else "plain"

def optNatsE (cs : List (Option Nat)) : Sexp :=
  .list (cs.map fun c => match c with | some k => ofNat k | none => .atom "N")
def optIntsE (cs : List (Option Int)) : Sexp :=
  .list (cs.map fun c => match c with | some k => ofInt k | none => .atom "N")
def parseOptNats (e : Sexp) : Option (List (Option Nat)) :=
  e.toList?.bind (·.mapM fun x => match x with
    | .atom "N" => some none
    | y => y.toNat?.map some)
def parseOptInts (e : Sexp) : Option (List (Option Int)) :=
  e.toList?.bind (·.mapM fun x => x.toOptInt?)
def ndArr? (sh vs : Sexp) : Option NdArr := do some ⟨← sh.toNats?, ← vs.toInts?⟩
def ndArrE (a : NdArr) : Sexp := .list [ofNats a.shape, ofInts a.vals]

/-- `expand` (block recursion, what the theorems are about) agrees with the index-wise definition of
broadcasting on this case. -/
def expandAgrees (ushape shape : List Nat) (u : List Int) : Bool :=
  (expand ushape shape u).map some == expandByIndex ushape shape u

def stepLay (helper : String) (l : Layout) (a : NdArr) (vs extra pyout : Sexp) : String :=
  let nd := a.shape.length
  let inP := a.wf && l.perm.length ≤ nd && l.step.length ≤ nd && l.rev.length ≤ nd &&
    l.bcast.length ≤ nd && constAlong l.bcast a.shape a.vals
  let br := helper ++ "-" ++ layoutClass l
  let out (impl : Sexp) (ok implok : Bool) : String :=
    driverResult (.list [vs, impl]) ok implok inP br
  match helper with
  | "uniq" =>
    let m := uniqueNd l a
    let ok := match pyout with
      | .list [pc, ps, pk] =>
        match pc.toInts?, ps.toNats?, pk.toNats? with
        | some c, some s, some k => specUniqueNd a (c, s, k)
        | _, _, _ => false
      | _ => false
    out (.list [ofInts m.1, ofNats m.2.1, ofNats m.2.2]) ok (specUniqueNd a m)
  | "cat" =>
    -- the categorical array itself must hold the logical values; then categories / codes
    let m := uniqueNd l a
    let ok := match pyout with
      | .list [pv, pc, ps, pk] =>
        match pv.toInts?, pc.toInts?, ps.toNats?, pk.toNats? with
        | some v, some c, some s, some k => v == a.vals && specUniqueNd a (c, s, k)
        | _, _, _, _ => false
      | _ => false
    out (.list [ofInts a.vals, ofInts m.1, ofNats m.2.1, ofNats m.2.2]) ok (specUniqueNd a m)
  | "der" =>
    match extra with
    | .list (pv :: _) =>
      match pv.toInts? with
      | some parent =>
        let m := derivedNd l parent a
        let ok := match pyout with
          | .list [pc, ps, pk] =>
            match pc.toInts?, ps.toNats?, parseOptNats pk with
            | some c, some s, some k => specDerivedNd a (c, s, k)
            | _, _, _ => false
          | _ => false
        out (.list [ofInts m.1, ofNats m.2.1, optNatsE m.2.2]) ok
          (specDerivedNd a m == a.vals.all (fun x => parent.contains x))
      | none => bad "lay-der-parent"
    | _ => bad "lay-der-extra"
  | "look" =>
    match extra.toInts? with
    | some items =>
      let m := lookupNd l items a
      let ok := match pyout with
        | .list [ps, pk] =>
          match ps.toNats?, parseOptNats pk with
          | some s, some k => specLookupNd items a (s, k)
          | _, _ => false
        | _ => false
      out (.list [ofNats m.1, optNatsE m.2]) ok (specLookupNd items a m)
    | none => bad "lay-look-items"
  | "unb" =>
    let u := unbroadcastNd l a
    let ok := match pyout with
      | .list [us, uv] =>
        match ndArr? us uv with
        | some pu => specUnbNd a pu
        | none => false
      | _ => false
    out (ndArrE u) ok (specUnbNd a u && expandAgrees u.shape a.shape u.vals)
  | "bam" =>
    match extra with
    | .list [bs, bv] =>
      match ndArr? bs bv with
      | some b =>
        -- hypothesis of the Spec: the LOGICAL arrays are numpy-broadcastable.  Outside it (an axis that is
        -- only compatible because it is a stride-0 axis) the documented behaviour "broadcast the
        -- unbroadcast arrays" is all there is to compare with: p = F, verdict = agreement with the model.
        let compatible := (broadcastArraysNd a b).isSome
        let outP (impl : Sexp) (ok implok : Bool) : String :=
          driverResult (.list [vs, impl]) ok implok (inP && compatible) br
        match bamNd l a b with
        | none => outP (.atom "value-error") (pyout == .atom "value-error") true
        | some (ra, rb) =>
          let z := bamZeroStride l a ra.shape
          let n := ra.shape.length
          let ok := match pyout with
            | .list [.list [s1, v1], .list [s2, v2], _] =>
              match ndArr? s1 v1, ndArr? s2 v2 with
              | some p1, some p2 =>
                if compatible then specBamNd a b p1 p2 else decide (p1 = ra) && decide (p2 = rb)
              | _, _ => false
            | _ => false
          let ua := unbroadcastNd l a
          outP (.list [ndArrE ra, ndArrE rb, ofBools z]) ok
            ((specBamNd a b ra rb || !compatible) && expandAgrees (padShape n ua.shape) ra.shape ua.vals &&
              expandAgrees (padShape n b.shape) rb.shape b.vals)
      | none => bad "lay-bam-b"
    | _ => bad "lay-bam-extra"
  | "sorted" =>
    let m := sortedNd l a
    out (ofBool m) (pyout == ofBool m) true
  | "coerce" =>
    let m := coerceNd l a
    let ok := match pyout with
      | .list [ps, pk] =>
        match ps.toNats?, parseOptInts pk with
        | some s, some k => s == m.1 && k == m.2
        | _, _ => false
      | _ => false
    out (.list [ofNats m.1, optIntsE m.2]) ok true
  | _ => bad "lay-helper"

def step (line : String) : String :=
  match Sexp.parse line with
  | some (.list [.atom "fcs", .list [shape, nmax], pyout]) =>
    match shape.toNats?, nmax.toNat? with
    | some sh, some n =>
      let impl := findChunkShape sh n
      let ok := match pyout.toNats? with | some o => specFcs sh n o | none => false
      res (ofNats impl) ok (specFcs sh n impl) (if impl == sh then "whole" else "split")
    | _, _ => bad "fcs-args"
  | some (.list [.atom "iter", .list [shape, cs, nmax], pyout]) =>
    match shape.toNats?, optNats? cs, optNat? nmax with
    | some sh, some cso, some no =>
      match iterateChunks sh cso no with
      | .error .valueError =>
        res (.atom "value-error") (pyout == .atom "value-error") true "value-error"
      | .ok chunks =>
        -- product form must agree with the literal loop (refinement checked on every case)
        let eff := match cso, no with
          | some c, _ => c
          | none, some n => findChunkShape sh n
          | none, none => sh
        let prodForm := if prod sh = 0 then [] else iterateChunksProd sh eff
        let same := prodForm == chunks
        let ok := match sexpToChunks? pyout with | some o => specIter sh cso no o | none => false
        res (chunksToSexp chunks) ok (specIter sh cso no chunks && same)
          (if sh.length = 0 then "scalar-0d" else if chunks.length ≤ 1 then "single"
           else if sh.length ≤ 1 then "multi-1d" else "multi-nd")
    | _, _, _ => bad "iter-args"
  | some (.list [.atom "comb", .list [len, s1, s2], pyout]) =>
    match len.toNat?, triple? s1, triple? s2 with
    | some n, some t1, some t2 =>
      match sliceIndices t1.1 t1.2.1 t1.2.2 n, sliceIndices t2.1 t2.2.1 t2.2.2 n with
      | some (b1, e1, st1), some (b2, e2, st2) =>
        if st1 < 0 ∨ st2 < 0 then
          res (.atom "value-error") (pyout == .atom "value-error") true "neg-step"
        else
          let out := combineNorm b1 e1 st1.toNat b2 e2 st2.toNat
          let ok := match pyout.toInts? with
            | some [a, b, c] => specCombine n t1 t2 (a, b, c)
            | _ => false
          res (ofInts [out.1, out.2.1, out.2.2]) ok (specCombine n t1 t2 out)
            (if out == (0, 0, 1) then "empty" else if out.2.2 == 1 then "step1" else "stepn")
      | _, _ => res (.atom "value-error") (pyout == .atom "value-error") true "zero-step"
    | _, _, _ => bad "comb-args"
  | some (.list [.atom "slidx", .list [len, t], _]) =>
    match len.toNat?, triple? t with
    | some n, some (a, b, c) =>
      match sliceIndices a b c n with
      | some (x, y, z) => res (ofInts [x, y, z]) true true (if z < 0 then "neg" else "pos")
      | none => res (.atom "value-error") true true "zero-step"
    | _, _ => bad "slidx-args"
  | some (.list [.atom "unb", .list [shape, strides], pyout]) =>
    match shape.toNats?, strides.toNats? with
    | some sh, some st =>
      let a : Strided := ⟨sh, st⟩
      let u := unbroadcast a
      let ok := match pyout with
        | .list [osh, ost, eq] =>
          match osh.toNats?, ost.toNats?, eq.toBool? with
          | some s', some t', some true => specUnbroadcast a ⟨s', t'⟩
          | _, _, _ => false
        | _ => false
      -- strides of length-1 axes are not observable (numpy normalises them): report 0
      let cst := (u.shape.zip u.strides).map fun p => if p.1 == 1 then 0 else p.2
      res (.list [ofNats u.shape, ofNats cst, ofBool true]) ok (specUnbroadcast a u)
        (if u.shape == sh then "nothing-removed" else "removed")
    | _, _ => bad "unb-args"
  | some (.list [.atom "vshape", .list [shape, view], pyout]) =>
    match shape.toNats?, view.toList?.bind (·.mapM viewItem?) with
    | some sh, some v =>
      match viewShape sh v with
      | none => res (.atom "index-error") (pyout == .atom "index-error") true "index-error"
      | some o =>
        -- python sends (predicted actual); the spec is predicted == actual
        let ok := match pyout with
          | .list [p, a] => p == a
          | _ => false
        res (.list [ofNats o, ofNats o]) ok true (if o.length < sh.length then "int-drop" else "slices")
    | _, _ => bad "vshape-args"
  | some (.list [.atom "uniq", xs, pyout]) =>
    match xs.toInts? with
    | some v =>
      let c := categories v
      let k := codes v
      let ok := match pyout with
        | .list [pc, pk] =>
          match pc.toInts?, pk.toNats? with
          | some pc', some pk' => specUnique v pc' pk'
          | _, _ => false
        | _ => false
      res (.list [ofInts c, ofNats k]) ok (specUnique v c k)
        (if c.length == v.length then "all-distinct" else "dups")
    | none => bad "uniq-args"
  | some (.list [.atom "catder", .list [pv, dv, _op], pyout]) =>
    -- derived categorical array: parent values, derived values (numpy did the derivation), and the
    -- implementation's (categories, codes) of the DERIVED array; codes are naturals or N (NaN)
    match pv.toInts?, dv.toInts? with
    | some pv', some dv' =>
      let cats := categories pv'
      let cds := lookupCodes cats dv'
      let optNatsE (cs : List (Option Nat)) : Sexp :=
        .list (cs.map fun c => match c with | some k => ofNat k | none => .atom "N")
      let parseCodes (e : Sexp) : Option (List (Option Nat)) :=
        e.toList?.bind (·.mapM fun x => match x with
          | .atom "N" => some none
          | y => y.toNat?.map some)
      let ok := match pyout with
        | .list [pc, pk] =>
          match pc.toInts?, parseCodes pk with
          | some pc', some pk' =>
            -- inherited categories: sorted, contain every derived value; codes point at the values
            strictSorted pc' && dv'.all (fun x => pc'.contains x) && specLookup pc' dv' pk'
              && pk'.all (·.isSome)
          | _, _ => false
        | _ => false
      res (.list [ofInts dv', ofInts cats, optNatsE cds]) ok
        (specLookup cats dv' cds && (dv'.all fun x => pv'.contains x) == cds.all (·.isSome))
        (if dv' == pv' then "same-order" else if dv'.length == pv'.length then "reordered" else "resized")
    | _, _ => bad "catder-args"
  | some (.list [.atom "lay", .list [.atom helper, lay, sh, vs, extra], pyout]) =>
    match layout? lay, ndArr? sh vs with
    | some l, some a => stepLay helper l a vs extra pyout
    | _, _ => bad "lay-args"
  | _ => bad "unknown-family"

def main : IO Unit := driverLoop step
