import GlueVerif.Sexp
import GlueVerif.Model.C04Views
/-! Line-protocol driver for C04 (views of attribute values and membership masks). -/
open GlueVerif GlueVerif.Sexp GlueVerif.ArrayUtil GlueVerif.C04
open GlueVerif.Coords (ViewErr Coord mkAffine)

def bad (msg : String) : String := driverError msg

/-! ### codecs -/

def ratToSexp (q : Rat) : Sexp :=
  if q.den == 1 then ofInt q.num else .list [.atom "q", ofInt q.num, ofNat q.den]

def sexpToRat? : Sexp → Option Rat
  | .list [.atom "q", a, b] => do
    let n ← a.toInt?
    let d ← b.toNat?
    if d == 0 then none else some ((n : Rat) / (d : Rat))
  | e => (e.toInt?).map fun (i : Int) => (i : Rat)

def sexpToRats? (e : Sexp) : Option (List Rat) := do (← e.toList?).mapM sexpToRat?
def ratsToSexp (qs : List Rat) : Sexp := .list (qs.map ratToSexp)

def viewItem? : Sexp → Option ViewItem
  | .list [.atom "i", n] => n.toInt?.map .int
  | .list [.atom "s", a, b, c] => do some (.slice (← a.toOptInt?) (← b.toOptInt?) (← c.toOptInt?))
  | _ => none

def aitem? : Sexp → Option AItem
  | .list [.atom "i", n] => n.toInt?.map .int
  | .list [.atom "r", xs] => xs.toInts?.map .arr
  | _ => none

/-- `N` | `E` | `(b item…)` | `(a (shape…) aitem…)` | `(m bits)`. -/
def view? : Sexp → Option View
  | .atom "N" => some .none
  | .atom "E" => some .ellipsis
  | .list (.atom "b" :: its) => do some (.basic (← its.mapM viewItem?))
  | .list (.atom "a" :: sh :: its) => do some (.arrays (← sh.toNats?) (← its.mapM aitem?))
  | .list [.atom "m", m] => do some (.mask (← m.toBools?))
  | _ => none

def viewKind : View → String
  | .none => "none"
  | .ellipsis => "ellipsis"
  | .basic items =>
    if items.all (fun it => match it with | .int _ => true | _ => false) then "ints"
    else if items.any (fun it => match it with | .int _ => true | _ => false) then "mixed"
    else "slices"
  | .arrays _ items => if items.any (fun it => match it with | .int _ => true | _ => false) then "arrays+int" else "arrays"
  | .mask _ => "mask"

def errAtom : ViewErr → Sexp
  | .indexError => .atom "index-error"
  | .domain => .atom "domain"

def ratArrToSexp : Except ViewErr (NArr Rat) → Sexp
  | .ok a => .list [ofNats a.shape, ratsToSexp a.data]
  | .error e => errAtom e

def boolArrToSexp : Except ViewErr (NArr Bool) → Sexp
  | .ok a => .list [ofNats a.shape, ofBools a.data]
  | .error e => errAtom e

/-- Selections: a loud failure of the implementation is reported by the harness as
`(py-exception IndexError|TypeError)`. -/
def boolArrToSexpExc : Except ViewErr (NArr Bool) → Sexp
  | .ok a => .list [ofNats a.shape, ofBools a.data]
  | .error .indexError => .list [.atom "py-exception", .atom "IndexError"]
  | .error .domain => .list [.atom "py-exception", .atom "TypeError"]

def sexpToRatArr? : Sexp → Option (NArr Rat)
  | .list [sh, vals] => do some ⟨← sh.toNats?, ← sexpToRats? vals⟩
  | _ => none

def sexpToBoolArr? : Sexp → Option (NArr Bool)
  | .list [sh, vals] => do some ⟨← sh.toNats?, ← vals.toBools?⟩
  | _ => none

def exEq {α : Type} [BEq α] (a b : Except ViewErr (NArr α)) : Bool :=
  match a, b with
  | .ok x, .ok y => x == y
  | .error x, .error y => x == y
  | _, _ => false

/-- python output (array or error atom) against a spec value. -/
def pyEq {α : Type} [BEq α] (dec : Sexp → Option (NArr α)) (py : Sexp) (spec : Except ViewErr (NArr α)) : Bool :=
  match spec with
  | .ok a => (dec py).map (· == a) |>.getD false
  | .error .indexError => py == .atom "index-error"
  | .error .domain => false

def coord? : Sexp → Option Coord
  | .list [.atom "id", n] => do some (.identity (← n.toNat?))
  | .list [.atom "aff", m] => do
    let rows ← (← m.toList?).mapM sexpToRats?
    match mkAffine rows with
    | .ok c => some c
    | .error _ => none
  | _ => none

def optNat? : Sexp → Option (Option Nat)
  | .atom "N" => some none
  | e => e.toNat?.map some

/-- index tuples of a reduced dataset / axis links of a second dataset: naturals and `N`. -/
def indices? (e : Sexp) : Option (List (Option Nat)) := do (← e.toList?).mapM optNat?

/-- attribute descriptions: `(pixelof (links…) k)` = pixel id `k` of a pixel-linked dataset, `(pixel ax)`, `(stored v…)`, `(lin a b inner)` = `a*x+b`,
`(add x y)`, `(mul x y)`, `(linked inner)`, `(world coord ax)`. -/
partial def attr? : Sexp → Option Attr
  | .list [.atom "pixel", ax] => ax.toNat?.map .pixel
  | .list [.atom "pixelof", links, k] => do some (.pixelOf (← indices? links) (← k.toNat?))
  | .list [.atom "stored", vals] => (sexpToRats? vals).map .stored
  | .list [.atom "lin", a, b, inner] => do
    let a' ← sexpToRat? a
    let b' ← sexpToRat? b
    some (.map (fun x => a' * x + b') (← attr? inner))
  | .list [.atom "add", x, y] => do some (.zip (· + ·) (← attr? x) (← attr? y))
  | .list [.atom "mul", x, y] => do some (.zip (· * ·) (← attr? x) (← attr? y))
  | .list [.atom "linked", inner] => do some (.linked (← attr? inner))
  | .list [.atom "world", c, ax] => do some (.world (← coord? c) (← ax.toNat?))
  | _ => none

def cmpOp? : String → Option (Rat → Rat → Bool)
  | "gt" => some fun x y => decide (x > y)
  | "ge" => some fun x y => decide (x ≥ y)
  | "lt" => some fun x y => decide (x < y)
  | "le" => some fun x y => decide (x ≤ y)
  | "eq" => some fun x y => x == y
  | "ne" => some fun x y => x != y
  | _ => none

/-- elementwise tests: `(range lo hi)`, `(multirange (lo hi)…)`, `(cmp op c)`, `(isin c…)`. -/
def pred1? : Sexp → Option (Rat → Bool)
  | .list [.atom "range", lo, hi] => do
    let l ← sexpToRat? lo
    let h ← sexpToRat? hi
    some fun x => decide (x ≥ l) && decide (x ≤ h)
  | .list (.atom "multirange" :: prs) => do
    let ps ← prs.mapM fun p => match p with
      | .list [lo, hi] => do some ((← sexpToRat? lo), (← sexpToRat? hi))
      | _ => none
    some fun x => ps.any fun p => decide (x ≥ p.1) && decide (x ≤ p.2)
  | .list [.atom "cmp", .atom op, c] => do
    let f ← cmpOp? op
    let c' ← sexpToRat? c
    some fun x => f x c'
  | .list (.atom "isin" :: cs) => do
    let cs' ← cs.mapM sexpToRat?
    some fun x => cs'.contains x
  | _ => none

/-- `(cmp op)` between two attributes; `(rect xmin xmax ymin ymax)` = `RectangularROI.contains`
(strict inequalities). -/
def pred2? : Sexp → Option (Rat → Rat → Bool)
  | .list [.atom "cmp", .atom op] => cmpOp? op
  | .list [.atom "rect", a, b, c, d] => do
    let xmin ← sexpToRat? a
    let xmax ← sexpToRat? b
    let ymin ← sexpToRat? c
    let ymax ← sexpToRat? d
    some fun x y => decide (x > xmin) && decide (x < xmax) && decide (y > ymin) && decide (y < ymax)
  | _ => none

/-- `(box (lo hi)…)`: open box on the tuple of pixel coordinates. -/
def box? : Sexp → Option (List Nat → Bool)
  | .list (.atom "box" :: prs) => do
    let ps ← prs.mapM fun p => match p with
      | .list [lo, hi] => do some ((← sexpToRat? lo), (← sexpToRat? hi))
      | _ => none
    some fun xs => xs.length == ps.length &&
      (xs.zip ps).all fun q => decide (((q.1 : Nat) : Rat) > q.2.1) && decide (((q.1 : Nat) : Rat) < q.2.2)
  | _ => none

/-- `(boxq (lo hi)…)`: open box on a tuple of rationals (`RectangularROI`, a 1-d range, a
`Projected3dROI` with the identity projection). -/
def boxq? : Sexp → Option (List Rat → Bool)
  | .list (.atom "boxq" :: prs) => do
    let ps ← prs.mapM fun p => match p with
      | .list [lo, hi] => do some ((← sexpToRat? lo), (← sexpToRat? hi))
      | _ => none
    some fun xs => xs.length == ps.length &&
      (xs.zip ps).all fun q => decide (q.1 > q.2.1) && decide (q.1 < q.2.2)
  | _ => none

partial def state? (sh : List Nat) : Sexp → Option State
  | .list [.atom "base"] => some .base
  | .list [.atom "pred", a, p] => do some (.pred (← attr? a) (← pred1? p))
  | .list [.atom "pred2", a, b, p] => do some (.pred2 (← attr? a) (← attr? b) (← pred2? p))
  | .list [.atom "predn", as, p] => do some (.predN (← (← as.toList?).mapM attr?) (← boxq? p))
  | .list (.atom "sliceof" :: order :: its) => do some (.sliceOf (← order.toNats?) (← its.mapM viewItem?))
  | .list [.atom "maskof", links, ks, msh, bits] => do
    some (.maskOf (← indices? links) (← ks.toNats?) (← msh.toNats?) (← bits.toBools?))
  | .list [.atom "table", bits] => do
    let t ← bits.toBools?
    some (.table fun idx => t.getD (flat sh idx) false)
  | .list [.atom "roipix", axes, b] => do some (.roiPix (← axes.toNats?) (← box? b))
  | .list [.atom "roichunk", axes, b] => do some (.roiChunked (← axes.toNats?) (← box? b))
  | .list [.atom "loop1d", ie, bits] => do
    let t ← bits.toBools?
    some (.loop1d (← ie.toBool?) fun idx => t.getD (flat sh idx) false)
  | .list (.atom "slice" :: its) => do some (.sliceSt (← its.mapM viewItem?))
  | .list [.atom "unrelated"] => some .unrelated
  | .list [.atom "masksame", bits] => do some (.maskSame (← bits.toBools?))
  | .list [.atom "maskaxes", axes, msh, bits] => do
    some (.maskAxes (← axes.toNats?) (← msh.toNats?) (← bits.toBools?))
  | .list (.atom "element" :: is) => do some (.element (← is.mapM Sexp.toInt?))
  | .list [.atom "and", a, b] => do some (.and (← state? sh a) (← state? sh b))
  | .list [.atom "or", a, b] => do some (.or (← state? sh a) (← state? sh b))
  | .list [.atom "xor", a, b] => do some (.xor (← state? sh a) (← state? sh b))
  | .list [.atom "inv", a] => do some (.inv (← state? sh a))
  | _ => none

def stateKind : Sexp → String
  | .list (.atom k :: _) => k
  | _ => "?"

/-! ### families -/

/-- `npidx` (L0): numpy indexing itself.  case `(shape view)`; python `(shape vals)` of
`arange(prod).reshape(shape)[view]` or `index-error`. -/
def stepNpidx (sh : List Nat) (v : View) (pyout : Sexp) : String :=
  let a : NArr Rat := ⟨sh, (List.range (prod sh)).map fun (k : Nat) => (k : Rat)⟩
  let out := a.index v
  let impl := ratArrToSexp out
  driverResult impl (pyout == impl) true true (viewKind v)

/-- `attr`: `data[cid]` and `data[cid, view]`.  python `(full viewed)`. -/
def stepAttr (sh : List Nat) (a : Attr) (v : View) (kind : String) (pyout : Sexp) : String :=
  let full := Impl.attr sh a .none
  let viewed := Impl.attr sh a v
  let impl : Sexp := .list [ratArrToSexp full, ratArrToSexp viewed]
  let ok := match pyout with
    | .list [pf, pv] =>
      match sexpToRatArr? pf with
      | some f => f.shape == sh && pyEq sexpToRatArr? pv (Spec.viewOf f v)
      | none => false
    | _ => false
  let implok := match full with
    | .ok f => exEq viewed (Spec.viewOf f v)
    | .error _ => false
  driverResult impl ok implok (v.posStep) (kind ++ "/" ++ viewKind v)

/-- `mask`: `data.get_mask(state)` and `data.get_mask(state, view)`.  python `(full viewed)`. -/
def stepMask (sh : List Nat) (st : State) (v : View) (kind : String) (pyout : Sexp) : String :=
  let full := Impl.mask sh st .none
  let viewed := Impl.mask sh st v
  let impl : Sexp := .list [boolArrToSexp full, boolArrToSexpExc viewed]
  let ok := match pyout with
    | .list [pf, pv] =>
      match sexpToBoolArr? pf with
      | some f => f.shape == sh && pyEq sexpToBoolArr? pv (Spec.viewOf f v)
      | none => false
    | _ => false
  let implok := match full with
    | .ok f => exEq viewed (Spec.viewOf f v)
    | .error _ => false
  -- 0-d results of the chunked ROI tests / looping categorical classes are a stratum of their own in the
  -- evidence (the former findings C04h, C04i)
  let scalar := match viewed with
    | .ok a => if a.shape.isEmpty && (kind == "roichunk" || kind == "loop1d") then "/0d" else ""
    | .error _ => ""
  driverResult impl ok implok (v.posStep) (kind ++ "/" ++ viewKind v ++ scalar)

/-- `idxattr` / `idxmask`: a reduced dataset, before and after its indices are changed.
python `(parentFull viewed0 viewed1)`. -/
def stepIdx {α : Type} [BEq α] [Inhabited α] (enc : Except ViewErr (NArr α) → Sexp)
    (dec : Sexp → Option (NArr α)) (psh : List Nat)
    (parentFull : Except ViewErr (NArr α)) (get : List (Option Nat) → Except ViewErr (NArr α))
    (ix0 ix1 : List (Option Nat)) (v : View) (kind : String) (pyout : Sexp) : String :=
  let r0 := get ix0
  let r1 := match setIndices ix0 ix1 with
    | some ix => get ix
    | none => .error .domain
  let impl : Sexp := .list [enc parentFull, enc r0, enc r1]
  let ok := match pyout with
    | .list [pf, p0, p1] =>
      match dec pf with
      | some f => f.shape == psh && pyEq dec p0 (Spec.indexedViewOf f ix0 v) &&
                  pyEq dec p1 (Spec.indexedViewOf f ix1 v)
      | none => false
    | _ => false
  let implok := match parentFull with
    | .ok f => exEq r0 (Spec.indexedViewOf f ix0 v) && exEq r1 (Spec.indexedViewOf f ix1 v)
    | .error _ => false
  driverResult impl ok implok (v.posStep) (kind ++ "/" ++ viewKind v)

def optRatToSexp : Option Rat → Sexp
  | some q => ratToSexp q
  | none => .atom "nan"

/-- `idxstat`: statistics / histograms of a reduced dataset against the parent slice.
case `(pshape ix0 ix1 vals mask what)`, `what = (stat name)` | `(hist lo bins)`; python `(r0 r1)`. -/
def stepIdxStat (psh : List Nat) (ix0 ix1 : List (Option Nat)) (vals : List Rat)
    (m : Option (List Bool)) (what : Sexp) (pyout : Sexp) : String :=
  let slice (ix : List (Option Nat)) : List Rat × Option (List Bool) :=
    let pv := match (NArr.mk psh vals).index (indicesView ix) with | .ok a => a.data | .error _ => []
    let pm := m.map fun mm => match (NArr.mk psh mm).index (indicesView ix) with | .ok a => a.data | .error _ => []
    (pv, pm)
  let one (ix : List (Option Nat)) : Sexp :=
    let (pv, pm) := slice ix
    let sel := selectVals pv pm
    match what with
    | .list [.atom "stat", .atom name] => optRatToSexp (statOf name sel)
    | .list [.atom "stataxis", .atom name] =>
      -- the statistic along axis 0 of the reduced dataset: one value per index tuple of the other axes
      let rsh := reducedShape psh ix
      let n := rsh.headD 1
      let mcells := prod (rsh.drop 1)
      .list ((List.range mcells).map fun j =>
        optRatToSexp (statOf name ((List.range n).map fun i => pv.getD (i * mcells + j) 0)))
    | .list [.atom "hist", lo, bins] =>
      match lo.toInt?, bins.toNat? with
      | some l, some b => ofNats (histOf l b sel)
      | _, _ => .atom "bad"
    | _ => .atom "bad"
  let spec : Sexp := .list [one ix0, one ix1]
  driverResult spec (pyout == spec) true true (match what with | .list (.atom k :: _) => k | _ => "?")

def step (line : String) : String :=
  match Sexp.parse line with
  | some (.list [.atom "npidx", .list [shape, view], pyout]) =>
    match shape.toNats?, view? view with
    | some sh, some v => stepNpidx sh v pyout
    | _, _ => bad "npidx-args"
  | some (.list [.atom "attr", .list [shape, a, view], pyout]) =>
    match shape.toNats?, attr? a, view? view with
    | some sh, some a', some v => stepAttr sh a' v (stateKind a) pyout
    | _, _, _ => bad "attr-args"
  | some (.list [.atom "mask", .list [shape, st, view], pyout]) =>
    match shape.toNats? with
    | some sh =>
      match state? sh st, view? view with
      | some s, some v => stepMask sh s v (stateKind st) pyout
      | _, _ => bad "mask-args"
    | none => bad "mask-shape"
  | some (.list [.atom "idxattr", .list [shape, ix0, ix1, a, view], pyout]) =>
    match shape.toNats?, indices? ix0, indices? ix1, view? view with
    | some psh, some i0, some i1, some v =>
      -- `(ipixel k)` = the reduced dataset's own pixel attribute
      let ia : Option IAttr := match a with
        | .list [.atom "ipixel", k] => k.toNat?.map .pixel
        | .list [.atom "iworld", c, k] => do
          -- the reduced dataset's k-th world attribute is the parent's along the k-th free axis
          some (.parent (.world (← coord? c) (translateAxis i0 (← k.toNat?))))
        | e => (attr? e).map .parent
      match ia with
      | some ia' =>
        let pfull := match ia' with
          | .pixel _ => Impl.attr psh (translateCid i1 ia') .none
          | .parent p => Impl.attr psh p .none
        stepIdx ratArrToSexp sexpToRatArr? psh pfull (fun ix => Impl.indexedAttr psh ix ia' v) i0 i1 v
          (stateKind a) pyout
      | none => bad "idxattr-attr"
    | _, _, _, _ => bad "idxattr-args"
  | some (.list [.atom "idxmask", .list [shape, ix0, ix1, st, view], pyout]) =>
    match shape.toNats?, indices? ix0, indices? ix1, view? view with
    | some psh, some i0, some i1, some v =>
      match state? psh st with
      | some s =>
        stepIdx boolArrToSexp sexpToBoolArr? psh (Impl.mask psh s .none)
          (fun ix => Impl.indexedMask psh ix s v) i0 i1 v (stateKind st) pyout
      | none => bad "idxmask-state"
    | _, _, _, _ => bad "idxmask-args"
  | some (.list [.atom "idxstat", .list [shape, ix0, ix1, vals, m, what], pyout]) =>
    match shape.toNats?, indices? ix0, indices? ix1, sexpToRats? vals with
    | some psh, some i0, some i1, some vs =>
      let mm : Option (List Bool) := match m with | .atom "N" => none | e => e.toBools?
      stepIdxStat psh i0 i1 vs mm what pyout
    | _, _, _, _ => bad "idxstat-args"
  | some (.list [.atom "ood", .list [.atom what, _], pyout]) =>
    -- out-of-domain stratum (negative-step slices): reported, never judged
    driverResult pyout true true false
      (match pyout with | .list [.atom "agree", _] => what ++ "-agree" | .list [.atom "differ", _] => what ++ "-differ" | _ => what ++ "-raises")
  | some (.list [.atom "cls", _, pyout]) =>
    driverResult (.atom "covered") (pyout == .atom "covered") true true "class"
  | _ => bad "unknown-family"

def main : IO Unit := driverLoop step
