import GlueVerif.Sexp
import GlueVerif.Model.ArrayUtil
import GlueVerif.Model.Derived
import GlueVerif.Model.DerivedHeap
/-! Line-protocol driver for C14 (derived attributes).

Values are *tokens* (`Nat`): the harness interns every distinct numpy value (dtype + bit pattern)
of a case; the operators are given by their graph on the needed points (`ops`, computed by numpy on
the full arrays), so the operator is an arbitrary function for the model — exactly the
quantification of `binary_compute_elementwise` / `expr_eval`.  Token `0` = "not in the table". -/
open GlueVerif GlueVerif.Sexp GlueVerif.ArrayUtil GlueVerif.Derived

abbrev Tbl := Table Nat Nat Int

def bad (msg : String) : String := driverError msg

def opCode : Sexp → Option Nat
  | .atom "add" => some 1
  | .atom "sub" => some 2
  | .atom "mul" => some 3
  | .atom "div" => some 4
  | .atom "pow" => some 5
  | .atom "neg" => some 6
  | _ => none

def binOpCode : BinOp → Nat
  | .add => 1 | .sub => 2 | .mul => 3 | .div => 4 | .pow => 5

/-- `ops = none`: arithmetic mode (tokens are the integers, Lean computes + - * itself). -/
structure Oracle where
  ops : Option (List (Nat × Int × Int × Int))
  fns : List (Nat × List Int × Int)

def Oracle.op (o : Oracle) (w : Nat) (a b : Int) : Int :=
  match o.ops with
  | none => if w == 1 then a + b else if w == 2 then a - b else if w == 3 then a * b else 0
  | some ops =>
    match ops.find? (fun e => e.1 == w && e.2.1 == a && e.2.2.1 == b) with
    | some e => e.2.2.2
    | none => 0

def Oracle.fn (o : Oracle) (w : Nat) (args : List Int) : Int :=
  match o.ops with
  | none =>
    -- arithmetic mode: the user functions of the harness (`USER_FUNCS` in harness/props/c14.py)
    match w, args with
    | 1, [a] => a * 2 + 1
    | 2, [a, b] => a * 3 - b
    | 3, [a, b, c] => a + b * c
    | _, _ => 0
  | some _ =>
    match o.fns.find? (fun e => e.1 == w && e.2.1 == args) with
    | some e => e.2.2
    | none => 0

def Oracle.interp (o : Oracle) : Interp Nat Int :=
  { opf := o.op, fnf := o.fn, negf := fun a => match o.ops with | none => -a | some _ => o.op 6 a 0 }

def parseOps (e : Sexp) : Option (Option (List (Nat × Int × Int × Int))) :=
  match e with
  | .atom "arith" => some none
  | _ => do
    let xs ← e.toList?
    let l ← xs.mapM fun x => match x with
      | .list [o, a, b, r] => do some (← opCode o, ← a.toInt?, ← b.toInt?, ← r.toInt?)
      | _ => none
    some (some l)

def parseFns (e : Sexp) : Option (List (Nat × List Int × Int)) := do
  let xs ← e.toList?
  xs.mapM fun x => match x with
    | .list [f, args, r] => do some (← f.toNat?, ← args.toInts?, ← r.toInt?)
    | _ => none

def mkArr (shape : List Nat) (strides : List Int) (buf : List Int) : SArr Int :=
  let arr := buf.toArray
  { shape := shape, strides := strides, base := 0,
    buf := fun i => if i < 0 then 0 else arr.getD i.toNat 0 }

partial def parseExpr : Sexp → Option (Expr Nat Nat Int)
  | .list [.atom "c", t] => t.toInt?.map .const
  | .list [.atom "k", k] => k.toNat?.map .cid
  | .list [.atom "b", o, l, r] => do some (.bin (← opCode o) (← parseExpr l) (← parseExpr r))
  | _ => none

/-! ### lexer for command strings (code points) -/

def isDigit (c : Nat) : Bool := 48 ≤ c && c ≤ 57
def isSpace (c : Nat) : Bool := c == 32 || c == 9 || c == 10 || c == 13

def trimCodes (cs : List Nat) : List Nat :=
  ((cs.dropWhile isSpace).reverse.dropWhile isSpace).reverse

/-- Tokens carry tag labels and literal texts as code-point lists. -/
partial def lex (cs : List Nat) (acc : Array (Tok (List Nat) (List Nat))) :
    Option (List (Tok (List Nat) (List Nat))) :=
  match cs with
  | [] => some acc.toList
  | c :: rest =>
    if isSpace c then lex rest acc
    else if c == 40 then lex rest (acc.push .lp)
    else if c == 41 then lex rest (acc.push .rp)
    else if c == 43 then lex rest (acc.push (.op .add))
    else if c == 45 then lex rest (acc.push (.op .sub))
    else if c == 47 then lex rest (acc.push (.op .div))
    else if c == 42 then
      match rest with
      | 42 :: rest' => lex rest' (acc.push (.op .pow))
      | _ => lex rest (acc.push (.op .mul))
    else if c == 123 then
      let body := rest.takeWhile (· != 125)
      let after := rest.dropWhile (· != 125)
      match after with
      | _ :: after' =>
        if body.contains 123 then none else
        let tag := trimCodes body
        if tag.isEmpty then none else lex after' (acc.push (.tag tag))
      | [] => none
    else if isDigit c || c == 46 then
      let isNumCh := fun (d : Nat) => isDigit d || d == 46
      let lit := cs.takeWhile isNumCh
      lex (cs.dropWhile isNumCh) (acc.push (.num lit))
    else none

partial def convP (refs : List (List Nat × Nat)) (lits : List (List Nat × Int)) :
    TExpr (List Nat) (List Nat) → Option (PExpr Nat Nat Int)
  | .num l => (lits.find? (·.1 == l)).map fun p => .num p.2
  | .ref t => (refs.find? (·.1 == t)).map fun p => .ref p.2
  | .neg e => (convP refs lits e).map .neg
  | .bin o l r => do some (.bin (binOpCode o) (← convP refs lits l) (← convP refs lits r))

def pairList (e : Sexp) : Option (List (List Nat × Nat)) := do
  let xs ← e.toList?
  xs.mapM fun x => match x with
    | .list [a, b] => do some (← a.toNats?, ← b.toNat?)
    | _ => none

def pairListI (e : Sexp) : Option (List (List Nat × Int)) := do
  let xs ← e.toList?
  xs.mapM fun x => match x with
    | .list [a, b] => do some (← a.toNats?, ← b.toInt?)
    | _ => none

inductive CompErr | invalidTag | syntaxErr

/-- A component description.  `(P shape strides buf)` (`C` = the same, flagged as a coordinate
component: only the `hist` family, whose calls depend on the kind, sends it), `(B expr)`, `(U froms f ravel)`,
`(X text refs lits)`. -/
def parseComp : Sexp → Option (Except CompErr (Comp Nat Nat Int))
  | .list [.atom "P", sh, st, buf] => do
    some (.ok (.prim (mkArr (← sh.toNats?) (← st.toInts?) (← buf.toInts?)) false))
  | .list [.atom "C", sh, st, buf] => do    -- a pixel / world CoordinateComponent (`hist` only)
    some (.ok (.prim (mkArr (← sh.toNats?) (← st.toInts?) (← buf.toInts?)) true))
  | .list [.atom "B", e] => do some (.ok (.derived (.binary (← parseExpr e))))
  | .list [.atom "U", fs, f, rv] => do
    some (.ok (.derived (.func (← fs.toNats?) (← f.toNat?) (← rv.toBool?))))
  | .list [.atom "X", text, refs, lits] => do
    let cs ← text.toNats?
    let rf ← pairList refs
    let lt ← pairListI lits
    match lex cs #[] with
    | none => some (.error .syntaxErr)
    | some toks =>
      -- a tag that is not in the reference mapping: InvalidTagError at construction
      if toks.any (fun t => match t with | .tag l => !(rf.any (·.1 == l)) | _ => false) then
        some (.error .invalidTag)
      else
      match Grammar.parse toks with
      | none => some (.error .syntaxErr)
      | some te =>
        match convP rf lt te with
        | some p => some (.ok (.derived (.parsed p)))
        | none => some (.error .syntaxErr)
  | _ => none

def parseTable (e : Sexp) : Option (Except CompErr Tbl) := do
  let xs ← e.toList?
  let rec go : List Sexp → Option (Except CompErr Tbl)
    | [] => some (.ok [])
    | .list [k, c] :: rest => do
      let key ← k.toNat?
      match ← parseComp c, ← go rest with
      | .ok comp, .ok t => some (.ok ((key, comp) :: t))
      | .error e, _ => some (.error e)
      | _, .error e => some (.error e)
    | _ => none
  go xs

def viewItem? : Sexp → Option ViewItem
  | .list [.atom "i", n] => n.toInt?.map .int
  | .list [.atom "s", a, b, c] => do some (.slice (← a.toOptInt?) (← b.toOptInt?) (← c.toOptInt?))
  | _ => none

def parseView (e : Sexp) : Option (List ViewItem) := do
  let xs ← e.toList?
  xs.mapM viewItem?

/-! ### observables -/

def errAtom : Err → Sexp
  | .incompatible => .atom "incompatible"
  | .index => .atom "index-error"
  | .shape => .atom "shape-error"
  | .recursion => .atom "recursion"

def valShape : Val Int → List Nat
  | .scalar _ => []
  | .arr a => a.shape

def valVals : Val Int → List Int
  | .scalar c => [c]
  | .arr a => (allIndices a.shape).map a.at

/-- Zero-stride pattern of the result (axes of length 1 are reported as `F`: numpy does not make
their stride observable). -/
def valZeros : Val Int → List Bool
  | .scalar _ => []
  | .arr a =>
    if a.shape.any (· == 0) then a.shape.map fun _ => false
    else (a.shape.zip a.strides).map fun p => p.1 != 1 && p.2 == 0

def valSexp (v : Val Int) : Sexp := .list [ofNats (valShape v), ofInts (valVals v)]

def parseOut (e : Sexp) : Option (List Nat × List Int) :=
  match e with
  | .list (sh :: vals :: _) => do some (← sh.toNats?, ← vals.toInts?)
  | _ => none

def fuelFor (t : Tbl) : Nat := t.length + 2

def specVals (I : Interp Nat Int) (t : Tbl) (nv : List NAxis) (k : Nat) : List (Option Int) :=
  (allIndices (viewShapeN nv)).map fun idx => specAt I (fuelFor t) t (vmapN nv idx) k

/-- **Spec verdict** on an output `(shape, values)`: the shape of the view, and at every index the
defining expression applied to the inputs' values at the corresponding data index; no value may be
the "unknown" token. -/
def specOk (oracle : Bool) (S : List Nat) (exp : List (Option Int)) (out : List Nat × List Int) : Bool :=
  out.1 == S && out.2.map some == exp && !(oracle && out.2.contains 0)

/-- A link that reads no attribute at all yields the scalar value of its expression. -/
def specOkConst (oracle : Bool) (exp : List (Option Int)) (c : Option Int) (out : List Nat × List Int) : Bool :=
  out.1 == [] && (match out.2, c with | [x], some y => x == y && !(oracle && x == 0) | _, _ => false) &&
  exp.all (· == c)

def isConstOnly (t : Tbl) (k : Nat) : Bool :=
  match t.find k with
  | some (.derived (.binary e)) => e.fromIds.isEmpty
  | _ => false

structure World where
  dshape : List Nat
  tbl : Tbl
  view : List ViewItem
  target : Nat
  orc : Oracle

def parseWorld (e : Sexp) : Option (Except CompErr World) :=
  match e with
  | .list [dsh, tbl, view, tgt, ops, fns] => do
    let d ← dsh.toNats?
    let v ← parseView view
    let k ← tgt.toNat?
    let o ← parseOps ops
    let f ← parseFns fns
    match ← parseTable tbl with
    | .ok t => some (.ok ⟨d, t, v, k, ⟨o, f⟩⟩)
    | .error e => some (.error e)
  | _ => none

/-- Evaluate `data[target, view]` with the Impl model and judge an output with the Spec. -/
def evalFamily (w : World) (pyout : Sexp) (withStrides : Bool) : String :=
  let I := w.orc.interp
  match normView w.dshape w.view with
  | none =>
    driverResult (.atom "index-error") (pyout == .atom "index-error") true true "index-error"
  | some nv =>
    let S := viewShapeN nv
    let exp := specVals I w.tbl nv w.target
    let r := getData I nv S (fuelFor w.tbl) w.tbl w.target
    match r with
    | .error e =>
      driverResult (errAtom e) (pyout == errAtom e) true false ("err-" ++ Sexp.toString (errAtom e))
    | .ok v =>
      let constOnly := isConstOnly w.tbl w.target
      let c := specAt I (fuelFor w.tbl) w.tbl [] w.target
      let orc := w.orc.ops.isSome
      let judge := fun (o : List Nat × List Int) =>
        if constOnly then specOkConst orc exp c o else specOk orc S exp o
      let ok := match parseOut pyout with | some o => judge o | none => false
      let implok := judge (valShape v, valVals v)
      let impl := if withStrides then
          Sexp.list [ofNats (valShape v), ofInts (valVals v), ofBools (valZeros v)]
        else valSexp v
      let br := if constOnly then "const-only"
        else match v with
          | .scalar _ => "scalar"
          | .arr a => if (valZeros v).any id then "bcast-result"
                      else if a.shape.any (· == 0) then "empty" else "dense"
      driverResult impl ok implok (!constOnly && refsOk (fuelFor w.tbl) w.tbl w.target) br

/-! ### histories -/

abbrev HOp := Call Nat Nat Int

def parseHOp : Sexp → Option HOp
  | .list [.atom "add", k, c] => do
    match ← parseComp c with
    | .ok comp => some (.add (← k.toNat?) comp)
    | .error _ => none
  | .list [.atom "radd", k, c] => do
    match ← parseComp c with
    | .ok comp => some (.addRaw (← k.toNat?) comp)
    | .error _ => none
  | .list [.atom "remove", k] => k.toNat?.map .remove
  | .list [.atom "update", o, n] => do some (.update (← o.toNat?) (← n.toNat?))
  | .list [.atom "reorder", pref, ex] => do some (.reorder (← pref.toNats?) (← ex.toBool?))
  | _ => none

/-- Impl step: the calls as coded (`implCall`); a refused call (`ValueError`) leaves the table as
it was and is reported by the atom. -/
def implStep (t : Tbl) (o : HOp) : Tbl × Option String :=
  let r := implCall t o
  (t.after r, if r.isSome then none else some "value-error")

/-- Spec step (`specCall`): removal deletes exactly the dependency closure; replacing an identifier
renames it everywhere (keys and defining expressions) and changes nothing else; reordering lists the
same components in the requested order; a refused call changes nothing. -/
def specStep (t : Tbl) (o : HOp) : Tbl × Option String :=
  let r := specCall t o
  (t.after r, if r.isSome then none else some "value-error")

/-- Values are observed after every call that may take components away, rename or move them, and at
the end of the history. -/
def hopValued : HOp → Bool
  | .remove _ => true
  | .update _ _ => true
  | .reorder _ _ => true
  | _ => false

def finalObs (I : Interp Nat Int) (dshape : List Nat) (t : Tbl) : Sexp :=
  match normView dshape [] with
  | none => .atom "index-error"
  | some nv =>
    .list (t.keys.map fun k =>
      match getData I nv (viewShapeN nv) (fuelFor t) t k with
      | .ok v => .list [ofNat k, valSexp v]
      | .error e => .list [ofNat k, errAtom e])

/-- Spec observable of a table: every component with its Spec value on the whole dataset;
`undefined` for a derived component whose definition does not resolve (an input that is not in the
dataset, or a cyclic definition). -/
def finalSpec (I : Interp Nat Int) (dshape : List Nat) (t : Tbl) : Sexp :=
  match normView dshape [] with
  | none => .atom "index-error"
  | some nv =>
    .list (t.keys.map fun k =>
      let vals := specVals I t nv k
      if vals.all Option.isSome then
        .list [ofNat k, .list [ofNats dshape, ofInts (vals.map (·.getD 0))]]
      else .list [ofNat k, .atom "undefined"])

/-- **Spec verdict** on an observable: equal to the Spec observable, where the Spec's `undefined`
stands for "evaluating it raises" (`IncompatibleAttribute`, or unbounded recursion on a cycle).  A
derived component that survives without its input is `incompatible` where the Spec has no entry at
all, or a value where the Spec has one — never a match. -/
partial def obsMatch : Sexp → Sexp → Bool
  | .atom "undefined", .atom b => b == "incompatible" || b == "recursion"
  | .atom a, .atom b => a == b
  | .list xs, .list ys => xs.length == ys.length && (xs.zip ys).all fun p => obsMatch p.1 p.2
  | _, _ => false

def stepObs (I : Interp Nat Int) (dshape : List Nat) (spec : Bool) (o : HOp) (t : Tbl)
    (err : Option String) : Sexp :=
  let full := Sexp.list [ofNats t.keys, if spec then finalSpec I dshape t else finalObs I dshape t]
  match err with
  | some e =>
    -- a refused call: the atom, then the component list and every value *after* the refusal
    -- (the Spec side lists the unchanged table: a refused call must change nothing)
    .list [.atom e, full]
  | none => if hopValued o then full else ofNats t.keys

def histFamily (dshape : List Nat) (t0 : Tbl) (ops : List HOp) (orc : Oracle) (pyout : Sexp) : String :=
  let I := orc.interp
  let rec run (spec : Bool) (t : Tbl) : List HOp → List Sexp × Tbl
    | [] => ([], t)
    | o :: rest =>
      let (t', e) := if spec then specStep t o else implStep t o
      let (obs, tf) := run spec t' rest
      (stepObs I dshape spec o t' e :: obs, tf)
  let (iobs, it) := run false t0 ops
  let (sobs, st) := run true t0 ops
  let impl := Sexp.list [.list iobs, finalObs I dshape it]
  let spec := Sexp.list [.list sobs, finalSpec I dshape st]
  -- hypothesis of the theorems (`call_refines_spec`): unique identifiers — an invariant of every
  -- table a history can reach (checked here on every intermediate table, never false)
  let rec inP (t : Tbl) : List HOp → Bool
    | [] => decide t.keys.Nodup
    | o :: rest => decide t.keys.Nodup && inP (implStep t o).1 rest
  -- was some call refused by one of the three repaired refusals (F20 / F21 / F22)?
  let rec refused (t : Tbl) : List HOp → Bool
    | [] => false
    | o :: rest =>
      (match o with
        | .remove _ | .update _ _ => (implCall t o).isNone
        | .add k c | .addRaw k c => (addComp t k c).isNone
        | _ => false) || refused (implStep t o).1 rest
  let has := fun (f : HOp → Bool) => ops.any f
  let hasU := has fun o => match o with | .update .. => true | _ => false
  let hasR := has fun o => match o with | .remove .. => true | _ => false
  let hasO := has fun o => match o with | .reorder .. => true | _ => false
  let hasF := has fun o => match o with | .addRaw .. => true | _ => false
  -- was some removal applied to a table in which a derived component precedes one of its inputs?
  let rec inverted (t : Tbl) : List HOp → Bool
    | [] => false
    | o :: rest =>
      (match o with
        | .remove k => t.keys.contains k && (depClosure t k).length > 2 &&
            (t.zipIdx.any fun (p, i) => match p.2.fromIds with
              | some fs => fs.any fun x => (t.drop (i + 1)).any fun q => q.1 == x && q.2.fromIds.isSome
              | none => false)
        | _ => false) || inverted (implStep t o).1 rest
  let br := (if hasU then (if hasR then "update+remove" else "update") else if hasR then "remove" else "add-only")
    ++ (if hasO then "+reorder" else "") ++ (if hasF then "+fwd" else "")
    ++ (if inverted t0 ops then "+inverted" else "") ++ (if refused t0 ops then "+refused" else "")
  driverResult impl (obsMatch spec pyout) (obsMatch spec impl) (inP t0 ops) br


/-! ### link objects (`obj` family): programs over the heap model `Model/DerivedHeap.lean` -/

section obj
open GlueVerif.DerivedHeap

abbrev HSt := DerivedHeap.State Nat Nat Int

inductive OStep where
  | build (b : Build Nat Nat Int)
  | call (c : HCall Nat Int)

def parseOpnd : Sexp → Option (Opnd Nat Int)
  | .list [.atom "c", t] => t.toInt?.map .const
  | .list [.atom "k", k] => k.toNat?.map .cid
  | .list [.atom "o", n] => n.toNat?.map .link
  | _ => none

def parseOStep : Sexp → Option OStep
  | .list [.atom "addS", k, c] => do
    match ← parseComp c with
    | .ok (.prim a _) => some (.call (.addS (← k.toNat?) a))
    | _ => none
  | .list [.atom "bin", o, l, r] => do
    some (.build (.binary (← opCode o) (← parseOpnd l) (← parseOpnd r)))
  | .list [.atom "fn", ks, f, rv] => do
    some (.build (.func (← ks.toNats?) (← f.toNat?) (← rv.toBool?)))
  | .list [.atom "cmd", text, refs, lits] => do
    match ← parseComp (.list [.atom "X", text, refs, lits]) with
    | .ok (.derived (.parsed p)) => some (.build (.cmd p))
    | _ => none
  | .list [.atom "pl", c] => do some (.build (.parsed (← c.toNat?)))
  | .list [.atom "add", k, n] => do some (.call (.add (← k.toNat?) (← n.toNat?)))
  | .list [.atom "radd", k, n] => do some (.call (.addRaw (← k.toNat?) (← n.toNat?)))
  | .list [.atom "remove", k] => do some (.call (.remove (← k.toNat?)))
  | .list [.atom "update", o, n] => do some (.call (.update (← o.toNat?) (← n.toNat?)))
  | _ => none

def hFuel (s : HSt) : Nat := 2 * (s.t.length + s.h.nodes.length) + 4

def sortNats (l : List Nat) : List Nat := (l.toArray.qsort (· < ·)).toList

/-- `link.get_from_ids()` of every link object ever created (as sorted lists with repetitions: the
order inside a `ParsedComponentLink` comes from a Python `set`).  Impl: the list cells; Spec: the
inputs the objects were defined with. -/
def idsObs (spec : Bool) (s : HSt) : Sexp :=
  .list ((List.range s.h.nodes.length).map fun n =>
    ofNats (sortNats (if spec then s.h.specIds n else s.h.cellIds n)))

def valsImplH (I : Interp Nat Int) (dshape : List Nat) (s : HSt) : Sexp :=
  match normView dshape [] with
  | none => .atom "index-error"
  | some nv =>
    .list (s.t.keys.map fun k =>
      match evalH I nv (viewShapeN nv) (hFuel s) s (.inl k) with
      | .ok v => .list [ofNat k, valSexp v]
      | .error e => .list [ofNat k, errAtom e])

def valsSpecH (I : Interp Nat Int) (dshape : List Nat) (s : HSt) : Sexp :=
  match normView dshape [] with
  | none => .atom "index-error"
  | some nv =>
    .list (s.t.keys.map fun k =>
      let vals := (allIndices (viewShapeN nv)).map fun idx => specH I (hFuel s) s (vmapN nv idx) (.inl k)
      if vals.all Option.isSome then
        .list [ofNat k, .list [ofNats dshape, ofInts (vals.map (·.getD 0))]]
      else .list [ofNat k, .atom "undefined"])

def ostepValued : OStep → Bool
  | .call (.remove _) => true
  | .call (.update _ _) => true
  | _ => false

def ostepObs (I : Interp Nat Int) (dshape : List Nat) (spec : Bool) (st : OStep) (s : HSt)
    (err : Bool) : Sexp :=
  let vals := if spec then valsSpecH I dshape s else valsImplH I dshape s
  let full := Sexp.list [ofNats s.t.keys, vals, idsObs spec s]
  if err then .list [.atom "value-error", full]
  else if ostepValued st then full
  else .list [ofNats s.t.keys, .atom "-", idsObs spec s]

/-- One step.  Constructor calls are the same for Impl and Spec (they also record the definition);
a constructor that cannot be executed (`none`) aborts the run. -/
def ostep (spec : Bool) (s : HSt) : OStep → Option (HSt × Bool)
  | .build b => (build false s.h b).map fun h => ({ s with h := h }, false)
  | .call c =>
    let r := if spec then specCallH s c else implCallH s c
    some (s.after r, r.isNone)

def objInv (s : HSt) : Bool :=
  s.h.wfB && s.h.noAliasB && s.h.coherentB && decide s.t.keys.Nodup

def objFamily (dshape : List Nat) (t0 : Tbl) (steps : List OStep) (orc : Oracle) (pyout : Sexp) : String :=
  let I := orc.interp
  -- the initial table holds the pixel components only (no pointers): it is a pointer table as it is
  let t0' : HTable Nat Int := t0.filterMap fun p => match p.2 with
    | .prim a co => some (p.1, .prim a co)
    | _ => none
  let rec run (spec : Bool) (s : HSt) : List OStep → Option (List Sexp × HSt)
    | [] => some ([], s)
    | st :: rest =>
      match ostep spec s st with
      | none => none
      | some (s', err) =>
        match run spec s' rest with
        | none => none
        | some (obs, sf) => some (ostepObs I dshape spec st s' err :: obs, sf)
  let rec inv (s : HSt) : List OStep → Bool
    | [] => objInv s
    | st :: rest => objInv s && (match ostep false s st with | some (s', _) => inv s' rest | none => false)
  let s0 : HSt := { h := {}, t := t0' }
  match run false s0 steps, run true s0 steps with
  | some (iobs, si), some (sobs, ss) =>
    let impl := Sexp.list [.list iobs, valsImplH I dshape si, idsObs false si]
    let spec := Sexp.list [.list sobs, valsSpecH I dshape ss, idsObs true ss]
    -- which kinds of re-use does the program contain?
    let nodes := si.h.nodes
    let isLink := fun (o : Opnd Nat Int) => match o with | .link _ => true | _ => false
    let deep := fun (o : Opnd Nat Int) => match o with
      | .link m => (match nodes[m]? with
        | some (.binary _ l r _) => isLink l || isLink r
        | _ => false)
      | _ => false
    let kindOf := fun (o : Opnd Nat Int) => match o with
      | .link m => (match nodes[m]? with
        | some (.func ..) => 1 | some (.parsed ..) => 2 | _ => 0)
      | _ => 0
    let anyB := fun (f : Opnd Nat Int → Opnd Nat Int → Bool) => nodes.any fun nd => match nd with
      | .binary _ l r _ => f l r | _ => false
    let has := fun (f : OStep → Bool) => steps.any f
    let br := (if anyB (fun l _ => isLink l) then "L" else "") ++ (if anyB (fun _ r => isLink r) then "R" else "")
      ++ (if anyB (fun l r => isLink l && l == r) then "=" else "")
      ++ (if anyB (fun l r => deep l || deep r) then "+deep" else "")
      ++ (if anyB (fun l r => kindOf l == 1 || kindOf r == 1) then "+fn" else "")
      ++ (if anyB (fun l r => kindOf l == 2 || kindOf r == 2) then "+parsed" else "")
      ++ (if has (fun s => match s with | .call (.remove _) => true | _ => false) then "+remove" else "")
      ++ (if has (fun s => match s with | .call (.update _ _) => true | _ => false) then "+update" else "")
    driverResult impl (obsMatch spec pyout) (obsMatch spec impl) (inv s0 steps) (if br == "" then "plain" else br)
  | _, _ => bad "obj-build"

end obj

def step (line : String) : String :=
  match Sexp.parse line with
  | some (.list [.atom fam, world, pyout]) =>
    if fam == "bcl" || fam == "expr" || fam == "arith" || fam == "ulink" || fam == "parsed" then
      match parseWorld world with
      | none => bad (fam ++ "-args")
      | some (.error .invalidTag) =>
        driverResult (.atom "invalid-tag") (pyout == .atom "invalid-tag") true true "invalid-tag"
      | some (.error .syntaxErr) =>
        driverResult (.atom "syntax-error") (pyout == .atom "syntax-error") true true "syntax-error"
      | some (.ok w) => evalFamily w pyout (fam == "bcl")
    else if fam == "hist" then
      match world with
      | .list [dsh, tbl, ops, otab, ftab] =>
        match dsh.toNats?, parseTable tbl, ops.toList?.bind (·.mapM parseHOp), parseOps otab, parseFns ftab with
        | some d, some (.ok t), some os, some o, some f => histFamily d t os ⟨o, f⟩ pyout
        | _, _, _, _, _ => bad "hist-args"
      | _ => bad "hist-args"
    else if fam == "obj" then
      match world with
      | .list [dsh, tbl, steps, otab, ftab] =>
        match dsh.toNats?, parseTable tbl, steps.toList?.bind (·.mapM parseOStep), parseOps otab, parseFns ftab with
        | some d, some (.ok t), some os, some o, some f => objFamily d t os ⟨o, f⟩ pyout
        | _, _, _, _, _ => bad "obj-args"
      | _ => bad "obj-args"
    else if fam == "gram" then
      -- (gram (text) pyout): pyout = the fully parenthesised rendering produced by Python's own parser
      match world.toNats? with
      | none => bad "gram-args"
      | some cs =>
        match lex cs #[] with
        | none => driverResult (.atom "syntax-error") (pyout == .atom "syntax-error") true true "syntax-error"
        | some toks =>
          match Grammar.parse toks with
          | none => driverResult (.atom "syntax-error") (pyout == .atom "syntax-error") true true "syntax-error"
          | some te =>
            let rec render : TExpr (List Nat) (List Nat) → Sexp
              | .num l => .list [.atom "n", ofNats l]
              | .ref t => .list [.atom "t", ofNats t]
              | .neg e => .list [.atom "neg", render e]
              | .bin o l r => .list [.atom (match o with | .add => "add" | .sub => "sub" | .mul => "mul" | .div => "div" | .pow => "pow"), render l, render r]
            let out := render te
            -- round trip through the printer: parse (print e) = e on every executed case
            let rt := Grammar.parse (Grammar.print te) == some te
            driverResult out (pyout == out) rt true "parsed"
    else bad "unknown-family"
  | _ => bad "parse"

def main : IO Unit := driverLoop step
