import GlueVerif.Sexp
import GlueVerif.Model.ArrayUtil
import GlueVerif.Model.SubsetEval
/-!
Line-protocol driver for C01 (selections form a faithful Boolean algebra).

Families
* `(cls <kind> (<py-copy-behaviour> <py-memo-table>))` — L0: the class table (copy semantics and
  `@memoize` table of every elementary selection class) against introspection of the real classes;
  Spec verdict: the class does not lose its parameters on `copy()`.
* `(prog (<data> <views> <leaves> <ops>) <pyout>)` — a program run on real glue objects.
  `impl`   = the heap model's prediction of everything observable (masks, which returned arrays are
             the same object, whether they changed afterwards, the object graph with identities of
             state / parameter / list objects, the contents of all `__memoize_cache` dicts);
  `ok`     = Spec verdict on the *python* output: masks = `Expr.denote` of the value semantics,
             shapes = view shape of the dataset, returned arrays never changed, every program
             variable's object graph represents its Spec value (`Rep`), every real memo entry is
             coherent (`CacheCoherent`).
-/
open GlueVerif GlueVerif.Sexp GlueVerif.SubsetEval

def bad (msg : String) : String := driverError msg

/-! ### atoms -/

def kindOf? : String → Option Kind
  | "base" => some .base | "roiNd" => some .roiNd | "roi2d" => some .roi2d | "roi3d" => some .roi3d
  | "catRoi" => some .catRoi | "range" => some .range | "multiRange" => some .multiRange
  | "catRoi2d" => some .catRoi2d | "catMultiRange" => some .catMultiRange | "mask" => some .mask
  | "floodFill" => some .floodFill | "slice" => some .slice | "pixel" => some .pixel
  | "category" => some .category | "element" => some .element | "inequality" => some .inequality
  | "parsed" => some .parsed | _ => none

def kindAtom : Kind → String
  | .base => "base" | .roiNd => "roiNd" | .roi2d => "roi2d" | .roi3d => "roi3d" | .catRoi => "catRoi"
  | .range => "range" | .multiRange => "multiRange" | .catRoi2d => "catRoi2d"
  | .catMultiRange => "catMultiRange" | .mask => "mask" | .floodFill => "floodFill"
  | .slice => "slice" | .pixel => "pixel" | .category => "category" | .element => "element"
  | .inequality => "inequality" | .parsed => "parsed"

/-- Classes whose parameters are plain values (no parameter *object* whose identity can be seen). -/
def hasParamObj : Kind → Bool
  | .base | .range | .inequality => false
  | _ => true

def tableAtom : Table → String
  | .composite => "composite" | .invert => "invert" | .multiOr => "multiOr" | .catRoi => "catRoi"
  | .catRoi2d => "catRoi2d" | .catMultiRange => "catMultiRange" | .category => "category"
  | .element => "element" | .inequality => "inequality"

def tableIdx : Table → Nat
  | .composite => 0 | .invert => 1 | .multiOr => 2 | .catRoi => 3 | .catRoi2d => 4
  | .catMultiRange => 5 | .category => 6 | .element => 7 | .inequality => 8

def copyAtom : CopyBeh → String
  | .share => "share" | .fresh => "fresh" | .toBase => "toBase"

def opOf? : String → Option BinOp
  | "and" => some .and | "or" => some .or | "xor" => some .xor | _ => none
def opAtom : BinOp → String
  | .and => "and" | .or => "or" | .xor => "xor"

def formOf? : String → Option Form
  | "pos" => some .pos | "kw" => some .kw | "bare" => some .bare | _ => none
def formAtom : Form → String
  | .pos => "pos" | .kw => "kw" | .bare => "bare"
def formIdx : Form → Nat
  | .pos => 0 | .kw => 1 | .bare => 2

def modeOf? : String → Option Mode
  | "replace" => some .replace | "new" => some .new | "and" => some .and | "or" => some .or
  | "xor" => some .xor | "andNot" => some .andNot | _ => none

def errOf? : String → Option Err
  | "incompatible" => some .incompatible | "shape" => some .shape | "other" => some .other | _ => none
def errAtom : Err → String
  | .incompatible => "incompatible" | .shape => "shape" | .other => "other"
  | .dangling => "model-dangling" | .fuel => "model-fuel"

/-! ### masks and results -/

/-- Mask values travel as one atom `b0110…` (row-major). -/
def bitsAtom (bs : List Bool) : Sexp := .atom ("b" ++ String.ofList (bs.map fun b => if b then '1' else '0'))

def bitsOf? : Sexp → Option (List Bool)
  | .atom s =>
    match s.toList with
    | 'b' :: cs => cs.mapM fun c => if c == '1' then some true else if c == '0' then some false else none
    | _ => none
  | _ => none

def maskToSexp (m : Mask) : List Sexp := [ofNats m.shape, bitsAtom m.bits]

def resOf? : Sexp → Option (Except Err Mask)
  | .list [.atom "ok", sh, bs] => do some (.ok ⟨← sh.toNats?, ← bitsOf? bs⟩)
  | .list [.atom "err", .atom e] => (errOf? e).map .error
  | _ => none

/-! ### the case -/

structure ViewDesc where
  hashable : Bool
  desc : Sexp

structure Case where
  shapes : List (List Nat)
  views : List ViewDesc
  leaves : List (Kind × List (Nat × Nat × Except Err Mask))
  ops : List Op

def viewItem? : Sexp → Option ArrayUtil.ViewItem
  | .list [.atom "i", n] => n.toInt?.map .int
  | .list [.atom "s", a, b, c] => do some (.slice (← a.toOptInt?) (← b.toOptInt?) (← c.toOptInt?))
  | _ => none

/-- Expected shape of `np.zeros(shape)[view]`; `none` if the view is invalid for the dataset. -/
def expectedShape (c : Case) (d : Nat) (v : View) : Option (List Nat) := do
  let sh ← c.shapes[d]?
  let vd ← c.views[v.id]?
  match vd.desc with
  | .atom "none" => some sh
  | .atom "ell" => some sh
  | .list (.atom "b" :: items) =>
    let its ← items.mapM viewItem?
    ArrayUtil.viewShape sh its
  | .list [.atom "f", n] =>
    match sh with
    | [] => none
    | _ :: rest => do some ((← n.toNat?) :: rest)
  | _ => none

def viewOf (c : Case) (i : Nat) : View :=
  ⟨i, match c.views[i]? with | some vd => vd.hashable | none => true⟩

def envOf (c : Case) : Env :=
  ⟨fun ct d v =>
    match c.leaves[ct]? with
    | none => .error .dangling
    | some (_, rows) =>
      match rows.find? (fun r => r.1 == d && r.2.1 == v.id) with
      | some r => r.2.2
      | none => .error .dangling⟩

def rowsEq (a b : List (Nat × Nat × Except Err Mask)) : Bool :=
  a.length == b.length && (a.zip b).all fun p => p.1.1 == p.2.1 && p.1.2.1 == p.2.2.1 && decide (p.1.2.2 = p.2.2.2)

/-- Canonical content: the first content with the same behaviour on every dataset and view. -/
def canonContent (c : Case) (ct : Nat) : Nat :=
  match c.leaves[ct]? with
  | none => ct
  | some (_, rows) =>
    match (List.range ct).find? (fun j => match c.leaves[j]? with
        | some (_, rows') => rowsEq rows rows' | none => false) with
    | some j => j
    | none => ct

def parseOp (c : Case) : Sexp → Option Op
  | .list [.atom "leaf", ct] => do
    let n ← ct.toNat?
    let (k, _) ← c.leaves[n]?
    some (.leaf k n)
  | .list [.atom "bin", .atom o, a, b] => do some (.bin (← opOf? o) (← a.toNat?) (← b.toNat?))
  | .list [.atom "inv", a] => do some (.inv (← a.toNat?))
  | .list (.atom "mor" :: as) => do some (.multiOr (← as.mapM toNat?))
  | .list [.atom "copy", a] => do some (.copy (← a.toNat?))
  | .list [.atom "eval", a, d, v, .atom f] => do
    some (.eval (← a.toNat?) (← d.toNat?) (viewOf c (← v.toNat?)) (← formOf? f))
  | .list [.atom "edit", .atom m, a] => do some (.edit (← modeOf? m) (← a.toNat?))
  | .list [.atom "evalcur", d, v] => do some (.evalCur (← d.toNat?) (viewOf c (← v.toNat?)))
  | .list [.atom "usecur"] => some .useCur
  | .list [.atom "child", a, i] => do some (.child (← a.toNat?) (← i.toNat?))
  | _ => none

def parseCase : Sexp → Option Case
  | .list [.list (.atom "data" :: shs), .list (.atom "views" :: vs), .list (.atom "leaves" :: ls),
           .list (.atom "ops" :: os)] => do
    let shapes ← shs.mapM toNats?
    let views ← vs.mapM fun
      | .list [d, h] => do some (⟨← h.toBool?, d⟩ : ViewDesc)
      | _ => none
    let leaves ← ls.mapM fun
      | .list [.atom k, .list rows] => do
        let kd ← kindOf? k
        let rs ← rows.mapM fun
          | .list [d, v, r] => do some ((← d.toNat?), (← v.toNat?), (← resOf? r))
          | _ => none
        some (kd, rs)
      | _ => none
    let c0 : Case := ⟨shapes, views, leaves, []⟩
    let ops ← os.mapM (parseOp c0)
    some { c0 with ops := ops }
  | _ => none

/-! ### a canonical picture of an object graph (same traversal as the harness) -/

inductive PNode where
  | leaf (k : String) (p : Option Nat) (c : Nat)
  | bin (op : String) (l r : Nat)
  | inv (c : Nat)
  | mor (lst : Nat) (cs : List Nat)
  | hole
  deriving Inhabited, BEq

def optNatSexp : Option Nat → Sexp
  | some n => ofNat n
  | none => .atom "N"

def PNode.toSexp : PNode → Sexp
  | .leaf k p c => .list [.atom "leaf", .atom k, optNatSexp p, ofNat c]
  | .bin op l r => .list [.atom "bin", .atom op, ofNat l, ofNat r]
  | .inv c => .list [.atom "inv", ofNat c]
  | .mor l cs => .list [.atom "mor", ofNat l, ofNats cs]
  | .hole => .atom "hole"

def optNat? : Sexp → Option (Option Nat)
  | .atom "N" => some none
  | e => e.toNat?.map some

def PNode.ofSexp? : Sexp → Option PNode
  | .list [.atom "leaf", .atom k, p, c] => do some (.leaf k (← optNat? p) (← c.toNat?))
  | .list [.atom "bin", .atom op, l, r] => do some (.bin op (← l.toNat?) (← r.toNat?))
  | .list [.atom "inv", c] => do some (.inv (← c.toNat?))
  | .list [.atom "mor", l, cs] => do some (.mor (← l.toNat?) (← cs.toNats?))
  | _ => none

structure Dump where
  nodeMap : List (Nat × Nat) := []
  listMap : List (Nat × Nat) := []
  paramMap : List (Nat × Nat) := []
  nodes : Array PNode := #[]

def assoc (m : List (Nat × Nat)) (k : Nat) : Option Nat := (m.find? (·.1 == k)).map (·.2)

/-- Pre-order numbering from the roots; node / list / parameter objects are numbered at their first
visit. -/
partial def visit (c : Case) (g : Graph) (n : Nat) : StateM Dump Nat := do
  let s ← get
  match assoc s.nodeMap n with
  | some k => return k
  | none =>
    let k := s.nodes.size
    set { s with nodeMap := (n, k) :: s.nodeMap, nodes := s.nodes.push .hole }
    let pn ← match g.nodes[n]? with
      | none => pure PNode.hole
      | some (.leaf kd p) => do
        let s ← get
        let ct := canonContent c ((g.params[p]?).getD 0)
        if hasParamObj kd then
          match assoc s.paramMap p with
          | some j => pure (PNode.leaf (kindAtom kd) (some j) ct)
          | none =>
            let j := s.paramMap.length
            set { s with paramMap := (p, j) :: s.paramMap }
            pure (PNode.leaf (kindAtom kd) (some j) ct)
        else pure (PNode.leaf (kindAtom kd) none ct)
      | some (.bin op l r) => do
        let l' ← visit c g l
        let r' ← visit c g r
        pure (PNode.bin (opAtom op) l' r')
      | some (.inv ch) => do
        let c' ← visit c g ch
        pure (PNode.inv c')
      | some (.multiOr lst) => do
        let s ← get
        let j ← match assoc s.listMap lst with
          | some j => pure j
          | none =>
            let j := s.listMap.length
            set { s with listMap := (lst, j) :: s.listMap }
            pure j
        let cs ← ((g.lists[lst]?).getD []).mapM (visit c g)
        pure (PNode.mor j cs)
    modify fun s => { s with nodes := s.nodes.set! k pn }
    return k

/-- The selection value an object of a canonical picture stands for (fuel = number of nodes). -/
def exprOfP (nodes : Array PNode) : Nat → Nat → Option Expr
  | 0, _ => none
  | fuel + 1, i =>
    match nodes[i]? with
    | some (.leaf _ _ c) => some (.leaf c)
    | some (.bin op l r) => do
      let o ← opOf? op
      some (.bin o (← exprOfP nodes fuel l) (← exprOfP nodes fuel r))
    | some (.inv c) => do some (.inv (← exprOfP nodes fuel c))
    | some (.mor _ cs) => do
      let es ← cs.mapM (exprOfP nodes fuel)
      if es.isEmpty then none else some (.multiOr es)
    | _ => none

partial def exprKey (c : Case) : Expr → String
  | .leaf ct => s!"L{canonContent c ct}"
  | .bin op a b => s!"({opAtom op} {exprKey c a} {exprKey c b})"
  | .inv a => s!"(~ {exprKey c a})"
  | .multiOr es => "(mor " ++ " ".intercalate (es.map (exprKey c)) ++ ")"

/-! ### the observable output -/

structure ObsRec where
  kind : String                      -- "N" | "bad" | "ok" | "err"
  mask : Mask := ⟨[], []⟩
  err : String := ""
  alias : Nat := 0
  endSame : Bool := true

def ObsRec.toSexp (o : ObsRec) : Sexp :=
  match o.kind with
  | "ok" => .list ([.atom "ok"] ++ maskToSexp o.mask ++ [ofNat o.alias, ofBool o.endSame])
  | "err" => .list [.atom "err", .atom o.err]
  | k => .atom k

def ObsRec.ofSexp? : Sexp → Option ObsRec
  | .atom "N" => some ⟨"N", ⟨[], []⟩, "", 0, true⟩
  | .atom "bad" => some ⟨"bad", ⟨[], []⟩, "", 0, true⟩
  | .list [.atom "ok", sh, bs, al, en] => do
    some ⟨"ok", ⟨← sh.toNats?, ← bitsOf? bs⟩, "", ← al.toNat?, ← en.toBool?⟩
  | .list [.atom "err", .atom e] => some ⟨"err", ⟨[], []⟩, e, 0, true⟩
  | _ => none

structure MemoRec where
  table : String
  node : Option Nat
  data : Nat
  view : Nat
  form : String
  alias : Option Nat
  mask : Mask

def MemoRec.toSexp (m : MemoRec) : Sexp :=
  .list ([.atom m.table, optNatSexp m.node, ofNat m.data, ofNat m.view, .atom m.form, optNatSexp m.alias]
    ++ maskToSexp m.mask)

def MemoRec.ofSexp? : Sexp → Option MemoRec
  | .list [.atom t, n, d, v, .atom f, al, sh, bs] => do
    some ⟨t, ← optNat? n, ← d.toNat?, ← v.toNat?, f, ← optNat? al, ⟨← sh.toNats?, ← bitsOf? bs⟩⟩
  | _ => none

structure Output where
  obs : List ObsRec
  nodes : Array PNode
  roots : List Nat
  hist : List Nat
  memo : List MemoRec

def Output.toSexp (o : Output) : Sexp :=
  .list [tagged "obs" (o.obs.map (·.toSexp)), tagged "nodes" (o.nodes.toList.map (·.toSexp)),
    tagged "roots" (o.roots.map ofNat), tagged "hist" (o.hist.map ofNat),
    tagged "memo" (o.memo.map (·.toSexp))]

def Output.ofSexp? : Sexp → Option Output
  | .list [.list (.atom "obs" :: os), .list (.atom "nodes" :: ns), .list (.atom "roots" :: rs),
           .list (.atom "hist" :: hs), .list (.atom "memo" :: ms)] => do
    some ⟨← os.mapM ObsRec.ofSexp?, (← ns.mapM PNode.ofSexp?).toArray, ← rs.mapM toNat?,
      ← hs.mapM toNat?, ← ms.mapM MemoRec.ofSexp?⟩
  | _ => none

def memoKeyLe (a b : Nat × Nat × Nat × Nat × Nat) : Bool :=
  let la := [a.1, a.2.1, a.2.2.1, a.2.2.2.1, a.2.2.2.2]
  let lb := [b.1, b.2.1, b.2.2.1, b.2.2.2.1, b.2.2.2.2]
  decide (la ≤ lb)

/-- Everything the heap model predicts to be observable. -/
def implOutput (c : Case) : Output × Impl.State × List Impl.Out :=
  let env := envOf c
  let r := Impl.run classTable env Impl.init c.ops
  let fin := r.1
  let outs := r.2
  let arrs := outs.map (·.arr)
  let obs := (List.range outs.length).map fun i =>
    match outs[i]? with
    | none => (⟨"N", ⟨[], []⟩, "", 0, true⟩ : ObsRec)
    | some o =>
      match o.obs with
      | .none => ⟨"N", ⟨[], []⟩, "", 0, true⟩
      | .bad => ⟨"bad", ⟨[], []⟩, "", 0, true⟩
      | .mask (.error e) => ⟨"err", ⟨[], []⟩, errAtom e, 0, true⟩
      | .mask (.ok m) =>
        let al := match o.arr with
          | some a => (arrs.findIdx? (· == some a)).getD i
          | none => i
        let en := match o.arr with
          | some a => decide (fin.h.arrays[a]? = some m)
          | none => false
        ⟨"ok", m, "", al, en⟩
  let (roots, st1) := (fin.vars.mapM (visit c fin.h.g)).run {}
  let (hist, st2) := (fin.hist.mapM (visit c fin.h.g)).run st1
  let entries := fin.h.memo.map fun x =>
    let node := assoc st2.nodeMap x.key.node
    let key := (tableIdx x.key.table, node.getD 1000000, x.key.data, x.key.view.id, formIdx x.key.form)
    (key, (⟨tableAtom x.key.table, node, x.key.data, x.key.view.id, formAtom x.key.form,
      arrs.findIdx? (· == some x.arr), (fin.h.arrays[x.arr]?).getD ⟨[], []⟩⟩ : MemoRec))
  let sorted := entries.mergeSort (fun a b => memoKeyLe a.1 b.1)
  (⟨obs, st2.nodes, roots, hist, sorted.map (·.2)⟩, fin, outs)

/-- Spec run that also records the edit subset's successive values. -/
def specRun (env : Env) : Spec.State → List Op → List Expr → Spec.State × List Obs × List Expr
  | s, [], h => (s, [], h)
  | s, op :: ops, h =>
    let r := Spec.step env s op
    let h' := match op, r.2 with
      | .edit _ _, .none => h ++ [r.1.cur]
      | _, _ => h
    let rs := specRun env r.1 ops h'
    (rs.1, r.2 :: rs.2.1, rs.2.2)

def obsMatches (o : ObsRec) (s : Obs) : Bool :=
  match s with
  | .none => o.kind == "N"
  | .bad => o.kind == "bad"
  | .mask (.ok m) => o.kind == "ok" && decide (o.mask = m)
  | .mask (.error e) => o.kind == "err" && o.err == errAtom e

def opTarget : Op → Option (Nat × View)
  | .eval _ d v _ => some (d, v)
  | .evalCur d v => some (d, v)
  | _ => none

def prodNat (l : List Nat) : Nat := l.foldl (· * ·) 1

/-- Hypothesis of `shape_of_mask`: every elementary mask on `(d, v)` has the view shape `sh`. -/
def leavesShaped (c : Case) (d v : Nat) (sh : List Nat) : Bool :=
  c.leaves.all fun lf => lf.2.all fun r =>
    !(r.1 == d && r.2.1 == v) ||
      (match r.2.2 with
        | .ok m => m.shape == sh && m.bits.length == prodNat sh
        | .error _ => true)

/-- **The Spec verdict** on an observable output (the implementation's, or the model's own). -/
def specOk (c : Case) (o : Output) : Bool :=
  let env := envOf c
  let (ss, sobs, shist) := specRun env {} c.ops [.leaf emptyContent]
  let fuel := o.nodes.size + 1
  -- (1) masks are the elementwise Boolean functions of the parts' masks; (2) no returned array was
  -- altered afterwards; (3) shapes are the dataset's view shape whenever the elementary masks'
  -- shapes are (the form of `shape_of_mask`; leaf shapes themselves belong to C04)
  let okObs := o.obs.length == sobs.length && (o.obs.zip sobs).all (fun p => obsMatches p.1 p.2)
  let okEnd := o.obs.all (fun x => x.kind != "ok" || x.endSame)
  let okShape := (o.obs.zip c.ops).all fun p =>
    if p.1.kind == "ok" then
      match opTarget p.2 with
      | some (d, v) =>
        match expectedShape c d v with
        | some sh => !leavesShaped c d v.id sh || (p.1.mask.shape == sh && p.1.mask.bits.length == prodNat sh)
        | none => true
      | none => false
    else true
  -- (4) every variable's / every edit-subset state's object graph stands for its Spec value
  let repOk := fun (roots : List Nat) (es : List Expr) =>
    roots.length == es.length && (roots.zip es).all fun p =>
      match exprOfP o.nodes fuel p.1 with
      | some e => exprKey c e == exprKey c p.2
      | none => false
  let okRep := repOk o.roots ss.vars && repOk o.hist shist
  -- (5) cache coherence of the memo tables
  let okMemo := o.memo.all fun m =>
    match m.node with
    | none => false
    | some n =>
      match exprOfP o.nodes fuel n with
      | none => false
      | some e => decide (e.denote env m.data (viewOf c m.view) = .ok m.mask)
  okObs && okEnd && okShape && okRep && okMemo

def branchOf (o : Output) (outs : List Impl.Out) : String :=
  let hit := (List.range o.obs.length).any fun i =>
    match o.obs[i]? with | some x => x.kind == "ok" && x.alias != i | none => false
  let err := o.obs.any (·.kind == "err")
  let evals := outs.filter (fun x => match x.obs with | .mask _ => true | _ => false)
  let memo := !o.memo.isEmpty
  (if evals.isEmpty then "noeval" else if hit then "hit" else if memo then "miss" else "nocache")
    ++ (if err then "+err" else "")

def step (line : String) : String :=
  match Sexp.parse line with
  | some (.list [.atom "cls", .atom k, .list [.atom pc, pm]]) =>
    match kindOf? k with
    | none => bad "cls-kind"
    | some kd =>
      let mc := classTable.copy kd
      let mm := match classTable.leafMemo kd with | some t => tableAtom t | none => "N"
      let impl := Sexp.list [.atom (copyAtom mc), .atom mm]
      let _ := pm
      driverResult impl (pc == "share" || pc == "fresh") (decide (mc ≠ .toBase)) true (copyAtom mc)
  | some (.list [.atom "ctab", .atom k, _]) =>
    -- the memo table of the composite classes (And/Or/Xor share one function object)
    let t := match k with
      | "inv" => tableAtom .invert
      | "mor" => tableAtom .multiOr
      | _ => tableAtom .composite
    driverResult (.list [.atom "composite", .atom t]) true true true ("ctab-" ++ t)
  | some (.list [.atom "prog", cs, pyout]) =>
    match parseCase cs with
    | none => bad "prog-case"
    | some c =>
      let (io, _, outs) := implOutput c
      let ok := match Output.ofSexp? pyout with
        | some po => specOk c po
        | none => false
      driverResult io.toSexp ok (specOk c io) true (branchOf io outs)
  | _ => bad "unknown-family"

def main : IO Unit := driverLoop step
