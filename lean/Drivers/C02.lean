import GlueVerif.Sexp
import GlueVerif.Model.C02Serial
import GlueVerif.Model.C02Records
import GlueVerif.Generated.C02Registry
/-! Line-protocol driver for C02 (session round trip).

families
  (fw   (main heap) pyout)      synthetic graphs through the real GlueSerializer / GlueUnSerializer
  (sess (tags…) pyout)          real sessions: canonical snapshots before / after / after the 2nd trip
  (cls  (name expect) pyout)    one class of the generated table: restored type and behaviour
  (rec  () pyout)               objects of the record table: real saver output / restored fields vs `encode` / `decode`
-/
open GlueVerif GlueVerif.Sexp GlueVerif.C02

def res (impl : Sexp) (ok implok p : Bool) (br : String) : String := driverResult impl ok implok p br
def bad (msg : String) : String := driverError msg

/-! ### fw -/

def codesToStr? (e : Sexp) : Option Str := do
  let ns ← e.toNats?
  some (ns.map Char.ofNat)

def strToCodes (s : Str) : Sexp := .list (s.map fun c => ofNat c.toNat)

def phase? : Sexp → Option Phase
  | .atom "e" => some .early
  | .atom "l" => some .late
  | .atom "c" => some .cb
  | _ => none

def field? : Sexp → Option Field
  | .list [ph, .atom "lit", n] => do some ⟨← phase? ph, .lit (← n.toInt?)⟩
  | .list [ph, .atom "str", s] => do some ⟨← phase? ph, .str (← codesToStr? s)⟩
  | .list [ph, .atom "ref", n] => do some ⟨← phase? ph, .ref (← n.toNat?)⟩
  | .list [ph, .atom "own", n] => do some ⟨← phase? ph, .own (← n.toNat?)⟩
  | _ => none

/-- name of the harness node class of an unlabelled node (its `type(obj).__name__`) -/
def nodeClassName (fs : List Field) : Str :=
  let g := fs.any (fun f => f.phase == .late)
  let c := fs.any (fun f => f.phase == .cb)
  ['N'] ++ (if g then ['g'] else ['p']) ++ (if c then ['c'] else [])

def obj? : Sexp → Option Obj
  | .list [cls, lab, .list fs] => do
    let fields ← fs.mapM field?
    let label ← match lab with
      | .atom "N" => some (nodeClassName fields)
      | l => codesToStr? l
    some { cls := ← cls.toNat?, label := label, fields := fields }
  | _ => none

def heap? : Sexp → Option Heap
  | .list os => os.mapM obj?
  | _ => none

def posOf (names : List Str) (n : Str) : Nat := (names.findIdx? (· == n)).getD names.length

/-- tokens → nested S-expression; returns the rest of the token stream -/
partial def tokToSexp (names : List Str) : List C02.Tok → Sexp × List C02.Tok
  | [] => (.atom "anon", [])
  | .lit n :: r => (.list [.atom "l", ofInt n], r)
  | .str s :: r => (.list (.atom "s" :: s.map fun c => ofNat c.toNat), r)
  | .ref n :: r => (.list [.atom "r", ofNat (posOf names n)], r)
  | .pending :: r => (.atom "pending", r)
  | .anon :: r => (.atom "anon", r)
  | .opn c k :: r =>
    let (fs, rest) := (List.range k).foldl (fun (acc : List Sexp × List C02.Tok) _ =>
      let (e, r') := tokToSexp names acc.2; (acc.1 ++ [e], r')) ([], r)
    (.list [.atom "o", ofNat c, .list fs], rest)

/-- a top-level view entry is printed as `(cls (fields…))` -/
def viewToSexp (names : List Str) (v : View) : Sexp :=
  .list (v.map fun e => match (tokToSexp names e.2).1 with
    | .list [.atom "o", c, fs] => .list [c, fs]
    | _ => .atom "missing")

def tableSexp (reg : Reg) : Sexp := .list (reg.map fun e => .list [strToCodes e.2, ofNat e.1])

def sErrAtom : SErr → String
  | .circular => "circular" | .dangling => "dangling" | .fuel => "fuel"

def lErrAtom : LErr → String
  | .circular => "circular" | .unrecognized => "unrecognized" | .malformed => "malformed" | .fuel => "fuel"

partial def sexpToToks? (names : List Str) : Sexp → Option (List C02.Tok)
  | .atom "pending" => some [.pending]
  | .atom "anon" => some [.anon]
  | .list [.atom "l", n] => n.toInt?.map fun i => [.lit i]
  | .list (.atom "s" :: cs) => (cs.mapM toNat?).map fun ns => [.str (ns.map Char.ofNat)]
  | .list [.atom "r", k] => do let i ← k.toNat?; some [.ref (names.getD i [])]
  | .list [.atom "o", c, .list fs] => do
      let parts ← fs.mapM (sexpToToks? names)
      some (.opn (← c.toNat?) fs.length :: parts.flatten)
  | _ => none

def sexpToView? (names : List Str) : Sexp → Option View
  | .list es => (List.zip names es).mapM fun (n, e) =>
      match e with
      | .atom "missing" => some (n, [.anon])
      | .list [c, .list fs] => do
          let parts ← fs.mapM (sexpToToks? names)
          some (n, .opn (← c.toNat?) fs.length :: parts.flatten)
      | _ => none
  | _ => none

/-- Hypothesis of the proved round-trip theorems (`roundtrip_framework_cycles` ∨ `roundtrip_framework_callbacks`;
`roundtrip_framework` is a special case of the former), as evaluated on a case. -/
def inP (h : Heap) (main : Nat) : Bool :=
  wellFormed h main && inlineForestBy (ownHeight h (h.length + 1)) h main &&
    ((noCb h && lateCyclesBy (candidateRank h) h) ||
     (noGenCb h && mainPlain h main && cyclesBy (candidateRank h) h && coveredBy (candidateDist h main) h main))

/-- The strict Spec on an observable of the `fw` family: the trip succeeded, and by name every object
has the class and fields that were saved; distinct names are distinct objects. -/
def strictSpecFw (h : Heap) (out : Sexp) : Bool :=
  match out with
  | .list [.atom "ok", .list tbl, nd, view, _] =>
    let reg? : Option Reg := tbl.mapM fun e => match e with
      | .list [cs, i] => do some (← i.toNat?, ← codesToStr? cs)
      | _ => none
    match reg?, nd.toNat? with
    | some reg, some d =>
      let names := reg.map (·.2)
      match sexpToView? names view with
      | some v => d == reg.length && decide (v = viewBefore h reg) && names.eraseDups.length == names.length
      | none => false
    | _, _ => false
  | _ => false

def fwStep (caseE pyout : Sexp) : String :=
  match caseE with
  | .list [mainE, heapE] =>
    match mainE.toNat?, heap? heapE with
    | some main, some h =>
      let p := inP h main
      let (impl, br) : Sexp × String :=
        match serialize h main with
        | .error e => (.list [.atom "save-error", .atom (sErrAtom e)], "save-" ++ sErrAtom e)
        | .ok (st, tbl) =>
          match unserialize tbl 400 with
          | (_, .error e) => (.list [.atom "load-error", .atom (lErrAtom e), tableSexp st.reg], "load-" ++ lErrAtom e)
          | (ls, .ok _) =>
            let names := st.reg.map (·.2)
            let nd := ((st.reg.filterMap fun e => lookupMemo ls.memo e.2).eraseDups).length
            (.list [.atom "ok", tableSexp st.reg, ofNat nd, viewToSexp names (viewAfter st.reg ls), ofNat ls.callbacks.length],
              if specRoundTrip h st.reg ls then (if p then "iso-inP" else "iso-outside") else "not-iso")
      let implok := strictSpecFw h impl
      let ok := if p then strictSpecFw h pyout else pyout == impl
      res impl ok implok p br
    | _, _ => bad "fw-args"
  | _ => bad "fw-case"

/-! ### sess -/

/-- tags of constructs whose save is known to refuse loudly (validated by the `cls` family) -/
def loudTags : List String :=
  ["Roi", "PointROI", "DaskComponent", "tag:meta-mixed-keys", "tag:unknown-subclass", "tag:catroi-undefined"]

/-- label of the first top-level / second-level section in which two snapshots differ -/
def firstDiff : Sexp → Sexp → String
  | .list as, .list bs => go as bs
  | a, b => if a == b then "eq" else "atom"
where
  go : List Sexp → List Sexp → String
    | [], [] => "eq"
    | a :: as, b :: bs => if a == b then go as bs else tagOf a
    | _, _ => "length"
  tagOf : Sexp → String
    | .list (.atom t :: _) => t
    | _ => "item"

def sectionDiff (b a : Sexp) : String :=
  match b, a with
  | .list (.list (.atom "data" :: ds) :: _), .list (.list (.atom "data" :: es) :: _) =>
    if ds == es then firstDiff b a
    else if ds.length != es.length then "data-count"
    else
      match (List.zip ds es).find? (fun p => !(p.1 == p.2)) with
      | some (d, e) => "data." ++ firstDiff d e
      | none => "data"
  | _, _ => firstDiff b a

/-- The Spec on a session observable. -/
def specSess (out : Sexp) : Bool × String :=
  match out with
  | .list [.atom "save-error"] => (true, "save-error")
  | .list [.atom "unbuildable"] => (true, "unbuildable")
  | .list [.atom "ok", b, a, a2] =>
    if !(b == a) then (false, "restore:" ++ sectionDiff b a)
    else if !(a == a2) then (false, "idempotence:" ++ sectionDiff a a2)
    else (true, "equal")
  | .list (.atom "load-error" :: _) => (false, "load-error")
  | .list (.atom "resave-error" :: _) => (false, "resave-error")
  | _ => (false, "malformed")

def sessStep (tags pyout : Sexp) : String :=
  let ts := match tags with | .list xs => xs.filterMap (fun x => match x with | Sexp.atom s => some s | _ => none) | _ => []
  let loud := ts.any (loudTags.contains ·)
  let impl : Sexp :=
    if ts.contains "tag:unbuildable" then .list [.atom "unbuildable"]
    else if loud then .list [.atom "save-error"]
    else match pyout with
      | .list [.atom "ok", b, _, _] => .list [.atom "ok", b, b, b]
      | _ => .atom "ok-expected"
  let (ok, br) := specSess pyout
  res impl ok (specSess impl).1 true br

/-! ### cls -/

def nameId (n : String) : Option Nat := Gen.names.findIdx? (· == n)

/-- classes of the table the harness knowingly does not construct (no recipe) -/
def noRecipeAllowed : List String := [
  "glue.core.subset.Subset",     -- ungrouped subsets are coerced into groups by the collection loader (legacy)
  "glue.core.subset.CompositeSubsetState",
  "glue.core.component.DaskComponent",
  "glue.core.link_helpers.BaseMultiLink",
  "glue.core.link_helpers.ManualLinkCollection",
  "glue.core.link_helpers.LinkCollection",
  "glue.core.component_link.CoordinateComponentLink",
  "glue.core.coordinates.LegacyCoordinates",
  "glue.core.data_factories.helpers.LoadLog",
  "glue.plugins.coordinate_helpers.link_helpers.BaseCelestialMultiLink",
  "glue.plugins.wcs_autolinking.wcs_autolinking.WCSLink"
]

def clsStep (caseE pyout : Sexp) : String :=
  match caseE with
  | .list [.atom name, _] =>
    let loud := declaredLoud.contains name
    let inherits : Bool := match nameId name with
      | some i => match Gen.rows.find? (·.id == i) with
        | some r => selectSaver Gen.rows r != some i
        | none => false
      | none => false
    let br := (if loud then "loud" else if inherits then "inherited" else "own")
    let isNoRecipe := pyout == .list [.atom "no-recipe"]
    let impl : Sexp :=
      if isNoRecipe then .list [.atom "no-recipe"]
      else if loud then .list [.atom "save-error"]
      else match pyout with
        | .list [.atom "rt", tb, _, bb, _] => .list [.atom "rt", tb, tb, bb, bb]
        | _ => .atom "rt-expected"
    -- the table obligation of this very class (so that a violation names the class)
    let tableOk : Bool := match nameId name with
      | some i => match Gen.rows.find? (·.id == i) with
        | some r => rowOk Gen.rows Gen.faithfulIds Gen.loudIds r
        | none => false
      | none => false
    let ok : Bool := tableOk && match pyout with
      | .list [.atom "no-recipe"] => noRecipeAllowed.contains name
      | .list [.atom "save-error"] => true       -- loud failure at save time is accepted by the property
      | .list [.atom "rt", tb, ta, bb, ba] => tb == ta && bb == ba
      | _ => false
    res impl ok true true (if isNoRecipe then "no-recipe-" ++ br else br)
  | _ => bad "cls-case"

/-! ### rec -/

section RecFamily
open GlueVerif.C02.Cls

def atomStr? : Sexp → Option String
  | .atom a => if a.startsWith "s:" then some (a.drop 2).toString else none
  | _ => none

def pv? : Sexp → Option PV
  | .list [.atom "lit", n] => n.toInt?.map .lit
  | .list (.atom "str" :: cs) => (cs.mapM toNat?).map fun ns => .str (ns.map Char.ofNat)
  | .list [.atom "obj", k] => k.toNat?.map .obj
  | _ => none

def pvSexp : PV → Sexp
  | .lit n => .list [.atom "lit", ofInt n]
  | .str s => .list (.atom "str" :: s.map fun c => ofNat c.toNat)
  | .obj o => .list [.atom "obj", ofNat o]

def lit? : Sexp → Option Lit
  | .list [.atom "lit", n] => n.toInt?
  | _ => none

def litSexp (n : Lit) : Sexp := .list [.atom "lit", ofInt n]

def objId? : Sexp → Option Nat
  | .list [.atom "obj", k] => k.toNat?
  | _ => none

def objSexp (o : Nat) : Sexp := .list [.atom "obj", ofNat o]

def pvs? : Sexp → Option (List PV)
  | .list (.atom "list" :: xs) => xs.mapM pv?
  | _ => none

def pvsSexp (l : List PV) : Sexp := .list (.atom "list" :: l.map pvSexp)

def pairs? : Sexp → Option (List (PV × PV))
  | .list (.atom "list" :: xs) => xs.mapM fun e => match e with
    | .list [.atom "list", a, b] => do some (← pv? a, ← pv? b)
    | _ => none
  | _ => none

def pairsSexp (l : List (PV × PV)) : Sexp :=
  .list (.atom "list" :: l.map fun p => .list [.atom "list", pvSexp p.1, pvSexp p.2])

def str? : Sexp → Option Str
  | .list (.atom "str" :: cs) => (cs.mapM toNat?).map fun ns => ns.map Char.ofNat
  | _ => none

def strSexp (s : Str) : Sexp := .list (.atom "str" :: s.map fun c => ofNat c.toNat)

partial def jv? : Sexp → Option JV
  | .list [.atom "lit", n] => n.toInt?.map .lit
  | .list (.atom "str" :: cs) => (cs.mapM toNat?).map fun ns => .str (ns.map Char.ofNat)
  | .list [.atom "name", k] => k.toNat?.map .name
  | .list [.atom "inl", k] => k.toNat?.map .inl
  | .list (.atom "list" :: xs) => (xs.mapM jv?).map .list
  | _ => none

partial def jvSexp : JV → Sexp
  | .lit n => .list [.atom "lit", ofInt n]
  | .str s => .list (.atom "str" :: s.map fun c => ofNat c.toNat)
  | .name o => .list [.atom "name", ofNat o]
  | .inl o => .list [.atom "inl", ofNat o]
  | .list xs => .list (.atom "list" :: xs.map jvSexp)

def rec? : Sexp → Option Rec
  | .list es => es.mapM fun e => match e with
    | .list [k, v] => do some (← atomStr? k, ← jv? v)
    | _ => none
  | _ => none

def recSexp (r : Rec) : Sexp := .list (r.map fun kv => .list [.atom ("s:" ++ kv.1), jvSexp kv.2])

def tagOfName (n : String) : Option Tag := Tag.all.find? fun t => t.name == n

/-- the typed object from the field values the harness read off the python object -/
def bodyOf (t : Tag) (xs : List Sexp) : Option Body :=
  match t, xs with
  | .RectangularROI, [a, b, c, d, e] => do some (.rect ⟨← lit? a, ← lit? b, ← lit? c, ← lit? d, ← lit? e⟩)
  | .RangeROI, [o, a, b] => do some (.range ⟨← Ori.ofSym (← str? o), ← lit? a, ← lit? b⟩)
  | .XRangeROI, [a, b] => do some (.xrange ⟨← lit? a, ← lit? b⟩)
  | .YRangeROI, [a, b] => do some (.yrange ⟨← lit? a, ← lit? b⟩)
  | .CircularROI, [a, b, c] => do some (.circ ⟨← lit? a, ← lit? b, ← lit? c⟩)
  | .CircularAnnulusROI, [a, b, c, d] => do some (.annulus ⟨← lit? a, ← lit? b, ← lit? c, ← lit? d⟩)
  | .EllipticalROI, [a, b, c, d, e] => do some (.ellipse ⟨← lit? a, ← lit? b, ← lit? c, ← lit? d, ← lit? e⟩)
  | .PolygonalROI, [a, b] => do some (.polygon ⟨← objId? a, ← objId? b⟩)
  | .Path, [a, b] => do some (.path ⟨← objId? a, ← objId? b⟩)
  | .CategoricalROI, [a] => do some (.catRoi ⟨← lit? a⟩)
  | .Projected3dROI, [a, b] => do some (.proj3d ⟨← pv? a, ← lit? b⟩)
  | .SubsetState, [] => some .baseState
  | .RangeSubsetState, [a, b, c] => do some (.rangeSt ⟨← pv? a, ← pv? b, ← pv? c⟩)
  | .MultiRangeSubsetState, [a, b] => do some (.multiRange ⟨← pairs? a, ← pv? b⟩)
  | .InequalitySubsetState, [a, b, c] => do some (.ineq ⟨← pv? a, ← pv? b, ← Op.ofSym (← str? c)⟩)
  | .CategorySubsetState, [a, b] => do some (.category ⟨← pv? a, ← pv? b⟩)
  | .ElementSubsetState, [a, b] => do
      let u ← match lit? b, str? b with
        | some n, _ => if n = litNone then some none else none
        | _, some s => some (some s)
        | _, _ => none
      some (.element ⟨← pv? a, u⟩)
  | .SliceSubsetState, [a, b] => do some (.sliceSt ⟨← pv? a, ← pv? b⟩)
  | .MaskSubsetState, [a, b] => do some (.mask ⟨← pvs? a, ← pv? b⟩)
  | .RoiSubsetState, [a, b, c, d] => do some (.roiSt ⟨← pv? a, ← pv? b, ← pv? c, ← pv? d⟩)
  | .RoiSubsetStateNd, [a, b, c] => do some (.roiNd ⟨← pvs? a, ← pv? b, ← pv? c⟩)
  | .RoiSubsetState3d, [a, b, c, d, e] => do some (.roi3d ⟨← pv? a, ← pv? b, ← pv? c, ← pv? d, ← pv? e⟩)
  | .CategoricalROISubsetState, [a, b] => do some (.catRoiSt ⟨← pv? a, ← pv? b⟩)
  | .CategoricalROISubsetState2D, [a, b, c] => do some (.catRoi2d ⟨← lit? a, ← pv? b, ← pv? c⟩)
  | .CategoricalMultiRangeSubsetState, [a, b, c] => do some (.catMultiRange ⟨← lit? a, ← pv? b, ← pv? c⟩)
  | .AndState, [a, b] => do some (.composite ⟨.and_, ← pv? a, ← pv? b⟩)
  | .OrState, [a, b] => do some (.composite ⟨.or_, ← pv? a, ← pv? b⟩)
  | .XorState, [a, b] => do some (.composite ⟨.xor, ← pv? a, ← pv? b⟩)
  | .InvertState, [a, b] => do some (.composite ⟨.invert, ← pv? a, ← pv? b⟩)
  | .MultiOrState, [a] => do some (.multiOr ⟨← pvs? a⟩)
  | .FloodFillSubsetState, [a, b, c] => do some (.floodFill ⟨← pv? a, ← lit? b, ← lit? c⟩)
  | .AffineCoordinates, [a, b, c] => do some (.affine ⟨← pv? a, ← lit? b, ← lit? c⟩)
  | .IdentityCoordinates, [a] => do some (.identityCoords ⟨← lit? a⟩)
  | .Coordinates, [] => some .baseCoords
  | .LinkCollection, [a, b, c, d] => do some (.linkColl ⟨← pv? a, ← pv? b, ← pv? c, ← pv? d⟩)
  | .MultiLink, [a, b, c, d, f, g, l1, l2] => do
      some (.multiLink ⟨⟨← pv? a, ← pv? b, ← pv? c, ← pv? d⟩, ← pv? f, ← pv? g, ← lit? l1, ← lit? l2⟩)
  | .LinkSame, [a, b] => do some (.linkSame ⟨← pv? a, ← pv? b⟩)
  | .LinkSameWithUnits, [a, b] => do some (.linkUnits ⟨← pv? a, ← pv? b⟩)
  | .LinkTwoWay, [a, b, c, d] => do some (.linkTwoWay ⟨← pv? a, ← pv? b, ← pv? c, ← pv? d⟩)
  | .LinkAligned, [a, b] => do some (.linkAligned ⟨← pv? a, ← pv? b⟩)
  | .PartialResult, [a, b] => do some (.partialResult ⟨← pv? a, ← lit? b⟩)
  | .slice, [a, b, c] => do some (.pySlice ⟨← lit? a, ← lit? b, ← lit? c⟩)
  | .tuple, [a] => do some (.pyTuple ⟨← pvs? a⟩)
  | .list, [a] => do some (.pyList ⟨← pvs? a⟩)
  | _, _ => none

/-- the field values of a typed object, in the harness's order -/
def fieldsOf : Body → List Sexp
  | .rect f => [litSexp f.xmin, litSexp f.xmax, litSexp f.ymin, litSexp f.ymax, litSexp f.theta]
  | .range f => [strSexp f.ori.sym, litSexp f.min, litSexp f.max]
  | .xrange f => [litSexp f.min, litSexp f.max]
  | .yrange f => [litSexp f.min, litSexp f.max]
  | .circ f => [litSexp f.xc, litSexp f.yc, litSexp f.radius]
  | .annulus f => [litSexp f.xc, litSexp f.yc, litSexp f.inner, litSexp f.outer]
  | .ellipse f => [litSexp f.xc, litSexp f.yc, litSexp f.rx, litSexp f.ry, litSexp f.theta]
  | .polygon f => [objSexp f.vx, objSexp f.vy]
  | .path f => [objSexp f.vx, objSexp f.vy]
  | .catRoi f => [litSexp f.categories]
  | .proj3d f => [pvSexp f.roi2d, litSexp f.matrix]
  | .baseState => []
  | .rangeSt f => [pvSexp f.lo, pvSexp f.hi, pvSexp f.att]
  | .multiRange f => [pairsSexp f.pairs, pvSexp f.att]
  | .ineq f => [pvSexp f.left, pvSexp f.right, strSexp f.op.sym]
  | .category f => [pvSexp f.att, pvSexp f.vals]
  | .element f => [pvSexp f.indices, match f.uuid with | none => litSexp litNone | some s => strSexp s]
  | .sliceSt f => [pvSexp f.slices, pvSexp f.refData]
  | .mask f => [pvsSexp f.cids, pvSexp f.mask]
  | .roiSt f => [pvSexp f.xatt, pvSexp f.yatt, pvSexp f.roi, pvSexp f.pretransform]
  | .roiNd f => [pvsSexp f.atts, pvSexp f.roi, pvSexp f.pretransform]
  | .roi3d f => [pvSexp f.xatt, pvSexp f.yatt, pvSexp f.zatt, pvSexp f.roi, pvSexp f.pretransform]
  | .catRoiSt f => [pvSexp f.att, pvSexp f.roi]
  | .catRoi2d f => [litSexp f.categories, pvSexp f.att1, pvSexp f.att2]
  | .catMultiRange f => [litSexp f.ranges, pvSexp f.catAtt, pvSexp f.numAtt]
  | .composite f => [pvSexp f.state1, pvSexp f.state2]
  | .multiOr f => [pvsSexp f.states]
  | .floodFill f => [pvSexp f.att, litSexp f.startCoords, litSexp f.threshold]
  | .affine f => [pvSexp f.matrix, litSexp f.labels, litSexp f.units]
  | .identityCoords f => [litSexp f.ndim]
  | .baseCoords => []
  | .linkColl f => [pvSexp f.data1, pvSexp f.data2, pvSexp f.cids1, pvSexp f.cids2]
  | .multiLink f => [pvSexp f.coll.data1, pvSexp f.coll.data2, pvSexp f.coll.cids1, pvSexp f.coll.cids2,
      pvSexp f.forwards, pvSexp f.backwards, litSexp f.labels1, litSexp f.labels2]
  | .linkSame f => [pvSexp f.cid1, pvSexp f.cid2]
  | .linkUnits f => [pvSexp f.cid1, pvSexp f.cid2]
  | .linkTwoWay f => [pvSexp f.cid1, pvSexp f.cid2, pvSexp f.forwards, pvSexp f.backwards]
  | .linkAligned f => [pvSexp f.data1, pvSexp f.data2]
  | .partialResult f => [pvSexp f.func, litSexp f.index]
  | .pySlice f => [litSexp f.start, litSexp f.stop, litSexp f.step]
  | .pyTuple f => [pvsSexp f.items]
  | .pyList f => [pvsSexp f.items]

/-- One observed object `(tag x (type R) y)`: the model's prediction of the observation (the saver returns
`encode x` under the class's own `_type`, the restored fields are `x`) and the Spec verdict on the python
observation — `R = encode x`, `decode R = y`, `y = x`. -/
def recInst (inst : Sexp) : Sexp × Bool × Bool :=
  match inst with
  | .list [tagE, .list xs, .list [typE, rE], yE] =>
    match (atomStr? tagE).bind tagOfName with
    | none => (.list [tagE, .atom "unknown-class"], false, false)
    | some t =>
      match bodyOf t xs with
      | none => (.list [tagE, .atom "bad-fields"], false, false)
      | some b =>
        let enc := b.encode
        let impl := Sexp.list [tagE, .list xs, .list [.atom ("s:" ++ enc.typ.name), recSexp enc.dict], .list xs]
        -- Spec on the model's own prediction: the transcribed loader rebuilds the fields
        let implok := match Body.decode enc with
          | some b' => fieldsOf b' == xs
          | none => false
        -- Spec on the python observation
        let typOk := typE == .atom ("s:" ++ t.name)
        let encOk := rE == recSexp enc.dict
        let decOk := match rec? rE with
          | some r => match Body.decode { typ := t, dict := r } with
            | some b' => Sexp.list (fieldsOf b') == yE
            | none => false
          | none => false
        let idOk := yE == Sexp.list xs
        (impl, typOk && encOk && decOk && idOk, implok)
  | other => (other, false, false)

def recStep (pyout : Sexp) : String :=
  match pyout with
  | .list (.atom "ok" :: insts) =>
    let rs := insts.map recInst
    let impl := Sexp.list (.atom "ok" :: rs.map (·.1))
    let ok := rs.all (·.2.1)
    let implok := rs.all (·.2.2)
    res impl ok implok true ("insts-" ++ toString (min insts.length 9))
  | .list [.atom "save-error"] => res pyout true true true "save-error"
  | .list [.atom "unbuildable"] => res pyout true true true "unbuildable"
  | other => res (.atom "ok-expected") false true true (match other with | .list (.atom a :: _) => a | _ => "malformed")

end RecFamily

def step (line : String) : String :=
  match Sexp.parse line with
  | some (.list [.atom "fw", c, py]) => fwStep c py
  | some (.list [.atom "sess", c, py]) => sessStep c py
  | some (.list [.atom "cls", c, py]) => clsStep c py
  | some (.list [.atom "rec", _, py]) => recStep py
  | _ => bad "unknown-family"

def main : IO Unit := driverLoop step
