import GlueVerif.Sexp
import GlueVerif.Model.C02Serial
import GlueVerif.Generated.C02Registry
/-! Line-protocol driver for C02 (session round trip).

families
  (fw   (main heap) pyout)      synthetic graphs through the real GlueSerializer / GlueUnSerializer
  (sess (tags…) pyout)          real sessions: canonical snapshots before / after / after the 2nd trip
  (cls  (name expect) pyout)    one class of the generated table: restored type and behaviour
-/
open GlueVerif GlueVerif.Sexp GlueVerif.C02

def res (impl : Sexp) (ok implok p : Bool) (br : String) : String := driverResult impl ok implok p br
def bad (msg : String) : String := driverError msg

/-! ### fw -/

def codesToStr? (e : Sexp) : Option Str := do
  let ns ← e.toNats?
  some (ns.map Char.ofNat)

def strToCodes (s : Str) : Sexp := .list (s.map fun c => ofNat c.toNat)

def phase? : Sexp → Option Phase
  | .atom "e" => some .early
  | .atom "l" => some .late
  | .atom "c" => some .cb
  | _ => none

def field? : Sexp → Option Field
  | .list [ph, .atom "lit", n] => do some ⟨← phase? ph, .lit (← n.toInt?)⟩
  | .list [ph, .atom "str", s] => do some ⟨← phase? ph, .str (← codesToStr? s)⟩
  | .list [ph, .atom "ref", n] => do some ⟨← phase? ph, .ref (← n.toNat?)⟩
  | .list [ph, .atom "own", n] => do some ⟨← phase? ph, .own (← n.toNat?)⟩
  | _ => none

/-- name of the harness node class of an unlabelled node (its `type(obj).__name__`) -/
def nodeClassName (fs : List Field) : Str :=
  let g := fs.any (fun f => f.phase == .late)
  let c := fs.any (fun f => f.phase == .cb)
  ['N'] ++ (if g then ['g'] else ['p']) ++ (if c then ['c'] else [])

def obj? : Sexp → Option Obj
  | .list [cls, lab, .list fs] => do
    let fields ← fs.mapM field?
    let label ← match lab with
      | .atom "N" => some (nodeClassName fields)
      | l => codesToStr? l
    some { cls := ← cls.toNat?, label := label, fields := fields }
  | _ => none

def heap? : Sexp → Option Heap
  | .list os => os.mapM obj?
  | _ => none

def posOf (names : List Str) (n : Str) : Nat := (names.findIdx? (· == n)).getD names.length

/-- tokens → nested S-expression; returns the rest of the token stream -/
partial def tokToSexp (names : List Str) : List C02.Tok → Sexp × List C02.Tok
  | [] => (.atom "anon", [])
  | .lit n :: r => (.list [.atom "l", ofInt n], r)
  | .str s :: r => (.list (.atom "s" :: s.map fun c => ofNat c.toNat), r)
  | .ref n :: r => (.list [.atom "r", ofNat (posOf names n)], r)
  | .pending :: r => (.atom "pending", r)
  | .anon :: r => (.atom "anon", r)
  | .opn c k :: r =>
    let (fs, rest) := (List.range k).foldl (fun (acc : List Sexp × List C02.Tok) _ =>
      let (e, r') := tokToSexp names acc.2; (acc.1 ++ [e], r')) ([], r)
    (.list [.atom "o", ofNat c, .list fs], rest)

/-- a top-level view entry is printed as `(cls (fields…))` -/
def viewToSexp (names : List Str) (v : View) : Sexp :=
  .list (v.map fun e => match (tokToSexp names e.2).1 with
    | .list [.atom "o", c, fs] => .list [c, fs]
    | _ => .atom "missing")

def tableSexp (reg : Reg) : Sexp := .list (reg.map fun e => .list [strToCodes e.2, ofNat e.1])

def sErrAtom : SErr → String
  | .circular => "circular" | .dangling => "dangling" | .fuel => "fuel"

def lErrAtom : LErr → String
  | .circular => "circular" | .unrecognized => "unrecognized" | .malformed => "malformed" | .fuel => "fuel"

partial def sexpToToks? (names : List Str) : Sexp → Option (List C02.Tok)
  | .atom "pending" => some [.pending]
  | .atom "anon" => some [.anon]
  | .list [.atom "l", n] => n.toInt?.map fun i => [.lit i]
  | .list (.atom "s" :: cs) => (cs.mapM toNat?).map fun ns => [.str (ns.map Char.ofNat)]
  | .list [.atom "r", k] => do let i ← k.toNat?; some [.ref (names.getD i [])]
  | .list [.atom "o", c, .list fs] => do
      let parts ← fs.mapM (sexpToToks? names)
      some (.opn (← c.toNat?) fs.length :: parts.flatten)
  | _ => none

def sexpToView? (names : List Str) : Sexp → Option View
  | .list es => (List.zip names es).mapM fun (n, e) =>
      match e with
      | .atom "missing" => some (n, [.anon])
      | .list [c, .list fs] => do
          let parts ← fs.mapM (sexpToToks? names)
          some (n, .opn (← c.toNat?) fs.length :: parts.flatten)
      | _ => none
  | _ => none

/-- Hypothesis of the proved round-trip theorems (`roundtrip_framework_cycles` ∨ `roundtrip_framework_callbacks`;
`roundtrip_framework` is a special case of the former), as evaluated on a case. -/
def inP (h : Heap) (main : Nat) : Bool :=
  wellFormed h main && inlineForestBy (ownHeight h (h.length + 1)) h main &&
    ((noCb h && lateCyclesBy (candidateRank h) h) ||
     (noGenCb h && mainPlain h main && cyclesBy (candidateRank h) h && coveredBy (candidateDist h main) h main))

/-- The strict Spec on an observable of the `fw` family: the trip succeeded, and by name every object
has the class and fields that were saved; distinct names are distinct objects. -/
def strictSpecFw (h : Heap) (out : Sexp) : Bool :=
  match out with
  | .list [.atom "ok", .list tbl, nd, view, _] =>
    let reg? : Option Reg := tbl.mapM fun e => match e with
      | .list [cs, i] => do some (← i.toNat?, ← codesToStr? cs)
      | _ => none
    match reg?, nd.toNat? with
    | some reg, some d =>
      let names := reg.map (·.2)
      match sexpToView? names view with
      | some v => d == reg.length && decide (v = viewBefore h reg) && names.eraseDups.length == names.length
      | none => false
    | _, _ => false
  | _ => false

def fwStep (caseE pyout : Sexp) : String :=
  match caseE with
  | .list [mainE, heapE] =>
    match mainE.toNat?, heap? heapE with
    | some main, some h =>
      let p := inP h main
      let (impl, br) : Sexp × String :=
        match serialize h main with
        | .error e => (.list [.atom "save-error", .atom (sErrAtom e)], "save-" ++ sErrAtom e)
        | .ok (st, tbl) =>
          match unserialize tbl 400 with
          | (_, .error e) => (.list [.atom "load-error", .atom (lErrAtom e), tableSexp st.reg], "load-" ++ lErrAtom e)
          | (ls, .ok _) =>
            let names := st.reg.map (·.2)
            let nd := ((st.reg.filterMap fun e => lookupMemo ls.memo e.2).eraseDups).length
            (.list [.atom "ok", tableSexp st.reg, ofNat nd, viewToSexp names (viewAfter st.reg ls), ofNat ls.callbacks.length],
              if specRoundTrip h st.reg ls then (if p then "iso-inP" else "iso-outside") else "not-iso")
      let implok := strictSpecFw h impl
      let ok := if p then strictSpecFw h pyout else pyout == impl
      res impl ok implok p br
    | _, _ => bad "fw-args"
  | _ => bad "fw-case"

/-! ### sess -/

/-- tags of constructs whose save is known to refuse loudly (validated by the `cls` family) -/
def loudTags : List String :=
  ["Roi", "PointROI", "DaskComponent", "tag:meta-mixed-keys", "tag:unknown-subclass", "tag:catroi-undefined"]

/-- label of the first top-level / second-level section in which two snapshots differ -/
def firstDiff : Sexp → Sexp → String
  | .list as, .list bs => go as bs
  | a, b => if a == b then "eq" else "atom"
where
  go : List Sexp → List Sexp → String
    | [], [] => "eq"
    | a :: as, b :: bs => if a == b then go as bs else tagOf a
    | _, _ => "length"
  tagOf : Sexp → String
    | .list (.atom t :: _) => t
    | _ => "item"

def sectionDiff (b a : Sexp) : String :=
  match b, a with
  | .list (.list (.atom "data" :: ds) :: _), .list (.list (.atom "data" :: es) :: _) =>
    if ds == es then firstDiff b a
    else if ds.length != es.length then "data-count"
    else
      match (List.zip ds es).find? (fun p => !(p.1 == p.2)) with
      | some (d, e) => "data." ++ firstDiff d e
      | none => "data"
  | _, _ => firstDiff b a

/-- The Spec on a session observable. -/
def specSess (out : Sexp) : Bool × String :=
  match out with
  | .list [.atom "save-error"] => (true, "save-error")
  | .list [.atom "unbuildable"] => (true, "unbuildable")
  | .list [.atom "ok", b, a, a2] =>
    if !(b == a) then (false, "restore:" ++ sectionDiff b a)
    else if !(a == a2) then (false, "idempotence:" ++ sectionDiff a a2)
    else (true, "equal")
  | .list (.atom "load-error" :: _) => (false, "load-error")
  | .list (.atom "resave-error" :: _) => (false, "resave-error")
  | _ => (false, "malformed")

def sessStep (tags pyout : Sexp) : String :=
  let ts := match tags with | .list xs => xs.filterMap (fun x => match x with | Sexp.atom s => some s | _ => none) | _ => []
  let loud := ts.any (loudTags.contains ·)
  let impl : Sexp :=
    if ts.contains "tag:unbuildable" then .list [.atom "unbuildable"]
    else if loud then .list [.atom "save-error"]
    else match pyout with
      | .list [.atom "ok", b, _, _] => .list [.atom "ok", b, b, b]
      | _ => .atom "ok-expected"
  let (ok, br) := specSess pyout
  res impl ok (specSess impl).1 true br

/-! ### cls -/

def nameId (n : String) : Option Nat := Gen.names.findIdx? (· == n)

/-- classes of the table the harness knowingly does not construct (no recipe) -/
def noRecipeAllowed : List String := [
  "glue.core.subset.Subset",     -- ungrouped subsets are coerced into groups by the collection loader (legacy)
  "glue.core.subset.CompositeSubsetState",
  "glue.core.component.DaskComponent",
  "glue.core.link_helpers.BaseMultiLink",
  "glue.core.link_helpers.ManualLinkCollection",
  "glue.core.link_helpers.LinkCollection",
  "glue.core.component_link.CoordinateComponentLink",
  "glue.core.coordinates.LegacyCoordinates",
  "glue.core.data_factories.helpers.LoadLog",
  "glue.plugins.coordinate_helpers.link_helpers.BaseCelestialMultiLink",
  "glue.plugins.wcs_autolinking.wcs_autolinking.WCSLink"
]

def clsStep (caseE pyout : Sexp) : String :=
  match caseE with
  | .list [.atom name, _] =>
    let loud := declaredLoud.contains name
    let inherits : Bool := match nameId name with
      | some i => match Gen.rows.find? (·.id == i) with
        | some r => selectSaver Gen.rows r != some i
        | none => false
      | none => false
    let br := (if loud then "loud" else if inherits then "inherited" else "own")
    let isNoRecipe := pyout == .list [.atom "no-recipe"]
    let impl : Sexp :=
      if isNoRecipe then .list [.atom "no-recipe"]
      else if loud then .list [.atom "save-error"]
      else match pyout with
        | .list [.atom "rt", tb, _, bb, _] => .list [.atom "rt", tb, tb, bb, bb]
        | _ => .atom "rt-expected"
    -- the table obligation of this very class (so that a violation names the class)
    let tableOk : Bool := match nameId name with
      | some i => match Gen.rows.find? (·.id == i) with
        | some r => rowOk Gen.rows Gen.faithfulIds Gen.loudIds r
        | none => false
      | none => false
    let ok : Bool := tableOk && match pyout with
      | .list [.atom "no-recipe"] => noRecipeAllowed.contains name
      | .list [.atom "save-error"] => true       -- loud failure at save time is accepted by the property
      | .list [.atom "rt", tb, ta, bb, ba] => tb == ta && bb == ba
      | _ => false
    res impl ok true true (if isNoRecipe then "no-recipe-" ++ br else br)
  | _ => bad "cls-case"

def step (line : String) : String :=
  match Sexp.parse line with
  | some (.list [.atom "fw", c, py]) => fwStep c py
  | some (.list [.atom "sess", c, py]) => sessStep c py
  | some (.list [.atom "cls", c, py]) => clsStep c py
  | _ => bad "unknown-family"

def main : IO Unit := driverLoop step
