import GlueVerif.Sexp
import GlueVerif.Model.Geometry
/-! Line-protocol driver for C08 (region containment, move / rotate / copy / save-restore). -/
open GlueVerif GlueVerif.Sexp GlueVerif.Geometry

def bad (msg : String) : String := driverError msg

/-! ### decoding -/

def num? : Sexp → Option Rat
  | .list [.atom "q", n, d] => do
    let n ← n.toInt?
    let d ← d.toNat?
    if d = 0 then none else some (mkRat n d)
  | e => e.toInt?.map fun (i : Int) => (i : Rat)

/-- coordinate: number, or `nan` / `inf` / `-inf` (all non-finite → `none`). -/
def coord? : Sexp → Option (Option Rat)
  | .atom "nan" => some none
  | .atom "inf" => some none
  | .atom "-inf" => some none
  | e => (num? e).map some

def ofRat (q : Rat) : Sexp := .list [.atom "q", ofInt q.num, ofNat q.den]

def pt? : Sexp → Option Pt
  | .list [x, y] => do some (← num? x, ← num? y)
  | _ => none

def roi? : Sexp → Option Roi
  | .list [.atom "rect", a, b, c, d, cc, ss, _k] => do
    some (.rect ⟨← num? a, ← num? b, ← num? c, ← num? d, ← num? cc, ← num? ss⟩)
  | .list [.atom "circle", a, b, r] => do some (.circle ⟨← num? a, ← num? b, ← num? r⟩)
  | .list [.atom "ellipse", a, b, rx, ry, cc, ss, _k] => do
    some (.ellipse ⟨← num? a, ← num? b, ← num? rx, ← num? ry, ← num? cc, ← num? ss⟩)
  | .list [.atom "annulus", a, b, ri, ro] => do some (.annulus ⟨← num? a, ← num? b, ← num? ri, ← num? ro⟩)
  | .list [.atom "range", .atom o, lo, hi] => do
    if o == "x" then some (.range ⟨true, ← num? lo, ← num? hi⟩)
    else if o == "y" then some (.range ⟨false, ← num? lo, ← num? hi⟩) else none
  | .list (.atom "poly" :: vs) => do some (.poly { vs := ← vs.mapM pt? })
  | .list [.atom "undef", _] => some .undefined
  | _ => none

def op? : Sexp → Option Op
  | .list [.atom "move", x, y] => do some (.move (← num? x, ← num? y))
  | .list [.atom "rot", c, s, _k] => do some (.rotate (← num? c) (← num? s))
  | .atom "copy" => some .copy
  | .atom "fork" => some .copy
  | .atom "rt" => some .roundtrip
  | .list [.atom "def", _viaReset, r] => do some (.define (← roi? r))
  | .list [.atom "add", x, y] => do some (.addPoint (← num? x, ← num? y))
  | .list [.atom "repl", x, y] => do some (.replaceLast (← num? x, ← num? y))
  | .list [.atom "rem", x, y] => do some (.removePoint (← num? x, ← num? y))
  | .list [.atom "forkadd", x, y] => do some (.forkEdit false .add (← num? x, ← num? y))
  | .list [.atom "forkrepl", x, y] => do some (.forkEdit false .replaceLast (← num? x, ← num? y))
  | .list [.atom "forkrem", x, y] => do some (.forkEdit false .remove (← num? x, ← num? y))
  | .list [.atom "cadd", x, y] => do some (.forkEdit true .add (← num? x, ← num? y))
  | .list [.atom "crepl", x, y] => do some (.forkEdit true .replaceLast (← num? x, ← num? y))
  | .list [.atom "crem", x, y] => do some (.forkEdit true .remove (← num? x, ← num? y))
  | _ => none

/-- `(pts shape (x y) …)`, `(grid x0 dx nx y0 dy ny)` or `(rep k <pts>)` (the point set repeated
`k` times along a new leading axis) → (shape, points in C order). -/
partial def pts? : Sexp → Option (List Nat × List PtO)
  | .list [.atom "rep", k, inner] => do
    let k ← k.toNat?
    let (sh, ps) ← pts? inner
    some (k :: sh, (List.replicate k ps).flatten)
  | .list (.atom "pts" :: sh :: ps) => do
    let sh ← sh.toNats?
    let ps ← ps.mapM fun e => match e with
      | .list [x, y] => do some (← coord? x, ← coord? y)
      | _ => none
    some (sh, ps)
  | .list [.atom "grid", x0, dx, nx, y0, dy, ny] => do
    let x0 ← num? x0; let dx ← num? dx; let nx ← nx.toNat?
    let y0 ← num? y0; let dy ← num? dy; let ny ← ny.toNat?
    let xs := (List.range nx).map fun (i : Nat) => x0 + (i : Rat) * dx
    let ps := (List.range ny).flatMap fun (j : Nat) =>
      let y := y0 + (j : Rat) * dy
      xs.map fun x => ((some x, some y) : PtO)
    some ([ny, nx], ps)
  | _ => none

abbrev Pt3O := Option Rat × Option Rat × Option Rat

def pts3? : Sexp → Option (List Nat × List Pt3O)
  | .list (.atom "pts3" :: sh :: ps) => do
    let sh ← sh.toNats?
    let ps ← ps.mapM fun e => match e with
      | .list [x, y, z] => do some (← coord? x, ← coord? y, ← coord? z)
      | _ => none
    some (sh, ps)
  | .list [.atom "grid3", x0, dx, nx, y0, dy, ny, z0, dz, nz] => do
    let x0 ← num? x0; let dx ← num? dx; let nx ← nx.toNat?
    let y0 ← num? y0; let dy ← num? dy; let ny ← ny.toNat?
    let z0 ← num? z0; let dz ← num? dz; let nz ← nz.toNat?
    let xs := (List.range nx).map fun (i : Nat) => x0 + (i : Rat) * dx
    let ps := (List.range nz).flatMap fun (k : Nat) =>
      let z := z0 + (k : Rat) * dz
      (List.range ny).flatMap fun (j : Nat) =>
        let y := y0 + (j : Rat) * dy
        xs.map fun x => ((some x, some y, some z) : Pt3O)
    some ([nz, ny, nx], ps)
  | _ => none

/-- `b0110…` → bits. -/
def bits? : Sexp → Option (List Bool)
  | .atom s =>
    match s.toList with
    | 'b' :: cs => cs.mapM fun c => if c == '1' then some true else if c == '0' then some false else none
    | _ => none
  | _ => none

def ofBits (bs : List Bool) : Sexp := .atom (String.ofList ('b' :: bs.map fun b => if b then '1' else '0'))

def bandBucket (n : Nat) : String :=
  if n = 0 then "band0" else if n < 10 then "band1-9" else if n < 100 then "band10-99" else "band100+"

def roiKind : Roi → String
  | .rect r => match branchOf r.c r.s with
    | .axis => if r.s == 0 then "rect-axis" else "rect-axis-tilt"
    | .quarter => if r.c == 0 then "rect-quarter" else "rect-quarter-tilt"
    | .general => "rect-general"
  | .circle _ => "circle"
  | .ellipse e => match branchOf e.c e.s with
    | .axis => if e.s == 0 then "ell-axis" else "ell-axis-tilt"
    | .quarter => if e.c == 0 then "ell-quarter" else "ell-quarter-tilt"
    | .general => "ell-general"
  | .annulus _ => "annulus"
  | .range _ => "range"
  | .poly _ => "poly"
  | .undefined => "undefined"

def isUnit (c s : Rat) : Bool := c * c + s * s == 1

/-- Is the region inside the hypotheses of the `*_branches_agree` theorems for band `ε`? -/
def inHyp (roi : Roi) (ε : Rat) : Bool :=
  decide (0 ≤ ε) &&
  match roi with
  | .rect r => isUnit r.c r.s && decide (r.branchTol ≤ ε)
  | .ellipse e => isUnit e.c e.s && decide (0 < e.rx) && decide (0 < e.ry) && decide (e.branchTol ≤ ε)
  | .poly g => decide (3 ≤ g.vs.length)
  | _ => true

/-- `OpOk` / `OpsOk` of `Lemmas/GeometryOps.lean` as executable checks. -/
def opOkB (cur : Roi) : Op → Bool
  | .rotate c s => isUnit c s &&
      (match cur with
       | .poly g => !closeFull (c * g.c + s * g.s) (s * g.c - c * g.s) ||
           (c * g.c + s * g.s == 1 && s * g.c - c * g.s == 0)
       | _ => true)
  | .define new => new.defined && (match cur, new with
       | .rect _, .rect _ | .circle _, .circle _ | .ellipse _, .ellipse _ | .annulus _, .annulus _
       | .poly _, .poly _ => true
       | .range a, .range b => a.isX == b.isX
       | _, _ => false)
  | .removePoint _ => (match cur with | .poly g => decide (2 ≤ g.vs.length) | _ => true)
  | _ => true

def opsOkB : Roi → List Op → Bool
  | _, [] => true
  | cur, op :: rest => opOkB cur op && opsOkB (Impl.applyOp cur op) rest

/-- Three-way comparison on a list of points.
`implF`/`specF`/`nearF` per point; `py` the implementation's bits.
Returns (impl bits with band echo, ok, implok, number of band points). -/
def compareBits {α : Type} (ps : List α) (py : List Bool) (implF specF nearF : α → Bool) (exact : Bool) :
    List Bool × Bool × Bool × Nat :=
  let rows := ps.zip py
  let step := fun (acc : List Bool × Bool × Bool × Nat) (row : α × Bool) =>
    let (out, ok, implok, nb) := acc
    let (p, b) := row
    let nr := nearF p
    let im := implF p
    let sp := specF p
    let shown := if nr && !exact then b else im
    (shown :: out, ok && (nr || b == sp), implok && (nr || im == sp), if nr then nb + 1 else nb)
  let (out, ok, implok, nb) := rows.foldl step ([], true, true, 0)
  (out.reverse, ok && py.length == ps.length, implok, nb)

def absDiffLe (a b t : Rat) : Bool := decide (a - b ≤ t) && decide (b - a ≤ t)

/-- centre observable: `((q..) (q..))`, entries may be `nan`. -/
def centre? : Sexp → Option (Option Rat × Option Rat)
  | .list [x, y] => do some (← coord? x, ← coord? y)
  | _ => none

def ofCentre (c : Pt) : Sexp := .list [ofRat c.1, ofRat c.2]

def prodNat (xs : List Nat) : Nat := xs.foldl (· * ·) 1

def rabs (x : Rat) : Rat := if x < 0 then -x else x

/-! ### the boundary band: the region's own scale and a bound for the double-precision rounding error

Implementation (IEEE doubles) and model (exact rationals) can only differ at points whose distance to the
boundary is below the rounding error of the coded formula.  Every coded test is a short chain
(≤ 12 operations: `xmin + width/2`, `p − c`, a 2×2 rotation with `cos`/`sin` of a double angle that is
itself within 2 ulp of the exact one, squares, one division, `xc ± radius`, corner = `R·d + c`) whose
intermediate results are bounded by `|centre|∞ + |p|∞ + size`; with unit round-off `u = 2⁻⁵³` the accumulated
absolute error is below `512·u·(|centre|∞ + |p|∞ + size) = 2⁻⁴⁴·(…)` (angles are < 2⁵ in absolute value, so the
angle error `2⁻⁴⁸` moves a point of the region by < `2⁻⁴⁷·size`).  The band is therefore *relative to the
region's own size and position* — never an absolute constant: honest float64 evaluation stays inside it,
float32 round trips (`2⁻²⁴`) and absolute tolerances (`1e-8`) do not. -/

def pow2 (n : Nat) : Rat := ((2 ^ n : Nat) : Rat)

/-- `2⁻⁴⁴ = 512 · 2⁻⁵³`. -/
def ulpK : Rat := 1 / pow2 44

def ptMag (p : Pt) : Rat := rmax (rabs p.1) (rabs p.2)

/-- The region's own scale: its largest extent. -/
def roiSize : Roi → Rat
  | .rect r => rmax (rabs r.width) (rabs r.height)
  | .circle c => rabs c.r
  | .ellipse e => rmax (rabs e.rx) (rabs e.ry)
  | .annulus a => rmax (rabs a.rin) (rabs a.rout)
  | .range r => rabs (r.hi - r.lo)
  | .poly g => match polyBBox g.vs with
    | some b => rmax (b.2.1 - b.1) (b.2.2.2 - b.2.2.1)
    | none => 0
  | .undefined => 0

/-- `|centre|∞` (largest absolute coordinate among the parameters). -/
def roiMag : Roi → Rat
  | .rect r => rmax (rmax (rabs r.xmin) (rabs r.xmax)) (rmax (rabs r.ymin) (rabs r.ymax))
  | .circle c => rmax (rabs c.xc) (rabs c.yc)
  | .ellipse e => rmax (rabs e.xc) (rabs e.yc)
  | .annulus a => rmax (rabs a.xc) (rabs a.yc)
  | .range r => rmax (rabs r.lo) (rabs r.hi)
  | .poly g => g.vs.foldl (fun m v => rmax m (ptMag v)) 0
  | .undefined => 0

/-- What the un-rotated branches ignore when taken for a tilt ≤ 1e-9 rad (`*_branches_agree`). -/
def roiBranchTol : Roi → Rat
  | .rect r => r.branchTol
  | .ellipse e => if 0 < e.rx ∧ 0 < e.ry then e.branchTol else 0
  | _ => 0

/-- Rounding-error bound of `contains` on the given parameters at point `p`, as a displacement of the
boundary.  Ranges and un-rotated rectangles only compare (`x > xmin`): no arithmetic, no error.  The
polygon test subtracts vertex and point coordinates first (`vty1 − ty`, relative error `u` of the
*difference*), so its error does not grow with the distance from the origin: a misjudged crossing needs
`|p.x − X.x| ≤ 4u·(|edge|∞ + |b − p|∞)` for the intersection `X` of the edge with the horizontal through `p`. -/
def floatBand (roi : Roi) (p : Pt) : Rat :=
  match roi with
  | .range _ => 0
  | .undefined => 0
  | .rect r =>
    (match branchOf r.c r.s with
     | .axis => 0
     | _ => ulpK * (roiMag roi + roiSize roi + ptMag p))
  | .poly g =>
    (match g.vs.head? with
     | some v => ulpK * (roiSize roi + ptMag (p.1 - v.1, p.2 - v.2))
     | none => 0)
  | _ => ulpK * (roiMag roi + roiSize roi + ptMag p)

/-- Band actually used at point `p`: the recorded `ε` (`1e-6·size` for arbitrary-float cases, `0` on the
magnitude ladder), the ignored tilt, and the rounding bound. -/
def bandAt (roi : Roi) (ε : Rat) (p : Pt) : Rat := rmax ε (rmax (roiBranchTol roi) (floatBand roi p))

def nearBand (roi : Roi) (ε : Rat) (exact : Bool) (p : PtO) : Bool :=
  match finitePt roi p with
  | some q => roi.near q (if exact then ε else bandAt roi ε q)
  | none => false

def hypEps (roi : Roi) (ε : Rat) (exact : Bool) : Rat := if exact then ε else rmax ε (roiBranchTol roi)

/-- Coverage bucket: size of the region and its offset relative to the size. -/
def magBucket (s m : Rat) : String :=
  let sz := if s = 0 then "s0" else if s < 1 / pow2 16 then "tiny" else if s ≤ pow2 10 then "mid" else "huge"
  let off := if s = 0 then "" else if m ≤ 64 * s then "" else if m ≤ pow2 24 * s then "+off" else "+OFF"
  sz ++ off

/-- Conditioning of the shoelace sums of a polygon: `1 + Σ|dᵢ| / |Σ dᵢ|` (`dᵢ` the cross products of
consecutive offsets from the mean).  The double-precision centroid carries an absolute error of about
`2⁻⁵³ · extent · κ²`; the recorded centre tolerance is multiplied by `κ²` (κ is 1–3 for ordinary
polygons and large only when positive and negative lobes cancel). -/
def polyCond (vs : List Pt) : Rat :=
  let o := offsets (polyMean vs) (polyCore vs)
  match o.getLast? with
  | none => 1
  | some l =>
    let ds := ((l :: o).zip o).map fun (ab : Pt × Pt) => ab.1.1 * ab.2.2 - ab.1.2 * ab.2.1
    let a2 := rabs (sumList ds)
    if a2 = 0 then 1 else 1 + sumList (ds.map rabs) / a2

/-- Geometric conditioning of a polygon's centroid with respect to its vertices: moving one vertex by `δ`
changes the area by up to `δ·extent` and the centroid by up to `δ·extent²/|A|` (a thin polygon of length `L`
and width `W` has `extent²/|A| ≈ L/W`: a perpendicular nudge of one corner changes the taper and slides the
centroid along the long axis).  First-order analysis of `centroid = mean + N/(6A)`:
`|ΔC| ≲ n·extent²/|A| · κ · (u·extent + δ)`.  `γ = 1 + n·extent²/(4|A|)` (`γ = 2` for a square). -/
def polyGeomCond (vs : List Pt) : Rat :=
  let a := rabs (polyAreaSigned vs)
  if a = 0 then 1 else
  match polyBBox vs with
  | some b =>
    let ext := rmax (b.2.1 - b.1) (b.2.2.2 - b.2.2.1)
    1 + (vs.length : Rat) * ext * ext / (4 * a)
  | none => 1

/-- Factor on the rounding bound for quantities that depend on a polygon's `center()`:
`κ·max(κ, γ)` (`κ` = cancellation of the shoelace lobes, `γ` = geometric conditioning). -/
def centreTolFactor : Roi → Rat
  | .poly g => polyCond g.vs * rmax (polyCond g.vs) (polyGeomCond g.vs)
  | _ => 1

/-! ### discretisation family helpers -/

/-- rational lower bound of `cos(π/99)` (= 0.999496…): a 99-segment polygon inscribed in a circle of
radius `R` contains the disc of radius `R·cos(π/99)`. -/
def kappa : Rat := 9994 / 10000

/-- (region every far-inside point of which must be inside the polygon,
    region every far-outside point of which must be outside the polygon). -/
def discBounds : Roi → Option (Roi × Roi)
  | .circle c => some (.circle { c with r := kappa * c.r }, .circle c)
  | .ellipse e => some (.ellipse { e with rx := kappa * e.rx, ry := kappa * e.ry }, .ellipse e)
  | .annulus a => some (.annulus { a with rout := kappa * a.rout }, .annulus { a with rin := kappa * a.rin })
  | .rect r => some (.rect r, .rect r)
  | _ => none

/-- Lift a per-point test to possibly non-finite points (same as `containsO`, for a prepared test). -/
def liftO (roi : Roi) (f : Pt → Bool) (p : PtO) : Bool :=
  match finitePt roi p with
  | some q => f q
  | none => false

/-- Rounding bound of `screen = (M·v)[:2] / (M·v)[3]` (∞-norm): each row is a 4-term dot product
(`|h̃ᵢ − hᵢ| ≤ 4u·eᵢ`, `eᵢ = Σⱼ|mᵢⱼ vⱼ|`), then one division:
`|s̃ − s| ≤ 4u·e_i/|h₃| + |hᵢ|·4u·e₃/h₃² + u·|s|` — bounded by `2⁻⁴⁴·(eᵢ/|h₃| + |hᵢ|e₃/h₃²)`. -/
def projBand (P : Proj) (q : Pt3O) : Rat :=
  match q with
  | (some x, some y, some z) =>
    let h3 := P.hom 3 x y z
    if h3 = 0 then 0 else
    let e := fun (i : Nat) => rabs (P.entry i 0 * x) + rabs (P.entry i 1 * y) + rabs (P.entry i 2 * z) + rabs (P.entry i 3)
    let b := fun (i : Nat) => e i / rabs h3 + rabs (P.hom i x y z) * e 3 / (h3 * h3)
    ulpK * rmax (b 0) (b 1)
  | _ => 0

/-- A polygon `rotate_to` inside the `1e-9` skip window does not rotate (outside `OpsOk`, `p = F`): the
points of the region stay where they are instead of moving by `|sin δ|·|p − centre|`. -/
def skipTol : Roi → List Op → Rat
  | _, [] => 0
  | cur, op :: rest =>
    (match cur, op with
     | .poly g, .rotate c s =>
       if closeFull (c * g.c + s * g.s) (s * g.c - c * g.s) then 4 * rabs (s * g.c - c * g.s) * roiSize cur else 0
     | _, _ => 0) + skipTol (Impl.applyOp cur op) rest

/-! ### the step function -/

def stepContains (roiE ptsE epsE exactE pyout : Sexp) : String :=
  match roi? roiE, pts? ptsE, num? epsE, exactE.toBool? with
  | some roi, some (shape, ps), some ε, some exact =>
    if !roi.defined then
      driverResult (.atom "undefined") (pyout == .atom "undefined") true true "undefined"
    else
      match pyout with
      | .list [pshape, pbits] =>
        match bits? pbits with
        | some py =>
          let implF := Impl.containsFn roi
          let (out, ok, implok, nb) := compareBits ps py (liftO roi implF) (containsO Spec.contains roi)
            (nearBand roi ε exact) exact
          let okShape := pshape == ofNats shape
          driverResult (.list [ofNats shape, ofBits out]) (ok && okShape) implok (inHyp roi (hypEps roi ε exact))
            (roiKind roi ++ (if exact then "/exact/" else "/") ++ magBucket (roiSize roi) (roiMag roi) ++ "/" ++ bandBucket nb)
        | none => driverResult (.list [ofNats shape, .atom "b"]) false true true "bad-bits"
      | _ =>
        let implF := Impl.containsFn roi
        let out := ps.map (liftO roi implF)
        driverResult (.list [ofNats shape, ofBits out]) false true (inHyp roi (hypEps roi ε exact)) (roiKind roi ++ "/py-error")
  | _, _, _, _ => bad "contains-args"

/-- Largest own size / largest coordinate magnitude over all regions the object describes along the
operation list (a redefinition or a vertex edit changes both). -/
def visitMax (f : Roi → Rat) : Roi → List Op → Rat
  | cur, [] => f cur
  | cur, op :: rest => rmax (f cur) (visitMax f (Impl.applyOp cur op) rest)

def opTag : Op → String
  | .define _ => "D" | .addPoint _ => "a" | .replaceLast _ => "r" | .removePoint _ => "x" | .forkEdit false _ _ => "F" | .forkEdit true _ _ => "C"
  | _ => ""

def stepOps (roiE opsE ptsE epsE tolE pyout : Sexp) : String :=
  match roi? roiE, opsE.toList?.bind (·.mapM op?), pts? ptsE, num? epsE, num? tolE with
  | some roi, some ops, some (_, ps), some ε, some tolc =>
    let fin := Impl.applyOps roi ops
    let st := Spec.run roi ops
    let base := st.roi
    let pull := fun (p : PtO) => match finitePt base p with
      | some q => some (Spec.pullback st.motions q)
      | none => none
    let implFin := Impl.containsFn fin
    let implF := liftO fin implFin
    let specF := fun (p : PtO) => match pull p with
      | some q => Spec.contains base q
      | none => false
    -- rounding bound for parameters that were themselves computed (`center()`, `x − cx`, `xmin += dx`,
    -- `R·(v − c) + c`): every visited centre enters, once per operation; a polygon's centroid carries the
    -- conditioning `κ²` of its shoelace sums.
    let size := visitMax roiSize roi ops
    let mag := ops.foldl (fun m o => match o with | .move t => rmax m (ptMag t) | _ => m) (visitMax roiMag roi ops)
    let kf := ((ops.length + 1 : Nat) : Rat) * centreTolFactor fin
    let ε := rmax ε (rmax (roiBranchTol fin) (skipTol roi ops))
    let band := fun (p : PtO) => match p with
      | (some x, some y) => rmax ε (ulpK * kf * (mag + 2 * size + ptMag (x, y)))
      | (some x, none) => rmax ε (ulpK * kf * (mag + 2 * size + rabs x))
      | (none, some y) => rmax ε (ulpK * kf * (mag + 2 * size + rabs y))
      | _ => ε
    let nearF := fun (p : PtO) => match pull p with
      | some q => base.near q (band p)
      | none => false
    let mc := fin.center
    let tolc := rmax tolc (ulpK * ((ops.length + 1 : Nat) : Rat) * (mag + 2 * size)) * centreTolFactor fin
    let hyp := roi.defined && isUnit (Spec.orient roi).1 (Spec.orient roi).2 && opsOkB roi ops &&
      inHyp fin ε
    let kinds := roiKind roi ++ "→" ++ String.join (ops.map opTag) ++ roiKind fin
    match pyout with
    | .list [pbits, pc] =>
      match bits? pbits, centre? pc with
      | some py, some (pcx, pcy) =>
        let (out, ok, implok, nb) := compareBits ps py implF specF nearF false
        let cOk := match pcx, pcy with
          | some x, some y => absDiffLe x st.ctr.1 tolc && absDiffLe y st.ctr.2 tolc
          | _, _ => false
        let cEcho := match pcx, pcy with
          | some x, some y => absDiffLe x mc.1 tolc && absDiffLe y mc.2 tolc
          | _, _ => false
        let cOut := if cEcho then pc else ofCentre mc
        driverResult (.list [ofBits out, cOut]) (ok && cOk) (implok && mc == st.ctr) hyp
          (kinds ++ "/" ++ magBucket size mag ++ "/" ++ bandBucket nb)
      | _, _ => driverResult (.list [ofBits (ps.map implF), ofCentre mc]) false true hyp (kinds ++ "/bad-py")
    | _ => driverResult (.list [ofBits (ps.map implF), ofCentre mc]) false true hyp (kinds ++ "/py-error")
  | _, _, _, _, _ => bad "ops-args"

def stepProj (roiE mE ptsE epsE exactE pyout : Sexp) : String :=
  match roi? roiE, mE.toList?.bind (·.mapM num?), pts3? ptsE, num? epsE, exactE.toBool? with
  | some roi, some m, some (shape, ps), some ε, some exact =>
    if !roi.defined then
      driverResult (.atom "undefined") (pyout == .atom "undefined") true true "undefined"
    else if m.length != 16 then bad "proj-matrix" else
      let P : Proj := ⟨roi, m⟩
      -- coverage by the chunk loop, in C order of the index tuples
      let chunks := projChunks shape
      let covered : List Bool :=
        if chunks.length == 1 && chunks.all (fun ch => ArrayUtil.chunkSize ch == prodNat shape) then ps.map fun _ => true
        else (ArrayUtil.allIndices shape).map fun idx => chunks.any (ArrayUtil.inChunk idx)
      let rows := ((ps.map P.screen).zip (ps.map (projBand P))).zip covered
      let impl2 := Impl.containsFn roi
      let implF := fun (r : (PtO × Rat) × Bool) => r.2 && liftO roi impl2 r.1.1
      let specF := fun (r : (PtO × Rat) × Bool) => containsO Spec.contains roi r.1.1
      let nearF := fun (r : (PtO × Rat) × Bool) =>
        match finitePt roi r.1.1 with
        | some q => roi.near q (if exact then ε else rmax (bandAt roi ε q) (2 * r.1.2 + floatBand roi q + roiBranchTol roi))
        | none => false
      match pyout with
      | .list [pshape, pbits] =>
        match bits? pbits with
        | some py =>
          let (out, ok, implok, nb) := compareBits rows py implF specF nearF exact
          driverResult (.list [ofNats shape, ofBits out]) (ok && pshape == ofNats shape) implok (inHyp roi (hypEps roi ε exact))
            ("proj-" ++ roiKind roi ++ "/" ++ magBucket (roiSize roi) (roiMag roi) ++ (if chunks.length > 1 then "/chunks" ++ toString chunks.length else "/1chunk") ++
             (if exact then "/exact/" else "/") ++ bandBucket nb)
        | none => driverResult (.list [ofNats shape, .atom "b"]) false true true "bad-bits"
      | _ => driverResult (.list [ofNats shape, ofBits (rows.map implF)]) false true (inHyp roi (hypEps roi ε exact)) "proj/py-error"
  | _, _, _, _, _ => bad "proj-args"

def stepDisc (roiE ptsE epsE pyout : Sexp) : String :=
  match roi? roiE, pts? ptsE, num? epsE with
  | some roi, some (_, ps), some ε =>
    match pyout with
    | .list [vsE, pbits] =>
      match discBounds roi, bits? pbits, vsE.toList?.bind (·.mapM pt?) with
      | some (lower, upper), some py, some vs =>
        -- every vertex of `to_polygon()` lies on the boundary (within ε) of the region it approximates
        -- (`xc + r·cos θ`: rounding ≤ a few ulp of `|centre| + size`)
        let εv := rmax ε (rmax (roiBranchTol roi) (4 * ulpK * (roiMag roi + roiSize roi)))
        let vertsOk := vs.all fun v => roi.near v εv
        let g : Roi := .poly { vs := vs }
        let implG := Impl.containsFn g
        let implF := liftO g implG
        let nearF := nearBand g ε false
        -- model fidelity: the polygon test on the very vertices python produced
        let (out, _, _, nb) := compareBits ps py implF implF nearF false
        -- discretisation clause: far inside the inscribed-scaled region ⇒ True; far outside ⇒ False
        let mustT := fun (p : PtO) => containsO Spec.contains lower p && !nearO lower p εv && !nearF p
        let mustF := fun (p : PtO) => !containsO Spec.contains upper p && !nearO upper p εv && !nearF p
        let clause := (ps.zip py).all fun (p, b) => (!mustT p || b) && (!mustF p || !b)
        let implClause := ps.all fun p => nearF p || ((!mustT p || implF p) && (!mustF p || !implF p))
        let free := (ps.filter fun p => !mustT p && !mustF p).length
        driverResult (.list [vsE, ofBits out]) (clause && vertsOk && py.length == ps.length) implClause true
          ("disc-" ++ roiKind roi ++ "/" ++ magBucket (roiSize roi) (roiMag roi) ++ "/" ++ bandBucket nb ++ "/free" ++ bandBucket free)
      | _, _, _ => driverResult (.atom "bad") false true true "disc/bad-py"
    | _ => driverResult (.atom "bad") false true true "disc/py-error"
  | _, _, _ => bad "disc-args"

def step (line : String) : String :=
  match Sexp.parse line with
  | some (.list [.atom "l0poly", .list [vsE, ptsE], pyout]) =>
    match vsE.toList?.bind (·.mapM pt?), pts? ptsE with
    | some vs, some (_, ps) =>
      let f := fun (p : PtO) => match p with
        | (some x, some y) => decide (3 ≤ vs.length) && crossParity vs (x, y)
        | _ => false
      let out := ps.map f
      let onb := (ps.filter fun p => match p with
        | (some x, some y) => polyNear vs (x, y) 0
        | _ => false).length
      driverResult (ofBits out) (pyout == ofBits out) true true
        (if vs.length < 3 then "lt3" else if onb > 0 then "with-boundary-points" else "no-boundary-points")
    | _, _ => bad "l0poly-args"
  | some (.list [.atom "contains", .list [roiE, ptsE, epsE, exactE, _layout], pyout]) =>
    stepContains roiE ptsE epsE exactE pyout
  | some (.list [.atom "ops", .list [roiE, opsE, ptsE, epsE, tolE], pyout]) =>
    stepOps roiE opsE ptsE epsE tolE pyout
  | some (.list [.atom "proj", .list [roiE, mE, ptsE, epsE, exactE, _layout], pyout]) =>
    stepProj roiE mE ptsE epsE exactE pyout
  | some (.list [.atom "disc", .list [roiE, ptsE, epsE], pyout]) =>
    stepDisc roiE ptsE epsE pyout
  | some (.list [.atom "cat", .list [catsE, xsE], pyout]) =>
    match catsE.toInts?, xsE.toInts? with
    | some raw, some xs =>
      -- `update_categories` stores `np.unique(categories)`: sorted, duplicates removed
      let cats := ArrayUtil.categories raw
      let out := xs.map (Impl.catContains cats)
      let spec := xs.map (Spec.catContains cats)
      driverResult (ofBits out) (pyout == ofBits spec) (out == spec) true
        (if cats.isEmpty then "empty" else "nonempty")
    | _, _ => bad "cat-args"
  | _ => bad "unknown-family"

def main : IO Unit := driverLoop step
