import GlueVerif.Sexp
import GlueVerif.Model.C13Undo
/-! Line-protocol driver for C13 (undo / redo through the command stack).

Case: `(word (nData nColors atoms setup ops) pyout)`.
* `atoms` = per dataset, per atom, the mask of the atom on that dataset as a bit string `m0101`
  (literal tables of the harness — the meaning of the opaque states);
* `setup` = non-command preparation of the session: `(app d)`, `(grp k)`, `(edit id…)`, `(mode m)`;
* `ops` = the history: `(do (add d))`, `(do (rem d))`, `(do (ap k ov))`, `(do (roi k))`, `(undo)`, `(redo)`;
* `pyout` = `(obs₀ (err obs n nDone nUndone)…)`: the observation of the real session before the
  history and, per letter, whether `IndexError` was raised, the observation afterwards,
  `dc._sg_count`, `len(_command_stack)`, `len(_undo_stack)`.

Observation `((D d…) (G (label style tree)…) (E pos…) (S ((pos shared mask)…)…) (M mode))`.

Answer: `impl` = the same structure predicted by the model (`Impl` = the code with `fix: F4` and
`fix: F4b`; line tag `wordpre` runs the model of the code with the first fix only, `wordold` the
model of the code before both — used by hand only, see props.d/C13/design.md), `ok` = the zipper
Spec on the **python** observations, `implok` = the zipper Spec on the model's trace, `p` = the
starting session is well-formed (`zipper_refinement` has no hypothesis on the history; for
`wordpre` / `wordold` also `cleanWord`), `br` = features of the history, `blame` = the kind of
command undone / redone at the first step the Spec rejects in the python trace. -/
open GlueVerif GlueVerif.Sexp GlueVerif.C13Undo

def modeOf? : Sexp → Option Mode
  | .atom "replace" => some .replace
  | .atom "and" => some .and
  | .atom "or" => some .or
  | .atom "xor" => some .xor
  | .atom "andnot" => some .andNot
  | .atom "new" => some .new
  | _ => none

def modeName : Mode → String
  | .replace => "replace" | .and => "and" | .or => "or" | .xor => "xor" | .andNot => "andnot" | .new => "new"

def optMode? : Sexp → Option (Option Mode)
  | .atom "N" => some none
  | e => (modeOf? e).map some

def specOf? : Sexp → Option CmdSpec
  | .list [.atom "add", d] => d.toNat?.map .addData
  | .list [.atom "rem", d] => d.toNat?.map .removeData
  | .list [.atom "ap", k, ov] => do some (.apply (← k.toNat?) (← optMode? ov))
  | .list [.atom "roi", k] => k.toNat?.map .applyRoi
  | _ => none

def opOf? : Sexp → Option Op
  | .list [.atom "do", c] => (specOf? c).map .do
  | .list [.atom "undo"] => some .undo
  | .list [.atom "redo"] => some .redo
  | _ => none

def setupOf? : Sexp → Option Setup
  | .list [.atom "app", d] => d.toNat?.map .append
  | .list [.atom "grp", k] => k.toNat?.map .group
  | .list (.atom "edit" :: ids) => (ids.mapM toNat?).map .edit
  | .list [.atom "mode", m] => (modeOf? m).map .mode
  | _ => none

/-- `m0101` ↦ `[F,T,F,T]`. -/
def bitsOf? : Sexp → Option (List Bool)
  | .atom s =>
    match s.toList with
    | 'm' :: rest => rest.mapM fun c => if c == '1' then some true else if c == '0' then some false else none
    | _ => none
  | _ => none

def bitsAtom (bs : List Bool) : Sexp := .atom ("m" ++ String.ofList (bs.map fun b => if b then '1' else '0'))

def atomsOf? (e : Sexp) : Option (Nat → Nat → List Bool) := do
  let rows ← e.toList?
  let tbl ← rows.mapM fun r => do (← r.toList?).mapM bitsOf?
  some fun d k => (tbl.getD d []).getD k []

partial def selSexp : Sel → Sexp
  | .atom k => .list [.atom "a", ofNat k]
  | .and a b => .list [.atom "and", selSexp a, selSexp b]
  | .or a b => .list [.atom "or", selSexp a, selSexp b]
  | .xor a b => .list [.atom "xor", selSexp a, selSexp b]
  | .not a => .list [.atom "not", selSexp a]

def posSexp : Option Nat → Sexp
  | some i => ofNat i
  | none => .atom "X"

/-- the observation of a model session, in the harness' format. -/
def obsSexp (atoms : Nat → Nat → List Bool) (b : Body) : Sexp :=
  let o := observe b
  let ms := masks atoms b
  .list [
    tagged "D" (o.datasets.map ofNat),
    tagged "G" (o.groups.map fun g => .list [ofNat g.1, ofNat g.2.1, selSexp g.2.2]),
    tagged "E" (o.edit.map posSexp),
    tagged "S" ((o.dsubs.zip ms).map fun dm =>
      .list ((dm.1.zip dm.2).map fun pm => .list [posSexp pm.1, ofBool true, bitsAtom pm.2])),
    tagged "M" [.atom (modeName b.mode)]]

def letterName : Spec.Letter → String
  | .do => "do" | .undo => "undo" | .redo => "redo"

/-- a python step `(err obs n nDone nUndone)` as a Spec step over S-expressions. -/
def pyStep? (l : Spec.Letter) : Sexp → Option (Spec.Step Sexp)
  | .list [e, obs, _n, nd, nu] => do
    some ⟨l, ← e.toBool?, obs, ← nd.toNat?, ← nu.toNat?⟩
  | _ => none

/-- kind of a command in the state in which it is executed. -/
def kindOf (sp : CmdSpec) (b : Body) : String :=
  match sp with
  | .addData d => if b.datasets.contains d then "add-present" else "add"
  | .removeData d =>
    if !b.datasets.contains d then "remove-absent"
    else if b.datasets.getLast? == some d then "remove" else "remove-nonlast"
  | .apply _ ov =>
    let m := (match ov with | some m => some m | none => if b.edit = [] then some Mode.replace else none).getD b.mode
    if b.edit = [] ∨ m = .new then "apply-new" else "apply-" ++ modeName m
  | .applyRoi _ => if b.edit = [] ∨ b.mode = .new then "roi-new" else "roi-" ++ modeName b.mode

structure Walk where
  st : State
  doneK : List String
  undoneK : List String
  /-- per step: what the letter did (`do:<kind>`, `undo:<kind>`, `redo:<kind>`, `undo:empty`, …). -/
  acts : List String
  snaps : List Sexp
  trunc : Bool

def walkStep (S : Sem) (atoms : Nat → Nat → List Bool) (w : Walk) (op : Op) : Walk :=
  let r := S.step w.st op
  let (dk, uk, act, tr) : List String × List String × String × Bool :=
    match op with
    | .do sp =>
      let k := kindOf sp w.st.body
      ((k :: w.doneK).take maxUndo, [], "do:" ++ k, w.trunc || (w.doneK.length + 1 > maxUndo))
    | .undo =>
      match w.doneK with
      | [] => ([], w.undoneK, "undo:empty", w.trunc)
      | k :: rest => (rest, k :: w.undoneK, "undo:" ++ k, w.trunc)
    | .redo =>
      match w.undoneK with
      | [] => (w.doneK, [], "redo:empty", w.trunc)
      | k :: rest => (k :: w.doneK, rest, "redo:" ++ k, w.trunc)
  let snap : Sexp := .list [ofBool r.2, obsSexp atoms r.1.body, ofNat r.1.body.sgCount,
                            ofNat r.1.done.length, ofNat r.1.undone.length]
  { st := r.1, doneK := dk, undoneK := uk, acts := w.acts ++ [act], snaps := w.snaps ++ [snap], trunc := tr }

def dedup (xs : List String) : List String :=
  xs.foldl (fun acc x => if acc.contains x then acc else acc ++ [x]) []

def result (impl : Sexp) (ok implok p : Bool) (br blame : String) : String :=
  Sexp.toString (Sexp.list [.atom "r", .list [.atom "impl", impl], .list [.atom "ok", Sexp.ofBool ok],
    .list [.atom "implok", Sexp.ofBool implok], .list [.atom "p", Sexp.ofBool p],
    .list [.atom "br", .atom br], .list [.atom "blame", .atom blame]])

def runCase (S : Sem) (cl : CmdSpec → Body → Bool) (nd nc atomsE : Sexp) (setupE opsE : List Sexp) (pyout : Sexp) : String :=
  match nd.toNat?, nc.toNat?, atomsOf? atomsE, setupE.mapM setupOf?, opsE.mapM opOf? with
  | some nData, some nColors, some atoms, some sops, some ops =>
    let b0 := setup nData nColors sops
    let w0 : Walk := ⟨fresh b0, [], [], [], [], false⟩
    let w := ops.foldl (walkStep S atoms) w0
    let impl := Sexp.list (obsSexp atoms b0 :: w.snaps)
    let tr := S.trace (fresh b0) ops
    let implok := Spec.check (observe b0) tr
    let p := S.cleanWord cl (fresh b0) ops && wfOk b0
    -- the Spec on the python observations
    let (ok, blame) : Bool × String :=
      match pyout with
      | .list (py0 :: pys) =>
        if pys.length != ops.length then (false, "length")
        else
          match (ops.zip pys).mapM (fun x => pyStep? (letterOf x.1) x.2) with
          | none => (false, "format")
          | some steps =>
            match Spec.firstBad (Spec.Zipper.start py0) 0 steps with
            | none => (true, "none")
            | some i => (false, w.acts.getD i "?")
      | _ => (false, "format")
    -- features of the history for the evidence
    let kinds := dedup (w.acts.map fun a => a)
    let has (s : String) := kinds.any (fun k => k == s)
    let pre (s : String) := kinds.any (fun k => k.startsWith s)
    let flag (c : String) (x : Bool) := if x then c else "-"
    let br := flag "g" (pre "do:apply-new" || pre "do:roi-new") ++
              flag "c" (kinds.any fun k => (k.startsWith "do:apply-" || k.startsWith "do:roi-") && !(k.endsWith "-new")) ++
              flag "d" (pre "do:add" || pre "do:remove") ++
              flag "u" (pre "undo:apply" || pre "undo:roi") ++
              flag "v" (pre "undo:add" || pre "undo:remove") ++
              flag "r" (pre "redo:" && !has "redo:empty") ++
              flag "e" (has "undo:empty" || has "redo:empty") ++
              flag "t" w.trunc ++
              flag "x" (has "undo:remove-nonlast" || has "undo:add-present" || has "undo:remove-absent")
    result impl ok implok p br blame
  | _, _, _, _, _ => driverError "word-args"

def step (line : String) : String :=
  match Sexp.parse line with
  | some (.list [.atom "word", .list [nd, nc, atoms, .list setup, .list ops], pyout]) =>
    runCase Impl (fun _ _ => true) nd nc atoms setup ops pyout
  | some (.list [.atom "wordpre", .list [nd, nc, atoms, .list setup, .list ops], pyout]) =>
    runCase PreF4b clean nd nc atoms setup ops pyout
  | some (.list [.atom "wordold", .list [nd, nc, atoms, .list setup, .list ops], pyout]) =>
    runCase Old clean nd nc atoms setup ops pyout
  | _ => driverError "unknown-family"

def main : IO Unit := driverLoop step
