import GlueVerif.Sexp
import GlueVerif.Model.C07Hub
/-! Line-protocol driver for C07 (hub message delivery).

`(prog (<handlers> <program>) <python-output>)` where an operation is one of
`(b cls tag) (d ops) (i cls ops) (c ops) (s l cls hid filt prio) (u l cls) (ua l) (k l) (m n) (r)`,
a class is its path `(0 1 …)`, and the python output is
`(res events subs (paused depth qlen ignore))`. -/
open GlueVerif GlueVerif.Sexp GlueVerif.C07Hub

def filt? : Sexp → Option Filt
  | .atom "all" => some .all
  | .atom "even" => some .even
  | .atom "odd" => some .odd
  | .atom "none" => some .none
  | _ => none

def filtAtom : Filt → Sexp
  | .all => .atom "all"
  | .even => .atom "even"
  | .odd => .atom "odd"
  | .none => .atom "none"

mutual
partial def op? : Sexp → Option Op
  | .list [.atom "b", c, t] => do some (.bcast ⟨← c.toNats?, ← t.toNat?⟩)
  | .list [.atom "d", b] => do some (.delay (← ops? b))
  | .list [.atom "i", c, b] => do some (.ignore (← c.toNats?) (← ops? b))
  | .list [.atom "c", b] => do some (.catch (← ops? b))
  | .list [.atom "s", l, c, h, f, p] => do
    some (.sub (← l.toNat?) (← c.toNats?) ⟨← h.toNat?, ← filt? f, ← p.toInt?⟩)
  | .list [.atom "u", l, c] => do some (.unsub (← l.toNat?) (← c.toNats?))
  | .list [.atom "ua", l] => do some (.unsubAll (← l.toNat?))
  | .list [.atom "k", l] => do some (.kill (← l.toNat?))
  | .list [.atom "m", n] => do some (.mark (← n.toNat?))
  | .list [.atom "r"] => some .raise
  | _ => none
partial def ops? (e : Sexp) : Option (List Op) := do
  let xs ← e.toList?
  xs.mapM op?
end

def msgSexp (tag : String) (lvl l : Nat) (m : Msg) : Sexp :=
  .list [.atom tag, ofNat lvl, ofNat l, ofNats m.cls, ofNat m.tag]

def evSexp : Ev → Sexp
  | .enter lvl l m => msgSexp "e" lvl l m
  | .exit lvl l m => msgSexp "x" lvl l m
  | .mark lvl n => .list [.atom "m", ofNat lvl, ofNat n]

def resSexp : Res → Sexp
  | .ok => .atom "ok"
  | .exn => .atom "exn"
  | .fuel => .atom "model-out-of-fuel"

def subsSexp (subs : Subs) : Sexp :=
  .list (subs.map fun e => .list [ofNat e.1, .list (e.2.map fun cb =>
    .list [ofNats cb.1, ofNat cb.2.hid, filtAtom cb.2.filt, ofInt cb.2.prio])])

/-- Positive counter entries, as the harness reports them (sorted by class path text there and
here by insertion into a sorted list). -/
def clsLt (a b : Cls) : Bool := (ofNats a).toString < (ofNats b).toString

def insertSorted (x : Cls × Nat) : List (Cls × Nat) → List (Cls × Nat)
  | [] => [x]
  | y :: ys => if clsLt x.1 y.1 then x :: y :: ys else y :: insertSorted x ys

def ignoreSexp (ig : Counter) : Sexp :=
  let pos := ig.filter fun e => e.2 > 0
  .list ((pos.foldr insertSorted []).map fun e => .list [ofNats e.1, ofNat e.2])

def observable (res : Res) (evs : List Ev) (subs : Subs) : List Sexp :=
  [resSexp res, .list (evs.map evSexp), subsSexp subs]

mutual
partial def delayNestOp : Op → Nat
  | .delay b => 1 + delayNest b
  | .ignore _ b => delayNest b
  | .catch b => delayNest b
  | _ => 0
partial def delayNest (ops : List Op) : Nat := ops.foldl (fun acc o => max acc (delayNestOp o)) 0
end

mutual
partial def hasRaiseOp : Op → Bool
  | .raise => true
  | .delay b => hasRaise b
  | .ignore _ b => hasRaise b
  | .catch b => hasRaise b
  | _ => false
partial def hasRaise (ops : List Op) : Bool := ops.any hasRaiseOp
end

def fuelBudget : Nat := 20000

def step (line : String) : String :=
  match Sexp.parse line with
  | some (.list [.atom "prog", .list [hse, proge], pyout]) =>
    match hse.toList?.bind (·.mapM ops?), ops? proge with
    | some hs, some prog =>
      let oi := Impl.run hs fuelBudget prog
      let os := Spec.run hs fuelBudget prog
      let st := oi.1
      let snap : Sexp := .list [ofBool st.paused, ofNat st.depth, ofNat st.queue.length, ignoreSexp st.ignore]
      let implObs := observable oi.2.2 oi.2.1 st.subs
      let specObs := observable os.2.2 os.2.1 os.1
      let impl : Sexp := .list (implObs ++ [snap])
      -- the property oracle: the specification's log / outcome / table against the real hub's
      let ok := match pyout with
        | .list [r, e, s, _] => [r, e, s] == specObs && os.2.2 != .fuel
        | _ => false
      let implok := implObs == specObs
      let dn := delayNest prog
      let hd := hs.any fun b => delayNest b > 0
      let hr := hs.any hasRaise
      let br := s!"dn{min dn 3}{if hd then "-hdelay" else ""}{if hasRaise prog then "-raise" else ""}{if hr then "-hraise" else ""}{if oi.2.2 == .exn then "-exn" else ""}"
      driverResult impl ok implok true br
    | _, _ => driverError "prog-args"
  | _ => driverError "unknown-family"

def main : IO Unit := driverLoop step
