import GlueVerif.Sexp
import GlueVerif.Model.Collection
import GlueVerif.Model.CollectionDelay
/-! Line-protocol driver for C06 (one subset per group per dataset).

Case: `(seq (nData nColors (op …)) <python snapshots>)`.  The python output is the list of
snapshots of the real collection, one before the first op and one after every op.  The driver
answers with the model's snapshots (`impl`), the Spec verdict on every *python* snapshot taken at a
quiescent point — no `hub.delay_callbacks()` block open, decided from the op list alone — (`ok`),
the Spec verdict on every quiescent model state (`implok`), and a branch atom.  Ops `(dopen)` /
`(dclose)` enter / leave a delay block; snapshots are also taken (and compared with the model)
inside blocks, where the last field `(h depth (A d)|(X d) …)` shows the hub's depth and its queued
Add / Delete messages.

Snapshot: `((D d…) (G g…) (R g…) (n nData nGroup sgCount) (ds (sub…)…) (gs (sub…)…)
(gv (state label style)…) (lb l…) (rd (name state label style same)…) (cs (cmd…) (cmd…)))`,
`sub = (name data group)`, `cmd = (a d added) | (r d index)` (command and redo stacks, most recent
first, with what the command object recorded: `AddData._added` as `T`/`F`, `RemoveData._index` as a
number or `N`).
Subset names are canonical: numbered in order of first appearance while walking `ds` then `gs`,
snapshot after snapshot (both sides use the same walk). -/
open GlueVerif GlueVerif.Sexp GlueVerif.Collection

def baseOpOf? : Sexp → Option Op
  | .list [.atom "app", d] => d.toNat?.map .append
  | .list (.atom "ext" :: ds) => (ds.mapM toNat?).map .extend
  | .list [.atom "rem", d] => d.toNat?.map .remove
  | .list [.atom "clr"] => some .clear
  | .list [.atom "ng"] => some .newGroup
  | .list [.atom "rg", g] => g.toNat?.map .removeGroup
  | .list [.atom "ss", g, v] => do some (.setState (← g.toNat?) (← v.toNat?))
  | .list [.atom "sl", g, v] => do some (.setLabel (← g.toNat?) (← v.toNat?))
  | .list [.atom "sy", g, v] => do some (.setStyle (← g.toNat?) (← v.toNat?))
  | .list (.atom "mrg" :: ds) => (ds.mapM toNat?).map .merge
  | .list [.atom "ins", i, d] => do some (.insert (← i.toNat?) (← d.toNat?))
  | .list [.atom "seti", k, d] => do some (.setItem (← k.toNat?) (← d.toNat?))
  | .list [.atom "rst"] => some .restore
  | .list [.atom "ca", d] => d.toNat?.map (.doCmd true)
  | .list [.atom "cr", d] => d.toNat?.map (.doCmd false)
  | .list [.atom "undo"] => some .undo
  | .list [.atom "redo"] => some .redo
  | _ => none

def opOf? : Sexp → Option DOp
  | .list [.atom "dopen"] => some .delayOpen
  | .list [.atom "dclose"] => some .delayClose
  | e => (baseOpOf? e).map .op

abbrev Ren := List (Nat × Nat)

def renLookup (m : Ren) (k : Nat) : Nat := ((m.find? (·.1 == k)).map (·.2)).getD 9999

def renExtend (m : Ren) (ids : List Nat) : Ren :=
  ids.foldl (fun m k => if m.any (·.1 == k) then m else m ++ [(k, m.length)]) m

def valSexp : Val → Sexp
  | .auto n => .list [.atom "a", ofNat n]
  | .user n => .list [.atom "u", ofNat n]

def optNatSexp : Option Nat → Sexp
  | none => .atom "N"
  | some n => ofNat n

def subSexp (m : Ren) (s : Sub) : Sexp := .list [ofNat (renLookup m s.id), optNatSexp s.data, ofNat s.group]

def dedupIds (xs : List Nat) : List Nat := xs.foldl (fun acc x => if acc.contains x then acc else acc ++ [x]) []

def cmdSexp (c : DCmd) : Sexp :=
  if c.add then .list [.atom "a", ofNat c.d, ofBool c.changed]
  else .list [.atom "r", ofNat c.d, if c.changed then ofNat c.index else .atom "N"]

def cmdOf? : Sexp → Option DCmd
  | .list [.atom "a", d, ch] => do some ⟨true, ← d.toNat?, ← ch.toBool?, 0⟩
  | .list [.atom "r", d, .atom "N"] => do some ⟨false, ← d.toNat?, false, 0⟩
  | .list [.atom "r", d, i] => do some ⟨false, ← d.toNat?, true, ← i.toNat?⟩
  | _ => none

def qmsgSexp : QMsg → Sexp
  | .add d => .list [.atom "A", ofNat d]
  | .del d => .list [.atom "X", ofNat d]

def snapshot (m : Ren) (ds : DState) : Sexp :=
  let st := ds.col
  let gv := fun (v : GVals) => Sexp.list [valSexp v.state, valSexp v.label, valSexp v.style]
  let seen := dedupIds ((allSubs st).map (·.id))
  let subOf := fun (k : Nat) => ((allSubs st).find? (·.id == k))
  .list [
    tagged "D" (st.datasets.map ofNat), tagged "G" (st.groups.map ofNat), tagged "R" (st.subs.map ofNat),
    tagged "n" [ofNat st.nData, ofNat st.nGroup, ofNat st.sgCount],
    tagged "ds" ((List.range st.nData).map fun d => .list ((st.dsubs d).map (subSexp m))),
    tagged "gs" ((List.range st.nGroup).map fun g => .list ((st.gsubs g).map (subSexp m))),
    tagged "gv" ((List.range st.nGroup).map fun g => gv (st.gvals g)),
    tagged "lb" ((List.range st.nData).map fun d => ofNat (st.dlabel d)),
    tagged "rd" (seen.filterMap fun k => (subOf k).map fun s =>
      let v := readSub st s
      .list [ofNat (renLookup m k), valSexp v.state, valSexp v.label, valSexp v.style, ofBool true]),
    tagged "cs" [.list (st.done.map cmdSexp), .list (st.undone.map cmdSexp)],
    tagged "h" (ofNat ds.depth :: ds.queue.map qmsgSexp)]

/-! ### parsing a python snapshot into an observed `State` + reads -/

def valOf? : Sexp → Option Val
  | .list [.atom "a", n] => n.toNat?.map .auto
  | .list [.atom "u", n] => n.toNat?.map .user
  | _ => none

def optNat? : Sexp → Option (Option Nat)
  | .atom "N" => some none
  | e => e.toNat?.map some

def subOf? : Sexp → Option Sub
  | .list [n, d, g] => do some ⟨← n.toNat?, ← optNat? d, ← g.toNat?⟩
  | _ => none

def subsOf? (e : Sexp) : Option (List Sub) := do (← e.toList?).mapM subOf?

def tableOf {α : Type} (xs : List α) (dflt : α) : Nat → α := fun k => xs.getD k dflt

def parseSnap (colors : Nat) : Sexp → Option (State × List Read)
  | .list [.list (.atom "D" :: ds), .list (.atom "G" :: gs), .list (.atom "R" :: rs),
           .list [.atom "n", nd, ng, sg], .list (.atom "ds" :: dss), .list (.atom "gs" :: gss),
           .list (.atom "gv" :: gvs), .list (.atom "lb" :: lbs), .list (.atom "rd" :: rds),
           .list [.atom "cs", .list dn, .list un], .list (.atom "h" :: _)] => do
    let D ← ds.mapM toNat?
    let G ← gs.mapM toNat?
    let R ← rs.mapM toNat?
    let dsubs ← dss.mapM subsOf?
    let gsubs ← gss.mapM subsOf?
    let gvals ← gvs.mapM fun e => match e with
      | .list [a, b, c] => do some (GVals.mk (← valOf? a) (← valOf? b) (← valOf? c))
      | _ => none
    let lbl ← lbs.mapM toNat?
    let nData ← nd.toNat?
    let nGroup ← ng.toNat?
    -- the tables must cover exactly the objects that exist
    if dsubs.length != nData || gsubs.length != nGroup || gvals.length != nGroup || lbl.length != nData then none
    let all := dsubs.flatten ++ gsubs.flatten
    let reads ← rds.mapM fun e => match e with
      | .list [n, a, b, c, same] => do
        let k ← n.toNat?
        let s ← all.find? (·.id == k)
        some (Read.mk s (GVals.mk (← valOf? a) (← valOf? b) (← valOf? c)) (← same.toBool?))
      | _ => none
    let st : State := { nData := nData, nGroup := nGroup, nSub := 0, sgCount := ← sg.toNat?, nColors := colors,
                        datasets := D, groups := G, subs := R,
                        dsubs := tableOf dsubs [], gsubs := tableOf gsubs [],
                        gvals := tableOf gvals ⟨.auto 0, .auto 0, .auto 0⟩, dlabel := tableOf lbl 0,
                        done := ← dn.mapM cmdOf?, undone := ← un.mapM cmdOf? }
    some (st, reads)
  | _ => none

def pySnapOk (colors : Nat) (e : Sexp) : Bool :=
  match parseSnap colors e with
  | some (st, reads) => specOk st reads
  | none => false

/-- classification of the op sequence for the evidence: does it re-append a removed dataset while a
group is live (`r`), restore (`s`), merge / setitem / insert / undo / redo (`m`), remove a group
(`g`), put a dataset in front of another one by `insert` or an undo (`p`), queue a collection
message inside a delay block (`d`), nest delay blocks (`n`), change the group list while a message
is queued (`w`), reach a state where the `_add_data` guard of fix F26 matters (`k`: the model
without the guard ends in a different state). -/
def branchOf (n colors : Nat) (ops : List DOp) : String :=
  let rec go (ds : DState) (removed : List Nat) (r s m g p q nn w : Bool) :
      List DOp → (Bool × Bool × Bool × Bool × Bool × Bool × Bool × Bool)
    | [] => (r, s, m, g, p, q, nn, w)
    | op :: rest =>
      let ds' := Delay.Impl.step ds op
      let st := ds.col
      let st' := ds'.col
      let gone := st.datasets.filter (fun d => !st'.datasets.contains d)
      let back := st'.datasets.filter (fun d => !st.datasets.contains d && removed.contains d)
      let r' := r || (!back.isEmpty && !st.groups.isEmpty)
      let s' := s || (op == .op .restore)
      let m' := m || (match op with | .op (.merge _) => true | .op (.setItem _ _) => true | .op (.insert _ _) => true | .op .undo => true | .op .redo => true | _ => false)
      let g' := g || (match op with | .op (.removeGroup _) => true | _ => false)
      let added := st'.datasets.filter (fun d => !st.datasets.contains d)
      let p' := p || (!added.isEmpty && st'.datasets.getLast? != added.getLast?)
      let q' := q || !ds'.queue.isEmpty
      let nn' := nn || decide (ds'.depth ≥ 2)
      let w' := w || (!ds.queue.isEmpty && st.groups != st'.groups)
      go ds' (removed ++ gone) r' s' m' g' p' q' nn' w' rest
  let (r, s, m, g, p, q, nn, w) := go (Delay.init n colors) [] false false false false false false false false ops
  let k := (Delay.Unguarded.run (Delay.init n colors) ops).col.nSub != (Delay.Impl.run (Delay.init n colors) ops).col.nSub
  let b := fun (c : String) (x : Bool) => if x then c else "-"
  b "r" r ++ b "s" s ++ b "m" m ++ b "g" g ++ b "p" p ++ b "d" q ++ b "n" nn ++ b "w" w ++ b "k" k

/-- which snapshots are taken at quiescent points (no delay block open) — from the op list alone. -/
def quiescentFlags (ops : List DOp) : List Bool :=
  (ops.foldl (fun (acc : List Bool × Nat) op =>
      let k := match op with
        | .delayOpen => acc.2 + 1
        | .delayClose => acc.2 - 1
        | .op _ => acc.2
      (acc.1 ++ [k == 0], k)) ([true], 0)).1

def stepWith (stepFn : DState → DOp → DState) (n c : Sexp) (ops : List Sexp) (pyout : Sexp) : String :=
    match n.toNat?, c.toNat?, ops.mapM opOf? with
    | some n, some colors, some ops =>
      -- model trace: initial state and the state after every op
      let states := (ops.foldl (fun (acc : List DState × DState) op =>
          let st' := stepFn acc.2 op
          (acc.1 ++ [st'], st')) ([Delay.init n colors], Delay.init n colors)).1
      -- canonical names, threaded through the trace
      let snaps := (states.foldl (fun (acc : List Sexp × Ren) ds =>
          let m := renExtend acc.2 ((allSubs ds.col).map (·.id))
          (acc.1 ++ [snapshot m ds], m)) ([], [])).1
      let quiet := quiescentFlags ops
      let implok := (states.zip quiet).all fun (ds, qf) => !qf || specOk ds.col (modelReads ds.col)
      let ok := match pyout with
        | .list pys => pys.length == states.length &&
            (pys.zip quiet).all (fun (py, qf) => if qf then pySnapOk colors py else (parseSnap colors py).isSome)
        | _ => false
      driverResult (.list snaps) ok implok true (branchOf n colors ops)
    | _, _, _ => driverError "seq-args"

/-- the model of the code before `fix: F3-remove-data-detach` (immediate delivery only). -/
def oldStep (ds : DState) : DOp → DState
  | .op o => { ds with col := Collection.step false ds.col o }
  | _ => ds

/-- `seq`: the model of the current code (`Delay.Impl`).  `seqold`: the model of the code before
`fix: F3-remove-data-detach` (`Old`, histories without delay blocks), `sequ`: the model of the code
before `fix: F26-add-data-idempotent` (`Delay.Unguarded`) — both used by hand against the unfixed
trees to validate the models the witnesses in `Props/C06.lean` are about (props.d/C06/design.md). -/
def step (line : String) : String :=
  match Sexp.parse line with
  | some (.list [.atom "seq", .list [n, c, .list ops], pyout]) => stepWith Delay.Impl.step n c ops pyout
  | some (.list [.atom "seqold", .list [n, c, .list ops], pyout]) => stepWith oldStep n c ops pyout
  | some (.list [.atom "sequ", .list [n, c, .list ops], pyout]) => stepWith (Delay.step false) n c ops pyout
  | _ => driverError "unknown-family"

def main : IO Unit := driverLoop step
