import GlueVerif.Sexp
import GlueVerif.Model.C12Registry
import GlueVerif.Model.Versioned
import GlueVerif.Model.C12Records
import GlueVerif.Generated.C12Tables
/-! Line-protocol driver for C12 (protocol versions, registries, rename table). -/
open GlueVerif GlueVerif.Sexp GlueVerif.C12 GlueVerif.Versioned GlueVerif.Generated.C12
open GlueVerif.C12.Records

def bad (msg : String) : String := driverError msg

/-! ### names -/

def idOf (s : String) : Option Nat := names.findIdx? (·.1 == s)
def nameOfId (i : Nat) : String := nameOfIn names i

/-- a name as the chase sees it: interned id, or the raw string when it occurs in no table -/
inductive Nm where
  | id (i : Nat)
  | raw (s : String)
  deriving DecidableEq

def Nm.ofString (s : String) : Nm := match idOf s with | some i => .id i | none => .raw s
def Nm.str : Nm → String
  | .id i => nameOfId i
  | .raw s => s

/-! ### VersionedDict ops -/

def optVer? : Sexp → Option (Option Int)
  | .atom "bad" => some none
  | .atom "N" => some none
  | e => e.toInt?.map some

def op? : Sexp → Option Op
  | .list [.atom "set", .atom k, v, x] => do some (.set k (← optVer? v) (← x.toInt?))
  | .list [.atom "setbad", .atom k] => some (.setBadKey k)
  | .list [.atom "getv", .atom k, v] => do some (.getv k (← optVer? v))
  | .list [.atom "getitem", .atom k] => some (.getitem k)
  | .list [.atom "contains", .atom k] => some (.contains k)
  | .list [.atom "len"] => some .len
  | .list [.atom "del", .atom k] => some (.del k)
  | _ => none

def outToSexp : Out → Sexp
  | .done => .atom "done"
  | .val v => .list [.atom "val", ofInt v]
  | .pair v ver => .list [.atom "pair", ofInt v, ofInt ver]
  | .bool b => ofBool b
  | .nat n => .list [.atom "n", ofNat n]
  | .keyError => .atom "key-error"
  | .valueError => .atom "value-error"

def out? : Sexp → Option Out
  | .atom "done" => some .done
  | .list [.atom "val", v] => v.toInt?.map .val
  | .list [.atom "pair", v, w] => do some (.pair (← v.toInt?) (← w.toInt?))
  | .atom "T" => some (.bool true)
  | .atom "F" => some (.bool false)
  | .list [.atom "n", n] => n.toNat?.map .nat
  | .atom "key-error" => some .keyError
  | .atom "value-error" => some .valueError
  | _ => none

def isErr : Out → Bool
  | .keyError => true
  | .valueError => true
  | _ => false

/-! ### tables as S-expressions (names as strings) -/

def regToSexp (r : List (Nat × List Int)) : Sexp :=
  .list (r.map fun e => .list [.atom (nameOfId e.1), ofInts e.2])

def patchesToSexp (t : List (Nat × Nat)) : Sexp :=
  .list (t.map fun p => .list [.atom (nameOfId p.1), .atom (nameOfId p.2)])

/-- every row of the live registry is a row of the generated one (the translator imports *all*
modules of the package and may therefore see more registrations than the harness process) -/
def regSubset (live gen : Sexp) : Bool :=
  match live, gen with
  | .list ls, .list gs => ls.all fun l => gs.contains l
  | _, _ => false


/-! ### round trips of Data / DataCollection records -/

def atom? : Sexp → Option String
  | .atom s => some s
  | _ => none

def style? : Sexp → Option Style
  | .list [c, s, a] => do some ⟨← c.toInt?, ← s.toInt?, some (← a.toInt?)⟩
  | _ => none

def kind? : Sexp → Option Kind
  | .atom "int" => some .int
  | .atom "half" => some .half
  | .atom "cat" => some .cat
  | _ => none

def comp? : Sexp → Option Comp
  | .list [.atom l, k, vs] => do some ⟨l, ← kind? k, ← vs.toInts?⟩
  | _ => none

def der? : Sexp → Option Der
  | .list [.atom l, .atom "dbl", .atom a] => some (.dbl l a)
  | .list [.atom l, .atom "sum", .atom a, .atom b] => some (.sum l a b)
  | .list [.atom l, .atom "fn1", .atom f, .atom a] => some (.fn1 l f a)
  | .list [.atom l, .atom "fn2", .atom f, .atom a, .atom b] => some (.fn2 l f a b)
  | _ => none

partial def st? : Sexp → Option St
  | .list [.atom "gt", .atom c, t] => do some (.gt c (← t.toInt?))
  | .list [.atom "range", .atom c, lo, hi] => do some (.range c (← lo.toInt?) (← hi.toInt?))
  | .list [.atom "and", a, b] => do some (.and (← st? a) (← st? b))
  | .list [.atom "or", a, b] => do some (.or (← st? a) (← st? b))
  | .list [.atom "not", a] => do some (.not (← st? a))
  | _ => none

def sel? : Sexp → Option Sel
  | .list [.atom l, o, st, sty] => do some ⟨l, ← o.toNat?, ← st? st, ← style? sty⟩
  | _ => none

def cref? : Sexp → Option CRef
  | .list [i, .atom a] => do some ⟨← i.toNat?, a⟩
  | _ => none

def optFn? : Sexp → Option (Option Fn)
  | .atom "N" => some none
  | .atom f => some (some f)
  | _ => none

/-- an entry of `dc.external_links` as the recipe spells it; `(i a j b)` is the round-1 spelling of
`LinkSame(data[i].id[a], data[j].id[b])` -/
def ext? : Sexp → Option Ext
  | .list [.atom "same", a, b] => do some (.same (← cref? a) (← cref? b))
  | .list [.atom "cl", .list frm, to, .atom f, inv] => do
    some (.plain ⟨← frm.mapM cref?, ← cref? to, f, ← optFn? inv⟩)
  | .list [.atom "two", a, b, .atom f, .atom g] => do some (.twoWay (← cref? a) (← cref? b) f g)
  | .list [.atom "pair", a1, a2, b1, b2] => do
    some (.pair (← cref? a1) (← cref? a2) (← cref? b1) (← cref? b2))
  | .list [.atom "multi", a1, a2, b1, b2] => do
    some (.multi (← cref? a1) (← cref? a2) (← cref? b1) (← cref? b2))
  | .list [.atom "aligned", i, j] => do some (.aligned (← i.toNat?) (← j.toNat?))
  | .list [i, .atom a, j, .atom b] => do some (.same ⟨← i.toNat?, a⟩ ⟨← j.toNat?, b⟩)
  | _ => none

def atoms? (e : Sexp) : Option (List String) := do (← e.toList?).mapM atom?

def join? : Sexp → Option (Nat × List String × Nat × List String)
  | .list [i, aa, j, bb] => do some (← i.toNat?, ← atoms? aa, ← j.toNat?, ← atoms? bb)
  | _ => none

def metaKV? : Sexp → Option (String × String)
  | .list [.atom k, .atom v] => some (k, v)
  | _ => none

/-- the object `build(recipe, cv)` constructs on the Python side -/
def buildDC (cv : Nat) (recipe : Sexp) : Option DCO :=
  match recipe with
  | .list [.list datas, .list sels, .list links, .list joins, sgc] => do
    let sels ← sels.mapM sel?
    let links ← links.mapM ext?
    let joins ← joins.mapM join?
    let sgc ← sgc.toNat?
    let ds ← datas.zipIdx.mapM fun (e, k) =>
      match e with
      | .list [.atom label, .list comps, .list ders, sty, .list metaKV, .atom coords] => do
        let comps ← comps.mapM comp?
        let ders ← ders.mapM der?
        let sty ← style? sty
        let metaKV ← metaKV.mapM metaKV?
        let js : List Join := joins.filterMap fun (i, aa, j, bb) =>
          if i = k then some ⟨j, aa, bb⟩ else if j = k then some ⟨i, bb, aa⟩ else none
        let subs := if cv = 1 then sels.filter (·.owner = k) else sels
        some ({ label := label, comps := comps, derived := ders, subsets := subs, style := sty,
                joins := js, uuid := some k, metaKV := metaKV, coords := coords == "id" } : DataO)
      | _ => none
    let groups := if cv = 1 then [] else sels.map fun s => (s.label, s.style)
    some { data := ds, links := links, groups := groups, sgCount := groups.length + sgc }
  | _ => none

def styleSx (s : Style) : Sexp :=
  .list [ofInt s.col, ofInt s.size, match s.alpha4 with | some a => ofInt a | none => .atom "frac"]

def kindSx : Kind → Sexp
  | .int => .atom "int"
  | .half => .atom "half"
  | .cat => .atom "cat"

def insertBy (lt : Sexp → Sexp → Bool) (x : Sexp) : List Sexp → List Sexp
  | [] => [x]
  | y :: r => if lt x y then x :: y :: r else y :: insertBy lt x r

def keyOf : Sexp → String
  | .list (.atom k :: _) => k
  | _ => ""

def sortByKey (xs : List Sexp) : List Sexp :=
  xs.foldl (fun acc x => insertBy (fun a b => keyOf a < keyOf b) x acc) []

/-- sorted by the text of the expression (the Python side sorts by the same text) -/
def sortByText (xs : List Sexp) : List Sexp :=
  xs.foldl (fun acc x => insertBy (fun a b => Sexp.toString a < Sexp.toString b) x acc) []

def crefSx (r : CRef) : Sexp := .atom s!"{r.ds}.{r.label}"

def clinkSx (l : CLink) : Sexp :=
  .list [.list (l.frm.map crefSx), crefSx l.to, .atom l.fn,
    match l.inv with | some g => .atom g | none => .atom "N"]

def extSx (e : Ext) : Sexp :=
  let (kind, c1, c2) : String × List CRef × List CRef := match e with
    | .plain _ => ("plain", [], [])
    | .same a b => ("same", [a], [b])
    | .twoWay a b _ _ => ("two", [a], [b])
    | .pair a1 a2 b1 b2 => ("pair", [a1, a2], [b1, b2])
    | .multi a1 a2 b1 b2 => ("multi", [a1, a2], [b1, b2])
    | .aligned _ _ => ("aligned", [], [])
  .list [.atom kind, .list (c1.map crefSx), .list (c2.map crefSx), .list (sortByText (e.flatten.map clinkSx))]

def valSx : Val → List Sexp
  | (k, vs) => [kindSx k, ofInts vs]

/-- the components of dataset `j` another dataset may ask for: pixel, main, world, derived -/
def refsOf (j : Nat) (d : DataO) : List CRef :=
  [⟨j, pixLabel⟩] ++ d.comps.map (fun c => ⟨j, c.label⟩) ++
  (if d.coords then [⟨j, worldLabel⟩] else []) ++ d.derived.map (fun dr => ⟨j, dr.label⟩)

/-- what `observe(dc)` returns on the Python side; `cares[k] = false` blanks the uuid flag of
dataset `k` -/
def observeDC (x : DCO) (cares : List Bool) : Sexp :=
  let envs : List Env := (List.range x.data.length).map (reach x)
  let datas := x.data.zipIdx.map fun (d, k) =>
    let env := envs.getD k []
    let main := d.comps.map fun c => Sexp.list [.atom c.label, kindSx c.kind, ofInts c.vals]
    let der := d.derived.map fun dr => match env.get ⟨k, dr.label⟩ with
      | some v => Sexp.list (.atom dr.label :: valSx v)
      | none => Sexp.list [.atom dr.label, .atom "bad"]
    let subs := d.subsets.map fun s =>
      let m : Sexp := match maskOn x envs k s with
        | some bs => .list (bs.map fun b => .atom (if b then "1" else "0"))
        | none => .atom "inc"
      Sexp.list [.atom s.label, m, styleSx s.style]
    let kj := sortByKey (d.joins.map fun j =>
      Sexp.list [.atom ((x.data[j.other]?.map (·.label)).getD "?"), .list (j.own.map .atom), .list (j.theirs.map .atom)])
    let metaKV := sortByKey (d.metaKV.map fun (a, b) => Sexp.list [.atom a, .atom b])
    let world : Sexp := if d.coords then .list [.atom "World_0"] else .list []
    let uu : Sexp := if !(cares.getD k true) then .atom "N" else ofBool (d.uuid == some k)
    Sexp.list [.atom d.label, .list main, .list der, .list subs, styleSx d.style, .list kj, .list metaKV,
      ofBool true, .atom (if d.coords then "IdentityCoordinates" else "none"), world,
      .list [.atom "Pixel_Axis_0_[x]"], uu]
  let ext := sortByText (x.links.map extSx)
  let internal : List CLink := x.data.zipIdx.flatMap fun (d, i) =>
    (if d.coords then [(⟨[⟨i, pixLabel⟩], ⟨i, worldLabel⟩, "coord", none⟩ : CLink),
                       ⟨[⟨i, worldLabel⟩], ⟨i, pixLabel⟩, "coord", none⟩] else []) ++
    d.derived.map (·.link i)
  let links := sortByText ((internal ++ x.links.flatMap Ext.flatten).map clinkSx)
  let acc := x.data.zipIdx.map fun (_, k) =>
    let env := envs.getD k []
    Sexp.list (x.data.zipIdx.flatMap fun (e, j) =>
      if j = k then [] else (refsOf j e).map fun r => match env.get r with
        | some v => Sexp.list (crefSx r :: valSx v)
        | none => Sexp.list [crefSx r, .atom "inc"])
  .list [.list datas, .list (x.groups.map fun (l, s) => Sexp.list [.atom l, styleSx s]),
    ofNat x.sgCount, .list ext, .list links, .list acc]

/-- blank the uuid flag of the datasets with `cares[k] = false` in a Python observation -/
def blankUuid (cares : List Bool) : Sexp → Sexp
  | .list (.list datas :: rest) =>
    .list (.list (datas.zipIdx.map fun (d, k) => match d with
      | .list xs => if xs.length == 12 && !(cares.getD k true) then .list (xs.take 11 ++ [.atom "N"]) else d
      | a => a) :: rest)
  | e => e

/-- `dv` of a case: one version for every dataset, or one per dataset -/
def dvs? (n : Nat) : Sexp → Option (List Nat)
  | .list vs => vs.mapM (·.toNat?)
  | e => e.toNat?.map (List.replicate n)

/-- one collection of a document: (cv, dvs, the object built from the recipe) -/
def part? : Sexp → Option (Nat × List Nat × DCO)
  | .list (dvS :: cvS :: recipe :: _) => do
    let cv ← cvS.toNat?
    let orig ← buildDC cv recipe
    let dvs ← dvs? orig.data.length dvS
    some (cv, dvs, orig)
  | _ => none

def req? : Sexp → Option Req
  | .list [k, i] => do some (.data (← k.toNat?) (← i.toNat?))
  | .list [k] => do some (.coll (← k.toNat?))
  | _ => none

def hasMixedInput (dc : DCO) : Bool :=
  (dc.links.flatMap Ext.flatten).any fun l =>
    l.frm.any (fun c => c.ds != l.to.ds) && l.frm.any (fun c => c.ds == l.to.ds)

/-- `single = true`: `__main__` is the collection itself, otherwise the list of collections -/
def rtRun (single : Bool) (parts : List (Nat × List Nat × DCO)) (reqs : List Req) (pyout : Sexp) : String :=
  let cares := parts.map fun (_, dvs, _) => dvs.map fun v => decide (4 ≤ v)
  let rep := parts.all fun (cv, dvs, dc) => representable cv dvs dc
  let refused := parts.any fun (_, dvs, dc) => saveRefused dvs dc
  let wrap (xs : List Sexp) : Sexp := match single, xs with
    | true, [x] => x
    | _, _ => .list xs
  let impl : Sexp := match parts.mapM (fun (cv, dvs, dc) => saveDC cv dvs dc) with
    | none => .atom "save-error"
    | some doc => match Unser.run doc reqs with
      | none => .atom "load-error"
      | some ys => wrap ((ys.zip cares).map fun (y, c) => observeDC y c)
  let spec : Sexp := wrap ((parts.zip cares).map fun ((cv, dvs, dc), c) => observeDC (projectDC cv dvs dc) c)
  let accepts (o : Sexp) : Bool := if rep then o == spec else o == .atom "save-error"
  let py : Sexp := match single, pyout, cares with
    | true, o, [c] => blankUuid c o
    | false, .list os, cs => .list ((os.zip cs).map fun (o, c) => blankUuid c o)
    | _, o, _ => o
  let uniform := parts.all fun (_, dvs, _) => dvs.all fun v => some v == dvs.head?
  let lnk := if parts.any (fun (_, _, dc) => hasMixedInput dc) then "-mixedin"
    else if parts.any (fun (_, _, dc) => !dc.links.isEmpty) then "-lnk" else ""
  let name := match single, parts with
    | true, [(cv, dvs, _)] => if uniform then s!"d{dvs.headD 0}c{cv}" else s!"dmix-c{cv}"
    | _, _ => s!"doc{parts.length}{if uniform then "" else "-dmix"}"
  let ord := if reqs.isEmpty then "" else "-ord"
  if !rep && !refused then bad "rt-recipe-not-representable"
  else driverResult impl (accepts py) (accepts impl) rep
    s!"{name}{ord}{lnk}{if rep then "" else "-unrepresentable"}"

def rtStep (case pyout : Sexp) : String :=
  match case with
  | .list [.atom "doc", .list ps, .list ord] =>
    match ps.mapM part?, ord.mapM req? with
    | some parts, some reqs => rtRun false parts reqs pyout
    | _, _ => bad "rt-doc"
  | .list [dvS, cvS, recipe] =>
    match part? (.list [dvS, cvS, recipe]) with
    | some p => rtRun true [p] [] pyout
    | none => bad "rt-case"
  | .list [dvS, cvS, recipe, .list ord] =>
    match part? (.list [dvS, cvS, recipe]), ord.mapM (·.toNat?) with
    | some p, some is => rtRun true [p] (is.map fun i => Req.data 0 i) pyout
    | _, _ => bad "rt-case"
  | _ => bad "rt-case"

/-! ### the chase on names -/

def patchesNm : List (Nm × Nm) := patches.map fun p => (Nm.id p.1, Nm.id p.2)

/-- one environment of family `patch`: `(env calls status result)` — `env` = the names `lookup_class`
finds (un-patched) in that environment, `calls` = the names the real function handed to
`lookup_class`, `status ∈ ok | value-error`, `result` = the name under which the returned object was
found (`N` after an error). -/
structure PatchObs where
  env : List String
  calls : List String
  status : String
  result : Option String

def patchObs? : Sexp → Option PatchObs
  | .list [env, calls, .atom st, res] => do
    let r : Option String := match res with | .atom "N" => none | .atom a => some a | _ => none
    some ⟨← atoms? env, ← atoms? calls, st, r⟩
  | _ => none

def lookupSexp (calls : List Nm) : Lookup Nm → List Sexp
  | .found n => [.list (calls.map fun c => Sexp.atom c.str), .atom "ok", .atom n.str]
  | .error _ => [.list (calls.map fun c => Sexp.atom c.str), .atom "value-error", .atom "N"]

/-- family `patch`: the real `lookup_class_with_patches` in two environments (this machine's, and one
where the external packages the table points to are importable) against `lookupWithPatches`.
Spec on what python did, per environment: the outcome is `finish` of the chase (target if importable,
else the original if importable, else the error of the target); a redirection that ends inside the
package succeeds; and **a record written by a live class loads as that class** (no capture) — false
for the F12 keys in the second environment (known finding), and false in the first one on a tree
without `fix: patch fallback to live class` (finding F12b, fixed). -/
def patchStep (name : String) (pyout : Sexp) : String :=
  let start := Nm.ofString name
  let isKey := (plookup patchesNm start).isSome
  match chase patchesNm patchesNm.length start with
  | none => driverResult (.atom "no-fixpoint") false false true "no-fixpoint"
  | some r =>
    let rs := r.str
    let captured := match start with
      | .id i => isKey && isLiveWritten liveClasses i
      | .raw _ => false
    let listed := knownCaptured.contains name
    match pyout with
    | .list [pa, pb] =>
      match patchObs? pa, patchObs? pb with
      | some oa, some ob =>
        let model (o : PatchObs) : Lookup Nm := finish (fun n => o.env.contains n.str) start r
        let modelCalls (o : PatchObs) : List Nm := finishCalls (fun n => o.env.contains n.str) start r
        let same (l : Lookup Nm) (status : String) (result : Option String) : Bool := match l with
          | .found n => status == "ok" && result == some n.str
          | .error _ => status == "value-error" && result.isNone
        -- Spec verdict for an outcome (of python, or of the model) in the environment `o.env`
        let specOn (o : PatchObs) (status : String) (result : Option String) : Bool :=
          same (model o) status result &&
          (!(isKey && inPackage rs) || status == "ok") &&
          (!captured || result == some name)
        let modelStatus (o : PatchObs) : String × Option String := match model o with
          | .found n => ("ok", some n.str)
          | .error _ => ("value-error", none)
        -- the first environment must agree with what the translator saw (names inside the package)
        let envOk := importable.all fun e => oa.env.contains (nameOfId e.1) == e.2
        let ok := specOn oa oa.status oa.result && specOn ob ob.status ob.result && envOk
        let implok := specOn oa (modelStatus oa).1 (modelStatus oa).2 && specOn ob (modelStatus ob).1 (modelStatus ob).2
        let impl : Sexp := .list [.list (.list (oa.env.map Sexp.atom) :: lookupSexp (modelCalls oa) (model oa)),
                                  .list (.list (ob.env.map Sexp.atom) :: lookupSexp (modelCalls ob) (model ob))]
        let loadsHere := oa.result == some name || oa.env.contains rs
        let br := if captured then
            (if !loadsHere then "captured-unloadable" else if listed then "captured-listed" else "captured-unlisted")
          else if !isKey then "not-a-key"
          else if inPackage rs then "key-to-package"
          else if ob.env.contains rs && !oa.env.contains rs then "key-to-external-stubbed" else "key-to-external"
        driverResult impl ok implok (!captured) br
      | _, _ => driverResult (.atom "two-observations") false true true "malformed"
    | _ => driverResult (.atom "two-observations") false true true "malformed"

def step (line : String) : String :=
  match Sexp.parse line with
  | some (.list [.atom "vdict", .list ops, pyout]) =>
    match ops.mapM op? with
    | some os =>
      let impl := Impl.outs [] os
      let py := match pyout with
        | .list xs => xs.mapM out?
        | _ => none
      let ok := match py with
        | some o => Spec.accepts os o
        | none => false
      -- branch: were there refused sets, and how many versions did the longest key reach
      let setOuts := (os.zip impl).filter fun (o, _) => match o with | .set .. => true | _ => false
      let refused := setOuts.any fun (_, r) => isErr r
      let deepest := ((Impl.run os).map fun e => e.2.length).foldl max 0
      driverResult (.list (impl.map outToSexp)) ok (Spec.accepts os impl) true
        (s!"{if setOuts.isEmpty then "no-set" else if refused then "some-set-refused" else "all-sets-ok"}-depth{min deepest 4}")
    | none => bad "vdict-ops"
  | some (.list [.atom "tables", _, pyout]) =>
    match pyout with
    | .list [sav, lod, pat] =>
      let gs := regToSexp saverTable
      let gl := regToSexp loaderTable
      let gp := patchesToSexp patches
      let tblOk := nameTableOk names
      let consistent := regSubset sav gs && regSubset lod gl && pat == gp && tblOk
      let impl := if consistent then pyout else .list [gs, gl, gp]
      driverResult impl consistent true true (if tblOk then "name-table-ok" else "name-table-bad")
    | _ =>
      driverResult (.atom "tables") false true true "malformed"
  | some (.list [.atom "dispatch", .atom ty, pyout]) =>
    -- python: (newest fnIsNewest saverVersions loaderVersions|N nextRaises)
    match idOf ty with
    | none => driverResult (.atom "unknown-type") false true true "unknown-type"
    | some i =>
      match rlookup saverTable i with
      | none => driverResult (.atom "no-saver") false true true "no-saver"
      | some vs =>
        let lod := rlookup loaderTable i
        let lodS : Sexp := match lod with | some l => ofInts l | none => .atom "N"
        let newest : Sexp := match newestVersion vs with | some m => ofInt m | none => .atom "N"
        let impl : Sexp := .list [newest, ofBool true, ofInts vs, lodS, ofBool true]
        -- Spec on the python output: versions are 1..n, a save uses n, the function returned is the
        -- one registered for n, a loader exists for exactly the same versions (or the type is
        -- saver-only), asking for version n+1 raises
        let ok := match pyout with
          | .list [nw, fnOk, sv, lv, nx] =>
            match nw.toInt?, fnOk.toBool?, sv.toInts?, nx.toBool? with
            | some nw', some true, some sv', some true =>
              consecutive sv' && nw' == Int.ofNat sv'.length &&
              (match lv with
                | .atom "N" => saverOnly.contains ty
                | l => l.toInts? == some sv')
            | _, _, _, _ => false
          | _ => false
        let implok := consecutive vs && newestVersion vs == some (Int.ofNat vs.length) &&
          (match lod with | none => saverOnly.contains ty | some l => l == vs)
        driverResult impl ok implok true (if vs.length > 1 then "multi-version" else "single-version")
  | some (.list [.atom "newest", _, pyout]) =>
    -- python: ((type protocol) ...) of the records an ordinary save wrote, registered types only
    match pyout with
    | .list rows =>
      let expect (ty : String) : Option Int := do
        let i ← idOf ty
        let vs ← rlookup saverTable i
        newestVersion vs
      let impl : List Sexp := rows.filterMap fun r => match r with
        | .list [.atom ty, _] => (expect ty).map fun v => Sexp.list [.atom ty, ofInt v]
        | _ => none
      let multi := rows.any fun r => match r with
        | .list [.atom ty, _] => (expect ty).any (· > 1)
        | _ => false
      let ok := Sexp.list impl == pyout
      driverResult (.list impl) ok true true (if multi then "multi-version-type-written" else "single-version-only")
    | _ => driverResult (.atom "rows") false true true "malformed"
  | some (.list [.atom "patch", .atom name, pyout]) => patchStep name pyout
  | some (.list [.atom "rt", case, pyout]) => rtStep case pyout
  | some (.list [.atom "rt1", .list [.atom kind, _], pyout]) =>
    -- python sends (canonical form before, canonical form after); Spec: they are equal
    match pyout with
    | .list [b, a] => driverResult (.list [b, b]) (b == a) true true kind
    | .atom "save-error" => driverResult (.atom "save-error") true true true (kind ++ "-save-error")
    | _ => driverResult (.atom "two-canonical-forms") false true true kind
  | _ => bad "unknown-family"

def main : IO Unit := driverLoop step
