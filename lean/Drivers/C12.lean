import GlueVerif.Sexp
import GlueVerif.Model.C12Registry
import GlueVerif.Model.Versioned
import GlueVerif.Generated.C12Tables
/-! Line-protocol driver for C12 (protocol versions, registries, rename table). -/
open GlueVerif GlueVerif.Sexp GlueVerif.C12 GlueVerif.Versioned GlueVerif.Generated.C12

def bad (msg : String) : String := driverError msg

/-! ### names -/

def idOf (s : String) : Option Nat := names.findIdx? (·.1 == s)
def nameOfId (i : Nat) : String := nameOfIn names i

/-- a name as the chase sees it: interned id, or the raw string when it occurs in no table -/
inductive Nm where
  | id (i : Nat)
  | raw (s : String)
  deriving DecidableEq

def Nm.ofString (s : String) : Nm := match idOf s with | some i => .id i | none => .raw s
def Nm.str : Nm → String
  | .id i => nameOfId i
  | .raw s => s

/-! ### VersionedDict ops -/

def optVer? : Sexp → Option (Option Int)
  | .atom "bad" => some none
  | .atom "N" => some none
  | e => e.toInt?.map some

def op? : Sexp → Option Op
  | .list [.atom "set", .atom k, v, x] => do some (.set k (← optVer? v) (← x.toInt?))
  | .list [.atom "setbad", .atom k] => some (.setBadKey k)
  | .list [.atom "getv", .atom k, v] => do some (.getv k (← optVer? v))
  | .list [.atom "getitem", .atom k] => some (.getitem k)
  | .list [.atom "contains", .atom k] => some (.contains k)
  | .list [.atom "len"] => some .len
  | .list [.atom "del", .atom k] => some (.del k)
  | _ => none

def outToSexp : Out → Sexp
  | .done => .atom "done"
  | .val v => .list [.atom "val", ofInt v]
  | .pair v ver => .list [.atom "pair", ofInt v, ofInt ver]
  | .bool b => ofBool b
  | .nat n => .list [.atom "n", ofNat n]
  | .keyError => .atom "key-error"
  | .valueError => .atom "value-error"

def out? : Sexp → Option Out
  | .atom "done" => some .done
  | .list [.atom "val", v] => v.toInt?.map .val
  | .list [.atom "pair", v, w] => do some (.pair (← v.toInt?) (← w.toInt?))
  | .atom "T" => some (.bool true)
  | .atom "F" => some (.bool false)
  | .list [.atom "n", n] => n.toNat?.map .nat
  | .atom "key-error" => some .keyError
  | .atom "value-error" => some .valueError
  | _ => none

def isErr : Out → Bool
  | .keyError => true
  | .valueError => true
  | _ => false

/-! ### tables as S-expressions (names as strings) -/

def regToSexp (r : List (Nat × List Int)) : Sexp :=
  .list (r.map fun e => .list [.atom (nameOfId e.1), ofInts e.2])

def patchesToSexp (t : List (Nat × Nat)) : Sexp :=
  .list (t.map fun p => .list [.atom (nameOfId p.1), .atom (nameOfId p.2)])

/-- every row of the live registry is a row of the generated one (the translator imports *all*
modules of the package and may therefore see more registrations than the harness process) -/
def regSubset (live gen : Sexp) : Bool :=
  match live, gen with
  | .list ls, .list gs => ls.all fun l => gs.contains l
  | _, _ => false

/-! ### the chase on names -/

def patchesNm : List (Nm × Nm) := patches.map fun p => (Nm.id p.1, Nm.id p.2)

def step (line : String) : String :=
  match Sexp.parse line with
  | some (.list [.atom "vdict", .list ops, pyout]) =>
    match ops.mapM op? with
    | some os =>
      let impl := Impl.outs [] os
      let py := match pyout with
        | .list xs => xs.mapM out?
        | _ => none
      let ok := match py with
        | some o => Spec.accepts os o
        | none => false
      let nerr := (impl.filter isErr).length
      driverResult (.list (impl.map outToSexp)) ok (Spec.accepts os impl) true
        (if nerr == 0 then "no-error" else if (Impl.run os).length ≥ 2 then "errors-multi-key" else "errors")
    | none => bad "vdict-ops"
  | some (.list [.atom "tables", _, pyout]) =>
    match pyout with
    | .list [sav, lod, pat] =>
      let gs := regToSexp saverTable
      let gl := regToSexp loaderTable
      let gp := patchesToSexp patches
      let tblOk := nameTableOk names
      let consistent := regSubset sav gs && regSubset lod gl && pat == gp && tblOk
      let impl := if consistent then pyout else .list [gs, gl, gp]
      driverResult impl consistent true true (if tblOk then "name-table-ok" else "name-table-bad")
    | _ =>
      driverResult (.atom "tables") false true true "malformed"
  | some (.list [.atom "dispatch", .atom ty, pyout]) =>
    -- python: (newest fnIsNewest saverVersions loaderVersions|N nextRaises)
    match idOf ty with
    | none => driverResult (.atom "unknown-type") false true true "unknown-type"
    | some i =>
      match rlookup saverTable i with
      | none => driverResult (.atom "no-saver") false true true "no-saver"
      | some vs =>
        let lod := rlookup loaderTable i
        let lodS : Sexp := match lod with | some l => ofInts l | none => .atom "N"
        let newest : Sexp := match newestVersion vs with | some m => ofInt m | none => .atom "N"
        let impl : Sexp := .list [newest, ofBool true, ofInts vs, lodS, ofBool true]
        -- Spec on the python output: versions are 1..n, a save uses n, the function returned is the
        -- one registered for n, a loader exists for exactly the same versions (or the type is
        -- saver-only), asking for version n+1 raises
        let ok := match pyout with
          | .list [nw, fnOk, sv, lv, nx] =>
            match nw.toInt?, fnOk.toBool?, sv.toInts?, nx.toBool? with
            | some nw', some true, some sv', some true =>
              consecutive sv' && nw' == Int.ofNat sv'.length &&
              (match lv with
                | .atom "N" => saverOnly.contains ty
                | l => l.toInts? == some sv')
            | _, _, _, _ => false
          | _ => false
        let implok := consecutive vs && newestVersion vs == some (Int.ofNat vs.length) &&
          (match lod with | none => saverOnly.contains ty | some l => l == vs)
        driverResult impl ok implok true (if vs.length > 1 then "multi-version" else "single-version")
  | some (.list [.atom "patch", .atom name, pyout]) =>
    -- python: (finalName status)   status ∈ ok | value-error
    let start := Nm.ofString name
    let isKey := (plookup patchesNm start).isSome
    match chase patchesNm patchesNm.length start with
    | none => driverResult (.atom "no-fixpoint") false false true "no-fixpoint"
    | some r =>
      let rs := r.str
      let pyName : Option String := match pyout with | .list [.atom n, _] => some n | _ => none
      let pyStatus : Option String := match pyout with | .list [_, .atom s] => some s | _ => none
      let known : Option Bool := match r with
        | .id i => blookup importable i
        | .raw _ => none
      -- importability of names outside the tables / outside the package depends on the environment:
      -- the model echoes what python observed there
      let status : String := match known with
        | some true => "ok"
        | some false => "value-error"
        | none => pyStatus.getD "ok"
      let captured := match start with
        | .id i => isKey && isLiveWritten liveClasses i
        | .raw _ => false
      let listed := knownCaptured.contains name
      let specOn (n : Option String) (s : Option String) : Bool :=
        n == some rs && (!(isKey && inPackage rs) || s == some "ok") && !captured
      let br := if captured then (if listed then "captured-listed" else "captured-unlisted")
        else if !isKey then "not-a-key"
        else if inPackage rs then "key-to-package" else "key-to-external"
      driverResult (.list [.atom rs, .atom status]) (specOn pyName pyStatus)
        (specOn (some rs) (some status)) (!captured) br
  | _ => bad "unknown-family"

def main : IO Unit := driverLoop step
