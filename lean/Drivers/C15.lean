import GlueVerif.Sexp
import GlueVerif.Model.Coords
/-! Line-protocol driver for C15 (world coordinates, their links and inverses). -/
open GlueVerif GlueVerif.Sexp GlueVerif.ArrayUtil GlueVerif.Coords

def bad (msg : String) : String := driverError msg

/-! ### codecs -/

def ratToSexp (q : Rat) : Sexp :=
  if q.den == 1 then ofInt q.num else .list [.atom "q", ofInt q.num, ofNat q.den]

def sexpToRat? : Sexp → Option Rat
  | .list [.atom "q", a, b] => do
    let n ← a.toInt?
    let d ← b.toNat?
    if d == 0 then none else some ((n : Rat) / (d : Rat))
  | e => (e.toInt?).map fun (i : Int) => (i : Rat)

def sexpToRats? (e : Sexp) : Option (List Rat) := do (← e.toList?).mapM sexpToRat?
def ratsToSexp (qs : List Rat) : Sexp := .list (qs.map ratToSexp)

def sexpToMat? (e : Sexp) : Option Mat := do (← e.toList?).mapM sexpToRats?

def arrToSexp (a : Arr) : Sexp := .list [ofNats a.shape, ratsToSexp a.data]

def sexpToArr? : Sexp → Option Arr
  | .list [sh, vals] => do some ⟨← sh.toNats?, ← sexpToRats? vals⟩
  | _ => none

def viewErrAtom : ViewErr → Sexp
  | .indexError => .atom "index-error"
  | .domain => .atom "domain"

def exArrToSexp : Except ViewErr Arr → Sexp
  | .ok a => arrToSexp a
  | .error e => viewErrAtom e

def viewItem? : Sexp → Option ViewItem
  | .list [.atom "i", n] => n.toInt?.map .int
  | .list [.atom "s", a, b, c] => do some (.slice (← a.toOptInt?) (← b.toOptInt?) (← c.toOptInt?))
  | _ => none

def view? : Sexp → Option View
  | .list [.atom "all", _] => some .all
  | .list [.atom "basic1", it] => do some (.basic [← viewItem? it])
  | .list [.atom "basic", its] => do some (.basic (← (← its.toList?).mapM viewItem?))
  | .list [.atom "arrays", sh, idx] => do
    some (.arrays (← sh.toNats?) (← (← idx.toList?).mapM Sexp.toNats?))
  | .list [.atom "mask", m] => do some (.mask (← m.toBools?))
  | _ => none

inductive CoordIn where
  | ok (c : Coord)
  | err (e : CoordErr)

def coord? : Sexp → Option CoordIn
  | .list [.atom "id", n] => do some (.ok (.identity (← n.toNat?)))
  | .list [.atom "aff", m] => do
    match mkAffine (← sexpToMat? m) with
    | .ok c => some (.ok c)
    | .error e => some (.err e)
  | _ => none

def coordErrAtom : CoordErr → Sexp
  | .valueError => .atom "value-error"
  | .linAlgError => .atom "linalg-error"
  | .notModelled => .atom "not-modelled"

def eqArr (py : Sexp) (spec : Except ViewErr Arr) : Bool :=
  match spec with
  | .ok a => (sexpToArr? py).map (· == a) |>.getD false
  | .error .indexError => py == .atom "index-error"
  | .error .domain => false

def exEq (a b : Except ViewErr Arr) : Bool :=
  match a, b with
  | .ok x, .ok y => x == y
  | .error x, .error y => x == y
  | _, _ => false

/-! ### families -/

/-- `xform`: the coordinate object alone.
case = `(coord (points…))`; python = `(corr deps p2w roundtrip w2p)` or an error atom. -/
def stepXform (cin : CoordIn) (pts : List (List Rat)) (pyout : Sexp) : String :=
  match cin with
  | .err e =>
    let a := coordErrAtom e
    driverResult a (pyout == a) true true ("ctor-" ++ Sexp.toString a)
  | .ok c =>
    let n := c.n
    let corr : Sexp := .list ((List.range n).map fun w => ofBools ((List.range n).map fun p => c.corr w p))
    let deps : Sexp := .list ((List.range n).map fun a => ofNats (Impl.dependentAxes c a))
    let p2w := pts.map c.p2w
    let rt := p2w.map c.w2p
    let w2p := pts.map c.w2p
    let impl : Sexp := .list [corr, deps, .list (p2w.map ratsToSexp), .list (rt.map ratsToSexp),
      .list (w2p.map ratsToSexp)]
    -- Spec on an output: forward values are the affine map of the matrix; the round trip is the
    -- identity; `world_to_pixel` is a right inverse of `pixel_to_world` (checked by applying the
    -- forward map to python's answer, independently of the model's own inverse).
    let specOk (p2wO rtO w2pO : List (List Rat)) : Bool :=
      p2wO == p2w && rtO == pts.map (fun x => x.take n) && w2pO.map c.p2w == pts.map (fun x => x.take n)
    let ok := match pyout with
      | .list [pc, _, a, b, d] =>
        pc == corr &&
        (match (a.toList?.bind (·.mapM sexpToRats?)), (b.toList?.bind (·.mapM sexpToRats?)),
               (d.toList?.bind (·.mapM sexpToRats?)) with
         | some a', some b', some d' => specOk a' b' d'
         | _, _, _ => false)
      | _ => false
    let depsOk := (List.range n).all fun a =>
      needSubset c a (Impl.dependentAxes c a) &&
      closedUnder c.corr n (coupledAxes c [n - 1 - a] [n - 1 - a]) &&
      closedUnder c.corr n (coupledAxes c [a] []) && invRowSubset c a (Impl.worldDep c a)
    driverResult impl ok (specOk p2w rt w2p && depsOk) c.wf
      (match c with
       | .identity _ => "identity"
       | .affine _ _ _ =>
         if (List.range n).all (fun a => (Impl.dependentAxes c a).length == 1) then "affine-separable"
         else if (List.range n).all (fun a => (Impl.dependentAxes c a).length == n) then "affine-coupled"
         else "affine-blocks")

/-- `world`: every world component of a dataset under a view. -/
def stepWorld (c : Coord) (sh : List Nat) (v : View) (pyout : Sexp) : String :=
  let n := c.n
  if sh.length ≠ n then bad "world-ndim" else
  let impls := (List.range n).map fun a => Impl.worldView c sh a v
  let specs := (List.range n).map fun a => Spec.worldView c sh a v
  let impl : Sexp := .list (impls.map exArrToSexp)
  let ok := match pyout.toList? with
    | some outs => outs.length == n && (outs.zip specs).all fun p => eqArr p.1 p.2
    | none => false
  let implok := (impls.zip specs).all fun p => exEq p.1 p.2
  driverResult impl ok implok c.wf (Impl.branch c sh 0 v)

/-- `link`: every automatically created link of a dataset under a view.
python = per numpy axis `(from_needed_p2w p2w from_needed_w2p w2p)`. -/
def stepLink (c : Coord) (sh : List Nat) (v : View) (pyout : Sexp) : String :=
  let n := c.n
  if sh.length ≠ n then bad "link-ndim" else
  let impls := (List.range n).map fun i =>
    (Impl.dependentAxes c i, Impl.linkP2W c sh i v, Impl.linkW2P c sh i v)
  let impl : Sexp := .list (impls.map fun t =>
    .list [ofNats t.1, exArrToSexp t.2.1, ofNats t.1, exArrToSexp t.2.2])
  let ok := match pyout.toList? with
    | some outs => outs.length == n && ((List.range n).zip outs).all fun p =>
      match p.2 with
      | .list [_, a, _, b] =>
        eqArr a (Spec.linkP2W c sh p.1 v) && eqArr b (Spec.linkW2P c sh p.1 v) &&
        eqArr b (Spec.pixelView sh p.1 v)
      | _ => false
    | none => false
  let implok := ((List.range n).zip impls).all fun p =>
    exEq p.2.2.1 (Spec.linkP2W c sh p.1 v) && exEq p.2.2.2 (Spec.linkW2P c sh p.1 v) &&
    exEq p.2.2.2 (Spec.pixelView sh p.1 v)
  driverResult impl ok implok c.wf
    (match v with
     | .all => "all"
     | .basic _ => "basic"
     | .arrays _ _ => if n == 1 then "arrays-1d-bare" else "arrays"
     | .mask _ => "mask")

def step (line : String) : String :=
  match Sexp.parse line with
  | some (.list [.atom "xform", .list [ce, pts], pyout]) =>
    match coord? ce, (pts.toList?.bind (·.mapM sexpToRats?)) with
    | some cin, some ps => stepXform cin ps pyout
    | _, _ => bad "xform-args"
  | some (.list [.atom fam, .list [ce, sh, ve], pyout]) =>
    match coord? ce, sh.toNats?, view? ve with
    | some (.ok c), some shape, some v =>
      if fam == "world" then stepWorld c shape v pyout
      else if fam == "link" then stepLink c shape v pyout
      else bad "unknown-family"
    | some (.err _), _, _ => bad "coord-error-in-data-family"
    | _, _, _ => bad (fam ++ "-args")
  | _ => bad "unknown-family"

def main : IO Unit := driverLoop step
