import GlueVerif.Sexp
import GlueVerif.Model.Coords
import GlueVerif.Model.C15Float
import GlueVerif.Model.C15History
/-! Line-protocol driver for C15 (world coordinates, their links and inverses). -/
open GlueVerif GlueVerif.Sexp GlueVerif.ArrayUtil GlueVerif.Coords

def bad (msg : String) : String := driverError msg

/-! ### codecs -/

def ratToSexp (q : Rat) : Sexp :=
  if q.den == 1 then ofInt q.num else .list [.atom "q", ofInt q.num, ofNat q.den]

def sexpToRat? : Sexp → Option Rat
  | .list [.atom "q", a, b] => do
    let n ← a.toInt?
    let d ← b.toNat?
    if d == 0 then none else some ((n : Rat) / (d : Rat))
  | e => (e.toInt?).map fun (i : Int) => (i : Rat)

def sexpToRats? (e : Sexp) : Option (List Rat) := do (← e.toList?).mapM sexpToRat?
def ratsToSexp (qs : List Rat) : Sexp := .list (qs.map ratToSexp)

def sexpToMat? (e : Sexp) : Option Mat := do (← e.toList?).mapM sexpToRats?

def arrToSexp (a : Arr) : Sexp := .list [ofNats a.shape, ratsToSexp a.data]

def sexpToArr? : Sexp → Option Arr
  | .list [sh, vals] => do some ⟨← sh.toNats?, ← sexpToRats? vals⟩
  | _ => none

def viewErrAtom : ViewErr → Sexp
  | .indexError => .atom "index-error"
  | .domain => .atom "domain"

def exArrToSexp : Except ViewErr Arr → Sexp
  | .ok a => arrToSexp a
  | .error e => viewErrAtom e

def viewItem? : Sexp → Option ViewItem
  | .list [.atom "i", n] => n.toInt?.map .int
  | .list [.atom "s", a, b, c] => do some (.slice (← a.toOptInt?) (← b.toOptInt?) (← c.toOptInt?))
  | _ => none

def view? : Sexp → Option View
  | .list [.atom "all", _] => some .all
  | .list [.atom "basic1", it] => do some (.basic [← viewItem? it])
  | .list [.atom "basic", its] => do some (.basic (← (← its.toList?).mapM viewItem?))
  | .list [.atom "arrays", sh, idx] => do
    some (.arrays (← sh.toNats?) (← (← idx.toList?).mapM Sexp.toNats?))
  | .list [.atom "mask", m] => do some (.mask (← m.toBools?))
  | _ => none

inductive CoordIn where
  | ok (c : Coord)
  | err (e : CoordErr)

def coord? : Sexp → Option CoordIn
  | .list [.atom "id", n] => do some (.ok (.identity (← n.toNat?)))
  | .list [.atom "aff", m] => do
    match mkAffine (← sexpToMat? m) with
    | .ok c => some (.ok c)
    | .error e => some (.err e)
  | _ => none

def coordErrAtom : CoordErr → Sexp
  | .valueError => .atom "value-error"
  | .linAlgError => .atom "linalg-error"
  | .notModelled => .atom "not-modelled"

/-! ### binary64 acceptance (rules of `Model/C15Float.lean`; tolerances are computed here from the
exact case, never by Python) -/

def closeList (py exact tol : List Rat) : Bool :=
  py.length == exact.length &&
    ((py.zip (exact.zip tol)).all fun t => Flt.rabs (t.1 - t.2.1) ≤ t.2.2) && tol.length == exact.length

/-- Comparison (a): the model predicts the exact value; a double within the acceptance rule of that
value is what the model predicts the implementation to return. -/
def echoList (py exact tol : List Rat) : List Rat :=
  if py.length != exact.length then exact
  else (py.zip (exact.zip tol)).map fun t => if Flt.rabs (t.1 - t.2.1) ≤ t.2.2 then t.1 else t.2.1

def eqArr (py : Sexp) (spec : Except ViewErr Arr) (tol : Unit → List Rat) : Bool :=
  match spec with
  | .ok a =>
    match sexpToArr? py with
    | some b => b.shape == a.shape && (b.data == a.data || closeList b.data a.data (tol ()))
    | none => false
  | .error .indexError => py == .atom "index-error"
  | .error .domain => false

def echoArr (py : Sexp) (impl : Except ViewErr Arr) (tol : Unit → List Rat) : Except ViewErr Arr :=
  match impl with
  | .ok a =>
    match sexpToArr? py with
    | some b =>
      if b.shape == a.shape && b.data != a.data then .ok ⟨a.shape, echoList b.data a.data (tol ())⟩ else .ok a
    | none => .ok a
  | e => e

/-- `exEq` up to the acceptance rule is not needed: model and Spec are both exact. -/
def exEq (a b : Except ViewErr Arr) : Bool :=
  match a, b with
  | .ok x, .ok y => x == y
  | .error x, .error y => x == y
  | _, _ => false

/-- Source index tuples of the elements of `full[view]` (`[]` when the view is rejected). -/
def ptsOf (sh : List Nat) (v : View) : List (List Nat) :=
  match viewPoints sh v with
  | .ok (_, pts) => pts
  | .error _ => []

/-- Forward tolerance of world axis `a` (numpy order) at every element of the view. -/
def fwdTols (c : Coord) (a : Nat) (pts : List (List Nat)) : List Rat :=
  pts.map fun idx => Flt.fwdTol c (c.n - 1 - a) (toFits (natPos idx))

/-- Per element of the view: exact world values (FITS order) and their forward tolerances. -/
def worldWithTols (c : Coord) (pts : List (List Nat)) : List (List Rat × List Rat) :=
  pts.map fun idx =>
    let x := toFits (natPos idx)
    (c.p2w x, (List.range c.n).map fun w => Flt.fwdTol c w x)

/-- Tolerance of the world→pixel link of pixel axis `i` (numpy order) at every element: the
inverse applied to world values that themselves carry the forward tolerance. -/
def w2pTols (c : Coord) (cx : Flt.InvCtx) (i : Nat) (ws : List (List Rat × List Rat)) : List Rat :=
  ws.map fun t => Flt.invTol cx (c.n - 1 - i) t.1 t.2

/-! ### families -/

/-- `xform`: the coordinate object alone.
case = `(coord (points…))`; python = `(corr deps p2w roundtrip w2p)` or an error atom. -/
def stepXform (cin : CoordIn) (pts : List (List Rat)) (pyout : Sexp) : String :=
  match cin with
  | .err e =>
    let a := coordErrAtom e
    driverResult a (pyout == a) true true ("ctor-" ++ Sexp.toString a)
  | .ok c =>
    let n := c.n
    let cx := Flt.invCtx c
    let corr : Sexp := .list ((List.range n).map fun w => ofBools ((List.range n).map fun p => c.corr w p))
    let deps : Sexp := .list ((List.range n).map fun a => ofNats (Impl.dependentAxes c a))
    let xs := pts.map fun x => x.take n
    let p2w := pts.map c.p2w
    let rt := p2w.map c.w2p
    let w2p := pts.map c.w2p
    let zero := (List.range n).map fun _ => (0 : Rat)
    -- acceptance rules (Model/C15Float.lean), from the exact case alone
    let fT := pts.map fun x => (List.range n).map fun k => Flt.fwdTol c k x
    let rT := (pts.zip fT).map fun t => (List.range n).map fun p => Flt.invTol cx p (c.p2w t.1) t.2
    let iT := pts.map fun x => (List.range n).map fun p => Flt.invTol cx p x zero
    let closeAll (py exact tol : List (List Rat)) : Bool :=
      py.length == exact.length && (py.zip (exact.zip tol)).all fun t => closeList t.1 t.2.1 t.2.2
    let echoAll (py exact tol : List (List Rat)) : List (List Rat) :=
      if py.length != exact.length then exact
      else (py.zip (exact.zip tol)).map fun t => echoList t.1 t.2.1 t.2.2
    -- Spec on an output: forward values are the affine map of the matrix; the round trip is the
    -- identity; `world_to_pixel` is the inverse map — each up to the binary64 acceptance rule.
    let parsed := match pyout with
      | .list [pc, _, a, b, d] =>
        match (a.toList?.bind (·.mapM sexpToRats?)), (b.toList?.bind (·.mapM sexpToRats?)),
              (d.toList?.bind (·.mapM sexpToRats?)) with
        | some a', some b', some d' => some (pc, a', b', d')
        | _, _, _ => none
      | _ => none
    let ok := match parsed with
      | some (pc, a, b, d) => pc == corr && closeAll a p2w fT && closeAll b xs rT && closeAll d w2p iT
      | none => false
    let (ea, eb, ed) := match parsed with
      | some (_, a, b, d) => (echoAll a p2w fT, echoAll b rt rT, echoAll d w2p iT)
      | none => (p2w, rt, w2p)
    let impl : Sexp := .list [corr, deps, .list (ea.map ratsToSexp), .list (eb.map ratsToSexp),
      .list (ed.map ratsToSexp)]
    let depsOk := (List.range n).all fun a =>
      needSubset c a (Impl.dependentAxes c a) &&
      closedUnder c.corr n (coupledAxes c [n - 1 - a] [n - 1 - a]) &&
      closedUnder c.corr n (coupledAxes c [a] []) && invRowSubset c a (Impl.worldDep c a)
    let loose := (rT.any fun r => r.any (· > 1 / 4))
    driverResult impl ok (rt == xs && depsOk) (c.wf && Flt.rangeOk c)
      (match c with
       | .identity _ => "identity"
       | .affine _ _ _ =>
         (if (List.range n).all (fun a => (Impl.dependentAxes c a).length == 1) then "affine-separable"
          else if (List.range n).all (fun a => (Impl.dependentAxes c a).length == n) then "affine-coupled"
          else "affine-blocks") ++ (if loose then "/inv-loose" else ""))

/-- Verdicts on one read (or one whole case). -/
structure ReadRes where
  impl : Sexp
  ok : Bool
  implok : Bool
  p : Bool
  br : String

def ReadRes.result (r : ReadRes) : String := driverResult r.impl r.ok r.implok r.p r.br

def ndimMismatch : ReadRes := ⟨.atom "ndim-mismatch", false, true, false, "ndim-mismatch"⟩

/-- `world`: every world component of a dataset under a view. -/
def worldCore (c : Coord) (sh : List Nat) (v : View) (pyout : Sexp) : ReadRes :=
  let n := c.n
  if sh.length ≠ n then ndimMismatch else
  let pts := ptsOf sh v
  let impls := (List.range n).map fun a => Impl.worldView c sh a v
  let specs := (List.range n).map fun a => Spec.worldView c sh a v
  let tols := (List.range n).map fun a => fun (_ : Unit) => fwdTols c a pts
  let outs := pyout.toList?.getD []
  let ok := outs.length == n && (outs.zip (specs.zip tols)).all fun p => eqArr p.1 p.2.1 p.2.2
  let impl : Sexp :=
    if outs.length == n then .list ((outs.zip (impls.zip tols)).map fun p => exArrToSexp (echoArr p.1 p.2.1 p.2.2))
    else .list (impls.map exArrToSexp)
  let implok := (impls.zip specs).all fun p => exEq p.1 p.2
  ⟨impl, ok, implok, c.wf, Impl.branch c sh 0 v⟩

def stepWorld (c : Coord) (sh : List Nat) (v : View) (pyout : Sexp) : String :=
  if sh.length ≠ c.n then bad "world-ndim" else (worldCore c sh v pyout).result

/-- `link`: every automatically created link of a dataset under a view.
python = per numpy axis `(from_needed_p2w p2w from_needed_w2p w2p)`. -/
def linkCore (c : Coord) (sh : List Nat) (v : View) (pyout : Sexp) : ReadRes :=
  let n := c.n
  if sh.length ≠ n then ndimMismatch else
  let cx := Flt.invCtx c
  let pts := ptsOf sh v
  let ws := Thunk.mk fun _ => worldWithTols c pts
  let impls := (List.range n).map fun i =>
    (Impl.dependentAxes c i, Impl.linkP2W c sh i v, Impl.linkW2P c sh i v,
     (fun (_ : Unit) => fwdTols c i pts), (fun (_ : Unit) => w2pTols c cx i ws.get))
  let outs := pyout.toList?.getD []
  let ok := outs.length == n && (outs.zip impls).zipIdx.all fun q =>
      let i := q.2
      let t := q.1.2
      match q.1.1 with
      | .list [_, a, _, b] =>
        eqArr a (Spec.linkP2W c sh i v) t.2.2.2.1 && eqArr b (Spec.linkW2P c sh i v) t.2.2.2.2 &&
        eqArr b (Spec.pixelView sh i v) t.2.2.2.2
      | _ => false
  let pyPair (k : Nat) : Sexp × Sexp :=
    match outs[k]? with
    | some (.list [_, a, _, b]) => (a, b)
    | _ => (.atom "none", .atom "none")
  let impl : Sexp := .list (impls.zipIdx.map fun q =>
    let t := q.1
    let py := pyPair q.2
    .list [ofNats t.1, exArrToSexp (echoArr py.1 t.2.1 t.2.2.2.1), ofNats t.1,
           exArrToSexp (echoArr py.2 t.2.2.1 t.2.2.2.2)])
  let implok := ((List.range n).zip impls).all fun p =>
    exEq p.2.2.1 (Spec.linkP2W c sh p.1 v) && exEq p.2.2.2.1 (Spec.linkW2P c sh p.1 v) &&
    exEq p.2.2.2.1 (Spec.pixelView sh p.1 v)
  let loose := (w2pTols c cx 0 (worldWithTols c (pts.take 1 ++ pts.reverse.take 1))).any (· > 1 / 4)
  ⟨impl, ok, implok, c.wf,
    ((match v with
     | .all => "all"
     | .basic _ => "basic"
     | .arrays _ _ => if n == 1 then "arrays-1d-bare" else "arrays"
     | .mask _ => "mask") ++ (if loose then "/inv-loose" else ""))⟩

def stepLink (c : Coord) (sh : List Nat) (v : View) (pyout : Sexp) : String :=
  if sh.length ≠ c.n then bad "link-ndim" else (linkCore c sh v pyout).result

/-! ### histories on one dataset object (`Model/C15History.lean`)

case = `(coord shape (hist op…))`, python = one observation per op: reads as in `world` / `link`
(`()` when the dataset has no coordinates), mutations `ok`.  The state machine is the model's
`CoordData.apply`; every read is judged against the *current* (shape, coords). -/

inductive HistOp where
  | rw (v : View)
  | rl (v : View)
  | mut (op : HOp) (kind : String)

def optCoord? : Sexp → Option (Option Coord)
  | .atom "N" => some none
  | e => match coord? e with
    | some (.ok c) => some (some c)
    | _ => none

def histOp? : Sexp → Option HistOp
  | .list [.atom "rw", ve] => (view? ve).map .rw
  | .list [.atom "rl", ve] => (view? ve).map .rl
  | .list [.atom "uvd", sh, ce] => do some (.mut (.update (← sh.toNats?) (← optCoord? ce)) "uvd")
  | .list [.atom "setc", ce] => do some (.mut (.setCoords (← optCoord? ce)) "setc")
  | .list [.atom "touch", .atom k] => some (.mut .touch k)
  | _ => none

structure HistAcc where
  s : CoordData
  impls : List Sexp := []
  ok : Bool := true
  implok : Bool := true
  p : Bool := true
  lastMut : String := "none"
  lastBr : String := "none"

def histStep (acc : HistAcc) (op : HistOp) (out : Sexp) : HistAcc :=
  let read (core : Coord → List Nat → View → Sexp → ReadRes) (v : View) : HistAcc :=
    match acc.s.coords with
    | none =>
      { acc with impls := .list [] :: acc.impls, ok := acc.ok && out == .list [], lastBr := "no-coords" }
    | some c =>
      let r := core c acc.s.shape v out
      { acc with impls := r.impl :: acc.impls, ok := acc.ok && r.ok, implok := acc.implok && r.implok,
                 p := acc.p && r.p, lastBr := r.br }
  match op with
  | .rw v => read worldCore v
  | .rl v => read linkCore v
  | .mut m kind =>
    let s' := acc.s.apply m
    { acc with s := s', impls := .atom "ok" :: acc.impls, ok := acc.ok && out == .atom "ok",
               p := acc.p && s'.ok, lastMut := if kind == "uvd" && s'.shape != acc.s.shape then "uvd-shape" else kind }

def stepHist (c : Coord) (sh : List Nat) (ops : List HistOp) (pyout : Sexp) : String :=
  let outs := pyout.toList?.getD []
  let aligned := outs.length == ops.length
  let outs' := if aligned then outs else ops.map fun _ => Sexp.atom "none"
  let s0 : CoordData := ⟨sh, some c⟩
  let acc := (ops.zip outs').foldl (fun a p => histStep a p.1 p.2) { s := s0, p := s0.ok }
  driverResult (.list acc.impls.reverse) (aligned && acc.ok) acc.implok acc.p
    ("hist/" ++ acc.lastMut ++ "/" ++ acc.lastBr)

def step (line : String) : String :=
  match Sexp.parse line with
  | some (.list [.atom "xform", .list [ce, pts], pyout]) =>
    match coord? ce, (pts.toList?.bind (·.mapM sexpToRats?)) with
    | some cin, some ps => stepXform cin ps pyout
    | _, _ => bad "xform-args"
  | some (.list [.atom fam, .list [ce, sh, .list (.atom "hist" :: opes)], pyout]) =>
    match coord? ce, sh.toNats?, opes.mapM histOp? with
    | some (.ok c), some shape, some ops =>
      if fam == "world" || fam == "link" then stepHist c shape ops pyout else bad "unknown-family"
    | _, _, _ => bad (fam ++ "-hist-args")
  | some (.list [.atom fam, .list [ce, sh, ve], pyout]) =>
    match coord? ce, sh.toNats?, view? ve with
    | some (.ok c), some shape, some v =>
      if fam == "world" then stepWorld c shape v pyout
      else if fam == "link" then stepLink c shape v pyout
      else bad "unknown-family"
    | some (.err _), _, _ => bad "coord-error-in-data-family"
    | _, _, _ => bad (fam ++ "-args")
  | _ => bad "unknown-family"

def main : IO Unit := driverLoop step
