import GlueVerif.Sexp
import GlueVerif.Model.Joins
/-! Line-protocol driver for C11 (key joins).

Families
* `(g (DATASETS OPS (d VIEW)) PYOUT)` — a join graph built by `OPS` on `DATASETS`, the query
  `datasets[d].get_mask(state, view)`.
  `DATASETS = ((ds (DT ...) (ROW ...) OWN) ...)`, `ROW = (cell ...)`, cell = integer (ints; floats as
  bit patterns) or `(cp ...)` (strings), `OWN = N | (T F ...)`;
  `OPS = ((join a b (ca ...) (cb ...)) | (unjoin a b) ...)`; `VIEW = N | (i ...)`;
  `PYOUT = incompatible | (mask (T F ...)) | anything else (rejected)`.
* `(castv (SRC DST cell) PYOUT)` — L0: `np.result_type` + `astype` + item bytes; `PYOUT = (DT (byte ...))`.
* `(eqv (DTA cella DTB cellb) PYOUT)` — L0: numpy `==` / `np.isin` on one pair and exact equality of the
  two values; `PYOUT = (T|F T|F)`.
-/
open GlueVerif GlueVerif.Sexp GlueVerif.Joins

def dtype? : Sexp → Option DType
  | .atom "i1" => some (.int true 1) | .atom "i2" => some (.int true 2)
  | .atom "i4" => some (.int true 4) | .atom "i8" => some (.int true 8)
  | .atom "u1" => some (.int false 1) | .atom "u2" => some (.int false 2)
  | .atom "u4" => some (.int false 4) | .atom "u8" => some (.int false 8)
  | .atom "f4" => some (.flt 4) | .atom "f8" => some (.flt 8)
  | .atom s =>
    if s.startsWith "U" then (s.drop 1).toNat?.map .str else none
  | _ => none

def dtypeAtom : DType → Sexp
  | .int true w => .atom s!"i{w}"
  | .int false w => .atom s!"u{w}"
  | .flt w => .atom s!"f{w}"
  | .str w => .atom s!"U{w}"

def cell? (dt : DType) (e : Sexp) : Option Cell :=
  match dt with
  | .int _ _ => e.toInt?.map .i
  | .flt _ => e.toNat?.map .f
  -- numpy never stores trailing NULs: `np.array(['a\0'])[0] == 'a'`
  | .str _ => e.toNats?.map fun cs => .s (stripZ cs)

def row? (dts : List DType) (e : Sexp) : Option (List Cell) := do
  let xs ← e.toList?
  if xs.length != dts.length then none else
  (dts.zip xs).mapM fun p => cell? p.1 p.2

def optBools? : Sexp → Option (Option (List Bool))
  | .atom "N" => some none
  | e => e.toBools?.map some

def optNats? : Sexp → Option (Option (List Nat))
  | .atom "N" => some none
  | e => e.toNats?.map some

def dataset? : Sexp → Option Dataset
  | .list [.atom "ds", dts, rows, own] => do
    let ds ← (← dts.toList?).mapM dtype?
    let rs ← (← rows.toList?).mapM (row? ds)
    let o ← optBools? own
    some { dts := ds, rows := rs, ownMask := o, joins := [] }
  | _ => none

def op? : Sexp → Option Op
  | .list [.atom "join", a, b, ca, cb] => do
    some (.join (← a.toNat?) (← b.toNat?) (← ca.toNats?) (← cb.toNats?))
  | .list [.atom "unjoin", a, b] => do some (.unjoin (← a.toNat?) (← b.toNat?))
  | _ => none

def resToSexp : Res → Sexp
  | .mask m => .list [.atom "mask", ofBools m]
  | .incompatible => .atom "incompatible"
  | .error => .atom "error"
  | .outOfFuel => .atom "out-of-fuel"

def res? : Sexp → Option Res
  | .atom "incompatible" => some .incompatible
  | .list [.atom "mask", m] => m.toBools?.map .mask
  | _ => none

def shapeTag (j : Join) : String :=
  let n1 := j.own.length
  let n2 := j.oth.length
  if n1 = 1 ∧ n2 = 1 then "11" else if n1 = n2 then "nn" else if n1 = 1 then "1n" else if n2 = 1 then "n1" else "bad"

def branchOf (w : World) (d : Nat) : String :=
  match paths w (w.length + 1) d [] with
  | [] => "incompatible"
  | p :: rest =>
    let tag := if p.1.isEmpty then "own" else ".".intercalate (p.1.map fun s => shapeTag s.2)
    if rest.isEmpty then tag else tag ++ "+alt"

def step (line : String) : String :=
  match Sexp.parse line with
  | some (.list [.atom "g", .list [dss, ops, .list [d, view]], pyout]) =>
    match (dss.toList?.bind fun xs => xs.mapM dataset?), (ops.toList?.bind fun xs => xs.mapM op?),
          d.toNat?, optNats? view with
    | some w0, some os, some d, some v =>
      let w := applyOps w0 os
      let impl := Impl.getMask w d v
      let ok := match res? pyout with
        | some r => specOk w d v r
        | none => false
      -- `p` = hypothesis of `C11.join_correct`: legal key tuples and value-preserving promotions
      driverResult (resToSexp impl) ok (specOk w d v impl) (worldOk w && exactOk w) (branchOf w d)
    | _, _, _, _ => driverError "g-args"
  | some (.list [.atom "castv", .list [src, dst, c], pyout]) =>
    match dtype? src, dtype? dst with
    | some s, some t =>
      match cell? s c with
      | some x =>
        let cm := common s t
        let out := Sexp.list [dtypeAtom cm, ofNats (enc cm (cast s cm x))]
        driverResult out (pyout == out) true (kindsOk s t && validCell s x)
          (match s, cm with
            | .int _ _, .flt _ => "int-to-float"
            | .flt 4, .flt 8 => "widen"
            | _, _ => if s == cm then "same" else "resize")
      | none => driverError "castv-cell"
    | _, _ => driverError "castv-args"
  | some (.list [.atom "eqv", .list [da, ca, db, cb], pyout]) =>
    match dtype? da, dtype? db with
    | some a, some b =>
      match cell? a ca, cell? b cb with
      | some x, some y =>
        let r := veq (a, x) (b, y)
        let rx := veqX (a, x) (b, y)
        -- L0: the model of numpy's `==` and of exact equality (python: exact integer / rational
        -- comparison); the n-n byte test must agree with numpy's `==` (comparison (b))
        let out := Sexp.list [ofBool r, ofBool rx]
        driverResult out (pyout == out) (nnMatch [(a, x)] [(b, y)] == r)
          (pairOk (a, x) (b, y)) (if r then (if rx then "eq" else "eq-by-rounding") else "ne")
      | _, _ => driverError "eqv-cell"
    | _, _ => driverError "eqv-args"
  | _ => driverError "unknown-family"

def main : IO Unit := driverLoop step
