import GlueVerif.Sexp
import GlueVerif.Model.C18Viewer
/-! Line-protocol driver for C18 (viewers and attribute pickers mirror the collection).

Family `view`: `(view (nData nColors cls (op …)) <python snapshots>)`, one snapshot before the
first op and one after every op:
`((D d…) (ds (sub…)…) (L (aid tok)…) (S (aid tok)…) (e T|F))` with `sub = (name data group)`,
`tok = (d k) | (s name data group)`; `L` = `viewer.layers`, `S` = `viewer.state.layers`, `aid` = the
canonical name of the layer *state* object (`artist.state` for `L`).  Names are canonical: numbered
in order of first appearance (subsets: `ds` rows, then `L`, then `S`; states: `L` then `S`),
snapshot after snapshot. -/
open GlueVerif GlueVerif.Sexp GlueVerif.Collection GlueVerif.C18Viewer

abbrev Ren := List (Nat × Nat)

def renLookup (m : Ren) (k : Nat) : Nat := ((m.find? (·.1 == k)).map (·.2)).getD 9999

def renExtend (m : Ren) (ids : List Nat) : Ren :=
  ids.foldl (fun m k => if m.any (·.1 == k) then m else m ++ [(k, m.length)]) m

def optNatSexp : Option Nat → Sexp
  | none => .atom "N"
  | some n => ofNat n

def optNat? : Sexp → Option (Option Nat)
  | .atom "N" => some none
  | e => e.toNat?.map some

def optNatArg? : Sexp → Option (Option Nat)
  | .atom "N" => some none
  | e => e.toNat?.map some

def vopOf? : Sexp → Option VOp
  | .list [.atom "app", d] => d.toNat?.map fun d => .col (.append d)
  | .list [.atom "rem", d] => d.toNat?.map fun d => .col (.remove d)
  | .list [.atom "ng"] => some (.col .newGroup)
  | .list [.atom "rg", g] => g.toNat?.map fun g => .col (.removeGroup g)
  | .list [.atom "vad", d] => d.toNat?.map .addData
  | .list [.atom "vas", d, g] => do some (.addSubset (← d.toNat?) (← g.toNat?))
  | .list [.atom "vrd", d] => d.toNat?.map .removeData
  | .list [.atom "vrs", d, g] => do some (.removeSubset (← d.toNat?) (← g.toNat?))
  | .list [.atom "vrl", d, g] => do some (.removeLayer (← d.toNat?) (← optNatArg? g))
  | .list [.atom "vps", d, g] => do some (.popState (← d.toNat?) (← optNatArg? g))
  | .list [.atom "rst"] => some .restore
  | _ => none

/-! ### printing a model state -/

def subSexp (m : Ren) (s : Sub) : Sexp := .list [ofNat (renLookup m s.id), optNatSexp s.data, ofNat s.group]

def layerSexp (m : Ren) : Layer → Sexp
  | .data d => .list [.atom "d", ofNat d]
  | .sub s => .list [.atom "s", ofNat (renLookup m s.id), optNatSexp s.data, ofNat s.group]

def artSexp (ms ma : Ren) (a : Art) : Sexp := .list [ofNat (renLookup ma a.id), layerSexp ms a.layer]

def layerSubIds (as : List Art) : List Nat :=
  as.filterMap fun a => match a.layer with | .sub s => some s.id | .data _ => none

def subIdsOf (v : VState) : List Nat :=
  ((List.range v.col.nData).flatMap fun d => (v.col.dsubs d).map (·.id)) ++ layerSubIds v.arts ++ layerSubIds v.slayers

def artIdsOf (v : VState) : List Nat := v.arts.map (·.id) ++ v.slayers.map (·.id)

def snapshot (ms ma : Ren) (v : VState) : Sexp :=
  .list [
    tagged "D" (v.col.datasets.map ofNat),
    tagged "ds" ((List.range v.col.nData).map fun d => .list ((v.col.dsubs d).map (subSexp ms))),
    tagged "L" (v.arts.map (artSexp ms ma)),
    tagged "S" (v.slayers.map (artSexp ms ma)),
    tagged "e" [ofBool v.err]]

/-! ### parsing a python snapshot -/

def subOf? : Sexp → Option Sub
  | .list [n, d, g] => do some ⟨← n.toNat?, ← optNat? d, ← g.toNat?⟩
  | _ => none

def layerOf? : Sexp → Option Layer
  | .list [.atom "d", d] => d.toNat?.map .data
  | .list [.atom "s", n, d, g] => do some (.sub ⟨← n.toNat?, ← optNat? d, ← g.toNat?⟩)
  | _ => none

def artOf? : Sexp → Option Art
  | .list [a, l] => do some ⟨← a.toNat?, ← layerOf? l⟩
  | _ => none

structure PySnap where
  datasets : List Nat
  dsubs : List (List Sub)
  arts : List Art
  slayers : List Art
  err : Bool

def parseSnap : Sexp → Option PySnap
  | .list [.list (.atom "D" :: ds), .list (.atom "ds" :: dss), .list (.atom "L" :: ls),
           .list (.atom "S" :: ss), .list [.atom "e", e]] => do
    let D ← ds.mapM toNat?
    let dsubs ← dss.mapM fun row => do (← row.toList?).mapM subOf?
    some ⟨D, dsubs, ← ls.mapM artOf?, ← ss.mapM artOf?, ← e.toBool?⟩
  | _ => none

/-- rename the model's ghost subsets to canonical names so that they can be compared with the
python snapshot's subsets (which carry canonical names). -/
def renWant (ms : Ren) (w : Want) : Want :=
  let f := fun (s : Sub) => { s with id := renLookup ms s.id }
  ⟨w.given, w.hidden.map f, w.extra.map f⟩

/-- Spec verdict on a python snapshot, given what the client asked for (computed by the Spec's
ghost rules from the case). -/
def pySnapOk (w : Want) (e : Sexp) : Bool :=
  match parseSnap e with
  | some p => specOk p.datasets (fun d => p.dsubs.getD d []) w p.arts p.slayers
  | none => false

def viewBranch (ops : List VOp) (states : List VState) : String :=
  let has := fun (p : VOp → Bool) => ops.any p
  let b := fun (c : String) (x : Bool) => if x then c else "-"
  b "r" (has fun o => o == .restore) ++
  b "h" (states.any fun v => !v.want.hidden.isEmpty) ++
  b "x" (states.any fun v => !v.want.extra.isEmpty) ++
  b "e" (states.any fun v => v.err) ++
  b "l" (states.any fun v => v.arts.length ≥ 4)

def stepView (n c : Sexp) (ops : List Sexp) (pyout : Sexp) : String :=
  match n.toNat?, c.toNat?, ops.mapM vopOf? with
  | some n, some colors, some ops =>
    let v0 := C18Viewer.init n colors
    let states := (ops.foldl (fun (acc : List VState × VState) op =>
        let v' := C18Viewer.step acc.2 op
        (acc.1 ++ [v'], v')) ([v0], v0)).1
    let named := (states.foldl (fun (acc : List (Sexp × Want) × Ren × Ren) v =>
        let ms := renExtend acc.2.1 (subIdsOf v)
        let ma := renExtend acc.2.2 (artIdsOf v)
        (acc.1 ++ [(snapshot ms ma v, renWant ms v.want)], ms, ma)) ([], [], [])).1
    let implok := states.all specOkV
    let ok := match pyout with
      | .list pys => pys.length == named.length &&
          (pys.zip named).all fun (py, (_, w)) => pySnapOk w py
      | _ => false
    driverResult (.list (named.map (·.1))) ok implok true (viewBranch ops states)
  | _, _, _ => driverError "view-args"

def step (line : String) : String :=
  match Sexp.parse line with
  | some (.list [.atom "view", .list [n, c, _cls, .list ops], pyout]) => stepView n c ops pyout
  | _ => driverError "unknown-family"

def main : IO Unit := driverLoop step
