import GlueVerif.Sexp
import GlueVerif.Model.C18Viewer
import GlueVerif.Model.C18Combo
/-! Line-protocol driver for C18 (viewers and attribute pickers mirror the collection).

Family `view`: `(view (nData nColors cls (op …)) <python snapshots>)`, one snapshot before the
first op and one after every op:
`((D d…) (ds (sub…)…) (L (aid tok)…) (S (aid tok)…) (e T|F))` with `sub = (name data group)`,
`tok = (d k) | (s name data group)`; `L` = `viewer.layers`, `S` = `viewer.state.layers`, `aid` = the
canonical name of the layer *state* object (`artist.state` for `L`).  Names are canonical: numbered
in order of first appearance (subsets: `ds` rows, then `L`, then `S`; states: `L` then `S`),
snapshot after snapshot. -/
open GlueVerif GlueVerif.Sexp GlueVerif.Collection GlueVerif.C18Viewer

abbrev Ren := List (Nat × Nat)

def renLookup (m : Ren) (k : Nat) : Nat := ((m.find? (·.1 == k)).map (·.2)).getD 9999

def renExtend (m : Ren) (ids : List Nat) : Ren :=
  ids.foldl (fun m k => if m.any (·.1 == k) then m else m ++ [(k, m.length)]) m

def optNatSexp : Option Nat → Sexp
  | none => .atom "N"
  | some n => ofNat n

def optNat? : Sexp → Option (Option Nat)
  | .atom "N" => some none
  | e => e.toNat?.map some

def optNatArg? : Sexp → Option (Option Nat)
  | .atom "N" => some none
  | e => e.toNat?.map some

/-- the number of datasets of a case: a number, or the list of dataset templates (one atom each). -/
def nDataOf? : Sexp → Option Nat
  | .list ts => some ts.length
  | e => e.toNat?

def vopOf? : Sexp → Option VOp
  | .list [.atom "app", d] => d.toNat?.map fun d => .col (.append d)
  | .list [.atom "rem", d] => d.toNat?.map fun d => .col (.remove d)
  | .list [.atom "ng"] => some (.col .newGroup)
  | .list [.atom "rg", g] => g.toNat?.map fun g => .col (.removeGroup g)
  | .list [.atom "vad", d] => d.toNat?.map .addData
  | .list [.atom "vas", d, g] => do some (.addSubset (← d.toNat?) (← g.toNat?))
  | .list [.atom "vrd", d] => d.toNat?.map .removeData
  | .list [.atom "vrs", d, g] => do some (.removeSubset (← d.toNat?) (← g.toNat?))
  | .list [.atom "vrl", d, g] => do some (.removeLayer (← d.toNat?) (← optNatArg? g))
  | .list [.atom "vps", d, g] => do some (.popState (← d.toNat?) (← optNatArg? g))
  | .list [.atom "rst"] => some .restore
  | _ => none

/-! ### printing a model state -/

def subSexp (m : Ren) (s : Sub) : Sexp := .list [ofNat (renLookup m s.id), optNatSexp s.data, ofNat s.group]

def layerSexp (m : Ren) : Layer → Sexp
  | .data d => .list [.atom "d", ofNat d]
  | .sub s => .list [.atom "s", ofNat (renLookup m s.id), optNatSexp s.data, ofNat s.group]

def artSexp (ms ma : Ren) (a : Art) : Sexp := .list [ofNat (renLookup ma a.id), layerSexp ms a.layer]

def layerSubIds (as : List Art) : List Nat :=
  as.filterMap fun a => match a.layer with | .sub s => some s.id | .data _ => none

def subIdsOf (v : VState) : List Nat :=
  ((List.range v.col.nData).flatMap fun d => (v.col.dsubs d).map (·.id)) ++ layerSubIds v.arts ++ layerSubIds v.slayers

def artIdsOf (v : VState) : List Nat := v.arts.map (·.id) ++ v.slayers.map (·.id)

def snapshot (ms ma : Ren) (v : VState) : Sexp :=
  .list [
    tagged "D" (v.col.datasets.map ofNat),
    tagged "ds" ((List.range v.col.nData).map fun d => .list ((v.col.dsubs d).map (subSexp ms))),
    tagged "L" (v.arts.map (artSexp ms ma)),
    tagged "S" (v.slayers.map (artSexp ms ma)),
    tagged "e" [ofBool v.err]]

/-! ### parsing a python snapshot -/

def subOf? : Sexp → Option Sub
  | .list [n, d, g] => do some ⟨← n.toNat?, ← optNat? d, ← g.toNat?⟩
  | _ => none

def layerOf? : Sexp → Option Layer
  | .list [.atom "d", d] => d.toNat?.map .data
  | .list [.atom "s", n, d, g] => do some (.sub ⟨← n.toNat?, ← optNat? d, ← g.toNat?⟩)
  | _ => none

def artOf? : Sexp → Option Art
  | .list [a, l] => do some ⟨← a.toNat?, ← layerOf? l⟩
  | _ => none

structure PySnap where
  datasets : List Nat
  dsubs : List (List Sub)
  arts : List Art
  slayers : List Art
  err : Bool

def parseSnap : Sexp → Option PySnap
  | .list [.list (.atom "D" :: ds), .list (.atom "ds" :: dss), .list (.atom "L" :: ls),
           .list (.atom "S" :: ss), .list [.atom "e", e]] => do
    let D ← ds.mapM toNat?
    let dsubs ← dss.mapM fun row => do (← row.toList?).mapM subOf?
    some ⟨D, dsubs, ← ls.mapM artOf?, ← ss.mapM artOf?, ← e.toBool?⟩
  | _ => none

/-- rename the model's ghost subsets to canonical names so that they can be compared with the
python snapshot's subsets (which carry canonical names). -/
def renWant (ms : Ren) (w : Want) : Want :=
  let f := fun (s : Sub) => { s with id := renLookup ms s.id }
  ⟨w.given, w.hidden.map f, w.extra.map f⟩

/-- Spec verdict on a python snapshot, given what the client asked for (computed by the Spec's
ghost rules from the case). -/
def pySnapOk (w : Want) (e : Sexp) : Bool :=
  match parseSnap e with
  | some p => specOk p.datasets (fun d => p.dsubs.getD d []) w p.arts p.slayers
  | none => false

def viewBranch (ops : List VOp) (states : List VState) : String :=
  let has := fun (p : VOp → Bool) => ops.any p
  let b := fun (c : String) (x : Bool) => if x then c else "-"
  b "r" (has fun o => o == .restore) ++
  b "h" (states.any fun v => !v.want.hidden.isEmpty) ++
  b "x" (states.any fun v => !v.want.extra.isEmpty) ++
  b "e" (states.any fun v => v.err) ++
  b "l" (states.any fun v => v.arts.length ≥ 4)

/-! ## families `combo`, `dcombo`: attribute / dataset pickers

`(combo (nData idx (op …) [hasDc]) <snapshots>)` (`hasDc = F`: helper built without data collection,
subscribes lazily; default `T`), snapshot =
`((F numeric datetime categorical pixel world derived none) (H (id (m (cid kind)…) (dv cid…) (p cid…) (w cid…))…)
  (c choice…) (s sel) (e T|F) (q depth) (u hubSet subscribed))`, `choice = N | (sd d) | sm | sdv | sc | (c k)`,
`sel = N | k`.  `F`, `H`, `u` are read from the real helper, the real `Data` objects and the real hub
(`H` = `helper._data`, `u` = `helper._hub is not None`, `helper in hub._subscriptions`). -/
section Combo
open GlueVerif.C18Combo

def kindOf? : Sexp → Option Kind
  | .atom "num" => some .numerical
  | .atom "cat" => some .categorical
  | .atom "dt" => some .datetime
  | .atom "ext" => some .extended
  | _ => none

def kindSexp : Kind → Sexp
  | .numerical => .atom "num"
  | .categorical => .atom "cat"
  | .datetime => .atom "dt"
  | .extended => .atom "ext"

/-- the component an `ac` op adds: a kind atom, or `dask` (a `DaskComponent`: numerical). -/
def acKindOf? : Sexp → Option Kind
  | .atom "dask" => some CompClass.dask.kind
  | e => kindOf? e

def classAtom : CompClass → String
  | .component => "Component"
  | .categorical => "CategoricalComponent"
  | .datetime => "DateTimeComponent"
  | .derived => "DerivedComponent"
  | .coordPixel => "CoordinateComponentPixel"
  | .coordWorld => "CoordinateComponentWorld"
  | .dask => "DaskComponent"
  | .extended => "ExtendedComponent"

def classOf? : Sexp → Option CompClass
  | .atom a => CompClass.all.find? fun c => classAtom c == a
  | _ => none

/-- `CompClass.all` in the order of the class names (how the harness sorts its rows). -/
def classesSorted : List CompClass :=
  [.categorical, .component, .coordPixel, .coordWorld, .dask, .datetime, .derived, .extended]

/-- `Kind.all` in the order of the kind atoms. -/
def kindsSorted : List Kind := [.categorical, .datetime, .extended, .numerical]

/-- the dataset templates of the harness (`harness/props/c18.py`, `TEMPLATES`):
`std`  `Data(c=str, t=datetime64, x=float, coords=IdentityCoordinates(1))`;
`reg`  `RegionData(regions=polygons, flux=float)` — `flux`, the two centre columns, the region column;
`ext1` `Data(x=float)` + an `ExtendedComponent`;
`dask` `Data(s=str)` + a `DaskComponent`;
`drv`  2-d `Data(x)` with `AffineCoordinates` and a `DerivedComponent`;
`bare` 2-d `Data(x)` without coordinates. -/
def tmplOf? : Sexp → Option Tmpl
  | .atom "std" => some ⟨[.categorical, .datetime, .numerical], 0, 1, 1⟩
  | .atom "reg" => some ⟨[.numerical, .numerical, .numerical, .extended], 0, 1, 0⟩
  | .atom "ext1" => some ⟨[.numerical, .extended], 0, 1, 0⟩
  | .atom "dask" => some ⟨[.categorical, .numerical], 0, 1, 0⟩
  | .atom "drv" => some ⟨[.numerical], 1, 2, 2⟩
  | .atom "bare" => some ⟨[.numerical], 0, 2, 0⟩
  | _ => none

def stdT : Tmpl := ⟨[.categorical, .datetime, .numerical], 0, 1, 1⟩
def bareT : Tmpl := ⟨[.numerical], 0, 2, 0⟩

/-- a number `n` (= `n` default templates) or a list of template atoms. -/
def tmplsOf? (dflt : Tmpl) : Sexp → Option (List Tmpl)
  | .list ts => ts.mapM tmplOf?
  | e => e.toNat?.map fun n => List.replicate n dflt

def flagOf? : Sexp → Option FlagName
  | .atom "numeric" => some .numeric
  | .atom "datetime" => some .datetime
  | .atom "categorical" => some .categorical
  | .atom "pixel" => some .pixel
  | .atom "world" => some .world
  | .atom "derived" => some .derived
  | .atom "none" => some .none
  | _ => none

def copOf? : Sexp → Option C18Combo.COp
  | .list [.atom "ac", d, k] => do some (.addComp (← d.toNat?) (← acKindOf? k))
  | .list [.atom "ad", d] => d.toNat?.map .addDerived
  | .list [.atom "rc", d, i] => do some (.removeComp (← d.toNat?) (← i.toNat?))
  | .list [.atom "rn", d, i] => do some (.rename (← d.toNat?) (← i.toNat?))
  | .list [.atom "ro", d] => d.toNat?.map .reorder
  | .list [.atom "rp", d, i] => do some (.replace (← d.toNat?) (← i.toNat?))
  | .list [.atom "ha", d] => d.toNat?.map .helperAppend
  | .list [.atom "hr", d] => d.toNat?.map .helperRemove
  | .list (.atom "hm" :: ds) => (ds.mapM toNat?).map .setMultiple
  | .list [.atom "hc"] => some .helperClear
  | .list [.atom "fl", f, b] => do some (.setFlag (← flagOf? f) (← b.toBool?))
  | .list [.atom "dr", d] => d.toNat?.map .dcRemove
  | .list [.atom "da", d] => d.toNat?.map .dcAppend
  | .list [.atom "sel", v] => (optNat? v).map .select
  | .list [.atom "do"] => some .delayOpen
  | .list [.atom "dc"] => some .delayClose
  | _ => none

def choiceSexp : Choice → Sexp
  | .none => .atom "N"
  | .sepData d => .list [.atom "sd", ofNat d]
  | .sepMain => .atom "sm"
  | .sepDerived => .atom "sdv"
  | .sepCoord => .atom "sc"
  | .cid c => .list [.atom "c", ofNat c]

def choiceOf? : Sexp → Option Choice
  | .atom "N" => some .none
  | .list [.atom "sd", d] => d.toNat?.map .sepData
  | .atom "sm" => some .sepMain
  | .atom "sdv" => some .sepDerived
  | .atom "sc" => some .sepCoord
  | .list [.atom "c", c] => c.toNat?.map .cid
  | _ => none

def flagsSexp (F : Flags) : Sexp :=
  tagged "F" [ofBool F.numeric, ofBool F.datetime, ofBool F.categorical, ofBool F.pixel, ofBool F.world,
              ofBool F.derived, ofBool F.none]

def flagsOf? : Sexp → Option Flags
  | .list [.atom "F", a, b, c, d, e, f, g] => do
    some ⟨← a.toBool?, ← b.toBool?, ← c.toBool?, ← d.toBool?, ← e.toBool?, ← f.toBool?, ← g.toBool?⟩
  | _ => none

def dsSexp (d : DS) : Sexp :=
  .list [ofNat d.id, tagged "m" (d.main.map fun p => .list [ofNat p.1, kindSexp p.2]),
         tagged "dv" (d.derived.map ofNat), tagged "p" (d.pixel.map ofNat), tagged "w" (d.world.map ofNat)]

def dsOf? : Sexp → Option DS
  | .list [i, .list (.atom "m" :: ms), .list (.atom "dv" :: dv), .list (.atom "p" :: ps), .list (.atom "w" :: ws)] => do
    let main ← ms.mapM fun e => match e with
      | .list [c, k] => do some ((← c.toNat?), (← kindOf? k))
      | _ => none
    some ⟨← i.toNat?, main, ← dv.mapM toNat?, ← ps.mapM toNat?, ← ws.mapM toNat?⟩
  | _ => none

def comboSnap (st : CState) : Sexp :=
  .list [flagsSexp st.F, tagged "H" ((st.hdata.map st.data).map dsSexp),
         tagged "c" (st.pick.choices.map choiceSexp), tagged "s" [optNatSexp st.pick.sel],
         tagged "e" [ofBool st.err], tagged "q" [ofNat st.depth], tagged "u" [ofBool st.hub, ofBool st.sub]]

/-- Spec verdict on a python helper snapshot; `relevant` = the datasets the client asked for that
are still in the collection (ghost, computed from the case).  Inside a hub delay block the helper
has not been told yet: only well-formedness is demanded there. -/
def pyComboOk (relevant : List Nat) (depth : Nat) : Sexp → Bool
  | .list [f, .list (.atom "H" :: hs), .list (.atom "c" :: cs), .list [.atom "s", s],
           .list [.atom "e", _], .list [.atom "q", _], .list [.atom "u", _, sub]] =>
    match flagsOf? f, hs.mapM dsOf?, cs.mapM choiceOf?, optNat? s, sub.toBool? with
    | some F, some ds, some choices, some sel, some sub =>
      -- a helper that holds a dataset is subscribed to the hub: at every moment, also inside a block
      subOk (ds.map (·.id)) sub &&
      (if depth > 0 then true
       else ds.map (·.id) == relevant && comboOk F ds choices sel)
    | _, _, _, _, _ => false
  | _ => false

def stepCombo (hasDc : Bool) (n idx : Sexp) (ops : List Sexp) (pyout : Sexp) : String :=
  match tmplsOf? stdT n, idx.toInt?, ops.mapM copOf? with
  | some ts, some idx, some ops =>
    let s0 := cinitTH hasDc ts idx
    let states := (ops.foldl (fun (acc : List CState × CState) op =>
        let s' := cstep acc.2 op
        (acc.1 ++ [s'], s')) ([s0], s0)).1
    let implok := states.all fun st =>
      subOk st.hdata st.sub && (st.depth > 0 || comboOk st.F (st.hdata.map st.data) st.pick.choices st.pick.sel)
    let ok := match pyout with
      | .list pys => pys.length == states.length &&
          (pys.zip states).all fun (py, st) => pyComboOk st.hdata st.depth py
      | _ => false
    -- inside P: the client never clears the selection while `None` is not on offer
    let p := ((ops.foldl (fun (acc : Bool × CState) op =>
        let adm := match op with
          | .select v => POp.admissible acc.2.pick (.select v)
          | _ => true
        (acc.1 && adm, cstep acc.2 op)) (true, s0))).1
    -- the helper was emptied and holds a dataset again later
    let refilled := (states.foldl (fun (acc : Nat × Bool) st =>
        match acc.1, st.hdata.isEmpty with
        | 0, false => (1, acc.2)
        | 1, true => (2, acc.2)
        | 2, false => (2, true)
        | k, _ => (k, acc.2)) (0, false)).2
    let br := (if hasDc then "c" else "l") ++ (if refilled then "r" else "-") ++
              (if states.any (fun st => st.depth > 0) then "d" else "-") ++
              (if states.any (fun st => st.err) then "e" else "-") ++
              (if states.any (fun st => st.hdata.length > 1) then "m" else "-") ++
              (if states.any (fun st => st.pick.sel.isSome) then "s" else "-") ++
              (if states.any (fun st => (st.hdata.map st.data).any fun d => d.main.any (·.2 == .extended)) then "x" else "-")
    driverResult (.list (states.map comboSnap)) ok implok p br
  | _, _, _ => driverError "combo-args"

/-! ## family `kinds`: every component class / kind of the tree under test is known to the model and
reachable by the generators

`(kinds (enum) ((classes (name produced)…) (kinds k…)))`: the `Component` subclasses found by
introspection (`CoordinateComponent` split by its `world` attribute), each with "an instance of it
sits in one of the generator's datasets", and the strings `Data.get_kind` can return (read off its
source).  Spec: every class is one of `CompClass`, is produced, every `CompClass` is there; every kind
is one of `Kind` and every `Kind` is there.

`(kinds (flags (b×7)) ((name v)…))`: a helper with these seven flags on all templates at once;
`v` = `T` all components of the class are offered / `F` none / `X` some.  Spec: `v = classOk F cls`. -/

def flagsOfList? : Sexp → Option Flags
  | .list [a, b, c, d, e, f, g] => do
    some ⟨← a.toBool?, ← b.toBool?, ← c.toBool?, ← d.toBool?, ← e.toBool?, ← f.toBool?, ← g.toBool?⟩
  | _ => none

def stepKinds (case pyout : Sexp) : String :=
  match case with
  | .list [.atom "enum"] =>
    let impl := Sexp.list [tagged "classes" (classesSorted.map fun c => .list [.atom (classAtom c), ofBool true]),
                           tagged "kinds" (kindsSorted.map kindSexp)]
    let ok := match pyout with
      | .list [.list (.atom "classes" :: rows), .list (.atom "kinds" :: ks)] =>
        let cls := rows.map fun r => match r with
          | .list [nm, pr] => (classOf? nm, pr.toBool?)
          | _ => (none, none)
        cls.all (fun r => r.1.isSome && r.2 == some true) &&
        CompClass.all.all (fun c => cls.any fun r => r.1 == some c) &&
        (ks.map kindOf?).all (·.isSome) && Kind.all.all (fun k => ks.any fun e => kindOf? e == some k)
      | _ => false
    driverResult impl ok true true "enum"
  | .list [.atom "flags", fl] =>
    match flagsOfList? fl with
    | some F =>
      let impl := Sexp.list (classesSorted.map fun c => .list [.atom (classAtom c), ofBool (classOk F c)])
      let ok := match pyout with
        | .list rows =>
          let rs := rows.map fun r => match r with
            | .list [nm, v] => (classOf? nm, v.toBool?)
            | _ => (none, none)
          rs.all (fun r => match r.1, r.2 with
            | some c, some v => v == classOk F c
            | _, _ => false) &&
          CompClass.all.all (fun c => rs.any fun r => r.1 == some c)
        | _ => false
      -- (b): the model's own refresh on one-component datasets agrees with `classOk` (theorem class_offered_iff)
      let implok := CompClass.all.all fun c => (refresh F [classDS c 7]).contains (.cid 7) == classOk F c
      driverResult impl ok implok true "flags"
    | none => driverError "kinds-flags"
  | _ => driverError "kinds-args"

/-! `(dcombo (nData auto idx (inDc…) (op …)) <snapshots>)`, snapshot =
`((D d…) (M d…) (c choice…) (s sel) (e T|F) (q depth))`. -/

def dopOf? : Sexp → Option DOp
  | .list [.atom "da", d] => d.toNat?.map .dcAppend
  | .list [.atom "dr", d] => d.toNat?.map .dcRemove
  | .list [.atom "ha", d] => d.toNat?.map .helperAppend
  | .list [.atom "hr", d] => d.toNat?.map .helperRemove
  | .list (.atom "hm" :: ds) => (ds.mapM toNat?).map .setMultiple
  | .list [.atom "rl", d] => d.toNat?.map .relabel
  | .list [.atom "sel", v] => (optNat? v).map .select
  | .list [.atom "do"] => some .delayOpen
  | .list [.atom "dc"] => some .delayClose
  | _ => none

def dcomboSnap (st : DState) : Sexp :=
  .list [tagged "D" (st.inDc.map ofNat), tagged "M" (st.manual.map ofNat),
         tagged "c" (st.pick.choices.map choiceSexp), tagged "s" [optNatSexp st.pick.sel],
         tagged "e" [ofBool st.err], tagged "q" [ofNat st.depth]]

def pyDcomboOk (auto : Bool) (manual : List Nat) (depth : Nat) : Sexp → Bool
  | .list [.list (.atom "D" :: ds), .list (.atom "M" :: _), .list (.atom "c" :: cs), .list [.atom "s", s],
           .list [.atom "e", _], .list [.atom "q", _]] =>
    match ds.mapM toNat?, cs.mapM choiceOf?, optNat? s with
    | some D, some choices, some sel =>
      if depth > 0 then true else dcomboOk (if auto then D else manual) choices sel
    | _, _, _ => false
  | _ => false

def stepDcombo (n auto idx inDc : Sexp) (ops : List Sexp) (pyout : Sexp) : String :=
  match nDataOf? n, auto.toBool?, idx.toInt?, inDc.toNats?, ops.mapM dopOf? with
  | some n, some auto, some idx, some inDc, some ops =>
    let s0 := dinit n auto idx inDc
    let states := (ops.foldl (fun (acc : List DState × DState) op =>
        let s' := dstep acc.2 op
        (acc.1 ++ [s'], s')) ([s0], s0)).1
    let implok := states.all fun st =>
      st.depth > 0 || dcomboOk (if st.auto then st.inDc else st.manual) st.pick.choices st.pick.sel
    let ok := match pyout with
      | .list pys => pys.length == states.length &&
          (pys.zip states).all fun (py, st) => pyDcomboOk auto st.manual st.depth py
      | _ => false
    let p := ((ops.foldl (fun (acc : Bool × DState) op =>
        let adm := match op with
          | .select v => POp.admissible acc.2.pick (.select v)
          | _ => true
        (acc.1 && adm, dstep acc.2 op)) (true, s0))).1
    let br := (if auto then "a" else "m") ++ (if states.any (fun st => st.depth > 0) then "d" else "-") ++
              (if states.any (fun st => st.err) then "e" else "-")
    driverResult (.list (states.map dcomboSnap)) ok implok p br
  | _, _, _, _, _ => driverError "dcombo-args"

/-! `(axes ((ndim…) (world…) (op …)) <snapshots>)`, snapshot =
`((l d…) (r ref) (x tok) (y tok) (xw tok) (yw tok) (e T|F))` or the atom `crash`;
`tok = N | (d kind axis)`, `kind = p | w`. -/
open GlueVerif.C18Combo.Axes

def aopOf? : Sexp → Option AOp
  | .list [.atom "x", i] => i.toNat?.map .setX
  | .list [.atom "y", i] => i.toNat?.map .setY
  | .list [.atom "xw", i] => i.toNat?.map .setXW
  | .list [.atom "yw", i] => i.toNat?.map .setYW
  | .list [.atom "ref", d] => d.toNat?.map .setRef
  | .list [.atom "al", d] => d.toNat?.map .addLayer
  | .list [.atom "rl", d] => d.toNat?.map .removeLayer
  | _ => none

def attSexp (ref : Option Nat) (kind : String) : Option Nat → Sexp
  | none => .atom "N"
  | some i => match ref with
    | some r => .list [ofNat r, .atom kind, ofNat i]
    | none => .list [.atom "X", .atom kind, ofNat i]

def axesSnap (world : Nat → Bool) (s : AState) : Sexp :=
  if s.crashed then .atom "crash" else
  let wk := match s.ref with
    | some r => if world r then "w" else "p"
    | none => "p"
  .list [tagged "l" (s.layers.map ofNat), tagged "r" [optNatSexp s.ref],
         tagged "x" [attSexp s.ref "p" s.x], tagged "y" [attSexp s.ref "p" s.y],
         tagged "xw" [attSexp s.ref wk s.xw], tagged "yw" [attSexp s.ref wk s.yw], tagged "e" [ofBool s.err]]

/-- a python attribute token must name the reference dataset and the expected kind. -/
def attOf? (ref : Option Nat) (kind : String) : Sexp → Option (Option Nat)
  | .atom "N" => some none
  | .list [d, .atom k, i] =>
    match ref, d.toNat? with
    | some r, some d' => if d' == r && k == kind then i.toNat?.map some else none
    | _, _ => none
  | _ => none

def pyAxesOk (ndim : Nat → Nat) (world : Nat → Bool) : Sexp → Bool
  | .list [.list (.atom "l" :: ls), .list [.atom "r", r], .list [.atom "x", x], .list [.atom "y", y],
           .list [.atom "xw", xw], .list [.atom "yw", yw], .list [.atom "e", _]] =>
    match ls.mapM toNat?, optNat? r with
    | some layers, some ref =>
      let wk := match ref with
        | some r => if world r then "w" else "p"
        | none => "p"
      match attOf? ref "p" x, attOf? ref "p" y, attOf? ref wk xw, attOf? ref wk yw with
      | some x, some y, some xw, some yw => axesOk ndim ⟨layers, ref, x, y, xw, yw, false, false⟩
      | _, _, _, _ => false
    | _, _ => false
  | _ => false

def stepAxes (ndims worlds : Sexp) (ops : List Sexp) (pyout : Sexp) : String :=
  match ndims.toNats?, worlds.toBools?, ops.mapM aopOf? with
  | some ndims, some worlds, some ops =>
    let ndim := fun d => ndims.getD d 2
    let world := fun d => worlds.getD d false
    let states := (ops.foldl (fun (acc : List AState × AState) op =>
        let s' := astep ndim acc.2 op
        (acc.1 ++ [s'], s')) ([ainit], ainit)).1
    let implok := states.all (axesOk ndim)
    let ok := match pyout with
      | .list pys => pys.length == states.length && pys.all (pyAxesOk ndim world)
      | _ => false
    let br := (if ndims.any (fun n => decide (n < 2)) then "1" else "-") ++
              (if states.any (fun s => s.ref.isNone && !s.layers.isEmpty) then "n" else "-") ++
              (if states.any (fun s => s.err) then "e" else "-") ++
              (if ops.any (fun o => match o with | .setRef _ => true | _ => false) then "r" else "-")
    driverResult (.list (states.map (axesSnap world))) ok implok true br
  | _, _, _ => driverError "axes-args"

end Combo

/-! ## families `view`, `viewr`: the layer bookkeeping of the four viewer classes

`nData` is a number (so many 2-d datasets, template `bare`) or a list of template atoms; for the image
viewer (`cls = im`) the templates say which datasets are 1-d: `SimpleImageViewer` refuses a 1-d dataset /
subset while it has no layer (`imageRefuses`; theorem `viewer_refusing_spec` covers every refusal rule).
Save + restore is the model's `restoreV` for all four classes (histogram / profile viewers with layers
restore since `fix: patch fallback to live class`, C12's F12b). -/
def stepView (n c cls : Sexp) (ops : List Sexp) (pyout : Sexp) : String :=
  match tmplsOf? bareT n, c.toNat?, ops.mapM vopOf? with
  | some ts, some colors, some ops =>
    let cls := match cls with | .atom a => a | _ => ""
    let oneD := fun (d : Nat) => match ts[d]? with
      | some t => t.npix < 2
      | none => false
    let refuses : VState → VOp → Bool := if cls == "im" then imageRefuses oneD else neverRefuses
    let v0 := C18Viewer.init ts.length colors
    let states := (ops.foldl (fun (acc : List VState × VState) op =>
        let v' := stepR refuses acc.2 op
        (acc.1 ++ [v'], v')) ([v0], v0)).1
    let named := (states.foldl (fun (acc : List (Sexp × Want) × Ren × Ren) v =>
        let ms := renExtend acc.2.1 (subIdsOf v)
        let ma := renExtend acc.2.2 (artIdsOf v)
        (acc.1 ++ [(snapshot ms ma v, renWant ms v.want)], ms, ma)) ([], [], [])).1
    let implok := states.all specOkV
    let ok := match pyout with
      | .list pys => pys.length == named.length &&
          (pys.zip named).all fun (py, (_, w)) => pySnapOk w py
      | _ => false
    let refused := ((states.zip ops).any fun (v, op) => refuses v op)
    let has1d := cls == "im" && (List.range ts.length).any oneD
    driverResult (.list (named.map (·.1))) ok implok true
      (viewBranch ops states ++ (if refused then "R" else "-") ++ (if has1d then "1" else "-") ++ cls)
  | _, _, _ => driverError "view-args"

/-! ## family `vpick`: the attribute pickers of a viewer state, in situ

`(vpick (nData nColors cls (op …)) <snapshots>)`; a snapshot is `(viewsnap (picker…))`: the viewer
snapshot of family `view` plus one combo snapshot (format of family `combo`) per picker of the
viewer state — scatter: `x_att` (default index 0), `y_att` (1); histogram: `x_att` (0).  `nData` is
a number (so many 2-d datasets without coordinates, template `bare`) or a list of template atoms
(`tmplOf?`); component ids are numbered dataset after dataset in the order pixel, world, main,
derived (`tmplTable`).  `(vfl p flag b)` sets a flag of the helper of picker `p`.  The pickers are fed by `_layers_changed` with `state.layers_data`; the relevant
datasets are those of the layers, in layer order. -/
section VPick
open GlueVerif.C18Combo

def vpFlags : Flags := { defaultFlags with pixel := true, world := true }

def layerData : Layer → Option Nat
  | .data d => some d
  | .sub s => s.data

def layerDatasets (arts : List Art) : List Nat := dedup (arts.filterMap fun a => layerData a.layer)

/-- scatter: `x_att`, `y_att`; histogram: `x_att`.  The viewer-state pickers of the image and profile
viewers offer coordinate components only (`numeric=False …`), which no component operation touches:
their histories are run for the layer bookkeeping, with no picker observed. -/
def vpIdxs (cls : String) : List Int := if cls == "sc" then [0, 1] else if cls == "hi" then [0] else []

def pickSnap (table : Nat → DS) (hub : Bool) (F : Flags) (hdata : List Nat) (choices : List Choice) (sel : Option Nat) : Sexp :=
  .list [flagsSexp F, tagged "H" ((hdata.map table).map dsSexp), tagged "c" (choices.map choiceSexp),
         tagged "s" [optNatSexp sel], tagged "e" [ofBool false], tagged "q" [ofNat 0],
         tagged "u" [ofBool (hub || hdata.isEmpty), ofBool (hub || hdata.isEmpty)]]

/-- a viewer op, or `(vfl p flag b)`: flag `flag` of the helper of picker `p` set to `b`. -/
inductive VPOp where
  | v (op : VOp)
  | fl (p : Nat) (f : FlagName) (b : Bool)
  /-- a component of a dataset is added / removed / renamed / the components reordered / an id replaced
  (`ac ad rc rn ro rp` of family `combo`). -/
  | comp (op : C18Combo.COp)

def vpopOf? : Sexp → Option VPOp
  | .list [.atom "vfl", p, f, b] => do some (.fl (← p.toNat?) (← flagOf? f) (← b.toBool?))
  | e@(.list (.atom a :: _)) =>
    if ["ac", "ad", "rc", "rn", "ro", "rp"].contains a then (copOf? e).map .comp else (vopOf? e).map .v
  | e => (vopOf? e).map .v

abbrev PickRow := List Nat × Flags × List Choice × Option Nat

def stepVPick (n c cls : Sexp) (ops : List Sexp) (pyout : Sexp) : String :=
  match tmplsOf? bareT n, c.toNat?, ops.mapM vpopOf? with
  | some ts, some colors, some ops =>
    let cls := match cls with | .atom a => a | _ => ""
    let idxs := vpIdxs cls
    -- the datasets' component tables: a `CState` without datasets in its helper, stepped by the
    -- component ops of the combo model
    let c0 := cinitTH false ts 0
    let v0 := C18Viewer.init ts.length colors
    -- the pickers: after every step the helper holds the datasets of the layers
    -- (`_layers_changed` → `set_multiple_data(layers_data)`: the first non-empty list makes the helper
    -- latch on to the hub, for good); a component change of one of its datasets reaches it through
    -- the hub and makes it refresh; echo keeps the selection if it is still offered
    let pickStep := fun (table : Nat → DS) (v : VState) (Fs : List Flags) (prev : List (Option Nat)) =>
      let hd := layerDatasets v.arts
      ((idxs.zip Fs).zip prev).map fun ((idx, F), pv) =>
        let ch := refresh F (hd.map table)
        ((hd, F, ch, choicesUpdated idx ch pv) : PickRow)
    let F0 := idxs.map fun _ => vpFlags
    let p0 := pickStep c0.data v0 F0 (idxs.map fun _ => none)
    let trace := (ops.foldl (fun (acc : List (VState × List PickRow × (Nat → DS) × Bool) × VState × List Flags × List PickRow × CState × Bool) op =>
        let v : VState := acc.2.1
        let Fs : List Flags := acc.2.2.1
        let ps : List PickRow := acc.2.2.2.1
        let cs : CState := acc.2.2.2.2.1
        let hub : Bool := acc.2.2.2.2.2
        let v' : VState := match op with
          | .v o => C18Viewer.step v o
          | _ => { v with err := false }
        let cs' : CState := match op with
          | .comp o => cstep cs o
          | _ => cs
        -- the helpers' flags are configuration of the viewer-state class, not part of a saved session:
        -- a restored viewer has the defaults again
        let Fs' : List Flags := match op with
          | .v o => if o == .restore then F0 else Fs
          | .fl p f b => ((List.range Fs.length).zip Fs).map fun (x : Nat × Flags) => if x.1 == p then x.2.set f b else x.2
          | .comp _ => Fs
        let ps' := pickStep cs'.data v' Fs' (ps.map fun (r : PickRow) => r.2.2.2)
        -- a restored viewer state has new helpers
        let hub0 : Bool := match op with
          | .v o => if o == .restore then false else hub
          | _ => hub
        let hub' := hub0 || !(layerDatasets v'.arts).isEmpty
        (acc.1 ++ [(v', ps', cs'.data, hub')], (v', Fs', ps', cs', hub'))) ([(v0, p0, c0.data, false)], (v0, F0, p0, c0, false))).1
    let states := trace.map (·.1)
    let picks := trace.map fun t => (t.2.1, t.2.2.1, t.2.2.2)
    let named := (states.foldl (fun (acc : List (Sexp × Want) × Ren × Ren) v =>
        let ms := renExtend acc.2.1 (subIdsOf v)
        let ma := renExtend acc.2.2 (artIdsOf v)
        (acc.1 ++ [(snapshot ms ma v, renWant ms v.want)], ms, ma)) ([], [], [])).1
    let out := (named.zip picks).map fun ((vs, _), (ps, table, hub)) =>
      Sexp.list [vs, .list (ps.map fun (hd, F, ch, s) => pickSnap table hub F hd ch s)]
    let implok := states.all specOkV &&
      picks.all fun (ps, table, hub) => ps.all fun (hd, F, ch, s) => subOk hd hub && comboOk F (hd.map table) ch s
    let ok := match pyout with
      | .list pys => pys.length == named.length &&
          (pys.zip named).all fun (py, (_, w)) => match py with
            | .list [vs, .list pks] =>
              pySnapOk w vs && pks.length == idxs.length &&
              (match parseSnap vs with
               | some psn => pks.all (pyComboOk (layerDatasets psn.arts) 0)
               | none => false)
            | _ => false
      | _ => false
    let vops := ops.filterMap fun o => match o with | .v o => some o | _ => none
    let hasExt := picks.any fun (ps, table, _) => ps.any fun (hd, _, _, _) => (hd.map table).any fun d => d.main.any (·.2 == .extended)
    -- the viewer was emptied and refilled, and a component changed afterwards
    let phase := (trace.zip (ops.map some ++ [none])).foldl (fun (ph : Nat) (x : (VState × List PickRow × (Nat → DS) × Bool) × Option VPOp) =>
        let has := !(layerDatasets x.1.1.arts).isEmpty
        let ph := match ph, has with
          | 0, true => 1
          | 1, false => 2
          | 2, true => 3
          | k, _ => k
        match ph, x.2 with
        | 3, some (.comp _) => 4
        | k, _ => k) 0
    driverResult (.list out) ok implok true
      (viewBranch vops states ++ (if hasExt then "x" else "-") ++ (if phase == 4 then "R" else if phase == 3 then "r" else "-") ++ cls)
  | _, _, _ => driverError "vpick-args"

end VPick

def step (line : String) : String :=
  match Sexp.parse line with
  | some (.list [.atom "kinds", case, pyout]) => stepKinds case pyout
  | some (.list [.atom "vpick", .list [n, c, cls, .list ops], pyout]) => stepVPick n c cls ops pyout
  | some (.list [.atom "view", .list [n, c, cls, .list ops], pyout]) => stepView n c cls ops pyout
  | some (.list [.atom "combo", .list [n, idx, .list ops], pyout]) => stepCombo true n idx ops pyout
  | some (.list [.atom "combo", .list [n, idx, .list ops, .atom "F"], pyout]) => stepCombo false n idx ops pyout
  | some (.list [.atom "combo", .list [n, idx, .list ops, .atom "T"], pyout]) => stepCombo true n idx ops pyout
  | some (.list [.atom "dcombo", .list [n, auto, idx, inDc, .list ops], pyout]) => stepDcombo n auto idx inDc ops pyout
  | some (.list [.atom "axes", .list [ndims, worlds, .list ops], pyout]) => stepAxes ndims worlds ops pyout
  | _ => driverError "unknown-family"

def main : IO Unit := driverLoop step
