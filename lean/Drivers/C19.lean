import GlueVerif.Sexp
import GlueVerif.Model.Export
/-! Line-protocol driver for C19 (exported data files load back to the same table or image). -/
open GlueVerif GlueVerif.Sexp GlueVerif.Export

def bad (msg : String) : String := driverError msg

/-! ### parsing -/

def fmt? : Sexp → Option Format
  | .atom "csv" => some .csv
  | .atom "ipac" => some .ipac
  | .atom "latex" => some .latex
  | .atom "votable" => some .votable
  | .atom "fitstab" => some .fitsTable
  | .atom "hdf5" => some .hdf5
  | .atom "fitsimg" => some .fitsImage
  | _ => none

def fmtName : Format → String
  | .csv => "csv" | .ipac => "ipac" | .latex => "latex" | .votable => "votable"
  | .fitsTable => "fitstab" | .hdf5 => "hdf5" | .fitsImage => "fitsimg"

def cell? : Sexp → Option Cell
  | .atom "nan" => some .nan
  | .list [.atom "q", n, d] => do
    let n ← n.toInt?
    let d ← d.toNat?
    if d = 0 then none else some (.num ((n : Rat) / (d : Rat)))
  | .list (.atom "s" :: cps) => (cps.mapM toNat?).map .str
  | _ => none

def kind? : Sexp → Option Kind
  | .atom "f" => some .float
  | .atom "s" => some .str
  | .list [.atom "i", b] => b.toNat?.map .int
  | .list [.atom "u", b] => b.toNat?.map .uint
  | _ => none

def col? : Sexp → Option Column
  | .list [name, kind, der, cells] => do
    let n ← name.toNats?
    let k ← kind? kind
    let dv ← der.toBool?
    let cs ← (← cells.toList?).mapM cell?
    some ⟨n, k, dv, cs⟩
  | _ => none

def optBools? : Sexp → Option (Option (List Bool))
  | .atom "N" => some none
  | e => e.toBools?.map some

def optNats? : Sexp → Option (Option (List Nat))
  | .atom "N" => some none
  | e => e.toNats?.map some

/-! ### printing -/

def cellSx : Cell → Sexp
  | .nan => .atom "nan"
  | .num q => .list [.atom "q", ofInt q.num, ofNat q.den]
  | .str s => .list (.atom "s" :: s.map ofNat)

/-- The dtype of an empty column is not observed (it is the codec's guess). -/
def compSx (c : LComp) : Sexp :=
  .list [ofNats c.name, ofBool c.cat, ofNat (if c.cells.isEmpty then 0 else c.dt), .list (c.cells.map cellSx)]

def dataSx (d : LData) : Sexp := .list [ofNats d.shape, .list (d.comps.map compSx)]

def outSx (o : List LData) : Sexp := .list (o.map dataSx)

def errName : Err → String
  | .unicode => "unicode-error"
  | .noReader => "no-reader"
  | .emptyPlan => "empty-plan"

/-! ### reading the python output back -/

def lcomp? : Sexp → Option LComp
  | .list [name, cat, dt, cells] => do
    some ⟨← name.toNats?, ← cat.toBool?, ← dt.toNat?, ← (← cells.toList?).mapM cell?⟩
  | _ => none

def ldata? : Sexp → Option LData
  | .list [shape, comps] => do some ⟨← shape.toNats?, ← (← comps.toList?).mapM lcomp?⟩
  | _ => none

def out? (e : Sexp) : Option (List LData) := do (← e.toList?).mapM ldata?

/-! ### one round trip -/

structure Case where
  fmt : Format
  d : Dataset
  sel : Option (List Bool)
  comps : Option (List Nat)

def case? (fmt shape cols sel comps : Sexp) : Option Case := do
  some ⟨← fmt? fmt, ⟨← shape.toNats?, ← (← cols.toList?).mapM col?⟩, ← optBools? sel, ← optNats? comps⟩

def branch (c : Case) (inQ inP : Bool) (r : Except Err (List LData)) : String :=
  let mode := match c.sel with
    | none => "all"
    | some _ => if rowMode c.fmt c.d then "rows" else "fill"
  let flipped : Bool := match r with
    | .ok o => (flatten o).any fun p =>
        ((plan c.d c.comps).filter (carried c.fmt)).any fun col =>
          nameRepr c.fmt col.name == p.2.name && (col.kind == .str) != p.2.cat && !p.2.cells.isEmpty
    | .error _ => false
  let dom := if inP then "P" else if inQ then "finding" else "outside"
  let extra := match r with
    | .error e => "-" ++ errName e
    | .ok _ => if flipped then "-kindflip" else ""
  fmtName c.fmt ++ "-" ++ mode ++ "-" ++ dom ++ extra

/-- impl / ok / implok / p / br for one export + load. The Spec is vacuous outside the property's
quantifier; there only comparison (a) (model fidelity) is meaningful. -/
def judge (c : Case) (pyout : Sexp) (extraOk : Bool) (wrap : Sexp → Sexp) : String :=
  let inQ := inQuantifier c.fmt c.d c.sel c.comps
  let inP := inDomain c.fmt c.d c.sel c.comps
  let r := roundTrip c.fmt c.d c.sel c.comps
  let br := branch c inQ inP r
  let ok := !inQ || (extraOk && match pyout with
    | .list [.atom "ok", po] => (match out? po with
      | some lo => specOk c.fmt c.d c.sel c.comps lo
      | none => false)
    | _ => false)   -- a loud failure (or garbage) inside the quantifier is a violation
  match r with
  | .error e => driverResult (wrap (.atom (errName e))) ok (!inQ) inP br
  | .ok o =>
    driverResult (wrap (.list [.atom "ok", outSx o])) ok (!inQ || specOk c.fmt c.d c.sel c.comps o) inP br

def step (line : String) : String :=
  match Sexp.parse line with
  | some (.list [.atom "sess", .list [fmt, shape, cols, sel, comps, cols2], pyout]) =>
    -- session saved by reference: the restored values are the file's contents at restore time
    -- (the file was re-exported from `cols2` after saving), and nothing was stored inline
    match case? fmt shape cols2 sel comps, case? fmt shape cols sel comps with
    | some c2, some c1 =>
      let q1 := inQuantifier c1.fmt c1.d c1.sel c1.comps
      let q2 := inQuantifier c2.fmt c2.d c2.sel c2.comps
      if q1 != q2 then bad "sess-quantifier-mismatch" else
      match pyout with
      | .list [.atom "sess", inl, inner] =>
        judge c2 inner (inl == .atom "F") fun x => .list [.atom "sess", .atom "F", x]
      | other => judge c2 other false fun x => .list [.atom "sess", .atom "F", x]
    | _, _ => bad "sess-args"
  | some (.list [.atom "reg", _, pyout]) =>
    -- every registered exporter must be one the model knows (and maps to a format)
    let known : Sexp := .list (knownExporters.map fun p => .atom p.1)
    driverResult known (pyout == known) true true "registry"
  | some (.list [.atom "pnum", s, pyout]) =>
    -- L0: parseNum / intLike / asciiReplace against pandas.to_numeric / numpy on the token universe
    match s.toNats? with
    | some t =>
      let v : Sexp := match parseNum t with
        | some q => .list [.atom "q", ofInt q.num, ofNat q.den]
        | none => .atom "N"
      let impl : Sexp := .list [v, ofBool (intLike t), ofNats (asciiReplace t)]
      driverResult impl (pyout == impl) true true (if (parseNum t).isSome then "numeric" else "text")
    | none => bad "pnum-args"
  | some (.list [.atom fam, .list [fmt, shape, cols, sel, comps], pyout]) =>
    if fam == "tab" || fam == "img" then
      match case? fmt shape cols sel comps with
      | some c => judge c pyout true id
      | none => bad "case-args"
    else bad "unknown-family"
  | _ => bad "unknown-line"

def main : IO Unit := driverLoop step
