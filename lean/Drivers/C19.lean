import GlueVerif.Sexp
import GlueVerif.Model.Export
/-! Line-protocol driver for C19 (exported data files load back to the same table or image). -/
open GlueVerif GlueVerif.Sexp GlueVerif.Export

def bad (msg : String) : String := driverError msg

/-! ### parsing -/

def fmt? : Sexp → Option Format
  | .atom "csv" => some .csv
  | .atom "ipac" => some .ipac
  | .atom "latex" => some .latex
  | .atom "votable" => some .votable
  | .atom "fitstab" => some .fitsTable
  | .atom "hdf5" => some .hdf5
  | .atom "fitsimg" => some .fitsImage
  | _ => none

def fmtName : Format → String
  | .csv => "csv" | .ipac => "ipac" | .latex => "latex" | .votable => "votable"
  | .fitsTable => "fitstab" | .hdf5 => "hdf5" | .fitsImage => "fitsimg"

def cell? : Sexp → Option Cell
  | .atom "nan" => some .nan
  | .list [.atom "q", n, d] => do
    let n ← n.toInt?
    let d ← d.toNat?
    if d = 0 then none else some (.num ((n : Rat) / (d : Rat)))
  | .list (.atom "s" :: cps) => (cps.mapM toNat?).map .str
  | _ => none

def kind? : Sexp → Option Kind
  | .atom "f" => some .float
  | .atom "s" => some .str
  | .list [.atom "i", b] => b.toNat?.map .int
  | .list [.atom "u", b] => b.toNat?.map .uint
  | _ => none

def col? : Sexp → Option Column
  | .list [name, kind, der, cells] => do
    let n ← name.toNats?
    let k ← kind? kind
    let dv ← der.toBool?
    let cs ← (← cells.toList?).mapM cell?
    some ⟨n, k, dv, cs⟩
  | _ => none

def layout? : Sexp → Option Layout
  | .atom "native" => some .native
  | .atom "swapped" => some .swapped
  | .atom "strided" => some .strided
  | .atom "reversed" => some .reversed
  | .atom "fortran" => some .fortran
  | .atom "readonly" => some .readonly
  | .atom "window" => some .window
  | .atom "unaligned" => some .unaligned
  | .atom "swapstrided" => some .swapstrided
  | .atom "fitslike" => some .fitslike
  | .atom "bcast" => some .bcast
  | .atom "bytes" => some .bytes
  | .atom "object" => some .object
  | .atom "wide" => some .wide
  | _ => none

/-- state of a component object: `N` (plain) or a list of `(jit)`, `(cats k)`, `(units (c…))`,
`(old (c…))`, `(from k fn)` -/
def compState? : Sexp → Option CompState
  | .atom "N" => some {}
  | .list items => items.foldlM (init := ({} : CompState)) fun st it =>
    match it with
    | .list [.atom "jit"] => some { st with jitter := true }
    | .list [.atom "cats", k] => do some { st with cats := some (← k.toNat?) }
    | .list [.atom "units", u] => do some { st with units := some (← u.toNats?) }
    | .list [.atom "old", u] => do some { st with oldName := some (← u.toNats?) }
    | .list [.atom "from", k, f] => do some { st with source := some (← k.toNat?, ← f.toNat?) }
    | _ => none
  | _ => none

/-- state of the `Data` object: `N` or a list of `(label (c…))`, `(seed n)`, `(restored)`, `(wcs)`,
`(extras ((kind pos)…))` -/
def dataState? : Sexp → Option DataState
  | .atom "N" => some {}
  | .list items => items.foldlM (init := ({} : DataState)) fun st it =>
    match it with
    | .list [.atom "label", l] => do some { st with label := ← l.toNats? }
    | .list [.atom "seed", n] => do some { st with seed := ← n.toNat? }
    | .list [.atom "restored"] => some { st with restored := true }
    | .list [.atom "wcs"] => some { st with wcs := true }
    | .list [.atom "extras", .list xs] => do
      let ps ← xs.mapM fun x => match x with
        | .list [k, p] => do some (← k.toNat?, ← p.toNat?)
        | _ => none
      some { st with extras := ps }
    | _ => none
  | _ => none

/-- a column with its storage layout tag and object state (older cases carry none: native, plain) -/
def scol? : Sexp → Option StoredColumn
  | .list [name, kind, der, cells, lay, st] => do
    some ⟨← col? (.list [name, kind, der, cells]), ← layout? lay, ← compState? st⟩
  | .list [name, kind, der, cells, lay] => do
    some ⟨← col? (.list [name, kind, der, cells]), ← layout? lay, {}⟩
  | e => do some ⟨← col? e, .native, {}⟩

def optBools? : Sexp → Option (Option (List Bool))
  | .atom "N" => some none
  | e => e.toBools?.map some

def optNats? : Sexp → Option (Option (List Nat))
  | .atom "N" => some none
  | e => e.toNats?.map some

/-! ### printing -/

def cellSx : Cell → Sexp
  | .nan => .atom "nan"
  | .num q => .list [.atom "q", ofInt q.num, ofNat q.den]
  | .str s => .list (.atom "s" :: s.map ofNat)

/-- The dtype of an empty column is not observed (it is the codec's guess). -/
def compSx (c : LComp) : Sexp :=
  .list [ofNats c.name, ofBool c.cat, ofNat (if c.cells.isEmpty then 0 else c.dt), .list (c.cells.map cellSx)]

def dataSx (d : LData) : Sexp := .list [ofNats d.shape, .list (d.comps.map compSx)]

def outSx (o : List LData) : Sexp := .list (o.map dataSx)

def errName : Err → String
  | .unicode => "unicode-error"
  | .noReader => "no-reader"
  | .emptyPlan => "empty-plan"

/-! ### reading the python output back -/

def lcomp? : Sexp → Option LComp
  | .list [name, cat, dt, cells] => do
    some ⟨← name.toNats?, ← cat.toBool?, ← dt.toNat?, ← (← cells.toList?).mapM cell?⟩
  | _ => none

def ldata? : Sexp → Option LData
  | .list [shape, comps] => do some ⟨← shape.toNats?, ← (← comps.toList?).mapM lcomp?⟩
  | _ => none

def out? (e : Sexp) : Option (List LData) := do (← e.toList?).mapM ldata?

/-! ### one round trip -/

structure Case where
  fmt : Format
  s : StoredDataset
  sel : Option (List Bool)
  comps : Option (List Nat)

def Case.d (c : Case) : Dataset := c.s.values

def case? (fmt shape cols sel comps : Sexp) (dst : Sexp := .atom "N") : Option Case := do
  some ⟨← fmt? fmt, ⟨← shape.toNats?, ← (← cols.toList?).mapM scol?, ← dataState? dst⟩,
        ← optBools? sel, ← optNats? comps⟩

def laid (c : Case) : String :=
  (if c.s.cols.all fun x => x.layout == .native then "" else "-laid") ++
  (if c.s.stateful then "-stateful" else "")

def branch (c : Case) (inQ inP : Bool) (r : Except Err (List LData)) : String :=
  let mode := match c.sel with
    | none => "all"
    | some _ => if rowMode c.fmt c.d then "rows" else "fill"
  let flipped : Bool := match r with
    | .ok o => (flatten o).any fun p =>
        ((plan c.d c.comps).filter (carried c.fmt)).any fun col =>
          nameRepr c.fmt col.name == p.2.name && (col.kind == .str) != p.2.cat && !p.2.cells.isEmpty
    | .error _ => false
  let dom := if inP then "P" else if inQ then "finding" else "outside"
  let extra := match r with
    | .error e => "-" ++ errName e
    | .ok _ => if flipped then "-kindflip" else ""
  fmtName c.fmt ++ "-" ++ mode ++ "-" ++ dom ++ extra ++ laid c

/-- impl / ok / implok / p / br for one export + load. The Spec is vacuous outside the property's
quantifier; there only comparison (a) (model fidelity) is meaningful. -/
def judge (c : Case) (pyout : Sexp) (extraOk : Bool) (wrap : Sexp → Sexp) : String :=
  let inQ := inQuantifierStored c.fmt c.s c.sel c.comps
  let inP := inDomainStored c.fmt c.s c.sel c.comps
  let r := roundTripStored c.fmt c.s c.sel c.comps
  let br := branch c inQ inP r
  let ok := !inQ || (extraOk && match pyout with
    | .list [.atom "ok", po] => (match out? po with
      | some lo => specOkStored c.fmt c.s c.sel c.comps lo
      | none => false)
    | _ => false)   -- a loud failure (or garbage) inside the quantifier is a violation
  match r with
  | .error e => driverResult (wrap (.atom (errName e))) ok (!inQ) inP br
  | .ok o =>
    driverResult (wrap (.list [.atom "ok", outSx o])) ok (!inQ || specOkStored c.fmt c.s c.sel c.comps o) inP br

def kindSx : Kind → Sexp
  | .float => .atom "f"
  | .str => .atom "s"
  | .int b => .list [.atom "i", ofNat b]
  | .uint b => .list [.atom "u", ofNat b]

def resSx : Except Err (List LData) → Sexp
  | .error e => .atom (errName e)
  | .ok o => .list [.atom "ok", outSx o]

/-- Spec verdict on one hop's python output; vacuous outside the quantifier. -/
def hopOk (inQ : Bool) (spec : List LData → Bool) (py : Sexp) : Bool :=
  !inQ || match py with
    | .list [.atom "ok", po] => (match out? po with
      | some lo => spec lo
      | none => false)
    | _ => false

/-- `export A → load → export B (whole / subset / filter of the LOADED dataset) → load`.
Hop 1 is judged against the generated dataset; hop 2 against the dataset python actually loaded
(its values as python reported them, with the dtype kinds the first reader chose). -/
def judgeChain (c1 : Case) (fB : Format) (sel : Option (List Bool)) (comps : Option (List Nat))
    (pyout : Sexp) : String :=
  let inQ1 := inQuantifierStored c1.fmt c1.s none none
  let inP1 := inDomainStored c1.fmt c1.s none none
  let r1 := roundTripStored c1.fmt c1.s none none
  let brA := fmtName c1.fmt ++ "-to-" ++ fmtName fB ++ (if c1.s.stateful then "-stateful" else "")
  let wrap3 (a b c : Sexp) : Sexp := .list [.atom "chain", a, b, c]
  match pyout with
  | .list [.atom "chain", h1, ks, h2] =>
    let ok1 := hopOk inQ1 (specOkStored c1.fmt c1.s none none) h1
    let py1 : Option (List LData) := match h1 with
      | .list [.atom "ok", po] => out? po
      | _ => none
    let kinds : Option (List Kind) := do (← ks.toList?).mapM kind?
    match r1, py1, kinds with
    | .ok o1, some p1, some kinds =>
      match secondHop fB p1 kinds sel comps with
      | some (d1, r2) =>
        let inQ2 := inQuantifier fB d1 sel comps
        let inP2 := inDomain fB d1 sel comps
        let ok2 := hopOk inQ2 (specOk fB d1 sel comps) h2
        let implok1 := !inQ1 || specOkStored c1.fmt c1.s none none o1
        let implok2 := !inQ2 || (match r2 with
          | .ok o2 => specOk fB d1 sel comps o2
          | .error _ => false)
        let dom := if inP1 && inP2 then "P" else if inQ1 && inQ2 then "finding" else "outside"
        driverResult (wrap3 (resSx (.ok o1)) (.list (kinds.map kindSx)) (resSx r2)) (ok1 && ok2)
          (implok1 && implok2) (inP1 && inP2) (brA ++ "-" ++ dom)
      | none =>   -- python loaded nothing at hop 1
        driverResult (wrap3 (resSx (.ok o1)) (.atom "N") (.atom "N")) (ok1 && !inQ1) true false (brA ++ "-nothing")
    | .ok o1, _, _ =>
      driverResult (wrap3 (resSx (.ok o1)) (.atom "N") (.atom "N")) ok1 true false (brA ++ "-hop1-mismatch")
    | .error e, _, _ =>
      driverResult (wrap3 (.atom (errName e)) (.atom "N") (.atom "N")) ok1 (!inQ1) inP1 (brA ++ "-" ++ errName e)
  | _ =>
    -- a loud failure somewhere in the chain: a violation when the first hop is in the quantifier
    driverResult (wrap3 (resSx r1) (.atom "N") (.atom "N")) (!inQ1) true false (brA ++ "-failed")

def step (line : String) : String :=
  match Sexp.parse line with
  | some (.list [.atom "sess", .list [fmt, shape, cols, sel, comps, cols2, dst], pyout]) =>
    -- session saved by reference: the restored values are the file's contents at restore time
    -- (the file was re-exported from `cols2` after saving), and nothing was stored inline
    match case? fmt shape cols2 sel comps dst, case? fmt shape cols sel comps dst with
    | some c2, some c1 =>
      let q1 := inQuantifier c1.fmt c1.d c1.sel c1.comps
      let q2 := inQuantifier c2.fmt c2.d c2.sel c2.comps
      if q1 != q2 then bad "sess-quantifier-mismatch" else
      match pyout with
      | .list [.atom "sess", inl, inner] =>
        judge c2 inner (inl == .atom "F") fun x => .list [.atom "sess", .atom "F", x]
      | other => judge c2 other false fun x => .list [.atom "sess", .atom "F", x]
    | _, _ => bad "sess-args"
  | some (.list [.atom "chain", .list [fa, shape, cols, fb, sel, comps, dst], pyout]) =>
    match case? fa shape cols (.atom "N") (.atom "N") dst, fmt? fb, optBools? sel, optNats? comps with
    | some c1, some fB, some sel, some comps => judgeChain c1 fB sel comps pyout
    | _, _, _, _ => bad "chain-args"
  | some (.list [.atom "reg", _, pyout]) =>
    -- every registered exporter must be one the model knows (and maps to a format)
    let known : Sexp := .list (knownExporters.map fun p => .atom p.1)
    driverResult known (pyout == known) true true "registry"
  | some (.list [.atom "pnum", s, pyout]) =>
    -- L0: parseNum / intLike / asciiReplace against pandas.to_numeric / numpy on the token universe
    match s.toNats? with
    | some t =>
      let v : Sexp := match parseNum t with
        | some q => .list [.atom "q", ofInt q.num, ofNat q.den]
        | none => .atom "N"
      let impl : Sexp := .list [v, ofBool (intLike t), ofNats (asciiReplace t)]
      driverResult impl (pyout == impl) true true (if (parseNum t).isSome then "numeric" else "text")
    | none => bad "pnum-args"
  | some (.list [.atom fam, .list [fmt, shape, cols, sel, comps, dst], pyout]) =>
    if fam == "tab" || fam == "img" || fam == "lay" || fam == "st" then
      match case? fmt shape cols sel comps dst with
      | some c => judge c pyout true id
      | none => bad "case-args"
    else bad "unknown-family"
  | _ => bad "unknown-line"

def main : IO Unit := driverLoop step
