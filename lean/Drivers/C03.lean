import GlueVerif.Sexp
import GlueVerif.Model.Links
/-! Line-protocol driver for C03 (linked attributes).

Families
* `disc`  : one call of `discover_links` on a stand-alone dataset (no collection):
  `(disc (own links order vals) pyout)`, pyout = `((cid depth?)… )` is not observable in glue, so the
  python side sends the installed link per cid and the values read.
* `hist`  : a history of DataCollection operations with an observation after every operation.
-/
open GlueVerif GlueVerif.Sexp GlueVerif.Links

def cid? (e : Sexp) : Option Cid :=
  match e with
  | .list [a, b] => do some (← a.toNat?, ← b.toNat?)
  | _ => none

def cids? (e : Sexp) : Option (List Cid) := do (← e.toList?).mapM cid?

def ofCid (c : Cid) : Sexp := .list [ofNat c.1, ofNat c.2]

def fn? (cs off : Sexp) : Option Fn := do some ⟨← cs.toInts?, ← off.toInt?⟩

def obj? (e : Sexp) : Option LinkObj :=
  match e with
  | .list [i, fr, to, cs, off, inv] => do
    let invv ← match inv with
      | .atom "N" => some none
      | .list [j, cs', off'] => do some (some (← j.toNat?, ← fn? cs' off'))
      | _ => none
    some ⟨← i.toNat?, ⟨← cids? fr, ← cid? to, ← fn? cs off⟩, invv⟩
  | _ => none

def entry? (e : Sexp) : Option Entry :=
  match e with
  | .list [.atom "s", o] => (obj? o).map .single
  | .list (.atom "c" :: i :: os) => do some (.coll (← i.toNat?) (← os.mapM obj?))
  | _ => none

def comp? (e : Sexp) (d : Nat) : Option (Cid × Val) :=
  match e with
  | .list (ix :: vs) => do some ((d, ← ix.toNat?), ← vs.mapM toInt?)
  | _ => none

def op? (e : Sexp) : Option Op :=
  match e with
  | .list [.atom "new", d, comps] => do
    let d ← d.toNat?
    some (.newData d (← (← comps.toList?).mapM (comp? · d)))
  | .list [.atom "app", d] => d.toNat?.map .append
  | .list [.atom "rem", d] => d.toNat?.map .remove
  | .list (.atom "addc" :: d :: ix :: vs) => do
    let d ← d.toNat?
    some (.addComp d (d, ← ix.toNat?) (← vs.mapM toInt?))
  | .list (.atom "addx" :: d :: d2 :: ix :: vs) => do
    some (.addComp (← d.toNat?) (← d2.toNat?, ← ix.toNat?) (← vs.mapM toInt?))
  | .list [.atom "remc", d, ix] => do
    let d ← d.toNat?
    some (.removeComp d (d, ← ix.toNat?))
  | .list [.atom "addd", d, i, fr, ix, cs, off] => do
    let d ← d.toNat?
    some (.addDerived d (← i.toNat?) ⟨← cids? fr, (d, ← ix.toNat?), ← fn? cs off⟩)
  | .list [.atom "upid", d, o, n] => do
    let d ← d.toNat?
    some (.updateId d (d, ← o.toNat?) (d, ← n.toNat?))
  | .list [.atom "addl", en] => (entry? en).map .addLink
  | .list (.atom "addls" :: es) => (es.mapM entry?).map .addLinks
  | .list [.atom "reml", i] => i.toNat?.map .removeLink
  | .list (.atom "remls" :: is) => (is.mapM toNat?).map .removeLinks
  | .list [.atom "db"] => some .delayBegin
  | .list [.atom "de"] => some .delayEnd
  | _ => none

def cidLe (a b : Cid) : Bool := a.1 < b.1 || (a.1 == b.1 && a.2 ≤ b.2)

def opCids : Op → List Cid
  | .newData _ comps => comps.map (·.1)
  | .addComp _ c _ => [c]
  | .removeComp _ c => [c]
  | .addDerived _ _ l => l.to :: l.froms
  | .updateId _ o n => [o, n]
  | .addLink e => e.cids
  | .addLinks es => es.flatMap Entry.cids
  | _ => []

def cidUniverse (ops : List Op) : List Cid := ((ops.flatMap opCids).eraseDups).mergeSort cidLe

def statusAtom : Status → Sexp
  | .ok => .atom "ok"
  | .attributeError => .atom "attribute-error"
  | .valueError => .atom "value-error"

def ofVal (v : Val) : Sexp := ofInts v
def ofOptVal : Option Val → Sexp
  | none => .atom "inc"
  | some v => ofVal v

def optVal? : Sexp → Option (Option Val)
  | .atom "inc" => some none
  | e => e.toInts?.map some

def ofOptMask : Option (List Bool) → Sexp
  | none => .atom "inc"
  | some m => ofBools m

def optMask? : Sexp → Option (Option (List Bool))
  | .atom "inc" => some none
  | e => e.toBools?.map some

/-- Observation of one dataset, python side. -/
structure DObs where
  d : Nat
  deriv : List Cid
  vals : List (Option Val)            -- aligned with the universe
  masks : Option (List (Option (List Bool)))

structure Obs where
  status : Sexp
  ord : List Nat
  ext : List Nat
  dss : List DObs

def dobs? (e : Sexp) : Option DObs :=
  match e with
  | .list [d, dv, vs, ms] => do
    let ms' ← match ms with
      | .atom "N" => some none
      | m => do some (some (← (← m.toList?).mapM optMask?))
    some ⟨← d.toNat?, ← cids? dv, ← (← vs.toList?).mapM optVal?, ms'⟩
  | _ => none

def obs? (e : Sexp) : Option Obs :=
  match e with
  | .list [st, ord, ext, dss] => do
    some ⟨st, ← ord.toNats?, ← ext.toNats?, ← (← dss.toList?).mapM dobs?⟩
  | _ => none

def ofDObs (o : DObs) : Sexp :=
  .list [ofNat o.d, .list (o.deriv.map ofCid), .list (o.vals.map ofOptVal),
    match o.masks with
    | none => .atom "N"
    | some ms => .list (ms.map ofOptMask)]

def ofObs (o : Obs) : Sexp :=
  .list [o.status, ofNats o.ord, ofNats o.ext, .list (o.dss.map ofDObs)]

def maskOf := selectGt

/-- The model's prediction of the observation after a step. -/
def modelObs (univ : List Cid) (thr : Int) (s : MState) (st : Status) (py : Obs) : Obs :=
  { status := statusAtom st, ord := py.ord, ext := s.ext.map Entry.id,
    dss := s.dsets.map fun D =>
      let vals := univ.map (readCid s D)
      let wantMasks := match py.dss.find? (fun o => o.d == D.id) with
        | some o => o.masks.isSome
        | none => false
      ⟨D.id, univ.filter (isDerivable D), vals, if wantMasks then some (vals.map (maskOf thr)) else none⟩ }

def tableOf (univ : List Cid) (vals : List (Option Val)) (c : Cid) : Option Val :=
  (get (univ.zip vals) c).getD none

/-- The Spec verdict on an observation (python's or the model's own) in Spec state `s`. -/
def specObsOk (univ : List Cid) (thr : Int) (s : MState) (st : Status) (wf : Bool) (o : Obs) : Bool :=
  o.status == statusAtom st &&
  o.ext == s.ext.map Entry.id &&
  (!wf || noDangling s) &&
  o.dss.map (·.d) == s.dsets.map (·.id) &&
  (o.dss.zip s.dsets).all fun (od, D) =>
    let out := tableOf univ od.vals
    let ls := curLinks s
    od.vals.length == univ.length &&
    -- own components always read their own array
    D.comps.all (fun c => out c == some (ownVal s.vals c)) &&
    -- own derived attributes always read their defining function of what the dataset reads
    D.derived.all (fun p => out p.2.to == match allSome (p.2.froms.map out) with
      | some vs => some (applyFn p.2.fn vs)
      | none => none) &&
    -- outside a delay block: reachability and composed values
    (s.delay != 0 ||
      (od.deriv == univ.filter (fun c => !decide (c ∈ D.comps) && (specDepth D.comps ls c).isSome) &&
       univ.all (fun c => decide (c ∈ D.derivedIds) || specOkAt D.comps ls (ownVal s.vals) applyFn out c))) &&
    -- a selection `cid > thr` selects exactly the elements whose derived value satisfies it
    (match od.masks with
     | none => true
     | some ms => ms == od.vals.map (maskOf thr))

def brOf (s : MState) (anyMulti anyDelay : Bool) (anyDer : Bool := false) : String :=
  let nder := (s.dsets.map fun D => (D.cache.via.map (·.1)).eraseDups.length).sum
  (if anyDer then "der-" else "") ++ (if anyDelay then "delay-" else "") ++ (if anyMulti then "multi-" else "") ++
    (if nder == 0 then "none" else if nder < 4 then "few" else "many")

partial def runHist (univ : List Cid) (thr : Int) :
    MState → List Op → List Obs → Bool → Bool → List Obs → Bool → Bool → (List Obs × Bool × Bool × Bool × Bool × MState)
  | s, op :: ops, py :: pys, clean, wf, acc, ok, implok =>
    let wf' := wf && wfOp s op
    let (s', st) := step py.ord s op
    -- inside the hypotheses of `manager_inv` / `manager_reads`
    let clean' := clean && wf' && (s'.delay != 0 || s'.dsets.all internalFirst)
    let mo := modelObs univ thr s' st py
    let ok' := ok && specObsOk univ thr s' st wf' py
    let implok' := implok && specObsOk univ thr s' st wf' mo
    runHist univ thr s' ops pys clean' wf' (mo :: acc) ok' implok'
  | s, [], [], clean, wf, acc, ok, implok => (acc.reverse, ok, implok, clean, wf, s)
  | s, _, _, clean, wf, acc, _, implok => (acc.reverse, false, implok, clean, wf, s)

def isMulti : Op → Bool
  | .addLink e => e.objs.any (·.link.froms.length > 1)
  | .addLinks es => es.any fun e => e.objs.any (·.link.froms.length > 1)
  | _ => false

def isDelay : Op → Bool
  | .delayBegin => true
  | _ => false

def isDer : Op → Bool
  | .addDerived _ _ _ => true
  | _ => false

def step1 (line : String) : String :=
  match Sexp.parse line with
  | some (.list [.atom "hist", .list [thr, ops], pyout]) =>
    match thr.toInt?, ops.toList?.bind (·.mapM op?) with
    | some thr, some ops =>
      let univ := cidUniverse ops
      let pyobs : Option (List Obs) := pyout.toList?.bind (·.mapM obs?)
      match pyobs with
      | some pys =>
        if pys.length != ops.length then driverError "hist-obs-length" else
        let (mos, ok, implok, clean, _, s) := runHist univ thr MState.init ops pys true true [] true true
        driverResult (.list (mos.map ofObs)) ok implok clean (brOf s (ops.any isMulti) (ops.any isDelay) (ops.any isDer))
      | none =>
        -- unparsable python output (exception / timeout atoms): run the model with empty orders
        let pys := ops.map fun _ => (⟨.atom "?", [], [], []⟩ : Obs)
        let (mos, _, implok, clean, _, s) := runHist univ thr MState.init ops pys true true [] true true
        driverResult (.list (mos.map ofObs)) false implok clean (brOf s (ops.any isMulti) (ops.any isDelay) (ops.any isDer))
    | _, _ => driverError "hist-args"
  | _ => driverError "unknown-family"

def main : IO Unit := driverLoop step1
