import GlueVerif.Sexp
import GlueVerif.Model.C09Roi
/-! Line-protocol driver for C09 (ROI → selection). -/
open GlueVerif GlueVerif.Sexp GlueVerif.C09 GlueVerif.ArrayUtil

def bad (msg : String) : String := driverError msg

def rat? : Sexp → Option Rat
  | .list [.atom "q", n, d] => do
    let n ← n.toInt?
    let d ← d.toInt?
    if d = 0 then none else some ((n : Rat) / (d : Rat))
  | e => e.toInt?.map fun i => (i : Rat)

def ofRat (q : Rat) : Sexp :=
  if q.den = 1 then ofInt q.num else .list [.atom "q", ofInt q.num, ofNat q.den]

/-- Masks travel as one atom `mTTFF…` (compact evidence). -/
def ofBits (bs : List Bool) : Sexp := .atom ("m" ++ String.ofList (bs.map fun b => if b then 'T' else 'F'))

def toBits? : Sexp → Option (List Bool)
  | .atom s =>
    match s.toList with
    | 'm' :: cs => cs.mapM fun c => if c == 'T' then some true else if c == 'F' then some false else none
    | _ => none
  | _ => none

def pt? : Sexp → Option Pt
  | .list [a, b] => do some ⟨← rat? a, ← rat? b⟩
  | _ => none

def pts? (e : Sexp) : Option (List Pt) := do (← e.toList?).mapM pt?

def rats? (e : Sexp) : Option (List Rat) := do (← e.toList?).mapM rat?

def ori? : Sexp → Option Ori
  | .atom "x" => some .x
  | .atom "y" => some .y
  | _ => none

def ofOri : Ori → Sexp
  | .x => .atom "x"
  | .y => .atom "y"

def roi? : Sexp → Option Roi
  | .list [.atom "range", o, lo, hi] => do some (.range (← ori? o) (← rat? lo) (← rat? hi))
  | .list [.atom "rect", a, b, c, d, co, si] => do
    some (.rect (← rat? a) (← rat? b) (← rat? c) (← rat? d) (← rat? co) (← rat? si))
  | .list [.atom "circle", a, b, r] => do some (.circle (← rat? a) (← rat? b) (← rat? r))
  | .list [.atom "ellipse", a, b, rx, ry, co, si] => do
    some (.ellipse (← rat? a) (← rat? b) (← rat? rx) (← rat? ry) (← rat? co) (← rat? si))
  | .list [.atom "poly", vs] => do some (.poly (← pts? vs))
  | .list [.atom "cat", ls] => do some (.categorical (← ls.toInts?))
  | _ => none

def roiKind : Roi → String
  | .range .. => "range"
  | .rect _ _ _ _ _ s => if s = 0 then "rect0" else "rectrot"
  | .circle .. => "circle"
  | .ellipse .. => "ellipse"
  | .poly .. => "poly"
  | .categorical .. => "catroi"

/-- A data column: `(num v …)` with `nan` / int / `(q n d)` entries, `(cat l …)` (category list =
`np.unique` of the labels, as the viewers pass it) or `(catl (c …) l …)` (explicit category list, passed
to `roi_to_subset_state` in exactly this order — any order, possibly with duplicates / categories
without elements). -/
def column? : Sexp → Option (Option (List Int) × List Val)
  | .list (.atom "num" :: vs) => do
    let vals ← vs.mapM fun v => match v with
      | .atom "nan" => some (Val.num none)
      | e => (rat? e).map fun q => Val.num (some q)
    some (none, vals)
  | .list (.atom "cat" :: ls) => do
    let labs ← ls.mapM toInt?
    some (some (categories labs), labs.map Val.lab)
  | .list (.atom "catl" :: order :: ls) => do
    let labs ← ls.mapM toInt?
    some (some (← order.toInts?), labs.map Val.lab)
  | _ => none

/-- `component.codes` of a categorical column built with `categories=` the list as passed (only
meaningful for a duplicate-free list): the index of each label in that list. -/
def codesSexp (cats : Option (List Int)) (vals : List Val) : Sexp :=
  match cats with
  | some cs =>
    if noDup cs then ofInts (vals.map fun v => match v with | .lab l => ((indexOf l cs : Nat) : Int) | _ => -1)
    else .atom "N"
  | none => .atom "N"

def hasDup : Option (List Int) → Bool
  | some cs => !noDup cs
  | none => false

def isUnsorted : Option (List Int) → Bool
  | some cs => !strictSorted cs
  | none => false

/-- Evidence tag: which kind of category order the case exercises. -/
def orderTag (xc yc : Option (List Int)) : String :=
  if hasDup xc || hasDup yc then "+dup"
  else if isUnsorted xc || isUnsorted yc then "+unsorted"
  else ""

def pre? : Sexp → Option (Option Affine)
  | .atom "N" => some none
  | .list [.atom "aff", a, b, t, c, d, u] => do
    some (some ⟨← rat? a, ← rat? b, ← rat? t, ← rat? c, ← rat? d, ← rat? u⟩)
  | _ => none

def ofOptInts : Option (List Int) → Sexp
  | none => .atom "N"
  | some xs => ofInts xs

/-- Canonical description of a state (what the harness also extracts from the glue object). -/
def stateSexp (exact : Bool) : State → Sexp
  | .range lo hi att => .list [.atom "Range", ofOri att, ofRat lo, ofRat hi]
  | .catRoi cats att => .list [.atom "CatRoi", ofOri att, ofInts cats]
  | .and a b => .list [.atom "And", stateSexp exact a, stateSexp exact b]
  | .cat2d sel =>
    -- the selection table is compared only on exact paths (ε = 0); otherwise band points may differ
    -- canonical form of the Python dict of sets: keys sorted, last insertion wins, values sorted
    if exact then .list [.atom "Cat2D", .list ((categories (sel.map (·.1))).map fun k =>
      .list [ofInt k, ofInts (categories ((dictGet sel k).getD []))])]
    else .list [.atom "Cat2D"]
  | .catMulti _ c n => .list [.atom "CatMulti", ofOri c, ofOri n]
  | .roi r => .list [.atom "Roi", .atom (roiKind r)]

def stateBranch (r : Roi) : State → String
  | .range .. => "range-num"
  | .catRoi .. => match r with | .categorical _ => "catroi" | _ => "range-cat"
  | .and a b =>
    let k : State → String := fun s => match s with | .catRoi .. => "cat" | _ => "num"
    "rect-" ++ k a ++ "-" ++ k b
  | .cat2d _ => roiKind r ++ "-cat-cat"
  | .catMulti _ c _ => roiKind r ++ (match c with | .x => "-cat-num" | .y => "-num-cat")
  | .roi _ => roiKind r ++ "-num-num"

/-- Round to the grid `2^-20` (half up), as the harness does with the float segments. -/
def grid : Rat := (1048576 : Int)
def roundGrid (q : Rat) : Int := (q * grid + 1 / 2).floor

def step (line : String) : String :=
  match Sexp.parse line with
  | some (.list [.atom "sel", .list [roiE, xcol, ycol, usePreE, preE, epsE], pyout]) =>
    match roi? roiE, column? xcol, column? ycol, usePreE.toBool?, pre? preE, rat? epsE with
    | some r, some (xc, xs), some (yc, ys), some usePre, some pre, some ε =>
      if xs.length ≠ ys.length then bad "sel-lengths" else
      let es := (xs.zip ys).map fun p => (⟨p.1, p.2⟩ : Elem)
      let st := roiToState r xc yc usePre
      let model := es.map (mask pre st)
      let dup := hasDup xc || hasDup yc
      -- elements whose mask entry the exact model does not predict on float-affected paths (ε > 0):
      -- the boundary band; with duplicated list entries also the elements whose occurrences disagree
      let nears := es.map fun e => if dup then specAmbiguous ε r xc yc pre e else specNear ε r xc yc pre e
      -- python output: (xcats ycats state mask codes)
      -- Spec on the plotted positions themselves: the component built with the list as passed plots
      -- every element at the index of its label in that list (`component.codes` = `plotCoord`)
      let codes := Sexp.list [codesSexp xc xs, codesSexp yc ys]
      let (pyMask, pyOk) : Option (List Bool) × Bool := match pyout with
        | .list [_, _, _, m, c] => (toBits? m, c == codes)
        | _ => (none, false)
      -- a category list with duplicates gives a label several positions: the verdict must then be
      -- justified by one of them (`specMaskAny`; = `specMask` on duplicate-free lists)
      let specM : List Bool → Bool := fun m =>
        if dup then specMaskAny ε r xc yc pre es m else specMask ε r xc yc pre es m
      -- inside the band (ε > 0) the float code may legitimately differ from the exact model
      let implMask := match pyMask with
        | some pm => if pm.length == model.length ∧ ε > 0 then
            (model.zip (pm.zip nears)).map fun t => if t.2.2 then t.2.1 else t.1
          else model
        | none => model
      let impl := Sexp.list [ofOptInts xc, ofOptInts yc, stateSexp (ε == 0) st, ofBits implMask, codes]
      let ok := pyOk && match pyMask with
        | some pm => specM pm
        | none => false
      -- inside the hypothesis of `roi_selection` the theorem's own conclusion is re-checked on the
      -- executed case (exact boundary, no band); outside it (polygonised circles …) the band is used
      let inP := es.all (inScope r xc yc usePre pre)
      let implok :=
        if inP then (es.zip model).all fun em =>
          specOnBoundary r xc yc pre em.1 || (em.2 == specSelected r xc yc pre em.1)
        else specM model
      driverResult impl ok implok inP (stateBranch r st ++ orderTag xc yc)
    | _, _, _, _, _, _ => bad "sel-args"
  | some (.list [.atom "mpl", .list [vsE, ptsE], pyout]) =>
    match pts? vsE, pts? ptsE with
    | some vs, some ps =>
      let eo := ps.map (evenOdd vs)
      let pip := ps.map (pointsInsidePoly vs)
      let impl := Sexp.list [ofBits eo, ofBits pip]
      -- Spec for the library model: off the boundary the prefiltered test equals the even-odd rule
      let ok := match pyout with
        | .list [_, b] => match toBits? b with
          | some pb => pb.length == ps.length &&
              (ps.zip pb).all fun t => onPolyBoundary vs t.1 || (t.2 == evenOdd vs t.1)
          | none => false
        | _ => false
      let implok := (ps.zip pip).all fun t => onPolyBoundary vs t.1 || (t.2 == evenOdd vs t.1)
      driverResult impl ok implok true (if ps.any (onPolyBoundary vs) then "with-boundary" else "off-boundary")
    | _, _ => bad "mpl-args"
  | some (.list [.atom "pli", .list [vsE, xvE, ysE, epsE], pyout]) =>
    match pts? vsE, rat? xvE, rats? ysE, rat? epsE with
    | some vs, some xv, some ys, some ε =>
      let segs := polygonLineIntersections vs xv
      let rounded := (segs.map fun s => (roundGrid s.1, roundGrid s.2)).filter fun s => s.1 ≠ s.2
      let impl := Sexp.list (rounded.map fun s => .list [ofInt s.1, ofInt s.2])
      let covered (sg : List (Rat × Rat)) (y : Rat) : Bool := sg.any fun s => decide (s.1 ≤ y) && decide (y ≤ s.2)
      let spec (sg : List (Rat × Rat)) : Bool :=
        ys.all fun y => near ε (.poly vs) ⟨xv, y⟩ || (covered sg y == evenOdd vs ⟨xv, y⟩)
      let pySegs : Option (List (Rat × Rat)) := do
        let xs ← pyout.toList?
        xs.mapM fun e => match e with
          | .list [a, b] => do some (((← a.toInt?) : Rat) / grid, ((← b.toInt?) : Rat) / grid)
          | _ => none
      let ok := match pySegs with | some sg => spec sg | none => false
      driverResult impl ok (spec segs) true
        (if segs.isEmpty then "none" else if segs.length == 1 then "one" else "several")
    | _, _, _, _ => bad "pli-args"
  | some (.list [.atom "frange", .list [catsE, loE, hiE, labsE], pyout]) =>
    match catsE.toInts?, rat? loE, rat? hiE, labsE.toInts? with
    | some cats, some lo, some hi, some labs =>
      let sel := fromRange cats lo hi
      let cont := labs.map (catRoiContains sel)
      let impl := Sexp.list [ofInts sel, ofBits cont]
      -- Spec (`specFromRange`, theorem `from_range_any_list`): a label of `cats` (ANY order, duplicates
      -- allowed) is contained iff its position in the list as passed lies strictly inside (lo, hi),
      -- except on the boundary position = lo; a foreign label is never contained
      let spec (m : List Bool) : Bool := m.length == labs.length && (labs.zip m).all fun t =>
        specFromRange cats lo hi t.1 t.2
      let ok := match pyout with
        | .list [_, m] => match toBits? m with | some pm => spec pm | none => false
        | _ => false
      driverResult impl ok (spec cont) true
        ((if sel.isEmpty then "empty" else "nonempty") ++ orderTag (some cats) none)
    | _, _, _, _ => bad "frange-args"
  | _ => bad "unknown-family"

def main : IO Unit := driverLoop step
