import GlueVerif.Sexp
import GlueVerif.Model.C09Roi
/-! Line-protocol driver for C09 (ROI → selection). -/
open GlueVerif GlueVerif.Sexp GlueVerif.C09 GlueVerif.ArrayUtil

def bad (msg : String) : String := driverError msg

def rat? : Sexp → Option Rat
  | .list [.atom "q", n, d] => do
    let n ← n.toInt?
    let d ← d.toInt?
    if d = 0 then none else some ((n : Rat) / (d : Rat))
  | e => e.toInt?.map fun i => (i : Rat)

def ofRat (q : Rat) : Sexp :=
  if q.den = 1 then ofInt q.num else .list [.atom "q", ofInt q.num, ofNat q.den]

/-- Masks travel as one atom `mTTFF…` (compact evidence). -/
def ofBits (bs : List Bool) : Sexp := .atom ("m" ++ String.ofList (bs.map fun b => if b then 'T' else 'F'))

def toBits? : Sexp → Option (List Bool)
  | .atom s =>
    match s.toList with
    | 'm' :: cs => cs.mapM fun c => if c == 'T' then some true else if c == 'F' then some false else none
    | _ => none
  | _ => none

def pt? : Sexp → Option Pt
  | .list [a, b] => do some ⟨← rat? a, ← rat? b⟩
  | _ => none

def pts? (e : Sexp) : Option (List Pt) := do (← e.toList?).mapM pt?

def rats? (e : Sexp) : Option (List Rat) := do (← e.toList?).mapM rat?

def ori? : Sexp → Option Ori
  | .atom "x" => some .x
  | .atom "y" => some .y
  | _ => none

def ofOri : Ori → Sexp
  | .x => .atom "x"
  | .y => .atom "y"

def roi? : Sexp → Option Roi
  | .list [.atom "range", o, lo, hi] => do some (.range (← ori? o) (← rat? lo) (← rat? hi))
  | .list [.atom "rect", a, b, c, d, co, si] => do
    some (.rect (← rat? a) (← rat? b) (← rat? c) (← rat? d) (← rat? co) (← rat? si))
  | .list [.atom "circle", a, b, r] => do some (.circle (← rat? a) (← rat? b) (← rat? r))
  | .list [.atom "ellipse", a, b, rx, ry, co, si] => do
    some (.ellipse (← rat? a) (← rat? b) (← rat? rx) (← rat? ry) (← rat? co) (← rat? si))
  | .list [.atom "poly", vs] => do some (.poly (← pts? vs))
  | .list [.atom "cat", ls] => do some (.categorical (← ls.toInts?))
  | _ => none

def roiKind : Roi → String
  | .range .. => "range"
  | .rect _ _ _ _ _ s => if s = 0 then "rect0" else "rectrot"
  | .circle .. => "circle"
  | .ellipse .. => "ellipse"
  | .poly .. => "poly"
  | .categorical .. => "catroi"

/-- A data column: `(num v …)` with `nan` / int / `(q n d)` entries, `(cat l …)` (category list =
`np.unique` of the labels, as the viewers pass it) or `(catl (c …) l …)` (explicit category list, passed
to `roi_to_subset_state` in exactly this order — any order, possibly with duplicates / categories
without elements). -/
def column? : Sexp → Option (Option (List Int) × List Val)
  | .list (.atom "num" :: vs) => do
    let vals ← vs.mapM fun v => match v with
      | .atom "nan" => some (Val.num none)
      | e => (rat? e).map fun q => Val.num (some q)
    some (none, vals)
  | .list (.atom "cat" :: ls) => do
    let labs ← ls.mapM toInt?
    some (some (categories labs), labs.map Val.lab)
  | .list (.atom "catl" :: order :: ls) => do
    let labs ← ls.mapM toInt?
    some (some (← order.toInts?), labs.map Val.lab)
  | _ => none

/-- `component.codes` of a categorical column built with `categories=` the list as passed (only
meaningful for a duplicate-free list): the index of each label in that list. -/
def codesSexp (cats : Option (List Int)) (vals : List Val) : Sexp :=
  match cats with
  | some cs =>
    if noDup cs then ofInts (vals.map fun v => match v with | .lab l => ((indexOf l cs : Nat) : Int) | _ => -1)
    else .atom "N"
  | none => .atom "N"

def hasDup : Option (List Int) → Bool
  | some cs => !noDup cs
  | none => false

def isUnsorted : Option (List Int) → Bool
  | some cs => !strictSorted cs
  | none => false

/-- Evidence tag: which kind of category order the case exercises. -/
def orderTag (xc yc : Option (List Int)) : String :=
  if hasDup xc || hasDup yc then "+dup"
  else if isUnsorted xc || isUnsorted yc then "+unsorted"
  else ""

def pre? : Sexp → Option (Option Affine)
  | .atom "N" => some none
  | .list [.atom "aff", a, b, t, c, d, u] => do
    some (some ⟨← rat? a, ← rat? b, ← rat? t, ← rat? c, ← rat? d, ← rat? u⟩)
  | _ => none

def ofOptInts : Option (List Int) → Sexp
  | none => .atom "N"
  | some xs => ofInts xs

/-- Canonical description of a state (what the harness also extracts from the glue object). -/
def stateSexp (exact : Bool) : State → Sexp
  | .range lo hi att => .list [.atom "Range", ofOri att, ofRat lo, ofRat hi]
  | .catRoi cats att => .list [.atom "CatRoi", ofOri att, ofInts cats]
  | .and a b => .list [.atom "And", stateSexp exact a, stateSexp exact b]
  | .cat2d sel =>
    -- the selection table is compared only on exact paths (ε = 0); otherwise band points may differ
    -- canonical form of the Python dict of sets: keys sorted, last insertion wins, values sorted
    if exact then .list [.atom "Cat2D", .list ((categories (sel.map (·.1))).map fun k =>
      .list [ofInt k, ofInts (categories ((dictGet sel k).getD []))])]
    else .list [.atom "Cat2D"]
  | .catMulti _ c n => .list [.atom "CatMulti", ofOri c, ofOri n]
  | .roi r => .list [.atom "Roi", .atom (roiKind r)]

/-- Canonical form of the `ranges` dict of a `CategoricalMultiRangeSubsetState` (keys sorted, last
insertion wins, segments in the order stored, exact rationals). -/
def multiTable (sel : List (Int × List (Rat × Rat))) : Sexp :=
  .list ((categories (sel.map (·.1))).map fun k =>
    .list [ofInt k, .list (((dictGet sel k).getD []).map fun s => .list [ofRat s.1, ofRat s.2])])

/-- State description for the scale-ladder cases (`eps = auto`): the `CatMulti` description carries the
whole segment table — the model's on exact paths, python's own (not predicted) on banded paths. -/
def stateSexpAuto (exact : Bool) (pyState : Sexp) : State → Sexp
  | .catMulti sel c n =>
    let t := if exact then multiTable sel else
      match pyState with
      | .list [_, _, _, t] => t
      | _ => .atom "N"
    .list [.atom "CatMulti", ofOri c, ofOri n, t]
  | st => stateSexp exact st

def stateBranch (r : Roi) : State → String
  | .range .. => "range-num"
  | .catRoi .. => match r with | .categorical _ => "catroi" | _ => "range-cat"
  | .and a b =>
    let k : State → String := fun s => match s with | .catRoi .. => "cat" | _ => "num"
    "rect-" ++ k a ++ "-" ++ k b
  | .cat2d _ => roiKind r ++ "-cat-cat"
  | .catMulti _ c _ => roiKind r ++ (match c with | .x => "-cat-num" | .y => "-num-cat")
  | .roi _ => roiKind r ++ "-num-num"

/-- Round to the grid `2^-20` (half up), as the harness does with the float segments. -/
def grid : Rat := (1048576 : Int)
def roundGrid (q : Rat) : Int := (q * grid + 1 / 2).floor

/-! ### Scale ladder: which float paths are exact, and the band relative to the local scale

Everything here is computed from the exact inputs of the case. -/

def isPow2 (d : Nat) : Bool := d != 0 && (d &&& (d - 1)) == 0

/-- `q` is an IEEE double: dyadic with a 53-bit significand (exponent range checked loosely; the
ladder stays within `2^±120`, `RangeROI.to_polygon` uses `1e100`). -/
def f64 (q : Rat) : Bool :=
  let m := q.num.natAbs
  isPow2 q.den && decide (Nat.log2 q.den ≤ 1000) &&
    (m == 0 || (let l := Nat.log2 m; decide (l < 53) || (decide (l ≤ 1000) && m % 2 ^ (l - 52) == 0)))

/-- matplotlib's crossing rule evaluates exactly at `p`: every difference and product it forms is a
double (then each correctly rounded IEEE operation returns the true value). -/
def mplExact (vs : List Pt) (p : Pt) : Bool :=
  f64 p.x && f64 p.y &&
  (cyclicEdges vs).all fun e =>
    let a := e.1
    let b := e.2
    f64 (b.y - p.y) && f64 (a.x - b.x) && f64 (b.x - p.x) && f64 (a.y - b.y) &&
    f64 ((b.y - p.y) * (a.x - b.x)) && f64 ((b.x - p.x) * (a.y - b.y))

/-- `polygon_line_intersections(cl, xval = xv)` evaluates exactly: all intermediates of
`y1 + (y2 - y1) * (xval - x1) / (x2 - x1)` on the crossing edges, the mid-points and the mid-point
inside tests are doubles. -/
def pliExact (cl : List Pt) (xv : Rat) : Bool :=
  cl.all (fun v => f64 v.x && f64 v.y) && f64 xv &&
  ((consecEdges cl).all fun e =>
    let a := e.1
    let b := e.2
    !properCross a b xv ||
      (let d1 := b.y - a.y
       let d2 := xv - a.x
       let d3 := b.x - a.x
       f64 d1 && f64 d3 &&
         (d1 == 0 || (f64 d2 && f64 (d1 * d2) && f64 (d1 * d2 / d3) && f64 (yAt a b xv))))) &&
  ((consecPairs (crossingOrdinates cl xv)).all fun st =>
    f64 (st.1 + st.2) && mplExact cl ⟨xv, (st.1 + st.2) / 2⟩)

def relEps : Rat := 1 / 1048576

/-- `v ↦ a·v + b` taking the region's extent on the numeric axis `ax` to `[0, 1]`. -/
def normAxis (r : Roi) (ax : Ori) : Rat × Rat :=
  let ext : Option (Rat × Rat) := match r with
    | .poly vs =>
      let cs := vs.map fun v => match ax with | .x => v.x | .y => v.y
      some (listMin cs, listMax cs)
    | .range ori lo hi => if ori = ax then some (min lo hi, max lo hi) else none
    | _ => none
  match ext with
  | some (lo, hi) => if hi > lo then (1 / (hi - lo), -lo / (hi - lo)) else (1, -lo)
  | none => (1, 0)

/-- Region and data with every numeric axis normalised to the region's own extent
(`selection_scale_equivariant`: the Spec verdict is the same in both coordinate systems). -/
def normalise (r : Roi) (xc yc : Option (List Int)) (es : List Elem) : Roi × List Elem :=
  let go (acc : Roi × List Elem) (ax : Ori) (cats : Option (List Int)) : Roi × List Elem :=
    if cats.isSome then acc else
      let ab := normAxis acc.1 ax
      (acc.1.rescale ax ab.1 ab.2, acc.2.map (Elem.rescale ax ab.1 ab.2))
  go (go (r, es) .x xc) .y yc

/-- Band for a ladder case: `(ε, region, elements)` — the Spec's band `specNear ε` is evaluated on the
returned region / elements.  `ε = 0` on the paths whose float evaluation is exact on these inputs
(comparisons only; polygons whose every intermediate is a double); otherwise the band is relative to
the local scale: a fraction of the radius / of the shorter side, or `2^-20` in coordinates normalised
to the region's extent on each numeric axis. -/
def autoPlan (r : Roi) (xc yc : Option (List Int)) (usePre : Bool) (es : List Elem) : Rat × Roi × List Elem :=
  let onecat := xc.isSome != yc.isSome
  let anycat := xc.isSome || yc.isSome
  let normal : Rat × Roi × List Elem := let n := normalise r xc yc es; (relEps, n.1, n.2)
  match r with
  | .categorical _ => (0, r, es)
  | .range .. => if !usePre || !anycat then (0, r, es) else normal
  | .rect xmin xmax ymin ymax _ s =>
    if s = 0 then (0, r, es) else
      let w := absQ (xmax - xmin)
      let h := absQ (ymax - ymin)
      let m := if min w h > 0 then min w h else max w h
      (m * relEps, r, es)
  | .circle _ _ rad =>
    if onecat then (rad / 900 + rad * relEps, r, es) else if anycat then (0, r, es) else (rad * relEps, r, es)
  | .ellipse _ _ rx ry _ _ =>
    let m := min rx ry
    if onecat then (m / 900 + m * relEps, r, es) else (m * relEps, r, es)
  | .poly vs =>
    let exact := vs.all (fun v => f64 v.x && f64 v.y) &&
      match xc, yc with
      | some _, some _ => true
      | none, none => es.all fun e => match e.x, e.y with
        | .num (some x), .num (some y) => mplExact vs ⟨x, y⟩
        | _, _ => true
      | some cs, none => (List.range cs.length).all fun i => pliExact (closeIfOpen vs) ((i : Nat) : Int)
      | none, some cs =>
        (List.range cs.length).all fun i => pliExact (closeIfOpen (vs.map Pt.swap)) ((i : Nat) : Int)
    if exact then (0, r, es) else normal

/-- All coordinates of a ladder case are doubles (python receives exactly the numbers Lean sees);
rotations `(c, s)` are exempt (python gets `atan2 s c`). -/
def inputsF64 (r : Roi) (es : List Elem) : Bool :=
  (match r with
    | .range _ lo hi => f64 lo && f64 hi
    | .rect a b c d _ _ => f64 a && f64 b && f64 c && f64 d
    | .circle a b c => f64 a && f64 b && f64 c
    | .ellipse a b c d _ _ => f64 a && f64 b && f64 c && f64 d
    | .poly vs => vs.all fun v => f64 v.x && f64 v.y
    | .categorical _ => true) &&
  es.all fun e =>
    (match e.x with | .num (some v) => f64 v | _ => true) &&
    (match e.y with | .num (some v) => f64 v | _ => true)

def step (line : String) : String :=
  match Sexp.parse line with
  | some (.list [.atom "sel", .list [roiE, xcol, ycol, usePreE, preE, epsE], pyout]) =>
    let auto := epsE == .atom "auto"
    match roi? roiE, column? xcol, column? ycol, usePreE.toBool?, pre? preE,
        (if auto then some 0 else rat? epsE) with
    | some r, some (xc, xs), some (yc, ys), some usePre, some pre, some ε0 =>
      if xs.length ≠ ys.length then bad "sel-lengths" else
      let es := (xs.zip ys).map fun p => (⟨p.1, p.2⟩ : Elem)
      if auto && (pre.isSome || !inputsF64 r es) then bad "sel-auto-inputs" else
      let st := roiToState r xc yc usePre
      let model := es.map (mask pre st)
      let dup := hasDup xc || hasDup yc
      -- scale-ladder cases (`eps = auto`): the driver decides from the exact inputs whether the float
      -- path is exact (ε = 0, boundary compared too) or banded relative to the local scale; the band is
      -- then evaluated on `(rB, esB)` (normalised coordinates where needed).  Legacy cases carry an
      -- absolute ε chosen by the generator (coordinates of order 1).
      let (ε, rB, esB) : Rat × Roi × List Elem := if auto then autoPlan r xc yc usePre es else (ε0, r, es)
      -- elements whose mask entry the exact model does not predict on float-affected paths (ε > 0):
      -- the boundary band; with duplicated list entries also the elements whose occurrences disagree
      let nears := esB.map fun e => if dup then specAmbiguous ε rB xc yc pre e else specNear ε rB xc yc pre e
      -- python output: (xcats ycats state mask codes)
      -- Spec on the plotted positions themselves: the component built with the list as passed plots
      -- every element at the index of its label in that list (`component.codes` = `plotCoord`)
      let codes := Sexp.list [codesSexp xc xs, codesSexp yc ys]
      let (pyMask, pyOk) : Option (List Bool) × Bool := match pyout with
        | .list [_, _, _, m, c] => (toBits? m, c == codes)
        | _ => (none, false)
      -- a category list with duplicates gives a label several positions: the verdict must then be
      -- justified by one of them (`specMaskAny`; = `specMask` on duplicate-free lists)
      let specM : List Bool → Bool := fun m =>
        if dup then specMaskAny ε rB xc yc pre esB m else specMask ε rB xc yc pre esB m
      -- inside the band (ε > 0) the float code may legitimately differ from the exact model
      let implMask := match pyMask with
        | some pm => if pm.length == model.length ∧ ε > 0 then
            (model.zip (pm.zip nears)).map fun t => if t.2.2 then t.2.1 else t.1
          else model
        | none => model
      let pyState : Sexp := match pyout with
        | .list [_, _, s, _, _] => s
        | _ => .atom "N"
      let impl := Sexp.list [ofOptInts xc, ofOptInts yc,
        (if auto then stateSexpAuto (ε == 0) pyState st else stateSexp (ε == 0) st), ofBits implMask, codes]
      let ok := pyOk && match pyMask with
        | some pm => specM pm
        | none => false
      -- inside the hypothesis of `roi_selection` the theorem's own conclusion is re-checked on the
      -- executed case (exact boundary, no band); outside it (polygonised circles …) the band is used
      let inP := es.all (inScope r xc yc usePre pre)
      let implok :=
        if inP then (es.zip model).all fun em =>
          specOnBoundary r xc yc pre em.1 || (em.2 == specSelected r xc yc pre em.1)
        else specM model
      driverResult impl ok implok inP
        (stateBranch r st ++ orderTag xc yc ++ (if auto then (if ε == 0 then "+ladder-exact" else "+ladder-band") else ""))
    | _, _, _, _, _, _ => bad "sel-args"
  | some (.list [.atom "mpl", .list [vsE, ptsE], pyout]) =>
    match pts? vsE, pts? ptsE with
    | some vs, some ps =>
      let eo := ps.map (evenOdd vs)
      let pip := ps.map (pointsInsidePoly vs)
      let impl := Sexp.list [ofBits eo, ofBits pip]
      -- Spec for the library model: off the boundary the prefiltered test equals the even-odd rule
      let ok := match pyout with
        | .list [_, b] => match toBits? b with
          | some pb => pb.length == ps.length &&
              (ps.zip pb).all fun t => onPolyBoundary vs t.1 || (t.2 == evenOdd vs t.1)
          | none => false
        | _ => false
      let implok := (ps.zip pip).all fun t => onPolyBoundary vs t.1 || (t.2 == evenOdd vs t.1)
      driverResult impl ok implok true (if ps.any (onPolyBoundary vs) then "with-boundary" else "off-boundary")
    | _, _ => bad "mpl-args"
  | some (.list [.atom "pli", .list [vsE, xvE, ysE, .atom "exact"], pyout]) =>
    -- scale-ladder cases: the segments travel as exact rationals and are compared exactly whenever the
    -- float evaluation is exact on these inputs (decided here); otherwise the band is `2^-20` of the
    -- polygon's extent along the line
    match pts? vsE, rat? xvE, rats? ysE with
    | some vs, some xv, some ys =>
      let segs := polygonLineIntersections vs xv
      let exact := pliExact (closeIfOpen vs) xv && ys.all f64
      let ab : Rat × Rat := if exact then (1, 0) else normAxis (.poly vs) .y
      let ε : Rat := if exact then 0 else relEps
      let vsB := vs.map (Pt.rescale .y ab.1 ab.2)
      let covered (sg : List (Rat × Rat)) (y : Rat) : Bool := sg.any fun s => decide (s.1 ≤ y) && decide (y ≤ s.2)
      let spec (sg : List (Rat × Rat)) : Bool :=
        ys.all fun y => near ε (.poly vsB) ⟨xv, ab.1 * y + ab.2⟩ || (covered sg y == evenOdd vs ⟨xv, y⟩)
      let pySegs : Option (List (Rat × Rat)) := do
        let xs ← pyout.toList?
        xs.mapM fun e => match e with
          | .list [a, b] => do some (← rat? a, ← rat? b)
          | _ => none
      let impl := if exact then Sexp.list (segs.map fun s => .list [ofRat s.1, ofRat s.2]) else pyout
      let ok := match pySegs with | some sg => spec sg | none => false
      driverResult impl ok (spec segs) true
        ((if segs.isEmpty then "none" else if segs.length == 1 then "one" else "several") ++
          (if exact then "+ladder-exact" else "+ladder-band"))
    | _, _, _ => bad "pli-exact-args"
  | some (.list [.atom "pli", .list [vsE, xvE, ysE, epsE], pyout]) =>
    match pts? vsE, rat? xvE, rats? ysE, rat? epsE with
    | some vs, some xv, some ys, some ε =>
      let segs := polygonLineIntersections vs xv
      let rounded := (segs.map fun s => (roundGrid s.1, roundGrid s.2)).filter fun s => s.1 ≠ s.2
      let impl := Sexp.list (rounded.map fun s => .list [ofInt s.1, ofInt s.2])
      let covered (sg : List (Rat × Rat)) (y : Rat) : Bool := sg.any fun s => decide (s.1 ≤ y) && decide (y ≤ s.2)
      let spec (sg : List (Rat × Rat)) : Bool :=
        ys.all fun y => near ε (.poly vs) ⟨xv, y⟩ || (covered sg y == evenOdd vs ⟨xv, y⟩)
      let pySegs : Option (List (Rat × Rat)) := do
        let xs ← pyout.toList?
        xs.mapM fun e => match e with
          | .list [a, b] => do some (((← a.toInt?) : Rat) / grid, ((← b.toInt?) : Rat) / grid)
          | _ => none
      let ok := match pySegs with | some sg => spec sg | none => false
      driverResult impl ok (spec segs) true
        (if segs.isEmpty then "none" else if segs.length == 1 then "one" else "several")
    | _, _, _, _ => bad "pli-args"
  | some (.list [.atom "frange", .list [catsE, loE, hiE, labsE], pyout]) =>
    match catsE.toInts?, rat? loE, rat? hiE, labsE.toInts? with
    | some cats, some lo, some hi, some labs =>
      let sel := fromRange cats lo hi
      let cont := labs.map (catRoiContains sel)
      let impl := Sexp.list [ofInts sel, ofBits cont]
      -- Spec (`specFromRange`, theorem `from_range_any_list`): a label of `cats` (ANY order, duplicates
      -- allowed) is contained iff its position in the list as passed lies strictly inside (lo, hi),
      -- except on the boundary position = lo; a foreign label is never contained
      let spec (m : List Bool) : Bool := m.length == labs.length && (labs.zip m).all fun t =>
        specFromRange cats lo hi t.1 t.2
      let ok := match pyout with
        | .list [_, m] => match toBits? m with | some pm => spec pm | none => false
        | _ => false
      driverResult impl ok (spec cont) true
        ((if sel.isEmpty then "empty" else "nonempty") ++ orderTag (some cats) none)
    | _, _, _, _ => bad "frange-args"
  | _ => bad "unknown-family"

def main : IO Unit := driverLoop step
