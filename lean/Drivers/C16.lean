import GlueVerif.Sexp
import GlueVerif.Model.Coords
import GlueVerif.Model.C16FRB
import GlueVerif.Model.C16Links
import GlueVerif.Model.C16Image
import GlueVerif.Model.C16Args
/-! Line-protocol driver for C16 (fixed-resolution buffer, its caches, image layer states). -/
open GlueVerif GlueVerif.Sexp GlueVerif.FRB

def bad (msg : String) : String := driverError msg

/-! ### codecs -/

def ratToSexp (q : Rat) : Sexp :=
  if q.den == 1 then ofInt q.num else .list [.atom "q", ofInt q.num, ofNat q.den]

def sexpToRat? : Sexp → Option Rat
  | .list [.atom "q", a, b] => do
    let n ← a.toInt?
    let d ← b.toNat?
    if d == 0 then none else some ((n : Rat) / (d : Rat))
  | e => (e.toInt?).map fun (i : Int) => (i : Rat)

def sexpToRats? (e : Sexp) : Option (List Rat) := do (← e.toList?).mapM sexpToRat?

def cellToSexp : Cell → Sexp
  | .num v => ofInt v
  | .nan => .atom "nan"
  | .bool b => ofBool b

def sexpToCell? : Sexp → Option Cell
  | .atom "nan" => some .nan
  | .atom "T" => some (.bool true)
  | .atom "F" => some (.bool false)
  | e => e.toInt?.map .num

def errAtom : Err → Sexp
  | .valueError => .atom "value-error"
  | .incompatible => .atom "incompatible"
  | .nonPixel => .atom "exception"
  | .incompatibleData => .atom "incompatible-data"

def answerToSexp : Except Err Arr → Sexp
  | .ok a => .list [.atom "ok", ofNats a.shape, .list (a.data.map cellToSexp)]
  | .error e => errAtom e

/-- python answer → `Except Err Arr`; anything unknown (py-exception, py-timeout, …) is `none`. -/
def sexpToAnswer? : Sexp → Option (Except Err Arr)
  | .list [.atom "ok", sh, cells] => do
    some (.ok ⟨← sh.toNats?, ← (← cells.toList?).mapM sexpToCell?⟩)
  | .atom "value-error" => some (.error .valueError)
  | .atom "incompatible" => some (.error .incompatible)
  | .atom "exception" => some (.error .nonPixel)
  | .atom "incompatible-data" => some (.error .incompatibleData)
  | _ => none

def bound? : Sexp → Option Bound
  | .list [.atom "s", q] => do some (.scalar (← sexpToRat? q))
  | .list [.atom "r", lo, hi, n] => do some (.range (← sexpToRat? lo) (← sexpToRat? hi) (← n.toInt?))
  | _ => none

def target? : Sexp → Option Target
  | .list [.atom "c", ds, k] => do some (.comp (← ds.toNat?) (← k.toNat?))
  | .list [.atom "px", ds, a] => do some (.pix (← ds.toNat?) (← a.toNat?))
  | .list [.atom "st", s] => do some (.state (← s.toNat?))
  | _ => none

def optNat? : Sexp → Option (Option Nat)
  | .atom "N" => some none
  | e => e.toNat?.map some

def req? : Sexp → Option Req
  | .list [.atom "req", d, bs, t, what, bc, cid] => do
    some ⟨← d.toNat?, ← (← bs.toList?).mapM bound?, ← t.toNat?, ← target? what, ← bc.toBool?, ← optNat? cid⟩
  | _ => none

partial def sexpr? : Sexp → Option SExpr
  | .list [.atom "range", ds, c, lo, hi] => do
    some (.range (← ds.toNat?) (← c.toNat?) (← sexpToRat? lo) (← sexpToRat? hi))
  | .list [.atom "gt", ds, c, v] => do some (.gt (← ds.toNat?) (← c.toNat?) (← sexpToRat? v))
  | .list [.atom "pr", ds, a, lo, hi] => do
    some (.pixRange (← ds.toNat?) (← a.toNat?) (← sexpToRat? lo) (← sexpToRat? hi))
  | .list [.atom "elems", ix] => do some (.elems (← ix.toNats?))
  | .list [.atom "and", a, b] => do some (.and (← sexpr? a) (← sexpr? b))
  | .list [.atom "or", a, b] => do some (.or (← sexpr? a) (← sexpr? b))
  | .list [.atom "xor", a, b] => do some (.xor (← sexpr? a) (← sexpr? b))
  | .list [.atom "not", a] => do some (.not (← sexpr? a))
  | _ => none

/-! ### datasets and derivation tables -/

structure DsIn where
  ds : Dataset
  coord : Option Coords.Coord

def dataset? : Sexp → Option DsIn
  | .list [.atom "D", sh, comps, co] => do
    let shape ← sh.toNats?
    let cs ← (← comps.toList?).mapM Sexp.toInts?
    let coord ← match co with
      | .atom "N" => some none
      | .list [.atom "aff", m] => do
        let rows ← (← m.toList?).mapM sexpToRats?
        match Coords.mkAffine rows with
        | .ok c => some (some c)
        | .error _ => none
      | _ => none
    some ⟨⟨shape, cs⟩, coord⟩
  | _ => none

partial def deriv? (dss : List DsIn) : Sexp → Option Deriv
  | .list [.atom "p", k] => do some (.pixel (← k.toNat?))
  | .list [.atom "v", coefs, c, fs] => do
    some (.via (← sexpToRats? coefs) (← sexpToRat? c) (← (← fs.toList?).mapM (deriv? dss)))
  | .list [.atom "wleaf", t, a] => do
    let d ← dss[← t.toNat?]?
    some (worldLeaf (← d.coord) (← a.toNat?))
  | .list [.atom "w2p", s, k, fs] => do
    let d ← dss[← s.toNat?]?
    let froms ← (← fs.toList?).mapM fun e => match e with
      | .list [i, de] => do some (← i.toNat?, ← deriv? dss de)
      | _ => none
    some (w2pNode (← d.coord) (← k.toNat?) froms)
  | .atom "missing" => some .missing
  | .atom "nonpixel" => some .nonPixel
  | _ => none

structure WorldIn where
  w : World
  table : List ((Nat × Nat × Nat) × Deriv)

def world? : Sexp → Option WorldIn
  | .list [.atom "W", dsets, derivs, states] => do
    let dss ← (← dsets.toList?).mapM dataset?
    let table ← (← derivs.toList?).mapM fun e => match e with
      | .list [t, s, k, de] => do some ((← t.toNat?, ← s.toNat?, ← k.toNat?), ← deriv? dss de)
      | _ => none
    let sts ← (← states.toList?).mapM sexpr?
    some ⟨⟨dss.map (·.ds), fun t s k => (table.lookup (t, s, k)).getD .missing,
      fun i => sts.getD i (.gt 0 1000000 0)⟩, table⟩
  | _ => none

def WorldIn.wfOk (wi : WorldIn) : Bool := wi.table.all fun e => e.2.wf

def op? : Sexp → Option Impl.Op
  | .list [.atom "edit", sid, e] => do some (.editState (← sid.toNat?) (← sexpr? e))
  | .list [.atom "setc", ds, c, vals] => do some (.setComp (← ds.toNat?) (← c.toNat?) (← vals.toInts?))
  | e => (req? e).map .req

/-- Histories with argument object identity (round 3): requests name the bounds list they pass
(`reqo … oid …`; a `req` with inline bounds passes a list built for that call), lists are edited in
place between requests, returned buffers too. -/
def aop? : Sexp → Option Args.AOp
  | .list [.atom "reqo", d, oid, t, what, bc, cid] => do
    some (.req ⟨← d.toNat?, .obj (← oid.toNat?), ← t.toNat?, ← target? what, ← bc.toBool?, ← optNat? cid⟩)
  | .list [.atom "asg", oid, bs] => do some (.assign (← oid.toNat?) (← (← bs.toList?).mapM bound?))
  | .list [.atom "set", oid, i, b] => do some (.set (← oid.toNat?) (← i.toNat?) (← bound? b))
  | .list [.atom "push", oid, b] => do some (.push (← oid.toNat?) (← bound? b))
  | .list [.atom "pop", oid] => do some (.pop (← oid.toNat?))
  | .list [.atom "edbuf", k, v] => do some (.editBuf (← k.toNat?) (← v.toInt?))
  | .list [.atom "edit", sid, e] => do some (.editState (← sid.toNat?) (← sexpr? e))
  | .list [.atom "setc", ds, c, vals] => do some (.setComp (← ds.toNat?) (← c.toNat?) (← vals.toInts?))
  | e => do
    let r ← req? e
    some (.req ⟨r.data, .fresh r.bounds, r.target, r.what, r.broadcast, r.cacheId⟩)

def isArgSexp : Sexp → Bool
  | .list (.atom a :: _) => a == "reqo" || a == "asg" || a == "set" || a == "push" || a == "pop" || a == "edbuf"
  | _ => false

/-! ### families -/

def tieCount (w : World) (r : Req) : Nat :=
  ((gridPoints r.bounds).filter fun pt => Spec.isTie w r pt).length

def answerBranch (w : World) (r : Req) (a : Except Err Arr) : String :=
  match a with
  | .error e => "err-" ++ Sexp.toString (errAtom e)
  | .ok arr =>
    let kind := match r.what with | .state _ => "mask" | .comp .. => "value" | .pix .. => "pixval"
    let inv := if arr.data.any (fun c => c == invalidCell r) then "-outside" else ""
    let tie := if tieCount w r > 0 then "-tie" else ""
    let same := if r.data = r.target then "-self" else ""
    kind ++ same ++ inv ++ tie

/-- `frb`: one request without a cache id. -/
def stepFrb (wi : WorldIn) (r : Req) (pyout : Sexp) : String :=
  let w := wi.w
  let impl := Impl.frbUncached w r
  let ok := match sexpToAnswer? pyout with
    | some a => Spec.acceptsAnswer w r a
    | none => false
  driverResult (answerToSexp impl) ok (Spec.acceptsAnswer w r impl) wi.wfOk (answerBranch w r impl)

/-- Walk a history: per request the world in force, whether the data changed before it. -/
def walk : World → Bool → List Impl.Op → List (World × Req × Bool)
  | _, _, [] => []
  | w, ch, .req r :: ops => (w, r, ch) :: walk w ch ops
  | w, ch, .editState sid e :: ops =>
    walk { w with states := fun s => if s = sid then e else w.states s } ch ops
  | w, _, .setComp ds k vals :: ops => walk (Impl.setCompW w ds k vals) true ops

/-- Number of requests answered from `ARRAY_CACHE` in a history (for the branch statistics). -/
def countHits : World → Impl.Caches → List Impl.Op → Nat
  | _, _, [] => 0
  | w, c, .req r :: ops =>
    let hit := match r.cacheId with
      | some id => boundsValid r.bounds && (Impl.arrayHit c id r).isSome
      | none => false
    (if hit then 1 else 0) + countHits w (Impl.frb w c r).2 ops
  | w, c, .editState sid e :: ops =>
    countHits { w with states := fun s => if s = sid then e else w.states s } c ops
  | w, c, .setComp ds k vals :: ops => countHits (Impl.setCompW w ds k vals) c ops

/-- `seq`: a history of requests sharing cache ids; python = the list of answers. -/
def stepSeq (wi : WorldIn) (ops : List Impl.Op) (pyout : Sexp) : String :=
  let w := wi.w
  let impl := Impl.runOps true w .empty ops
  let reqs := walk w false ops
  -- a request with a cache id issued after the data were changed in place is outside the
  -- property ("for unchanged data"): it is compared with the model only
  let judged (t : World × Req × Bool) : Bool := !(t.2.2 && t.2.1.cacheId.isSome)
  let verdict (outs : List (Option (Except Err Arr))) : Bool :=
    outs.length == reqs.length && (reqs.zip outs).all fun p =>
      !judged p.1 || (match p.2 with
        | some a => Spec.acceptsAnswer p.1.1 p.1.2.1 a
        | none => false)
  let ok := match pyout.toList? with
    | some outs => verdict (outs.map sexpToAnswer?)
    | none => false
  let implok := verdict (impl.map some)
  let p := wi.wfOk && ops.all Impl.Op.isReq
  let hits := countHits w .empty ops
  let kind := if ops.any (fun o => match o with | .editState .. => true | _ => false) then "edit-"
    else if ops.any (fun o => match o with | .setComp .. => true | _ => false) then "setc-" else ""
  driverResult (.list (impl.map answerToSexp)) ok implok p (kind ++ "hits" ++ toString (min hits 4))

/-- Walk an object-level history: per request the world in force, the request **by value at that
moment** (the current contents of its bounds list), whether the data changed before it. -/
def walkA : Args.AState → Bool → List Args.AOp → List (World × Req × Bool)
  | _, _, [] => []
  | st, ch, op :: ops =>
    let st' := (Args.stepA Args.Policy.coded false st op).2
    match op with
    | .req r => (st.world, r.toReq st.lists, ch) :: walkA st' ch ops
    | .setComp .. => walkA st' true ops
    | _ => walkA st' ch ops

def countHitsA : Args.AState → List Args.AOp → Nat
  | _, [] => 0
  | st, op :: ops =>
    let hit := match op with
      | .req r =>
        let rq := r.toReq st.lists
        match rq.cacheId with
        | some id => boundsValid rq.bounds && (Args.arrayHitA st.lists st.caches id rq).isSome
        | none => false
      | _ => false
    (if hit then 1 else 0) + countHitsA (Args.stepA Args.Policy.coded true st op).2 ops

/-- `seq` with argument identity: the model is `runArgs Policy.coded true` (what the code stores:
fresh lists, private array copies); every python answer is judged by the Spec of the uncached request
on the CURRENT contents of its arguments. -/
def stepSeqA (wi : WorldIn) (ops : List Args.AOp) (pyout : Sexp) : String :=
  let w := wi.w
  let st0 := Args.AState.init w (fun _ => [])
  let impl := Args.runArgs Args.Policy.coded true st0 ops
  let reqs := walkA st0 false ops
  let judged (t : World × Req × Bool) : Bool := !(t.2.2 && t.2.1.cacheId.isSome)
  let verdict (outs : List (Option (Except Err Arr))) : Bool :=
    outs.length == reqs.length && (reqs.zip outs).all fun p =>
      !judged p.1 || (match p.2 with
        | some a => Spec.acceptsAnswer p.1.1 p.1.2.1 a
        | none => false)
  let ok := match pyout.toList? with
    | some outs => verdict (outs.map sexpToAnswer?)
    | none => false
  let implok := verdict (impl.map some)
  let p := wi.wfOk && ops.all Args.AOp.isArgOp
  let hits := countHitsA st0 ops
  let kind :=
    (if ops.any (fun o => match o with | .editBuf .. => true | _ => false) then "buf" else "") ++
    (if ops.any (fun o => match o with | .set .. => true | _ => false) then "set" else "") ++
    (if ops.any (fun o => match o with | .push .. => true | .pop .. => true | _ => false) then "len" else "") ++
    (if ops.any (fun o => match o with | .assign .. => true | _ => false) then "asg" else "")
  driverResult (.list (impl.map answerToSexp)) ok implok p ("arg-" ++ kind ++ "-hits" ++ toString (min hits 4))

/-! ### image layer states -/

def sliceItem? : Sexp → Option Image.SliceItem
  | .list [.atom "i", k] => do some (.index (← k.toInt?))
  | .list [.atom "agg", a, b, c, f] => do
    let fn ← match f with
      | .atom "sum" => some Image.AggFn.nansum
      | .atom "max" => some Image.AggFn.nanmax
      | _ => none
    some (.agg (← a.toOptInt?) (← b.toOptInt?) (← c.toOptInt?) fn)
  | _ => none

def pySlice? : Sexp → Option Image.PySl
  | .list [.atom "sl", a, b, c] => do some ⟨← a.toOptInt?, ← b.toOptInt?, ← c.toOptInt?⟩
  | _ => none

def call? : Sexp → Option Image.Call
  | .list [.atom "view", slices, v] => do
    some ⟨← (← slices.toList?).mapM sliceItem?, .view (← (← v.toList?).mapM pySlice?)⟩
  | .list [.atom "bounds", slices, by_, bx] => do
    some ⟨← (← slices.toList?).mapM sliceItem?, .bounds (← bound? by_) (← bound? bx)⟩
  | _ => none

def layer? : Sexp → Option Image.Layer
  | .list [.atom "L", ref, x, y, d, what] => do
    some ⟨← ref.toNat?, ← x.toNat?, ← y.toNat?, ← d.toNat?, ← target? what⟩
  | _ => none

def imgAnswerToSexp : Except Image.IErr Arr → Sexp
  | .ok a => .list [.atom "ok", ofNats a.shape, .list (a.data.map cellToSexp)]
  | .error (.frb e) => errAtom e   -- (`.frb .valueError` and `.valueError` are both `ValueError`)
  | .error .valueError => .atom "value-error"

def sexpToImgAnswer? : Sexp → Option (Except Image.IErr Arr)
  | .list [.atom "ok", sh, cells] => do
    some (.ok ⟨← sh.toNats?, ← (← cells.toList?).mapM sexpToCell?⟩)
  | .atom "value-error" => some (.error .valueError)
  | .atom "incompatible" => some (.error (.frb .incompatible))
  | .atom "exception" => some (.error (.frb .nonPixel))
  | .atom "incompatible-data" => some (.error (.frb .incompatibleData))
  | _ => none

/-- `img`: a sequence of `get_sliced_data` calls on one layer state (cache id = its uuid). -/
def stepImg (wi : WorldIn) (l : Image.Layer) (calls : List Image.Call) (pyout : Sexp) : String :=
  let w := wi.w
  let impl := Image.Impl.runCalls w l .empty calls
  let verdict (outs : List (Option (Except Image.IErr Arr))) : Bool :=
    outs.length == calls.length && (calls.zip outs).all fun p =>
      match p.2 with
      | some a => Image.Spec.acceptsAnswer w l p.1 a
      | none => false
  let ok := match pyout.toList? with
    | some outs => verdict (outs.map sexpToImgAnswer?)
    | none => false
  let br := (if l.ref = l.data then "self" else "other") ++
    (if l.yAxis > l.xAxis then "-T" else "") ++
    (if calls.any (fun c => c.slices.any fun s => match s with | .agg .. => true | _ => false) then "-agg" else "") ++
    (if impl.any (fun a => match a with | .error _ => true | _ => false) then "-err" else "")
  driverResult (.list (impl.map imgAnswerToSexp)) ok (verdict (impl.map some)) wi.wfOk br

def step (line : String) : String :=
  match Sexp.parse line with
  | some (.list [.atom "frb", .list [we, re], pyout]) =>
    match world? we, req? re with
    | some wi, some r => stepFrb wi r pyout
    | none, _ => bad "frb-world"
    | _, none => bad "frb-req"
  | some (.list [.atom "seq", .list [we, ops], pyout]) =>
    if (ops.toList?.getD []).any isArgSexp then
      match world? we, (ops.toList?.bind (·.mapM aop?)) with
      | some wi, some os => stepSeqA wi os pyout
      | none, _ => bad "seq-world"
      | _, none => bad "seq-aops"
    else
    match world? we, (ops.toList?.bind (·.mapM op?)) with
    | some wi, some os => stepSeq wi os pyout
    | none, _ => bad "seq-world"
    | _, none => bad "seq-ops"
  | some (.list [.atom "img", .list [we, le, calls], pyout]) =>
    match world? we, layer? le, (calls.toList?.bind (·.mapM call?)) with
    | some wi, some l, some cs => stepImg wi l cs pyout
    | none, _, _ => bad "img-world"
    | _, none, _ => bad "img-layer"
    | _, _, none => bad "img-calls"
  | _ => bad "unknown-family"

def main : IO Unit := driverLoop step
