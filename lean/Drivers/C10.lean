import GlueVerif.Sexp
import GlueVerif.Model.ArrayUtil
import GlueVerif.Model.Stats
import GlueVerif.Model.StatsSeq
/-! Line-protocol driver for C10 (statistics and histograms; sequences of calls on shared objects). -/
open GlueVerif GlueVerif.Sexp GlueVerif.ArrayUtil GlueVerif.Stats

def bad (msg : String) : String := driverError msg

/-! ### codecs -/

def rat? : Sexp → Option Rat
  | .list [.atom "q", n, d] => do
    let n ← n.toInt?
    let d ← d.toNat?
    if d = 0 then none else some (mkRat n d)
  | e => e.toInt?.map fun i => (i : Rat)

def val? : Sexp → Option Val
  | .atom "nan" => some .nan
  | .atom "pinf" => some .pinf
  | .atom "ninf" => some .ninf
  | e => (rat? e).map .fin

def ofRat (q : Rat) : Sexp :=
  if q.den = 1 then ofInt q.num else .list [.atom "q", ofInt q.num, ofNat q.den]

def ofVal : Val → Sexp
  | .nan => .atom "nan"
  | .pinf => .atom "pinf"
  | .ninf => .atom "ninf"
  | .fin q => ofRat q

def vals? (e : Sexp) : Option (List Val) := do (← e.toList?).mapM val?

partial def sel? : Sexp → Option Sel
  | .list [.atom "gt", c] => (rat? c).map .gt
  | .list [.atom "lt", c] => (rat? c).map .lt
  | .list [.atom "ge", c] => (rat? c).map .ge
  | .list [.atom "le", c] => (rat? c).map .le
  | .list [.atom "pixrange", ax, lo, hi] => do some (.pixRange (← ax.toNat?) (← rat? lo) (← rat? hi))
  | .list [.atom "pixgt", ax, c] => do some (.pixGt (← ax.toNat?) (← rat? c))
  | .list [.atom "roi", ax, ay, a, b, c, d] => do
    some (.roi (← ax.toNat?) (← ay.toNat?) (← rat? a) (← rat? b) (← rat? c) (← rat? d))
  | .list (.atom "bits" :: bs) => (bs.mapM toBool?).map .bits
  | .list [.atom "and", a, b] => do some (.and (← sel? a) (← sel? b))
  | .list [.atom "or", a, b] => do some (.or (← sel? a) (← sel? b))
  | .list [.atom "xor", a, b] => do some (.xor (← sel? a) (← sel? b))
  | .list [.atom "not", a] => do some (.not (← sel? a))
  | _ => none

def triple? (e : Sexp) : Option (Option Int × Option Int × Option Int) := do
  match ← e.toList? with
  | [a, b, c] => some (← a.toOptInt?, ← b.toOptInt?, ← c.toOptInt?)
  | _ => none

/-- Normalise one Python slice against an axis of length `h` (positive steps only). -/
def normSlice (h : Nat) (t : Option Int × Option Int × Option Int) : Option (Nat × Nat × Nat) :=
  match sliceIndices t.1 t.2.1 t.2.2 h with
  | some (b, e, st) => if st > 0 then some (b.toNat, rangeLen b e st.toNat, st.toNat) else none
  | none => none

/-- `SliceSubsetState` slices padded to one per axis. -/
def normSlices : List Nat → List (Option Int × Option Int × Option Int) → Option Sub
  | [], _ => some []
  | h :: hs, [] => (normSlices hs []).map ((0, h, 1) :: ·)
  | h :: hs, t :: ts => do some ((← normSlice h t) :: (← normSlices hs ts))

inductive RawItem | int (i : Int) | sl (t : Option Int × Option Int × Option Int)

def rawItem? : Sexp → Option RawItem
  | .list [.atom "i", n] => n.toInt?.map .int
  | .list [.atom "s", a, b, c] => do some (.sl (← a.toOptInt?, ← b.toOptInt?, ← c.toOptInt?))
  | _ => none

def normView : List Nat → List RawItem → Option (List VItem)
  | [], [] => some []
  | [], _ :: _ => none
  | h :: hs, [] => (normView hs []).map (.sl 0 h 1 :: ·)
  | h :: hs, .int i :: vs =>
    let i' := if i < 0 then i + h else i
    if 0 ≤ i' ∧ i' < h then (normView hs vs).map (.int i'.toNat :: ·) else none
  | h :: hs, .sl t :: vs => do
    let (b, n, st) ← normSlice h t
    some (.sl b n st :: (← normView hs vs))

def stat? : Sexp → Option Stat
  | .atom "minimum" => some .minimum
  | .atom "maximum" => some .maximum
  | .atom "mean" => some .mean
  | .atom "median" => some .median
  | .atom "sum" => some .sum
  | .list [.atom "percentile", q] => (rat? q).map .percentile
  | _ => none

def dtype? : Sexp → Option DType
  | .atom "f2" => some .f2 | .atom "f4" => some .f4 | .atom "f8" => some .f8
  | .atom "i1" => some .i1 | .atom "i2" => some .i2 | .atom "i4" => some .i4 | .atom "i8" => some .i8
  | .atom "u1" => some .u1 | .atom "u2" => some .u2 | .atom "u4" => some .u4 | .atom "u8" => some .u8
  | .atom "b1" => some .b1
  | _ => none

def dtypeName : DType → String
  | .f2 => "f2" | .f4 => "f4" | .f8 => "f8" | .i1 => "i1" | .i2 => "i2" | .i4 => "i4" | .i8 => "i8"
  | .u1 => "u1" | .u2 => "u2" | .u4 => "u4" | .u8 => "u8" | .b1 => "b1"

def dataFn (sh : List Nat) (flat : List Val) : Idx → Val :=
  let arr := flat.toArray
  fun i => arr.getD (rowMajor sh i) .nan

def resultSexp (shape : List Nat) (cells : List Val) : Sexp :=
  .list [.atom "res", ofNats shape, .list (cells.map ofVal)]

def pyResult? : Sexp → Option (List Nat × List Val)
  | .list [.atom "res", sh, cs] => do some (← sh.toNats?, ← vals? cs)
  | _ => none

def redFlags (nd : Nat) (axes : List Nat) : List Bool := (List.range nd).map fun d => axes.contains d

/-- Verdict on one call: the fields of a driver answer. -/
structure Verdict where
  impl : Sexp
  ok : Bool
  implok : Bool
  p : Bool
  br : String
  extra : List Sexp := []

def Verdict.render (v : Verdict) : String :=
  Sexp.toString (Sexp.list ([.atom "r", .list [.atom "impl", v.impl],
    .list [.atom "ok", ofBool v.ok], .list [.atom "implok", ofBool v.implok],
    .list [.atom "p", ofBool v.p], .list [.atom "br", .atom v.br]] ++ v.extra))

def parseView (sh : List Nat) (viewE : Sexp) : Option (ViewKind × List VItem) :=
  match viewE with
  | .atom "N" => some (.none, fullView sh)
  | .atom "E" => some (.ellipsis, fullView sh)
  | .list (.atom "v" :: items) => do
    let raw ← items.mapM rawItem?
    some (.tuple, ← normView sh raw)
  | _ => none

def parseSelM (sh : List Nat) (data : Idx → Val) (selE : Sexp) : Option SelM :=
  match selE with
  | .atom "N" => some .none
  | .list (.atom "slice" :: ts) => do
    let ts ← ts.mapM triple?
    let sub ← normSlices sh ts
    some (.slice sub)
  | e => (sel? e).map fun s => .mask (s.eval sh data)

def parseAxis (nd : Nat) (axisE : Sexp) : Option (AxisKind × List Bool) :=
  match axisE with
  | .atom "N" => some (.none, List.replicate nd true)
  | .list (.atom "t" :: as) => do
    let as ← as.mapM toNat?
    if as.all (· < nd) then some (.tuple, redFlags nd as) else none
  | e => do
    let a ← e.toNat?
    if a < nd then some (.int, redFlags nd [a]) else none

/-- The oracle for one statistic call.  `impl` is the model's result for the call (the pure
`implStat` for a single call; the heap program's result inside a sequence); the Spec verdict `ok` is
about the python output and never looks at `impl`. -/
def judgeStat (cfg : Cfg) (sh : List Nat) (data : Idx → Val) (sel : SelM) (vk : ViewKind)
    (v : List VItem) (ak : AxisKind) (red : List Bool) (nmax : Nat) (dt : DType) (impl : Result)
    (pyout : Sexp) : Verdict :=
  let st := cfg.stat
  let spec := specStat cfg sh data sel vk v red
  let specIdx := allIdx spec.shape
  let specCells := specIdx.map spec.cell
  -- the kept values of every cell of the specification (`spec.cell k = reduce st (vals k)`,
  -- theorem `spec_cell_reduce`): the acceptance radius is computed from them
  let specVals := specIdx.map fun k => specCellVals cfg sh data sel vk v red k
  let implCells := (allIdx impl.shape).map impl.cell
  let implok := impl.shape == spec.shape && implCells == specCells
  let py := pyResult? pyout
  let ok := match py with
    | some (psh, pcs) =>
      psh == spec.shape && pcs.length == specVals.length &&
        (pcs.zip specVals).all fun p => specAccept st p.2 p.1
    | none => false
  -- the model's prediction (exact arithmetic); where the model agrees with the specification
  -- a python value that the specification accepts is echoed, so that comparison (a) is the
  -- same acceptance rule
  let shown := match py with
    | some (psh, pcs) =>
      if psh == impl.shape && impl.shape == spec.shape && pcs.length == implCells.length then
        (pcs.zip (implCells.zip (specCells.zip specVals))).map fun p =>
          if p.2.1 == p.2.2.1 && specAccept st p.2.2.2 p.1 then p.1 else p.2.1
      else implCells
    | none => implCells
  let size := prod sh
  let nRed := (red.filter id).length
  let chunked := vk == .none && ak == .tuple && nRed > 0 && nRed + 1 == sh.length &&
    size > nmax && !sel.isSlice
  let vsh := viewShape' v
  let nanOk := codeNanAware cfg sel vk || noNanInScope data sel vk v
  -- hypothesis of `stat_refines_spec_partial`
  let inP := statP cfg sh data sel vk v red
  let br :=
    if !nanOk then "plain-nan" else if !inP then "outside-P" else
    if chunked then (if sel.isNone then "chunked-nosel" else "chunked-masked")
    else match sel with
      | .none => "nosel"
      | .slice _ => if vk == .none then "slice-shortcut" else "masked-slice-state"
      | .mask _ => "masked"
  let br2 := match sel with
    | .none => ""
    | _ =>
      if chunked || (sel.isSlice && vk == .none) then "" else
      let vm : Idx → Bool := fun j => inRange j vsh && sel.maskFn (viewIdx v j)
      if !((allIdx vsh).any vm) then "-empty"
      else if !allStep1 v then "-bail"
      else if keptShape red vsh == [] then "-scalar"
      else if subShape (bbox vsh vm) == vsh then "-fullbox" else "-pad"
  let pre := if dt == .f8 then "" else dtypeName dt ++ ":"
  { impl := resultSexp impl.shape shown, ok := ok, implok := implok, p := inP,
    br := pre ++ (if inP then br ++ br2 else br) }

/-- `(sh data sel axis finite positive stat view nmax [dtype])`; the storage dtype (default `f8`)
only restricts the values that may occur — the oracle never looks at it again. -/
def stepStatD (shE dataE selE axisE finE posE statE viewE nmaxE : Sexp) (dtO : Option DType)
    (pyout : Sexp) : String :=
    match shE.toNats?, vals? dataE, finE.toBool?, posE.toBool?, stat? statE, nmaxE.toNat?, dtO with
    | some sh, some flat, some fin, some pos, some st, some nmax, some dt =>
      if !(flat.all dt.holds) then bad "value-not-in-dtype" else
      let data := dataFn sh flat
      let cfg : Cfg := ⟨st, fin, pos⟩
      match parseView sh viewE, parseSelM sh data selE with
      | some (vk, v), some sel =>
        match parseAxis (viewShape' v).length axisE with
        | some (ak, red) =>
          let impl := implStat cfg sh data sel vk v ak red nmax
          (judgeStat cfg sh data sel vk v ak red nmax dt impl pyout).render
        | none => bad "stat-axis"
      | _, _ => bad "stat-view-or-sel"
    | _, _, _, _, _, _, _ => bad "stat-args"

def stepStat (args pyout : Sexp) : String :=
  match args with
  | .list [shE, dataE, selE, axisE, finE, posE, statE, viewE, nmaxE] =>
    stepStatD shE dataE selE axisE finE posE statE viewE nmaxE (some .f8) pyout
  | .list [shE, dataE, selE, axisE, finE, posE, statE, viewE, nmaxE, dtE] =>
    stepStatD shE dataE selE axisE finE posE statE viewE nmaxE (dtype? dtE) pyout
  | _ => bad "stat-arity"

/-! ### histogram -/

def powerset {α} : List α → List (List α)
  | [] => [[]]
  | x :: xs => let r := powerset xs; r ++ r.map (x :: ·)

def dedupRat (xs : List Rat) : List Rat := xs.foldl (fun acc x => if acc.contains x then acc else acc ++ [x]) []

/-- The oracle for one 1-d histogram call: `xs` = the selected (value, weight) pairs of the
specification, `modelOut` = the model's output for the call. -/
def judgeHist (r0 r1 : Rat) (n : Nat) (lg : Bool) (xs : List (Val × Rat)) (xdt wdt : DType)
    (modelOut : HistOut) (pyout : Sexp) : Verdict :=
  let lo := min r0 r1
  let hi := max r0 r1
  let kept := histKeep lo hi xs
  let total := specHistTotal r0 r1 xs
  let spec := specHist r0 r1 n lg xs
  let edgeOf : Rat → Bool := if lg then onInteriorEdgeLog lo hi n else onInteriorEdgeLin lo hi n
  let logOk := !lg || lo > 0
  let edgeVals := if logOk then dedupRat ((kept.map (·.1)).filter edgeOf) else []
  let specBin : Rat → Nat := if lg then specBinLog lo hi n else specBinLin lo hi n
  -- admissible outcomes: every distinct interior-edge value goes to its bin or the one below
  let admissible : List (List Rat) := (powerset edgeVals).map fun down =>
    histOf (fun x => if down.contains x then specBin x - 1 else specBin x) n kept
  match modelOut with
  | .valueError =>
    { impl := .atom "value-error", ok := pyout == .atom "value-error", implok := true, p := false,
      br := "log-zero-range" }
  | .bins model =>
    let py : Option (List Rat) := do (← pyout.toList?).mapM rat?
    -- finding F10e: `np.log10` of a float16 / float32 / 8- or 16-bit integer / bool array is evaluated in
    -- half or single precision; the model (textbook log bins) does not describe that: outside `p`
    let narrowLog := lg && [DType.f2, .f4, .i1, .u1, .i2, .u2, .b1].contains xdt
    -- hypothesis of `hist_perbin_partial` (linear) / no value on an interior edge (log)
    let inP := !narrowLog && if lg then edgeVals.isEmpty
      else kept.isEmpty || lo == hi || histP lo hi (10 * ulp hi) n kept
    let (tot, perbin, adm) := match py with
      | some b => (b.length == n && b.sum == total, b == spec, logOk && admissible.contains b)
      | none => (false, false, false)
    let ok := if logOk then tot && perbin else py == some model
    let implok := !logOk || (model.sum == total && (!inP || model == spec))
    let shown := match py with
      | some b => if !edgeVals.isEmpty && adm then b else model
      | none => model
    let br := (if xdt == .f8 && wdt == .f8 then "" else dtypeName xdt ++ "." ++ dtypeName wdt ++ ":") ++
      (if lg then "log" else "lin") ++
      (if kept.isEmpty then "-nokept" else if !logOk then "-negrange"
       else if narrowLog then "-narrowlog"
       else if !edgeVals.isEmpty then "-edge" else if lo == hi then "-zerowidth"
       else if !inP then "-nearedge" else "")
    { impl := .list (shown.map ofRat), ok := ok, implok := implok, p := inP, br := br,
      extra := [.list [.atom "tot", ofBool tot], .list [.atom "bin", ofBool perbin],
        .list [.atom "adm", ofBool adm]] }

/-- `(sh data weights sel r0 r1 bins log [(xdtype wdtype)])`; the storage dtypes (default `f8`) only
restrict the values that may occur. -/
def stepHistD (shE dataE wE selE r0E r1E nE logE : Sexp) (dtO : Option (DType × DType))
    (pyout : Sexp) : String :=
    match shE.toNats?, vals? dataE, rat? r0E, rat? r1E, nE.toNat?, logE.toBool?, dtO with
    | some sh, some flat, some r0, some r1, some n, some lg, some (xdt, wdt) =>
      if !(flat.all xdt.holds) then bad "value-not-in-dtype" else
      let data := dataFn sh flat
      let wO : Option (List Rat) := match wE with
        | .atom "N" => some (flat.map fun _ => 1)
        | e => do
          let ws ← (← e.toList?).mapM rat?
          if ws.all fun w => wdt.holds (.fin w) then some ws else none
      let selO : Option (Idx → Bool) := match selE with
        | .atom "N" => some fun _ => true
        | e => (sel? e).map fun s => s.eval sh data
      match wO, selO with
      | some ws, some m =>
        let idxs := allIdx sh
        let xs : List (Val × Rat) := (idxs.zip ws).filterMap fun p =>
          if m p.1 then some (data p.1, p.2) else none
        (judgeHist r0 r1 n lg xs xdt wdt (implHist r0 r1 n lg xs) pyout).render
      | _, _ => bad "hist-weights-or-sel"
    | _, _, _, _, _, _, _ => bad "hist-args"

def stepHist (args pyout : Sexp) : String :=
  match args with
  | .list [shE, dataE, wE, selE, r0E, r1E, nE, logE] =>
    stepHistD shE dataE wE selE r0E r1E nE logE (some (.f8, .f8)) pyout
  | .list [shE, dataE, wE, selE, r0E, r1E, nE, logE, .list [xd, wd]] =>
    stepHistD shE dataE wE selE r0E r1E nE logE (do some (← dtype? xd, ← dtype? wd)) pyout
  | _ => bad "hist-arity"

/-- `(hist2 (sh xdata ydata weights sel rx0 rx1 ry0 ry1 nx ny logx logy) pyout)`: 2-d histogram, cells
row-major.  Log ranges must be strictly positive (modelled domain). -/
def stepHist2 (args pyout : Sexp) : String :=
  match args with
  | .list [shE, xE, yE, wE, selE, rx0E, rx1E, ry0E, ry1E, nxE, nyE, lxE, lyE] =>
    match shE.toNats?, vals? xE, vals? yE, rat? rx0E, rat? rx1E, rat? ry0E, rat? ry1E with
    | some sh, some xflat, some yflat, some rx0, some rx1, some ry0, some ry1 =>
      match nxE.toNat?, nyE.toNat?, lxE.toBool?, lyE.toBool? with
      | some nx, some ny, some lx, some ly =>
        let xdata := dataFn sh xflat
        let wO : Option (List Rat) := match wE with
          | .atom "N" => some (xflat.map fun _ => 1)
          | e => do (← e.toList?).mapM rat?
        let selO : Option (Idx → Bool) := match selE with
          | .atom "N" => some fun _ => true
          | e => (sel? e).map fun s => s.eval sh xdata
        let xlo := min rx0 rx1; let xhi := max rx0 rx1
        let ylo := min ry0 ry1; let yhi := max ry0 ry1
        if (lx && xlo ≤ 0) || (ly && ylo ≤ 0) then bad "hist2-log-range-not-positive" else
        match wO, selO with
        | some ws, some m =>
          let idxs := allIdx sh
          let xs : List (Val × Val × Rat) := ((idxs.zip (xflat.zip (yflat.zip ws))).filterMap fun p =>
            if m p.1 then some p.2 else none)
          let kept := hist2Keep xlo xhi ylo yhi xs
          let total := specHist2Total rx0 rx1 ry0 ry1 xs
          let spec := specHist2 rx0 rx1 ry0 ry1 nx ny lx ly xs
          let model := implHist2 rx0 rx1 ry0 ry1 nx ny lx ly xs
          let inP := kept.isEmpty ||
            (axisClean xlo xhi nx lx (kept.map (·.1)) && axisClean ylo yhi ny ly (kept.map (·.2.1)))
          let py : Option (List Rat) := do (← pyout.toList?).mapM rat?
          let (tot, perbin) := match py with
            | some b => (b.length == nx * ny && b.sum == total, b == spec)
            | none => (false, false)
          let ok := tot && perbin
          let implok := model.sum == total && (!inP || model == spec)
          let br := (if lx then "log" else "lin") ++ "-" ++ (if ly then "log" else "lin") ++
            (if kept.isEmpty then "-nokept" else if !inP then "-edge" else "")
          Sexp.toString (Sexp.list [.atom "r", .list [.atom "impl", .list (model.map ofRat)],
            .list [.atom "ok", ofBool ok], .list [.atom "implok", ofBool implok],
            .list [.atom "p", ofBool inP], .list [.atom "br", .atom br],
            .list [.atom "tot", ofBool tot], .list [.atom "bin", ofBool perbin]])
        | _, _ => bad "hist2-weights-or-sel"
      | _, _, _, _ => bad "hist2-args"
    | _, _, _, _, _, _, _ => bad "hist2-args"
  | _ => bad "hist2-arity"

/-! ### sequences of calls on one dataset and shared subset-state objects (round 3) -/

section Seq
open GlueVerif.StatsSeq

def optNat? : Sexp → Option (Option Nat)
  | .atom "N" => some none
  | e => e.toNat?.map some

/-- Does the class of this subset state decorate `to_mask` with `@memoize`? (inequalities — also on
pixel components —, and/or/xor, invert: yes; range, ROI, mask, slice: no) -/
def memoised : Sexp → Bool
  | .list (.atom k :: _) => ["gt", "lt", "ge", "le", "pixgt", "and", "or", "xor", "not"].contains k
  | _ => false

inductive PCall where
  | stat (c : StatCall) (dt : DType)
  | hist (c : HistCall) (xdt wdt : DType)

def PCall.call : PCall → Call
  | .stat c _ => .stat c
  | .hist c _ _ => .hist c

def parseCall (sh : List Nat) (dts : Array DType) (nsel : Nat) : Sexp → Option PCall
  | .list [.atom "stat", attE, sidE, axisE, finE, posE, statE, viewE, nmaxE] => do
    let att ← attE.toNat?
    let dt ← dts[att]?
    let sid ← optNat? sidE
    if !(match sid with | some s => decide (s < nsel) | none => true) then none else
    let (vk, v) ← parseView sh viewE
    let (ak, red) ← parseAxis (viewShape' v).length axisE
    some (.stat ⟨⟨← stat? statE, ← finE.toBool?, ← posE.toBool?⟩, att, sid, vk, v, ak, red,
      ← nmaxE.toNat?⟩ dt)
  | .list [.atom "hist", attE, wattE, sidE, r0E, r1E, nE, logE] => do
    let att ← attE.toNat?
    let xdt ← dts[att]?
    let watt ← optNat? wattE
    let wdt ← match watt with | some w => dts[w]? | none => some .f8
    let sid ← optNat? sidE
    if !(match sid with | some s => decide (s < nsel) | none => true) then none else
    some (.hist ⟨att, watt, sid, ← rat? r0E, ← rat? r1E, ← nE.toNat?, ← logE.toBool?⟩ xdt wdt)
  | _ => none

/-- The filter of a statistic call removes an element that its selection contains — the situation
in which an in-place `keep &= …` on the caller's mask would be visible to later calls. -/
def dropsSelected (sh : List Nat) (D : Nat → Idx → Val) (S : Nat → SObj) : PCall → Bool
  | .stat c _ =>
    (allIdx sh).any fun i =>
      (selOf S c.sid).maskFn i &&
        !((!c.cfg.finite || (D c.att i).isFin) && (!c.cfg.positive || (D c.att i).isPos))
  | _ => false

def PCall.sid : PCall → Option Nat
  | .stat c _ => c.sid
  | .hist c _ _ => c.sid

def outSexpFallback : Out → Sexp
  | .res r => resultSexp r.shape ((allIdx r.shape).map r.cell)
  | .hist (.bins b) => .list (b.map ofRat)
  | .hist .valueError => .atom "value-error"

/-- `(seq (sh comps sels calls) pyout)`: one dataset (`comps` = `(dtype flat)` per attribute), a list
of subset-state objects (`sels` = `(att sel)`: inequalities refer to attribute `att`) shared between
the calls, and calls `(stat att sid axis finite positive stat view nmax)` /
`(hist att watt sid r0 r1 bins log)` executed in order on the same objects.
`pyout = (outs masks datas)`: the result of every call, then — after all calls — for every state
`(to_mask(data, None) , get_mask(state))` and every component's stored array.

* `impl`  : the heap program `StatsSeq.runSeq` from the initial heap (results, final masks through
            `toMaskH` on the final heap, final value arrays).
* `ok`    : every call is judged on its own against the specification on the ORIGINAL data and
            selection, and the final masks / arrays must be the original ones. -/
def stepSeq (args pyout : Sexp) : String :=
  match args with
  | .list [shE, compsE, selsE, callsE] =>
    match shE.toNats?, compsE.toList?, selsE.toList?, callsE.toList? with
    | some sh, some compsL, some selsL, some callsL =>
      let compsO : Option (List (DType × List Val)) := compsL.mapM fun e => match e with
        | .list [dtE, flatE] => do some (← dtype? dtE, ← vals? flatE)
        | _ => none
      match compsO with
      | none => bad "seq-comps"
      | some comps =>
        if !(comps.all fun c => c.2.all c.1.holds) then bad "value-not-in-dtype" else
        let fns : Array (Idx → Val) := (comps.map fun c => dataFn sh c.2).toArray
        let dts : Array DType := (comps.map (·.1)).toArray
        let n := comps.length
        let D : Nat → Idx → Val := fun a => fns.getD a (fun _ => .nan)
        let selsO : Option (List SObj) := selsL.mapM fun e => match e with
          | .list [attE, selE] => do
            let a ← attE.toNat?
            if a ≥ n then none else
            match ← parseSelM sh (D a) selE with
            | .none => none
            | .slice vs => some ⟨.slice vs, false⟩
            | .mask m => some ⟨.mask m, memoised selE⟩
          | _ => none
        match selsO with
        | none => bad "seq-sels"
        | some sobjs =>
          let sarr := sobjs.toArray
          let nsel := sobjs.length
          let S : Nat → SObj := fun i => sarr.getD i ⟨.mask fun _ => false, false⟩
          match callsL.mapM (parseCall sh dts nsel) with
          | none => bad "seq-calls"
          | some pcalls =>
            let weightsOk := pcalls.all fun pc => match pc with
              | .hist c _ _ => (match c.watt with
                | some w => (allIdx sh).all fun i => (D w i).isFin
                | none => true)
              | _ => true
            if !weightsOk then bad "seq-weights-not-finite" else
            let pyParts : Option (List Sexp × List Sexp × List Sexp) := match pyout with
              | .list [.list o, .list m, .list d] => some (o, m, d)
              | _ => none
            let pyOuts : List Sexp := match pyParts with | some p => p.1 | none => []
            -- the model: the heap program from the initial heap
            let run := runSeq false S sh (initHeap D n) (pcalls.map PCall.call)
            let idxs := allIdx sh
            -- every call judged on its own, against the original data / selection
            let verdicts : List Verdict := (pcalls.zip run.2).zipIdx.map fun ((pc, out), k) =>
              let pyk := pyOuts.getD k (.atom "missing")
              match pc, out with
              | .stat c dt, .res r =>
                judgeStat c.cfg sh (D c.att) (selOf S c.sid) c.vk c.v c.ak c.red c.nmax dt r pyk
              | .hist c xdt wdt, .hist o =>
                let m : Idx → Bool := (selOf S c.sid).maskFn
                let xs := histPairs sh (D c.att) (c.watt.map D) m
                judgeHist c.r0 c.r1 c.n c.log xs xdt wdt o pyk
              | _, o => { impl := outSexpFallback o, ok := false, implok := false, p := true,
                          br := "mismatch" }
            -- final state: masks (both call forms of `to_mask`, whole array) and stored arrays
            let fin := (List.range nsel).foldl (fun (acc : Heap × List (List Bool × List Bool)) s =>
              let a := toMaskH S acc.1 ⟨s, .pos, .none, fullView sh⟩
              let b := toMaskH S a.1 ⟨s, .kw, .none, fullView sh⟩
              (b.1, acc.2 ++ [(idxs.map (a.1.bools a.2), idxs.map (b.1.bools b.2))])) (run.1, [])
            let modelMasks := fin.2
            let specMasks := (List.range nsel).map fun s =>
              let m := idxs.map (S s).sel.toSelM.maskFn
              (m, m)
            let modelData := (List.range n).map fun a => idxs.map (fin.1.vals a)
            let specData := (List.range n).map fun a => idxs.map (D a)
            let masksSexp (ms : List (List Bool × List Bool)) : Sexp :=
              .list (ms.map fun p => .list [ofBools p.1, ofBools p.2])
            let dataSexp (ds : List (List Val)) : Sexp := .list (ds.map fun d => .list (d.map ofVal))
            let pyMasksOk := match pyParts with
              | some p => Sexp.list p.2.1 == masksSexp specMasks
              | none => false
            let pyDataOk := match pyParts with
              | some p => Sexp.list p.2.2 == dataSexp specData
              | none => false
            let callsOk := verdicts.all (·.ok) && pyOuts.length == pcalls.length
            let ok := callsOk && pyMasksOk && pyDataOk
            let implok := verdicts.all (·.implok) && modelMasks == specMasks &&
              dataSexp modelData == dataSexp specData
            let inP := verdicts.all (·.p)
            let firstBad := (verdicts.zipIdx.find? fun p => !p.1.ok).map (·.2)
            let badAtom : Sexp := match firstBad with
              | some k => ofNat k
              | none => if !pyMasksOk then .atom "final-mask" else if !pyDataOk then .atom "final-data"
                        else .atom "none"
            let badBr : Sexp := match firstBad with
              | some k => .atom ((verdicts.map (·.br)).getD k "-")
              | none => .atom "-"
            -- coverage: is there a call whose filter drops a selected element, followed by another
            -- call on the same state object?
            let pcs := pcalls.zipIdx
            let hazard := pcs.any fun (pi, i) =>
              pi.sid.isSome && dropsSelected sh D S pi &&
                pcs.any fun (pj, j) => decide (i < j) && pj.sid == pi.sid
            let shared := pcs.any fun (pi, i) =>
              pi.sid.isSome && pcs.any fun (pj, j) => decide (i < j) && pj.sid == pi.sid
            let memoShared := pcs.any fun (pi, i) =>
              (match pi.sid with | some s => (S s).memo | none => false) &&
                pcs.any fun (pj, j) => decide (i < j) && pj.sid == pi.sid
            let hasHist := pcalls.any fun pc => match pc with | .hist .. => true | _ => false
            let anyChunk := verdicts.any fun v => (v.br.splitOn "chunked").length > 1
            let br := "seq" ++ (if hazard then (if memoShared then "-hazard-memo" else "-hazard")
                else if shared then "-shared" else "-indep") ++
              (if anyChunk then "-chunked" else "") ++ (if hasHist then "-hist" else "") ++
              (if inP then "" else "-outsideP")
            ({ impl := .list [.list (verdicts.map (·.impl)), masksSexp modelMasks, dataSexp modelData],
               ok := ok, implok := implok, p := inP, br := br,
               extra := [.list [.atom "bad", badAtom], .list [.atom "badbr", badBr],
                 .list [.atom "hazard", ofBool hazard]] } : Verdict).render
    | _, _, _, _ => bad "seq-args"
  | _ => bad "seq-arity"

end Seq

def step (line : String) : String :=
  match Sexp.parse line with
  | some (.list [.atom "stat", args, pyout]) => stepStat args pyout
  | some (.list [.atom "prof", args, pyout]) => stepStat args pyout
  | some (.list [.atom "hist", args, pyout]) => stepHist args pyout
  | some (.list [.atom "histstate", args, pyout]) => stepHist args pyout
  | some (.list [.atom "hist2", args, pyout]) => stepHist2 args pyout
  | some (.list [.atom "seq", args, pyout]) => stepSeq args pyout
  | _ => bad "unknown-family"

def main : IO Unit := driverLoop step
