/-
S-expressions for the harness ↔ driver line protocol (core Lean only).

One case per line.  Atoms are runs of characters other than whitespace and parentheses;
integers are atoms; there is no quoting (the harness maps every string it sends to an atom-safe
token).  The parser is total and fuel-free: it works on a token list.
-/
namespace GlueVerif

inductive Sexp where
  | atom (s : String)
  | list (xs : List Sexp)
  deriving Repr, Inhabited, BEq

namespace Sexp

inductive Tok where
  | lp | rp | at (s : String)
  deriving Repr, BEq

def tokenize (s : String) : List Tok := Id.run do
  let mut toks : Array Tok := #[]
  let mut cur : String := ""
  for c in s.toList do
    if c == '(' then
      if cur != "" then toks := toks.push (.at cur); cur := ""
      toks := toks.push .lp
    else if c == ')' then
      if cur != "" then toks := toks.push (.at cur); cur := ""
      toks := toks.push .rp
    else if c == ' ' || c == '\n' || c == '\t' || c == '\r' then
      if cur != "" then toks := toks.push (.at cur); cur := ""
    else
      cur := cur.push c
  if cur != "" then toks := toks.push (.at cur)
  return toks.toList

/-- Parse a token list with an explicit stack of partially built lists. -/
def parseToks : List Tok → List (List Sexp) → List Sexp → Option (List Sexp)
  | [], [], acc => some acc.reverse
  | [], _ :: _, _ => none
  | .at s :: ts, stack, acc => parseToks ts stack (.atom s :: acc)
  | .lp :: ts, stack, acc => parseToks ts (acc :: stack) []
  | .rp :: ts, outer :: stack, acc => parseToks ts stack (.list acc.reverse :: outer)
  | .rp :: _, [], _ => none

/-- All top-level expressions on a line. -/
def parseAll (s : String) : Option (List Sexp) := parseToks (tokenize s) [] []

/-- Exactly one expression on the line. -/
def parse (s : String) : Option Sexp :=
  match parseAll s with
  | some [e] => some e
  | _ => none

partial def toString : Sexp → String
  | .atom s => s
  | .list xs => "(" ++ " ".intercalate (xs.map toString) ++ ")"

instance : ToString Sexp := ⟨Sexp.toString⟩

def ofNat (n : Nat) : Sexp := .atom (ToString.toString n)
def ofInt (i : Int) : Sexp := .atom (ToString.toString i)
def ofBool (b : Bool) : Sexp := .atom (if b then "T" else "F")
def ofNats (ns : List Nat) : Sexp := .list (ns.map ofNat)
def ofInts (ns : List Int) : Sexp := .list (ns.map ofInt)
def ofBools (bs : List Bool) : Sexp := .list (bs.map ofBool)
def tagged (tag : String) (xs : List Sexp) : Sexp := .list (.atom tag :: xs)

def toNat? : Sexp → Option Nat
  | .atom s => s.toNat?
  | _ => none

def toInt? : Sexp → Option Int
  | .atom s => s.toInt?
  | _ => none

def toBool? : Sexp → Option Bool
  | .atom "T" => some true
  | .atom "F" => some false
  | _ => none

def toList? : Sexp → Option (List Sexp)
  | .list xs => some xs
  | _ => none

def toNats? (e : Sexp) : Option (List Nat) := do
  let xs ← e.toList?
  xs.mapM toNat?

def toInts? (e : Sexp) : Option (List Int) := do
  let xs ← e.toList?
  xs.mapM toInt?

def toBools? (e : Sexp) : Option (List Bool) := do
  let xs ← e.toList?
  xs.mapM toBool?

/-- `none`-able integer: atom `N` is `none`. -/
def toOptInt? : Sexp → Option (Option Int)
  | .atom "N" => some none
  | e => (e.toInt?).map some

def ofOptInt : Option Int → Sexp
  | none => .atom "N"
  | some i => ofInt i

end Sexp

/-- Standard driver answer `(r (impl X) (ok b) (implok b) (p b) (br atom))`. -/
def driverResult (impl : Sexp) (ok implok p : Bool) (br : String) : String :=
  Sexp.toString (Sexp.list [.atom "r", .list [.atom "impl", impl], .list [.atom "ok", Sexp.ofBool ok],
    .list [.atom "implok", Sexp.ofBool implok], .list [.atom "p", Sexp.ofBool p],
    .list [.atom "br", .atom br]])

def driverError (msg : String) : String := s!"(r (error {msg}))"

/-- Generic driver loop: one input line → one output line. -/
partial def driverLoop (step : String → String) : IO Unit := do
  let stdin ← IO.getStdin
  let stdout ← IO.getStdout
  let rec go : IO Unit := do
    let line ← stdin.getLine
    if line.isEmpty then
      stdout.flush
      return ()
    let t := line.trimAscii.toString
    if t == "" then
      go
    else if t == "(flush)" then
      stdout.putStrLn "(flushed)"
      stdout.flush
      go
    else
      stdout.putStrLn (step t)
      go
  go

end GlueVerif
