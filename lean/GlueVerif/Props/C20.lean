import GlueVerif.Lemmas.ArrayUtil
import GlueVerif.Lemmas.C20Combine
import GlueVerif.Lemmas.C20Loop
import GlueVerif.Lemmas.C20Layout
/-!
# C20 — chunk, slice and broadcast helpers are exact

Property theorems only; helper lemmas live in `GlueVerif.Lemmas.*`.  Every statement is about the
executable definitions in `GlueVerif.Model.ArrayUtil` that the driver `Drivers/C20.lean` runs
against `glue/utils/array.py` on every check, and every `spec*` predicate below is the very
predicate the driver evaluates on the *implementation's* output.
-/
namespace GlueVerif.C20
open GlueVerif.ArrayUtil

/-- No chunk shape returned by `find_chunk_shape` holds more than `n_max` elements, and every
entry lies in `[1, shape_i]`; for every shape with positive sizes and every positive limit. -/
theorem findChunkShape_spec (shape : List Nat) (nMax : Nat) (hn : 0 < nMax)
    (hs : ∀ s ∈ shape, 0 < s) :
    specFcs shape nMax (findChunkShape shape nMax) = true :=
  Lemmas.specFcs_findChunkShape shape nMax hn hs

example : (∀ s ∈ [3, 4, 5], 0 < s) ∧ 0 < 7 ∧ findChunkShape [3, 4, 5] 7 = [1, 1, 5] := by decide

/-- Iterating with an explicit chunk shape: every index tuple below `shape` lies in **exactly one**
chunk, every chunk is a non-empty box inside `shape`, and no chunk is longer than the requested
chunk shape along any axis — for every number of dimensions, every shape and every positive chunk
shape (the chunk shape need not even fit within the shape). -/
theorem iterateChunks_partition (shape chunk : List Nat) (hl : chunk.length = shape.length)
    (hc : ∀ c ∈ chunk, 0 < c) :
    specIter shape (some chunk) none (iterateChunksProd shape chunk) = true :=
  Lemmas.specIter_prod_chunkShape shape chunk hl hc

/-- Iterating with an element limit: exact partition, and no chunk holds more than `n_max`
elements. -/
theorem iterateChunks_nmax (shape : List Nat) (n : Nat) (hn : 0 < n) (hs : ∀ s ∈ shape, 0 < s) :
    specIter shape none (some n) (iterateChunksProd shape (findChunkShape shape n)) = true :=
  Lemmas.specIter_prod_nMax shape n hn hs

example : iterateChunksProd [3, 2] [2, 1] =
    [[(0, 2), (0, 1)], [(2, 3), (0, 1)], [(0, 2), (1, 2)], [(2, 3), (1, 2)]] := by decide

/-- Removing broadcast (stride-0) axes and broadcasting back reproduces the array: the result has
the original shape and addresses the same element at every index. -/
theorem unbroadcast_roundtrip (a : Strided) (hl : a.shape.length = a.strides.length) :
    specUnbroadcast a (unbroadcast a) = true :=
  Lemmas.specUnbroadcast_unbroadcast a hl

example : (unbroadcast ⟨[3, 4, 2], [0, 2, 0]⟩).shape = [1, 4, 1] := by decide

/-- Categorical arrays: categories are strictly sorted (hence unique), every category occurs,
and `categories[codes[i]] = values[i]` for every `i`. -/
theorem unique_spec (xs : List Int) : specUnique xs (categories xs) (codes xs) = true :=
  Lemmas.specUnique_model xs

example : categories [3, 1, 3, 2] = [1, 2, 3] ∧ codes [3, 1, 3, 2] = [2, 0, 2, 1] := by decide

/-- A categorical array *derived* from another one (slice, reversal, permutation, roll, sort, view,
copy, transpose — numpy hands the parent's categories down through `__array_finalize__` and the codes
are looked up again with `index_lookup`) still satisfies `categories[codes] == values`: for every
parent `pv` and every derived value list `dv`, every code that is given points at its value and a
code is withheld only for a value absent from the categories; when `dv ⊆ pv` (every derivation numpy
offers) no code is withheld. -/
theorem derived_codes_spec (pv dv : List Int) :
    specLookup (categories pv) dv (lookupCodes (categories pv) dv) = true ∧
    ((∀ x ∈ dv, x ∈ pv) → ∀ c ∈ lookupCodes (categories pv) dv, c.isSome = true) :=
  ⟨Lemmas.specLookup_model _ dv, Lemmas.lookupCodes_some_of_subset pv dv⟩

example : lookupCodes (categories [3, 1, 3, 2]) [2, 3, 1] = [some 1, some 2, some 0] := by decide

/-- The length predicted for a positive-step slice axis (`view_shape`) is the number of elements
the slice really selects. -/
theorem viewShape_slice_length (b e : Int) (st : Nat) (hst : 0 < st) :
    (pyRange b e st).length = rangeLen b e st :=
  Lemmas.pyRange_length b e st hst

end GlueVerif.C20

-- ## combine_slices and loop refinement (b-C20p)
namespace GlueVerif.C20
open GlueVerif.ArrayUtil

/-- `combine_slices` is exact for all inputs: for any two normalised slices with positive steps
(no range restriction on the bounds is needed), the slice `(start, stop, step)` computed by the
code, applied to the view `range(slice1)` (of length `rangeLen beg1 end1 step1`), selects exactly
the positions of the elements of slice 1 that also belong to slice 2 — same positions, same order. -/
theorem combineNorm_correct (beg1 end1 : Int) (step1 : Nat) (beg2 end2 : Int) (step2 : Nat)
    (h1 : 0 < step1) (h2 : 0 < step2) :
    let out := combineNorm beg1 end1 step1 beg2 end2 step2
    applySliceTo (rangeLen beg1 end1 step1) out.1 out.2.1 out.2.2 =
      combineSpec beg1 end1 step1 beg2 end2 step2 :=
  Lemmas.C20Combine.combineNorm_correct beg1 end1 step1 beg2 end2 step2 h1 h2

/-- The form the driver evaluates (`implok`): for every array length and every pair of Python
slices whose `slice.indices(len)` succeed with positive steps, the model's `combine_slices` output
satisfies `specCombine`. -/
theorem combineSlices_spec (len : Nat) (s1 s2 : Option Int × Option Int × Option Int)
    (b1 e1 st1 b2 e2 st2 : Int)
    (hs1 : sliceIndices s1.1 s1.2.1 s1.2.2 len = some (b1, e1, st1))
    (hs2 : sliceIndices s2.1 s2.2.1 s2.2.2 len = some (b2, e2, st2))
    (h1 : 0 < st1) (h2 : 0 < st2) :
    specCombine len s1 s2 (combineNorm b1 e1 st1.toNat b2 e2 st2.toNat) = true :=
  Lemmas.C20Combine.specCombine_combineNorm len s1 s2 b1 e1 st1 b2 e2 st2 hs1 hs2 h1 h2

example : sliceIndices (some 1) (some 20) (some 3) 25 = some (1, 20, 3) ∧
    sliceIndices (some 2) (some (-7)) (some 2) 25 = some (2, 18, 2) ∧
    combineNorm 1 20 3 2 18 2 = (1, 6, 2) ∧
    combineSpec 1 20 3 2 18 2 = [1, 3, 5] := by decide

/-- The literal `while` loop of `iterate_chunks` (odometer with carry and break, fuel
`numChunks`) produces exactly the product-form chunk list, for every number of axes, every shape
with positive sizes and every chunk shape with positive entries of the same length (the chunk
entries need not fit within the shape). -/
theorem iterLoop_eq_prod (shape chunk : List Nat) (hlen : chunk.length = shape.length)
    (hs : ∀ s ∈ shape, 0 < s) (hc : ∀ c ∈ chunk, 0 < c) :
    iterateChunksLoop shape chunk = iterateChunksProd shape chunk :=
  Lemmas.C20Loop.iterLoop_eq_prod shape chunk hlen hs hc

example : iterateChunksLoop [5, 3] [2, 2] =
    [[(0, 2), (0, 2)], [(2, 4), (0, 2)], [(4, 5), (0, 2)],
     [(0, 2), (2, 3)], [(2, 4), (2, 3)], [(4, 5), (2, 3)]] := by decide

/-- **The literal loop is an exact partition**: corollary of `iterLoop_eq_prod` and
`iterateChunks_partition` — the list the code's `while` loop yields visits every element exactly
once, chunk by chunk, for every shape and every admissible chunk shape. -/
theorem iterateChunksLoop_partition (shape chunk : List Nat) (hlen : chunk.length = shape.length)
    (hs : ∀ s ∈ shape, 0 < s) (hc : ∀ c ∈ chunk, 0 < c) :
    specIter shape (some chunk) none (iterateChunksLoop shape chunk) = true := by
  rw [iterLoop_eq_prod shape chunk hlen hs hc]
  exact iterateChunks_partition shape chunk hlen hc

/-- The literal loop with an element limit: exact partition and no chunk larger than `n_max`. -/
theorem iterateChunksLoop_nmax (shape : List Nat) (n : Nat) (hn : 0 < n) (hs : ∀ s ∈ shape, 0 < s) :
    specIter shape none (some n) (iterateChunksLoop shape (findChunkShape shape n)) = true := by
  have hspec := findChunkShape_spec shape n hn hs
  have hl : (findChunkShape shape n).length = shape.length := by
    unfold specFcs at hspec
    simp only [Bool.and_eq_true, beq_iff_eq] at hspec
    exact hspec.1.1
  have hc : ∀ c ∈ findChunkShape shape n, 0 < c := by
    intro c hcm
    unfold specFcs at hspec
    simp only [Bool.and_eq_true, List.all_eq_true, decide_eq_true_eq] at hspec
    obtain ⟨k, hk, rfl⟩ := List.getElem_of_mem hcm
    have hk' : k < ((findChunkShape shape n).zip shape).length := by
      simp [List.length_zip, hl]; omega
    have := hspec.2 _ (List.getElem_mem hk')
    simp at this
    omega
  rw [iterLoop_eq_prod shape _ hl hs hc]
  exact iterateChunks_nmax shape n hn hs

/-- **The public entry point with an element limit**, for every number of dimensions **including 0**
(a 0-d array has one element; `iterate_chunks((), n_max=n)` yields the single empty chunk `()` — fix
`C04h`): for every shape with positive sizes and every positive limit the call succeeds, returns what
the literal loop yields, and that list is an exact partition with no chunk above the limit. -/
theorem iterateChunks_entry_nmax (shape : List Nat) (n : Nat) (hn : 0 < n) (hs : ∀ s ∈ shape, 0 < s) :
    iterateChunks shape none (some n) = .ok (iterateChunksLoop shape (findChunkShape shape n)) ∧
    specIter shape none (some n) (iterateChunksLoop shape (findChunkShape shape n)) = true := by
  refine ⟨?_, iterateChunksLoop_nmax shape n hn hs⟩
  unfold iterateChunks
  rw [if_neg (by have := Lemmas.C20Loop.foldl_mul_pos shape 1 (by omega) hs; omega)]

/-- **The public entry point with an explicit chunk shape** (same length as the shape, positive
entries that fit within the shape — the argument check of the code), for every number of dimensions
including 0: the call succeeds, returns what the literal loop yields, and that list is an exact
partition into boxes no longer than the chunk shape along any axis. -/
theorem iterateChunks_entry_chunkShape (shape chunk : List Nat) (hlen : chunk.length = shape.length)
    (hs : ∀ s ∈ shape, 0 < s) (hc : ∀ c ∈ chunk, 0 < c)
    (hfit : (chunk.zip shape).all (fun p => decide (p.1 ≤ p.2)) = true) :
    iterateChunks shape (some chunk) none = .ok (iterateChunksLoop shape chunk) ∧
    specIter shape (some chunk) none (iterateChunksLoop shape chunk) = true := by
  refine ⟨?_, iterateChunksLoop_partition shape chunk hlen hs hc⟩
  unfold iterateChunks
  rw [if_neg (by have := Lemmas.C20Loop.foldl_mul_pos shape 1 (by omega) hs; omega)]
  have hany : (chunk.zip shape).any (fun p => decide (p.1 > p.2)) = false := by
    rw [List.any_eq_false]
    intro p hp
    have := (List.all_eq_true.mp hfit) p hp
    simp only [decide_eq_true_eq] at this ⊢
    omega
  simp only [hlen, ne_eq, not_true_eq_false, if_false, hany, Bool.false_eq_true]

/-- `ndim = 0`: one element, one (empty) chunk — with either way of calling. -/
example : iterateChunks [] none (some 5) = .ok [[]] ∧ iterateChunks [] (some []) none = .ok [[]] ∧
    specIter [] none (some 5) [[]] = true := ⟨rfl, rfl, by decide⟩

end GlueVerif.C20

-- ## Round 3: memory layout is not an input of the helpers (x3-C20)
namespace GlueVerif.C20
open GlueVerif.ArrayUtil

/-- **`unique` does not depend on the memory layout.**  The model takes the *logical* array (shape and
row-major values as plain indexing sees them) and a `Layout` tag (C / Fortran order, axis permutation,
step-sliced views, negative strides, stride-0 axes, byte order, read-only); for any two tags the
result is the same, and it satisfies the property: sorted unique categories, index array of the
array's shape with `U[I] = array` element by element. -/
theorem unique_layout_independent (l l' : Layout) (a : NdArr) :
    uniqueNd l a = uniqueNd l' a ∧ specUniqueNd a (uniqueNd l a) = true := by
  refine ⟨rfl, ?_⟩
  simp only [specUniqueNd, uniqueNd, beq_self_eq_true, Bool.true_and]
  exact Lemmas.specUnique_model a.vals

example : uniqueNd ⟨true, [1, 0, 2], [0, 1, 0], [false, true, false], [], true, true⟩ ⟨[2, 2], [3, 1, 3, 2]⟩ =
    ([1, 2, 3], [2, 2], [2, 0, 2, 1]) := by decide

/-- `index_lookup(array, items)` on a logical array: codes of the array's shape that point at the
values, withheld only for values that are not items — under every layout. -/
theorem lookupNd_spec (l : Layout) (items : List Int) (a : NdArr) :
    specLookupNd items a (lookupNd l items a) = true := by
  simp only [specLookupNd, lookupNd, beq_self_eq_true, Bool.true_and]
  exact Lemmas.specLookup_model items a.vals

/-- A categorical array derived from a parent (a view / slice / transpose / re-ordered copy, whose
layout is whatever numpy made it): inherited categories are sorted and contain every value, and
`categories[codes] == values` with no code withheld — under every layout. -/
theorem derivedNd_spec (l : Layout) (parent : List Int) (a : NdArr) (hsub : ∀ x ∈ a.vals, x ∈ parent) :
    specDerivedNd a (derivedNd l parent a) = true := by
  simp only [specDerivedNd, derivedNd, Bool.and_eq_true, List.all_eq_true]
  refine ⟨⟨⟨Lemmas.strictSorted_categories parent, ?_⟩, lookupNd_spec l _ a⟩, ?_⟩
  · intro x hx
    simpa using (Lemmas.mem_categories x parent).mpr (hsub x hx)
  · exact Lemmas.lookupCodes_some_of_subset parent a.vals hsub

/-- **`unbroadcast` on logical arrays**: for every layout whose stride-0 axes are axes along which the
array is constant (what stride 0 means), the result broadcasts back to the input's shape and
reproduces the logical array; 0-d and empty arrays are returned unchanged. -/
theorem unbroadcastNd_roundtrip (l : Layout) (a : NdArr) (hwf : a.wf = true)
    (hc : constAlong l.bcast a.shape a.vals = true) :
    specUnbNd a (unbroadcastNd l a) = true := by
  have hv : a.vals.length = prod a.shape := by simpa [NdArr.wf] using hwf
  unfold specUnbNd unbroadcastNd broadcastBack
  split
  · simp only [Lemmas.C20Layout.bcCompatible_self, hwf, Bool.true_and, decide_eq_true_eq]
    rw [Lemmas.C20Layout.expand_self a.shape a.vals hv]
  · rename_i hne
    have hp : prod a.shape ≠ 0 := fun h0 => hne (Or.inr h0)
    have hpos := Lemmas.C20Layout.pos_of_prod_ne_zero a.shape hp
    simp only [Lemmas.C20Layout.bcCompatible_collapsed, NdArr.wf, Bool.true_and, Bool.and_eq_true,
      beq_iff_eq, decide_eq_true_eq]
    refine ⟨Lemmas.C20Layout.length_collapse _ _ _ hpos hv, ?_⟩
    rw [Lemmas.C20Layout.expand_collapse _ _ _ hpos hv hc]

example : unbroadcastNd ⟨false, [], [], [], [true, false], false, true⟩ ⟨[3, 2], [5, 7, 5, 7, 5, 7]⟩ = ⟨[1, 2], [5, 7]⟩ ∧
    constAlong [true, false] [3, 2] [5, 7, 5, 7, 5, 7] = true := by decide

/-- **The helpers depend on the logical array only.**  For any two layout tags of the same logical
array: `unique`, `index_lookup`, derived categorical arrays, `check_sorted` and `coerce_numeric` give
the same result; `unbroadcast` — the one helper whose result *shape* reads the strides (and with it
`broadcast_arrays_minimal`, which broadcasts the unbroadcast arrays to the *smallest* common shape) —
gives, under both tags, an array that broadcasts back to the very same logical array. -/
theorem helpers_depend_on_logical_array_only (l l' : Layout) (a : NdArr) (items parent : List Int) :
    uniqueNd l a = uniqueNd l' a ∧ lookupNd l items a = lookupNd l' items a ∧
    derivedNd l parent a = derivedNd l' parent a ∧
    sortedNd l a = sortedNd l' a ∧ coerceNd l a = coerceNd l' a ∧
    (a.wf = true → constAlong l.bcast a.shape a.vals = true →
      constAlong l'.bcast a.shape a.vals = true →
      broadcastBack a (unbroadcastNd l a) = a ∧ broadcastBack a (unbroadcastNd l' a) = a) := by
  refine ⟨rfl, rfl, rfl, rfl, rfl, ?_⟩
  intro hwf hc hc'
  have h1 := unbroadcastNd_roundtrip l a hwf hc
  have h2 := unbroadcastNd_roundtrip l' a hwf hc'
  simp only [specUnbNd, Bool.and_eq_true, decide_eq_true_eq] at h1 h2
  exact ⟨h1.2, h2.2⟩

end GlueVerif.C20
