import GlueVerif.Lemmas.ArrayUtil
/-!
# C20 — chunk, slice and broadcast helpers are exact

Property theorems only; helper lemmas live in `GlueVerif.Lemmas.ArrayUtil`.
-/
namespace GlueVerif.C20
open GlueVerif.ArrayUtil

/-- No chunk shape returned by `find_chunk_shape` holds more than `n_max` elements, and every
entry lies in `[1, shape_i]`; for every shape with positive sizes and every positive limit. -/
theorem findChunkShape_spec (shape : List Nat) (nMax : Nat) (hn : 0 < nMax)
    (hs : ∀ s ∈ shape, 0 < s) :
    specFcs shape nMax (findChunkShape shape nMax) = true :=
  Lemmas.specFcs_findChunkShape shape nMax hn hs

example : (∀ s ∈ [3, 4, 5], 0 < s) ∧ 0 < 7 ∧ findChunkShape [3, 4, 5] 7 = [1, 1, 5] := by decide

end GlueVerif.C20
