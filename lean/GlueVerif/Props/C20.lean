import GlueVerif.Lemmas.ArrayUtil
/-!
# C20 — chunk, slice and broadcast helpers are exact

Property theorems only; helper lemmas live in `GlueVerif.Lemmas.*`.  Every statement is about the
executable definitions in `GlueVerif.Model.ArrayUtil` that the driver `Drivers/C20.lean` runs
against `glue/utils/array.py` on every check, and every `spec*` predicate below is the very
predicate the driver evaluates on the *implementation's* output.
-/
namespace GlueVerif.C20
open GlueVerif.ArrayUtil

/-- No chunk shape returned by `find_chunk_shape` holds more than `n_max` elements, and every
entry lies in `[1, shape_i]`; for every shape with positive sizes and every positive limit. -/
theorem findChunkShape_spec (shape : List Nat) (nMax : Nat) (hn : 0 < nMax)
    (hs : ∀ s ∈ shape, 0 < s) :
    specFcs shape nMax (findChunkShape shape nMax) = true :=
  Lemmas.specFcs_findChunkShape shape nMax hn hs

example : (∀ s ∈ [3, 4, 5], 0 < s) ∧ 0 < 7 ∧ findChunkShape [3, 4, 5] 7 = [1, 1, 5] := by decide

/-- Iterating with an explicit chunk shape: every index tuple below `shape` lies in **exactly one**
chunk, every chunk is a non-empty box inside `shape`, and no chunk is longer than the requested
chunk shape along any axis — for every number of dimensions, every shape and every positive chunk
shape (the chunk shape need not even fit within the shape). -/
theorem iterateChunks_partition (shape chunk : List Nat) (hl : chunk.length = shape.length)
    (hc : ∀ c ∈ chunk, 0 < c) :
    specIter shape (some chunk) none (iterateChunksProd shape chunk) = true :=
  Lemmas.specIter_prod_chunkShape shape chunk hl hc

/-- Iterating with an element limit: exact partition, and no chunk holds more than `n_max`
elements. -/
theorem iterateChunks_nmax (shape : List Nat) (n : Nat) (hn : 0 < n) (hs : ∀ s ∈ shape, 0 < s) :
    specIter shape none (some n) (iterateChunksProd shape (findChunkShape shape n)) = true :=
  Lemmas.specIter_prod_nMax shape n hn hs

example : iterateChunksProd [3, 2] [2, 1] =
    [[(0, 2), (0, 1)], [(2, 3), (0, 1)], [(0, 2), (1, 2)], [(2, 3), (1, 2)]] := by decide

/-- Removing broadcast (stride-0) axes and broadcasting back reproduces the array: the result has
the original shape and addresses the same element at every index. -/
theorem unbroadcast_roundtrip (a : Strided) (hl : a.shape.length = a.strides.length) :
    specUnbroadcast a (unbroadcast a) = true :=
  Lemmas.specUnbroadcast_unbroadcast a hl

example : (unbroadcast ⟨[3, 4, 2], [0, 2, 0]⟩).shape = [1, 4, 1] := by decide

/-- Categorical arrays: categories are strictly sorted (hence unique), every category occurs,
and `categories[codes[i]] = values[i]` for every `i`. -/
theorem unique_spec (xs : List Int) : specUnique xs (categories xs) (codes xs) = true :=
  Lemmas.specUnique_model xs

example : categories [3, 1, 3, 2] = [1, 2, 3] ∧ codes [3, 1, 3, 2] = [2, 0, 2, 1] := by decide

/-- The length predicted for a positive-step slice axis (`view_shape`) is the number of elements
the slice really selects. -/
theorem viewShape_slice_length (b e : Int) (st : Nat) (hst : 0 < st) :
    (pyRange b e st).length = rangeLen b e st :=
  Lemmas.pyRange_length b e st hst

end GlueVerif.C20
