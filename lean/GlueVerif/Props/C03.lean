import GlueVerif.Lemmas.C03Links
import GlueVerif.Lemmas.C03Manager
/-!
# C03 — linked attributes are reachable exactly through links and carry composed values

Property theorems only; helper lemmas live in `GlueVerif.Lemmas.C03Links` / `C03Manager`.
Every statement is about the executable definitions of `GlueVerif.Model.Links` that the driver
`Drivers/C03.lean` runs against `glue/core/link_manager.py` / `data_collection.py` on every check;
`specOkAt`, `specDepth`, `noDangling` are the very predicates the driver evaluates on the
*implementation's* observations.

Notation: `own` = the dataset's own cids (`main_components + coordinate_components`); `ls` = the
current links (`_links | _inverse_links`) in a canonical order; `ls'` = the same links in the order
in which Python happens to iterate the `set` (any list with the same members, duplicates allowed);
`discoverLinks own ls'` = the literal `while True` loop of `discover_links`.
-/
namespace GlueVerif.C03
open GlueVerif.Links

section Discover
variable {α F V : Type} [DecidableEq α]

/-- `discover_links` terminates: the loop reaches a state in which a full scan changes nothing
within `|ls|·(|ls|+1)+1` iterations, and further iterations would not change the result.
(Measure: Σ over links of the recorded depth of the target, `|ls|+1` while unreached.) -/
theorem discover_terminates (own : List α) (ls : List (Link α F)) :
    findStep (discoverLinks own ls).depth ls = none ∧
    ∀ k, discoverFuel (fuelBound ls + k) ls (initState own) = discoverLinks own ls := by
  refine ⟨Lemmas.C03.discover_stable own ls, fun k => ?_⟩
  rw [Lemmas.C03.discoverFuel_add]
  exact Lemmas.C03.discoverFuel_stable (Lemmas.C03.discover_stable own ls) k

/-- Reachability, for **every scan order**: `c` ends up in `cids` iff it is in the inductive
closure of `own` under the links; the installed dict `cid_links` has exactly the reachable cids that
are not the dataset's own. -/
theorem discover_reachable (own : List α) (ls ls' : List (Link α F))
    (hm : ∀ l, l ∈ ls ↔ l ∈ ls') (c : α) :
    ((get (discoverLinks own ls').depth c).isSome = true ↔ Reachable own ls c) ∧
    ((get (discoverLinks own ls').via c).isSome = true ↔ (Reachable own ls c ∧ c ∉ own)) := by
  have hF := Lemmas.C03.discover_fix own ls'
  have h1 : (get (discoverLinks own ls').depth c).isSome = true ↔ Reachable own ls c := by
    rw [Lemmas.C03.fix_reachable hF c]
    exact ⟨Lemmas.C03.reachable_congr (fun l => (hm l).symm), Lemmas.C03.reachable_congr hm⟩
  exact ⟨h1, by rw [Lemmas.C03.fix_via_isSome hF c, h1]⟩

/-- The recorded depth is the least depth of any derivation (and equals the Spec's `specDepth`,
which does not depend on the scan order); own cids stay at depth 0 and are never overridden by a
link. -/
theorem discover_depth_min (own : List α) (ls ls' : List (Link α F))
    (hm : ∀ l, l ∈ ls ↔ l ∈ ls') (c : α) :
    get (discoverLinks own ls').depth c = specDepth own ls c ∧
    (∀ d, get (discoverLinks own ls').depth c = some d →
      DerivLe own ls d c ∧ ∀ k, DerivLe own ls k c → d ≤ k) ∧
    (c ∈ own → get (discoverLinks own ls').depth c = some 0 ∧
      get (discoverLinks own ls').via c = none) := by
  have hF := Lemmas.C03.discover_fix own ls'
  refine ⟨Lemmas.C03.fix_depth_eq_spec hm hF c, ?_, fun hc => ⟨hF.inv.ownZero c hc, hF.inv.ownVia c hc⟩⟩
  intro d hd
  rw [Lemmas.C03.fix_depth_eq_spec hm hF c] at hd
  exact Lemmas.C03.specDepth_some hd

/-- Values: what the dataset reads through the installed derived components satisfies the oracle
predicate `specOkAt` at every cid (own cids read their own array, unreachable cids are not
readable, a reachable foreign cid reads `fn(inputs as read)` for a link of least cost) — for every
scan order.  Consequently every value read is the composition of the link functions along a
derivation all of whose sub-derivations have least depth (`MinVal`), and a cid is readable exactly
when it is reachable. -/
theorem discover_value [DecidableEq V] (own : List α) (ls ls' : List (Link α F))
    (hm : ∀ l, l ∈ ls ↔ l ∈ ls') (ownVal : α → V) (app : F → List V → V) (c : α) :
    specOkAt own ls ownVal app (installedVal own ownVal app ls' (discoverLinks own ls')) c = true ∧
    (∀ v, installedVal own ownVal app ls' (discoverLinks own ls') c = some v →
      MinVal own ls ownVal app c v) ∧
    ((installedVal own ownVal app ls' (discoverLinks own ls') c).isSome = true ↔
      Reachable own ls c) := by
  have hok := fun c => Lemmas.C03.discover_specOkAt own ls ls' hm ownVal app c
  have hF := Lemmas.C03.discover_fix own ls'
  have hread : (installedVal own ownVal app ls' (discoverLinks own ls') c).isSome = true ↔
      Reachable own ls c := by
    have := Lemmas.C03.fix_installed_isSome hF ownVal app (ls'.length + 2)
      (fun c d h => by have := Lemmas.C03.discover_depth_le_length own ls' c d h; omega) c
    simp only [installedVal]
    rw [this]
    exact ⟨Lemmas.C03.reachable_congr (fun l => (hm l).symm), Lemmas.C03.reachable_congr hm⟩
  refine ⟨hok c, ?_, hread⟩
  intro v hv
  obtain ⟨k, hk⟩ := Lemmas.C03.reachable_derivLe (hread.mp (by simp [hv]))
  exact Lemmas.C03.specOk_minVal own ls ownVal app _ hok k c v hk hv

/-- The oracle's local condition is sound for the property as stated: any table of reads that
satisfies `specOkAt` everywhere gives, for every cid it reads, the value of a derivation whose
sub-derivations all have least depth (so in particular of a shortest chain). -/
theorem spec_local_implies_composed [DecidableEq V] (own : List α) (ls : List (Link α F))
    (ownVal : α → V) (app : F → List V → V) (out : α → Option V)
    (hok : ∀ c, specOkAt own ls ownVal app out c = true) (c : α) (v : V)
    (hr : Reachable own ls c) (hv : out c = some v) : MinVal own ls ownVal app c v := by
  obtain ⟨k, hk⟩ := Lemmas.C03.reachable_derivLe hr
  exact Lemmas.C03.specOk_minVal own ls ownVal app out hok k c v hk hv

/-- The executable `specDepth` decides reachability. -/
theorem specDepth_reachable (own : List α) (ls : List (Link α F)) (c : α) :
    (specDepth own ls c).isSome = true ↔ Reachable own ls c :=
  Lemmas.C03.specDepth_isSome_iff own ls c

end Discover

/-! ### non-vacuity: a diamond with two minimal derivations, a cycle, a two-input link -/

/-- 1 → 2, 1 → 3, 2 → 4, 3 → 4 (different functions): 4 is found at depth 2 through either
route depending on the scan order; both satisfy the Spec. -/
example :
    let ls : List (Link Nat Nat) := [⟨[1], 2, 10⟩, ⟨[1], 3, 11⟩, ⟨[2], 4, 12⟩, ⟨[3], 4, 13⟩]
    get (discoverLinks [1] ls).depth 4 = some 2 ∧
    (get (discoverLinks [1] ls).via 4).map (·.fn) = some 12 ∧
    (get (discoverLinks [1] ls.reverse).via 4).map (·.fn) = some 13 ∧
    specDepth [1] ls 4 = some 2 ∧ specDepth [1] ls 5 = none := by decide

/-- A longer route found first is replaced by the shorter one (1 → 2 → 3 → 4 vs 1 → 4). -/
example :
    let ls : List (Link Nat Nat) := [⟨[1], 2, 0⟩, ⟨[2], 3, 0⟩, ⟨[3], 4, 0⟩, ⟨[4], 5, 0⟩, ⟨[1], 4, 7⟩]
    get (discoverLinks [1] ls).depth 4 = some 1 ∧ get (discoverLinks [1] ls).depth 5 = some 2 ∧
    (get (discoverLinks [1] ls).via 4).map (·.fn) = some 7 := by decide

/-- Two-input link: reachable only when both inputs are; cycles are harmless. -/
example :
    let ls : List (Link Nat Nat) := [⟨[1, 2], 3, 0⟩, ⟨[3], 1, 0⟩, ⟨[1], 2, 0⟩]
    get (discoverLinks [1] ls).depth 3 = some 2 ∧ get (discoverLinks [2] ls).depth 3 = none := by
  decide

/-! ### the LinkManager / DataCollection state machine

Datasets have stored attributes (`comps`) and internal derived attributes (`derived`, each with the
`ComponentLink` that defines it from attributes of the same dataset); both kinds, and pixel ids, are
link endpoints.  `curLinks s` = `_links | _inverse_links` = the internal links of every dataset of
the collection, the external links, and the inverses.  `removeComp d c` removes `c` **and, as
coded, recursively every derived attribute that reads it**, each removal being announced to the
LinkManager on its own (`removeRec`).  A history is well-formed (`runWf`) when links are only added
between live cids (components — stored or derived — of datasets in the collection, or parentless
ids), datasets own their cids, a derived attribute reads at least one attribute, and `update_id`
is not applied to a ComponentID that a stored link mentions. -/

/-- History invariant.  After any well-formed history of operations (add/remove link(s), add/remove
stored or derived attribute — with the cascade —, `update_id`, append/remove dataset, delay blocks,
including operations that raise), whenever no delay block is open every dataset of the collection
holds exactly `discover_links` of the current links (scanned in some order). -/
theorem manager_inv (ops : List (Op × List Nat)) (hw : runWf MState.init ops = true)
    (h0 : (run MState.init ops).delay = 0) :
    ∀ D ∈ (run MState.init ops).dsets, ∃ ls',
      (∀ l, l ∈ ls' ↔ l ∈ curLinks (run MState.init ops)) ∧ D.cache = discoverLinks D.comps ls' :=
  fun D hD =>
    let ⟨ls', hm, hc, _⟩ :=
      (Lemmas.C03.inv_run _ ops Lemmas.C03.good_init Lemmas.C03.nd_init Lemmas.C03.wfs_init hw).1 h0 D hD
    ⟨ls', hm, hc⟩

/-- The same invariant with NO well-formedness hypothesis, for every history in which no dataset is
removed from the collection (`Lemmas.C03.noRemove`): links between dead or foreign cids, datasets
that do not own their cids, `update_id` applied to a link endpoint and operations that raise are all
allowed.  `DataCollection.remove` is the only operation whose preservation of the invariant needs
`runWf` (it does not re-sync when it drops no link), which is why `manager_inv` carries it. -/
theorem manager_inv_noRemove_unconditional (ops : List (Op × List Nat))
    (hn : Lemmas.C03.noRemove ops = true) (h0 : (run MState.init ops).delay = 0) :
    ∀ D ∈ (run MState.init ops).dsets, ∃ ls',
      (∀ l, l ∈ ls' ↔ l ∈ curLinks (run MState.init ops)) ∧ D.cache = discoverLinks D.comps ls' :=
  fun D hD =>
    let ⟨ls', hm, hc, _⟩ := Lemmas.C03.good_run_noRemove _ ops Lemmas.C03.good_init hn h0 D hD
    ⟨ls', hm, hc⟩

/-- Non-vacuity: the ill-formed `update_id` history below (rejected by `runWf`) meets the hypotheses. -/
example :
    let h : List (Op × List Nat) :=
      [(.newData 0 [((0, 1), [1, 2])], []), (.newData 1 [((1, 1), [5, 6])], []),
       (.append 0, []), (.append 1, []),
       (.addLink (.single ⟨3, ⟨[(0, 1)], (1, 1), ⟨[3], 0⟩⟩, none⟩), [3]),
       (.updateId 0 (0, 1) (0, 9), [3])]
    runWf MState.init h = false ∧ Lemmas.C03.noRemove h = true ∧ (run MState.init h).delay = 0 := by
  decide

/-- What the datasets read after such a history, outside a delay block: the externally derivable
cids are exactly the reachable foreign ones (the dataset's own derived attributes are reached
through their internal links) and — for a dataset whose own derived attributes are installed with
their own links (`internalFirst`: no other link reaches one of them first) — a cid is readable exactly
when reachable, every read satisfies the oracle predicate and is the composition along a
least-depth derivation. -/
theorem manager_reads (ops : List (Op × List Nat)) (hw : runWf MState.init ops = true)
    (h0 : (run MState.init ops).delay = 0) :
    let s := run MState.init ops
    ∀ D ∈ s.dsets, ∀ c,
      (isDerivable D c = true ↔ (Reachable D.comps (curLinks s) c ∧ c ∉ D.comps)) ∧
      (internalFirst D = true →
        ((readCid s D c).isSome = true ↔ Reachable D.comps (curLinks s) c) ∧
        specOkAt D.comps (curLinks s) (ownVal s.vals) applyFn (readCid s D) c = true ∧
        (∀ v, readCid s D c = some v → MinVal D.comps (curLinks s) (ownVal s.vals) applyFn c v)) := by
  intro s D hD c
  have hS := (Lemmas.C03.inv_run _ ops Lemmas.C03.good_init Lemmas.C03.nd_init
    Lemmas.C03.wfs_init hw).1 h0
  exact ⟨Lemmas.C03.synced_derivable hS hD c, fun hi => ⟨Lemmas.C03.synced_readable hS hD hi c,
    Lemmas.C03.synced_specOk hS hD hi c, fun v hv => Lemmas.C03.synced_minVal hS hD hi c v hv⟩⟩

/-- A dataset always reads one of its own derived attributes through the attribute's own link
(`Data.get_data` looks `_components` up first), whatever the LinkManager installed: the defining
function applied to what the dataset reads for the inputs.  (The driver's oracle demands exactly
this of the implementation, also inside delay blocks.) -/
theorem derived_reads_internal (s : MState) (D : DSet) (n : Nat) (c : Cid) (l : CLink)
    (hc : c ∉ D.comps) (hl : get (D.derived.map fun p => (p.2.to, p.2)) c = some l) :
    readCidN s D (n + 1) c =
      match allSome (l.froms.map (readCidN s D n)) with
      | some vs => some (applyFn l.fn vs)
      | none => none := by
  have : get D.viaAll c = some l := by
    simp only [DSet.viaAll, Lemmas.C03.get_append, hl]
  have hn : readCidN s D n = evalC D.comps (ownVal s.vals) applyFn D.viaAll n := rfl
  rw [hn]
  simp only [readCidN, evalC, hc, if_false, this]
  generalize allSome (l.froms.map (evalC D.comps (ownVal s.vals) applyFn D.viaAll n)) = o
  cases o <;> rfl

/-- Selections: `data.get_mask(cid > thr)` after such a history is `IncompatibleAttribute` exactly
when `cid` is not reachable from the dataset, and otherwise selects exactly the elements whose
derived value (a least-depth composition) exceeds `thr`. -/
theorem selection_via_links (ops : List (Op × List Nat)) (hw : runWf MState.init ops = true)
    (h0 : (run MState.init ops).delay = 0) (thr : Int) :
    let s := run MState.init ops
    ∀ D ∈ s.dsets, internalFirst D = true → ∀ c,
      (selectGt thr (readCid s D c) = none ↔ ¬ Reachable D.comps (curLinks s) c) ∧
      (∀ m, selectGt thr (readCid s D c) = some m →
        ∃ v, MinVal D.comps (curLinks s) (ownVal s.vals) applyFn c v ∧
          m = v.map (fun x => decide (x > thr))) := by
  intro s D hD hi c
  have hS := (Lemmas.C03.inv_run _ ops Lemmas.C03.good_init Lemmas.C03.nd_init
    Lemmas.C03.wfs_init hw).1 h0
  have hr := Lemmas.C03.synced_readable hS hD hi c
  constructor
  · rw [← hr]
    cases readCid s D c <;> simp [selectGt]
  · intro m hm
    cases hv : readCid s D c with
    | none => rw [hv] at hm; simp [selectGt] at hm
    | some v =>
      rw [hv] at hm
      simp only [selectGt, Option.map_some, Option.some.injEq] at hm
      exact ⟨v, Lemmas.C03.synced_minVal hS hD hi c v hv, hm.symm⟩

/-- No stored link mentions a removed cid or dataset: along a well-formed history, at every moment
— also inside delay blocks — every stored link mentions only live cids.  "Removed" includes every
derived attribute that a component removal cascaded to. -/
theorem manager_no_dangling (ops : List (Op × List Nat)) (hw : runWf MState.init ops = true) :
    noDangling (run MState.init ops) = true :=
  (Lemmas.C03.nd_iff _).mpr (Lemmas.C03.nd_run _ ops Lemmas.C03.nd_init hw)

/-- Unconditional post-conditions of the removal handlers (any state, any history):
after `remove_component(c)` on a dataset of the collection no stored link mentions `c`; more
generally after `remove_component(c)` on any dataset every cid that a surviving stored link mentions
and that was live before is still live — i.e. **every** attribute removed by the cascade (`c` and
all derived attributes depending on it, transitively) has been forgotten; after `dc.remove(d)` no
stored link mentions a (stored or derived) cid of `d`. -/
theorem removal_forgets (ord : List Nat) (s : MState) (d : Nat) :
    (∀ c D, findDs s.dsets d = some D → c ∈ D.ids →
      ∀ e ∈ (step ord s (.removeComp d c)).1.ext, e.mentions c = false) ∧
    (∀ c, ∀ e ∈ (step ord s (.removeComp d c)).1.ext, ∀ c' ∈ e.cids, liveCid s c' = true →
      liveCid (step ord s (.removeComp d c)).1 c' = true) ∧
    (∀ e ∈ (step ord s (.remove d)).1.ext, ∀ D ∈ s.dsets, D.id = d → ∀ c ∈ D.ids,
      e.mentions c = false) :=
  ⟨fun c D hf hc => Lemmas.C03.removeComp_forgets ord s d c D hf hc,
   fun c => Lemmas.C03.removeComp_forgets_all ord s d c,
   Lemmas.C03.remove_forgets ord s d⟩

/-! ### non-vacuity of the history hypotheses, and the excluded construct -/

def exA : LinkObj := ⟨1, ⟨[(0, 1)], (1, 1), ⟨[2], 1⟩⟩, some (2, ⟨[1], -1⟩)⟩
def exHist : List (Op × List Nat) :=
  [(.newData 0 [((0, 1), [1, 2])], []), (.newData 1 [((1, 1), [5, 6])], []),
   (.append 0, []), (.append 1, []), (.delayBegin, []), (.addLink (.single exA), [1, 2]),
   (.delayEnd, [1, 2]), (.removeComp 0 (0, 1), [])]

example : runWf MState.init exHist = true ∧
    (run MState.init (exHist.take 7)).delay = 0 ∧
    (run MState.init (exHist.take 7)).ext.length = 1 ∧
    (run MState.init exHist).ext.length = 0 := by decide

/-- Inside the delay block the new link is registered but not yet usable (by design); after the
block dataset 0 reads `2·x+1` and dataset 1 reads through the inverse object `y-1`. -/
example :
    let s6 := run MState.init (exHist.take 6)
    let s7 := run MState.init (exHist.take 7)
    (s6.dsets.map fun D => readCid s6 D (0, 1)) = [some [1, 2], none] ∧
    (s7.dsets.map fun D => readCid s7 D (0, 1)) = [some [1, 2], some [4, 5]] ∧
    (s7.dsets.map fun D => readCid s7 D (1, 1)) = [some [3, 5], some [5, 6]] := by decide

/-- Derived attributes as link endpoints, and the cascade.  Dataset 0 has stored `x`, derived
`y = 2x+1` and `z = y-1`; `z` is linked two-way to `w` of dataset 1 and `y` one-way to `u` of
dataset 1.  The history is well-formed, every dataset has `internalFirst`; dataset 1 reads `z` through
the inverse; removing `x` removes `y` and `z` too and **both** links are forgotten (nothing
dangles), dataset 1 can no longer read `z`. -/
def exDer : List (Op × List Nat) :=
  [(.newData 0 [((0, 1), [1, 2])], []), (.newData 1 [((1, 1), [5, 6]), ((1, 2), [0, 0])], []),
   (.append 0, []), (.append 1, []),
   (.addDerived 0 10 ⟨[(0, 1)], (0, 2), ⟨[2], 1⟩⟩, [10]),
   (.addDerived 0 11 ⟨[(0, 2)], (0, 3), ⟨[1], -1⟩⟩, [10, 11]),
   (.addLink (.single ⟨1, ⟨[(0, 3)], (1, 1), ⟨[1], 4⟩⟩, some (2, ⟨[1], -4⟩)⟩), [10, 11, 1, 2]),
   (.addLink (.single ⟨3, ⟨[(0, 2)], (1, 2), ⟨[3], 0⟩⟩, none⟩), [10, 11, 1, 2, 3]),
   (.removeComp 0 (0, 1), [])]

example :
    let s8 := run MState.init (exDer.take 8)
    let s9 := run MState.init exDer
    runWf MState.init exDer = true ∧ s8.delay = 0 ∧ s8.dsets.all internalFirst = true ∧
    s8.ext.length = 2 ∧
    (s8.dsets.map fun D => readCid s8 D (0, 3)) = [some [2, 4], some [1, 2]] ∧
    (s8.dsets.map fun D => readCid s8 D (1, 2)) = [some [9, 15], some [0, 0]] ∧
    s9.ext.length = 0 ∧ (s9.dsets.map fun D => D.ids) = [[], [(1, 1), (1, 2)]] ∧
    (s9.dsets.map fun D => readCid s9 D (0, 3)) = [none, none] ∧ noDangling s9 = true := by decide

/-- The hypothesis `internalFirst` excludes only this: an external link from the dataset's own stored
`x'` reaches its derived `z` (internal depth 2) at depth 1; `discover_links` installs the external link
for `z`, `Data.get_data` still evaluates `z` through its own definition.  (The driver's oracle
treats the dataset's own derived attributes separately, so these histories are checked too.) -/
example :
    let h : List (Op × List Nat) :=
      [(.newData 0 [((0, 1), [1, 2]), ((0, 4), [7, 7])], []), (.append 0, []),
       (.addDerived 0 10 ⟨[(0, 1)], (0, 2), ⟨[2], 1⟩⟩, [10]),
       (.addDerived 0 11 ⟨[(0, 2)], (0, 3), ⟨[1], -1⟩⟩, [10, 11]),
       (.addLink (.single ⟨3, ⟨[(0, 4)], (0, 3), ⟨[3], 0⟩⟩, none⟩), [10, 11, 3])]
    let s := run MState.init h
    runWf MState.init h = true ∧ s.dsets.all internalFirst = false ∧
    (s.dsets.map fun D => readCid s D (0, 3)) = [some [2, 4]] := by decide

/-- `update_id` on a link endpoint, as coded: the LinkManager does nothing on
`ComponentReplacedMessage`, the stored link keeps naming the replaced ComponentID (which is why
`runWf` excludes it), the collection re-syncs and the dataset no longer reaches the other side. -/
example :
    let h : List (Op × List Nat) :=
      [(.newData 0 [((0, 1), [1, 2])], []), (.newData 1 [((1, 1), [5, 6])], []),
       (.append 0, []), (.append 1, []),
       (.addLink (.single ⟨3, ⟨[(0, 1)], (1, 1), ⟨[3], 0⟩⟩, none⟩), [3]),
       (.updateId 0 (0, 1) (0, 9), [3])]
    let s5 := run MState.init (h.take 5)
    let s := run MState.init h
    runWf MState.init h = false ∧ noDangling s = false ∧ s.ext.length = 1 ∧
    (s5.dsets.map fun D => isDerivable D (1, 1)) = [true, false] ∧
    (s.dsets.map fun D => isDerivable D (1, 1)) = [false, false] ∧
    (s.dsets.map fun D => readCid s D (0, 9)) = [some [1, 2], none] := by decide

/-- Regression witness for glue fix F1 (`add_link([...])` / `remove_link([...])` now update in a
`finally`): a *list* `add_link([l, c])` whose second item raises (the same `LinkCollection` object is
already stored: `AttributeError`) leaves `l` registered **and usable**.  Before the fix the update
was skipped and dataset 1 could not read through `l` outside any delay block. -/
theorem list_op_raising_midway_synced :
    let c : Entry := .coll 9 [⟨3, ⟨[(0, 1)], (1, 1), ⟨[1], 0⟩⟩, some (4, ⟨[1], 0⟩)⟩]
    let l : Entry := .single ⟨5, ⟨[(1, 1)], (99, 1), ⟨[3], 0⟩⟩, none⟩
    let h : List (Op × List Nat) :=
      [(.newData 0 [((0, 1), [1, 2])], []), (.newData 1 [((1, 1), [5, 6])], []),
       (.append 0, []), (.append 1, []), (.addLink c, [3, 4]), (.addLinks [l, c], [3, 4, 5])]
    let s := run MState.init h
    (step [3, 4, 5] (run MState.init (h.take 5)) (.addLinks [l, c])).2 = .attributeError ∧
    s.delay = 0 ∧ s.ext.length = 2 ∧
    (s.dsets.map fun D => isDerivable D (99, 1)) = [true, true] ∧
    (s.dsets.map fun D => readCid s D (99, 1)) = [some [3, 6], some [15, 18]] := by
  decide

end GlueVerif.C03
