import GlueVerif.Lemmas.SubsetEval
/-!
# C01 — selections form a faithful Boolean algebra over membership masks

Property theorems only; helper lemmas live in `GlueVerif.Lemmas.SubsetEval`.  The definitions are
those of `GlueVerif.Model.SubsetEval`, which the driver `Drivers/C01.lean` runs against
`glue/core/subset.py`, `decorators.py` and `edit_subset_mode.py` on every check:

* `Impl.run tbl env` — programs executed *as the code does it*: state objects with identity on a
  heap, `copy()` per class (`tbl`), one `@memoize` table per decorated function keyed by
  `(state, data, view, call form)`, array objects with identity, `MultiOrState` copying the first
  mask and then `|=` in place, the edit modes building `new & old`, `new | old`, `new ^ old`,
  `old & ~new` or a copy;
* `Spec.run env` — the same programs on selection *values* (`Expr`), where `Expr.denote` is the
  elementwise Boolean function of the masks of the parts, nothing is cached and nothing has identity.
-/
namespace GlueVerif.C01
open GlueVerif.SubsetEval

/-- On the repaired tree every elementary selection class keeps its parameters on `copy()`. -/
theorem classTable_faithful : classTable.Faithful := by
  intro k; cases k <;> decide

/-- **Main theorem.**  For every class table in which no class loses its parameters on `copy()`,
every leaf environment (every dataset, every elementary selection, every view, including leaves
that raise) and **every program** — any interleaving of constructing elementary selections,
`&`, `|`, `^`, `~`, many-way or, `copy()`, evaluation in any call form on any dataset and view
(hashable or not), the six edit modes, reading back the edit subset's state — the sequence of
masks (or exceptions) the implementation model returns is exactly the sequence obtained by applying
the Boolean operations elementwise to the masks of the parts. -/
theorem run_refines (tbl : ClassTable) (hf : tbl.Faithful) (env : Env) (prog : List Op) :
    (Impl.run tbl env Impl.init prog).2.map (·.obs) = (Spec.run env {} prog).2 :=
  (run_sim tbl hf env prog Impl.init {} (init_sim env)).obs

/-- `to_mask = denote` under the cache-coherence invariant: if every cached array equals `denote`
of its key (`CacheCoherent`) and object `n` represents the selection value `e`, then
`n.to_mask(data, view)` (any call form) returns an array holding `e.denote`, or raises exactly when
`denote` does; afterwards the caches are still coherent, the object graph is untouched and **every
array object that existed before still has its old value** (no cached or previously returned array is
ever the target of an in-place operation). -/
theorem toMask_eq_denote (tbl : ClassTable) (env : Env) (h : Heap) (n : Nat) (d : DataId) (v : View)
    (f : Form) (e : Expr) (hc : CacheCoherent env h) (hr : Rep h.g n e) :
    (match (toMask tbl env h.g.fuel h n d v f).2 with
      | .ok a => ∃ m, (toMask tbl env h.g.fuel h n d v f).1.arrays[a]? = some m ∧ e.denote env d v = .ok m
      | .error er => e.denote env d v = .error er) ∧
    CacheCoherent env (toMask tbl env h.g.fuel h n d v f).1 ∧
    (toMask tbl env h.g.fuel h n d v f).1.g = h.g ∧
    ArrExt h (toMask tbl env h.g.fuel h n d v f).1 := by
  have p := toMask_spec tbl env h.g.fuel h n d v f e hc hr hr.depth_lt_fuel
  refine ⟨?_, p.coh, p.g, p.ext⟩
  have := p.res
  revert this
  cases (toMask tbl env h.g.fuel h n d v f).2 <;> exact id

/-- The invariant holds in every state reachable from a fresh session by any program. -/
theorem reachable_cacheCoherent (tbl : ClassTable) (hf : tbl.Faithful) (env : Env) (prog : List Op) :
    CacheCoherent env (Impl.run tbl env Impl.init prog).1.h :=
  (run_sim tbl hf env prog Impl.init {} (init_sim env)).sim.coh

/-- Arrays handed out by an evaluation are never modified afterwards: at the end of any program
every returned array object still holds the mask it held when it was returned. -/
theorem returned_arrays_stable (tbl : ClassTable) (hf : tbl.Faithful) (env : Env) (prog : List Op) :
    ∀ o ∈ (Impl.run tbl env Impl.init prog).2, ∀ a, o.arr = some a →
      ∃ m, (Impl.run tbl env Impl.init prog).1.h.arrays[a]? = some m ∧ o.obs = .mask (.ok m) :=
  (run_sim tbl hf env prog Impl.init {} (init_sim env)).arr

/-- **Operands are never altered.**  Whatever is done after `p1` (combining, copying, evaluating,
edit modes — the program `p2`), evaluating any selection `a` that existed after `p1` gives the same
mask as evaluating it right after `p1`. -/
theorem operands_unchanged (tbl : ClassTable) (hf : tbl.Faithful) (env : Env) (p1 p2 : List Op)
    (a : Var) (d : DataId) (v : View) (f f' : Form)
    (ha : a < (Impl.run tbl env Impl.init p1).1.vars.length) :
    (Impl.step tbl env (Impl.run tbl env (Impl.run tbl env Impl.init p1).1 p2).1 (.eval a d v f)).2.obs =
      (Impl.step tbl env (Impl.run tbl env Impl.init p1).1 (.eval a d v f')).2.obs := by
  have r1 := run_sim tbl hf env p1 Impl.init {} (init_sim env)
  have r2 := run_sim tbl hf env p2 _ _ r1.sim
  obtain ⟨x, hx, _⟩ := r1.sim.vars.get (List.getElem?_eq_getElem ha)
  have hx2 := Spec.run_var_stable env p2 _ hx
  rw [(step_sim tbl hf env _ _ r2.sim (.eval a d v f)).obs, (step_sim tbl hf env _ _ r1.sim (.eval a d v f')).obs]
  simp only [Spec.step, hx, hx2]

/-- **The result does not depend on the order or number of earlier evaluations.**  Two programs
that differ only in their evaluation ops (which, where, how often, on which datasets / views, in
which call form) lead to states in which every further op — in particular every evaluation —
observes the same thing. -/
theorem eval_order_irrelevant (tbl : ClassTable) (hf : tbl.Faithful) (env : Env) (p p' : List Op)
    (hsame : p.filter (fun o => !o.isEval) = p'.filter (fun o => !o.isEval)) (q : Op) :
    (Impl.step tbl env (Impl.run tbl env Impl.init p).1 q).2.obs =
      (Impl.step tbl env (Impl.run tbl env Impl.init p').1 q).2.obs := by
  have r := run_sim tbl hf env p Impl.init {} (init_sim env)
  have r' := run_sim tbl hf env p' Impl.init {} (init_sim env)
  rw [(step_sim tbl hf env _ _ r.sim q).obs, (step_sim tbl hf env _ _ r'.sim q).obs,
    Spec.run_state_filter env p, Spec.run_state_filter env p', hsame]

/-- And / or / xor of two selections is the elementwise Boolean function of their masks. -/
theorem denote_bin (env : Env) (d : DataId) (v : View) (op : BinOp) (a b : Expr) (x y : Mask)
    (ha : a.denote env d v = .ok x) (hb : b.denote env d v = .ok y) (hs : x.shape = y.shape) :
    (Expr.bin op a b).denote env d v = .ok ⟨x.shape, List.zipWith op.fn x.bits y.bits⟩ := by
  simp only [Expr.denote, ha, hb, Mask.binop, hs, if_true]

/-- Inversion is elementwise negation. -/
theorem denote_inv (env : Env) (d : DataId) (v : View) (a : Expr) (x : Mask)
    (ha : a.denote env d v = .ok x) :
    (Expr.inv a).denote env d v = .ok ⟨x.shape, x.bits.map (!·)⟩ := by
  simp only [Expr.denote, ha, Mask.not]

/-- The many-way or is the left-nested chain of binary ors (also in every error case). -/
theorem multiOr_eq_foldl_or (env : Env) (d : DataId) (v : View) (e : Expr) (es : List Expr) :
    (Expr.multiOr (e :: es)).denote env d v =
      (es.foldl (fun acc x => .bin .or acc x) e).denote env d v :=
  multiOr_foldl env d v es e

/-- The edit modes, as masks: with `x` the mask of the new selection and `y` the mask of the edit
subset's current selection (same shape), the edit subset's new mask is `x` (replace / new),
`x ∧ y`, `x ∨ y`, `x ⊕ y`, `y ∧ ¬x`. -/
theorem editMode_masks (env : Env) (d : DataId) (v : View) (new cur : Expr) (x y : Mask)
    (hn : new.denote env d v = .ok x) (hc : cur.denote env d v = .ok y) (hs : x.shape = y.shape) :
    (Spec.editExpr .replace new cur).denote env d v = .ok x ∧
    (Spec.editExpr .new new cur).denote env d v = .ok x ∧
    (Spec.editExpr .and new cur).denote env d v = .ok ⟨x.shape, List.zipWith (· && ·) x.bits y.bits⟩ ∧
    (Spec.editExpr .or new cur).denote env d v = .ok ⟨x.shape, List.zipWith (· || ·) x.bits y.bits⟩ ∧
    (Spec.editExpr .xor new cur).denote env d v = .ok ⟨x.shape, List.zipWith Bool.xor x.bits y.bits⟩ ∧
    (Spec.editExpr .andNot new cur).denote env d v =
      .ok ⟨y.shape, List.zipWith (· && ·) y.bits (x.bits.map (!·))⟩ := by
  refine ⟨hn, hn, ?_, ?_, ?_, ?_⟩
  · simp only [Spec.editExpr, Expr.denote, hn, hc, Mask.binop, hs, if_true]; rfl
  · simp only [Spec.editExpr, Expr.denote, hn, hc, Mask.binop, hs, if_true]; rfl
  · simp only [Spec.editExpr, Expr.denote, hn, hc, Mask.binop, hs, if_true]; rfl
  · simp only [Spec.editExpr, Expr.denote, hn, hc, Mask.binop, Mask.not, hs, if_true]; rfl

/-- **Edit modes on the implementation.**  After any program `p`, applying edit mode `m` with the
selection in variable `a` and then asking the edit subset for its mask returns `denote` of the
mode's Boolean combination of the new selection and the edit subset's previous selection. -/
theorem editMode_denote (tbl : ClassTable) (hf : tbl.Faithful) (env : Env) (p : List Op) (m : Mode)
    (a : Var) (d : DataId) (v : View) (x : Expr)
    (hx : (Spec.run env {} p).1.vars[a]? = some x) :
    (Impl.step tbl env (Impl.step tbl env (Impl.run tbl env Impl.init p).1 (.edit m a)).1 (.evalCur d v)).2.obs =
      .mask ((Spec.editExpr m x (Spec.run env {} p).1.cur).denote env d v) := by
  have r := run_sim tbl hf env p Impl.init {} (init_sim env)
  have s1 := step_sim tbl hf env _ _ r.sim (.edit m a)
  rw [(step_sim tbl hf env _ _ s1.sim (.evalCur d v)).obs]
  simp only [Spec.step, hx]

/-- **Shape.**  If every elementary mask on dataset `d` under view `v` has shape `S` (and `N`
elements), so has every mask the implementation model returns for `(d, v)` after any program. -/
theorem shape_of_mask (tbl : ClassTable) (hf : tbl.Faithful) (env : Env) (d : DataId) (v : View)
    (S : List Nat) (N : Nat)
    (hl : ∀ c m, env.leaf c d v = .ok m → m.shape = S ∧ m.bits.length = N)
    (p : List Op) (q : Op) (hq : (∃ a f, q = .eval a d v f) ∨ q = .evalCur d v) (m : Mask)
    (hm : (Impl.step tbl env (Impl.run tbl env Impl.init p).1 q).2.obs = .mask (.ok m)) :
    m.shape = S ∧ m.bits.length = N := by
  have r := run_sim tbl hf env p Impl.init {} (init_sim env)
  rw [(step_sim tbl hf env _ _ r.sim q).obs] at hm
  rcases hq with ⟨a, f, rfl⟩ | rfl
  · simp only [Spec.step] at hm
    cases hx : (Spec.run env {} p).1.vars[a]? with
    | none => rw [hx] at hm; cases hm
    | some x =>
      rw [hx] at hm
      simp only [Obs.mask.injEq] at hm
      exact denote_shaped hl x m hm
  · simp only [Spec.step, Obs.mask.injEq] at hm
    exact denote_shaped hl _ m hm

/-! ## Non-vacuity: the hypotheses are satisfiable by non-trivial values -/

example : (Spec.run f7Env {} f7Prog).2 =
    [.none, .none, .none, .mask (.ok ⟨[3], [true, false, false]⟩)] := by decide

example : (Impl.run classTable f7Env Impl.init demoProg).2.map (·.obs) =
    (Spec.run f7Env {} demoProg).2 := by decide

example : ((Impl.run classTable f7Env Impl.init demoProg).2.map (·.obs)).getLast? =
    some (.mask (.ok ⟨[3], [true, true, false]⟩)) := by decide

/-! ## F7 — the pinned tree (no `RoiSubsetStateNd.copy`, no `ParsedSubsetState.copy`) -/

/-- The pinned class table is *not* faithful … -/
theorem pinnedTable_not_faithful : ¬ pinnedTable.Faithful := by
  intro h; exact h .roiNd (by decide)

/-- … and the faithfulness hypothesis of `run_refines` cannot be dropped: on the pinned table
`RoiSubsetStateNd(...) & (x > 0)` evaluates to the empty mask instead of the conjunction
(DESIGN §7-F7; reproduced on the real code by the `F7` replay case). -/
theorem pinned_roiNd_counterexample :
    (Impl.run pinnedTable f7Env Impl.init f7Prog).2.map (·.obs) ≠ (Spec.run f7Env {} f7Prog).2 := by
  decide

end GlueVerif.C01
