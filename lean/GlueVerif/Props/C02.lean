import GlueVerif.Model.C02Serial
import GlueVerif.Lemmas.C02Table
import GlueVerif.Lemmas.C02Total
import GlueVerif.Lemmas.C02LoadLate
import GlueVerif.Lemmas.C02LoadCb
import GlueVerif.Lemmas.C02Records
import GlueVerif.Generated.C02Registry
/-!
# C02 — a saved session restores to an observationally equivalent session

Part A: theorems about the executable model of `glue/core/state.py` (`Model/C02Serial.lean`):
names, the `st__` prefix, and the round trip `unserialize ∘ serialize`.
Part B: obligations over the dispatch table generated from the tree under test
(`Generated/C02Registry.lean`, rewritten by `harness/translate/c02.py` on every run).
-/
namespace GlueVerif.C02
open GlueVerif.C02.Gen

/-! ## Part A — the framework -/

/-- **names_injective.**  Whatever the labels of the objects are (equal labels, labels that look like
disambiguated names such as `a_0`, labels equal to `__main__`, empty labels …), after `serialize`
every object has exactly one name and distinct objects have distinct names. -/
theorem names_injective (h : Heap) (main : Nat) (st : SState) (T : Table)
    (hs : serialize h main = .ok (st, T)) :
    (∀ o n n', (o, n) ∈ st.reg → (o, n') ∈ st.reg → n = n') ∧
    (∀ o o' n, (o, n) ∈ st.reg → (o', n) ∈ st.reg → o = o') :=
  ⟨fun _ _ _ h1 h2 => (serialize_regOk h main hs).name_unique h1 h2,
   fun _ _ _ h1 h2 => (serialize_regOk h main hs).obj_unique h1 h2⟩

/-- `_disambiguate` always terminates with an unused name that extends the label (pigeonhole over the
`|registry| + 1` candidates `label_0 … label_n`; `"%s_%i"` is injective in `i`). -/
theorem disambiguate_total_fresh (reg : Reg) (label : Str) :
    disambiguate reg label ∉ reg.map Prod.snd ∧ label <+: disambiguate reg label :=
  ⟨disambiguate_fresh reg label, (disambiguate_spec reg label).2⟩

/-- **string_prefix_safe** (for the code repaired by fix F5c).  No object name can be read as a string
literal, and every string written by `id`/`do` reads back as exactly that string: a reference and
a string literal can never be confused by `GlueUnSerializer.object`. -/
theorem string_prefix_safe (h : Heap) (main : Nat) (st : SState) (T : Table)
    (hs : serialize h main = .ok (st, T)) :
    (∀ o n, (o, n) ∈ st.reg → isLiteralStr n = false) ∧
    (∀ s : Str, isLiteralStr (stPrefix ++ s) = true ∧ (stPrefix ++ s).drop 4 = s) :=
  ⟨fun o n hm => (serialize_regOk h main hs).notLiteral (o, n) hm, literal_roundtrip⟩

/-- Witness for the code before the fix: the label `st__foo` is used as a name and reads as the
literal `foo`; and two objects labelled `st_` give the second one the name `st__0`, which reads as
the literal `0` (confirmed on the unrepaired tree: the session loads *silently* with the string
`'0'` in place of the object). -/
theorem old_label_reads_as_literal :
    isLiteralStr (oldLabel [] ['s', 't', '_', '_', 'f', 'o', 'o']) = true ∧
    oldLabel [(1, ['s', 't', '_'])] ['s', 't', '_'] = ['s', 't', '_', '_', '0'] ∧
    isLiteralStr (oldLabel [(1, ['s', 't', '_'])] ['s', 't', '_']) = true ∧
    isLiteralStr (safeLabel [(1, ['s', 't', '_'])] ['s', 't', '_']) = false := by
  decide

/-- **roundtrip_framework** (acyclic graphs with arbitrary sharing of named objects; inlined records;
plain loaders).  For every heap whose references stay inside the heap, whose classes have field-faithful
pairs with plain (non-generator, callback-free) loaders, whose inlined (`context.do`) objects form a
forest below the named ones (`inlineForestBy idep`: every inline edge strictly decreases `idep ≤ |heap|`,
an inlined object is inlined exactly once, never referred to by name and not `main` — how glue uses
`do`: styles, arrays, slices, coordinates inside their owners), and whose graph (named and inline
edges) is acyclic (`rank` strictly decreases along every edge): `serialize` succeeds, and
un-serializing its output succeeds for every sufficient recursion depth and satisfies the Spec
`specRoundTrip` — every registered name is restored, distinct names are distinct restored objects
(sharing is neither lost nor invented), and every restored object has the class, literals, strings,
— by name — the references, and — structurally, to any depth — the inlined records of the object that
was saved under that name.

(The proof does not use "inlined exactly once / never by name": on other graphs the trip also
satisfies the Spec, but there the Spec's structural comparison of inlined objects no longer means
isomorphism — python loses the sharing — so they are deliberately outside the statement.) -/
theorem roundtrip_framework (h : Heap) (main : Nat) (rank idep : Nat → Nat)
    (hwf : wellFormed h main = true) (hin : inlineForestBy idep h main = true) (hearly : allEarly h = true)
    (hacyc : acyclicBy rank h = true) :
    ∃ st T, serialize h main = .ok (st, T) ∧
      ∀ fuel, rank main + 1 < fuel →
        ∃ ls i, unserialize T fuel = (ls, .ok (.ref i)) ∧ specRoundTrip h st.reg ls = true := by
  obtain ⟨hm, hw⟩ := wellFormed_iff h main hwf
  have F := inlineForestBy_iff idep h main hin
  obtain ⟨st, T, hs⟩ := serialize_total h main hm hw (fun o ob hob f hf p hp => (F.edge o ob hob f hf p hp).1) F.depth
  exact ⟨st, T, hs, fun fuel hf =>
    roundtrip_acyclic_core rank (allEarly_iff h hearly) (acyclicBy_iff rank h hacyc) hs fuel hf⟩

/-- **roundtrip_framework with cycles** (generator loaders = two-phase construction; inlined records).
Classes may read fields after their loader's `yield` (`late`): the object is registered first and
completed afterwards, which is what lets `GlueUnSerializer` load cyclic graphs (glue's Data ↔
GroupedSubset ↔ SubsetGroup).  Hypotheses: `lateCyclesBy rank h` — early edges (named or inline)
strictly decrease `rank`, late edges do not increase it, i.e. every cycle consists of late edges only —
and `inlineForestBy idep h main` as above (the class of an inlined object has a plain loader; an
inlined record may sit in an early or in a late field of its owner).  Then `serialize` succeeds and
un-serializing its output succeeds for every recursion depth above
`(registered names + 1) * (|heap| + 1)` (one level per name, times the inline nesting between two
names) and satisfies `specRoundTrip`: same shape, literals, strings, sharing, cycles and inlined records. -/
theorem roundtrip_framework_cycles (h : Heap) (main : Nat) (rank idep : Nat → Nat)
    (hwf : wellFormed h main = true) (hin : inlineForestBy idep h main = true) (hcb : noCb h = true)
    (hcyc : lateCyclesBy rank h = true) :
    ∃ st T, serialize h main = .ok (st, T) ∧
      ∀ fuel, (st.reg.length + 1) * (h.length + 1) < fuel →
        ∃ ls i, unserialize T fuel = (ls, .ok (.ref i)) ∧ specRoundTrip h st.reg ls = true := by
  obtain ⟨hm, hw⟩ := wellFormed_iff h main hwf
  have F := inlineForestBy_iff idep h main hin
  have hedge : ∀ (o : Nat) (ob : Obj), h[o]? = some ob → ∀ f ∈ ob.fields, ∀ p, f.val = Val.own p → idep p < idep o :=
    fun o ob hob f hf p hp => (F.edge o ob hob f hf p hp).1
  obtain ⟨st, T, hs⟩ := serialize_total h main hm hw hedge F.depth
  obtain ⟨hE, hL⟩ := lateCyclesBy_iff rank h hcyc
  exact ⟨st, T, hs, fun fuel hf =>
    roundtrip_late_core rank idep (noCb_phases h hcb) hE hL F.depth hedge
      (fun o ob hob f hf p hp obp hobp => (F.inl o ob hob f hf p hp obp hobp).1) hs fuel hf⟩

/-- **roundtrip_framework with cycles, deferred callbacks and inlined records** — all mechanisms of
`GlueSerializer.id/do` and `GlueUnSerializer.object`: name registry and inlined records, memo table,
generator loaders and `__setgluestate_callback__` (for the `_try_callbacks` repaired by fix F5i: nothing
is tried while an object is under construction).  Hypotheses (decidable): inlined objects form a forest
of plain classes and are never read in a callback (`inlineForestBy`); no class has both post-`yield` and
callback fields (`noGenCb`: python never registers the callback of a generator loader); `main`'s loader
is a plain function (`mainPlain`; glue: `DataCollection`, `Application`); early edges strictly decrease
`rank`, late edges do not increase it, callback edges are unconstrained (`cyclesBy` — cycles may run
through late and callback edges); every object hangs below `main` through non-callback edges
(`coveredBy dist`; glue: `SliceSubsetState.reference_data` is a dataset of the collection).  Then
`serialize` succeeds, loading succeeds, every callback completes by a memo-table hit once `main` is
restored, and the Spec holds: nothing is left pending, shape / literals / strings / sharing / cycles /
inlined records are preserved. -/
theorem roundtrip_framework_callbacks (h : Heap) (main : Nat) (rank dist idep : Nat → Nat)
    (hwf : wellFormed h main = true) (hin : inlineForestBy idep h main = true) (hgc : noGenCb h = true)
    (hmp : mainPlain h main = true) (hcyc : cyclesBy rank h = true) (hcov : coveredBy dist h main = true) :
    ∃ st T, serialize h main = .ok (st, T) ∧
      ∀ fuel, (st.reg.length + 1) * (h.length + 1) + 1 < fuel →
        ∃ ls i, unserialize T fuel = (ls, .ok (.ref i)) ∧ specRoundTrip h st.reg ls = true := by
  obtain ⟨hm, hw⟩ := wellFormed_iff h main hwf
  have F := inlineForestBy_iff idep h main hin
  obtain ⟨st, T, hs⟩ := serialize_total h main hm hw (fun o ob hob f hf p hp => (F.edge o ob hob f hf p hp).1) F.depth
  obtain ⟨hE, hL⟩ := cyclesBy_iff rank h hcyc
  exact ⟨st, T, hs, fun fuel hf =>
    roundtrip_cb_core rank idep dist (noGenCb_iff h hgc) hE hL (mainPlain_iff h main hmp)
      (coveredBy_iff dist h main hcov) F.depth F.edge F.inl hs fuel hf⟩

/-- The hypotheses are satisfiable by a non-trivial graph: a diamond with a shared leaf, clashing and
literal-looking labels (main → a, b; a → leaf; b → leaf, a), an inlined record below `a` that itself
inlines another one and refers to the shared leaf by name. -/
def demoHeap : Heap := [
  { cls := 0, label := ['m'], fields := [⟨.early, .ref 1⟩, ⟨.early, .ref 2⟩, ⟨.early, .str ['s', 't', '_', '_', 'x']⟩] },
  { cls := 1, label := ['s', 't', '_'], fields := [⟨.early, .ref 3⟩, ⟨.early, .lit 7⟩, ⟨.early, .own 4⟩] },
  { cls := 1, label := ['s', 't', '_'], fields := [⟨.early, .ref 3⟩, ⟨.early, .ref 1⟩] },
  { cls := 2, label := ['s', 't', '_', '_', '0'], fields := [] },
  { cls := 3, label := ['s'], fields := [⟨.early, .own 5⟩, ⟨.early, .ref 3⟩] },
  { cls := 4, label := ['s'], fields := [⟨.early, .lit 1⟩] } ]

example : wellFormed demoHeap 0 = true ∧ inlineForestBy (ownHeight demoHeap 7) demoHeap 0 = true ∧
    allEarly demoHeap = true ∧ acyclicBy (height demoHeap 7) demoHeap = true := by decide +kernel

example : (match serialize demoHeap 0 with
    | .ok (st, _) => st.reg.map (·.2)
    | .error _ => []) =
    [mainName, ['s', 't', '_'], ['_', 's', 't', '_', '_', '0'], ['_', 's', 't', '_', '_', '0', '_', '0']] := by decide

/-- A cyclic graph inside the hypothesis of `roundtrip_framework_cycles`: main → a (early),
a → b (late), b → a (late), b → b (late); `a` inlines a record in a late field, which refers back to `b`. -/
def demoCycle : Heap := [
  { cls := 0, label := ['m'], fields := [⟨.early, .ref 1⟩] },
  { cls := 1, label := ['a'], fields := [⟨.late, .ref 2⟩, ⟨.early, .lit 3⟩, ⟨.late, .own 3⟩] },
  { cls := 1, label := ['a'], fields := [⟨.late, .ref 1⟩, ⟨.late, .ref 2⟩] },
  { cls := 2, label := ['s'], fields := [⟨.early, .lit 5⟩] } ]

example : wellFormed demoCycle 0 = true ∧ inlineForestBy (ownHeight demoCycle 5) demoCycle 0 = true ∧
    noCb demoCycle = true ∧ lateCyclesBy (candidateRank demoCycle) demoCycle = true := by decide

/-- Inside the hypothesis of `roundtrip_framework_callbacks`: the shape of a glue session with a
slice selection — main → d (early), main → s (early), d → s (late), s → d (late) is the Data ↔ subset cycle,
s → d by callback is `SliceSubsetState.reference_data`, a callback edge back to `main`, and the slices
of `s` as an inlined record (`context.do(self.slices)`: a tuple that inlines a slice). -/
def demoCallbacks : Heap := [
  { cls := 0, label := ['m'], fields := [⟨.early, .ref 1⟩, ⟨.early, .ref 3⟩] },
  { cls := 1, label := ['d'], fields := [⟨.late, .ref 2⟩, ⟨.early, .lit 3⟩] },
  { cls := 2, label := ['d'], fields := [⟨.late, .ref 1⟩] },
  { cls := 3, label := ['d'], fields := [⟨.cb, .ref 1⟩, ⟨.early, .own 4⟩, ⟨.cb, .ref 0⟩] },
  { cls := 4, label := ['t'], fields := [⟨.early, .own 5⟩] },
  { cls := 5, label := ['s'], fields := [⟨.early, .lit 0⟩, ⟨.early, .lit 2⟩] } ]

example : wellFormed demoCallbacks 0 = true ∧ inlineForestBy (ownHeight demoCallbacks 7) demoCallbacks 0 = true ∧
    noGenCb demoCallbacks = true ∧
    mainPlain demoCallbacks 0 = true ∧ cyclesBy (candidateRank demoCallbacks) demoCallbacks = true ∧
    coveredBy (candidateDist demoCallbacks 0) demoCallbacks 0 = true := by decide +kernel

/-! ## Part A' — the per-class pairs -/

open Cls in
/-- **Every pair of the table is field-faithful** (`Model/C02Records.lean`: 44 classes — the ROIs incl.
`theta`, the subset states incl. the operator table, the composite states re-created from `_type`,
`AffineCoordinates`, the link helper records, the built-in containers that occur inlined): the transcribed
loader, dispatched on `_type`, applied to what the transcribed saver returns rebuilds an object of the
same class with exactly the same fields — for all field values (the only side condition: an
`InequalitySubsetState` holds a comparison operator, which its constructor enforces).  The
transcriptions are tied to the code by the `rec` family. -/
theorem classes_field_faithful (b : Body) (hwf : b.wf = true) : Body.decode b.encode = some b :=
  Body.decode_encode b hwf

open Cls in
/-- **roundtrip_classes.**  A session graph all of whose objects are instances of classes of the table
(`TGraph`: per object its label, class and typed fields; `erase g` is the framework heap in which every
object is the list of values its *real saver* hands to `context.id` / `context.do`, read off the
transcribed record): under the graph-shape hypotheses of `roundtrip_framework_callbacks` — which for
these classes reduce to: references stay inside the graph, inlined objects form a forest, early
edges decrease `rank`, everything hangs below `main` by non-callback edges (no class of the table has a
generator loader: proved, not assumed) — saving succeeds, loading succeeds, the Spec holds for the
context-mediated values (each comes back: literals and strings unchanged, references by name, inlined
records structurally), and every object's *own* loader, given back what its saver handed out, rebuilds
exactly the saved typed fields.  The framework hypothesis "each class's pair is field-faithful" is
thereby discharged for the table: the round trip is the identity on the observable fields. -/
theorem roundtrip_classes (g : TGraph) (main : Nat) (rank dist idep : Nat → Nat)
    (hcls : ∀ t ∈ g, t.body.wf = true)
    (hwf : wellFormed (erase g) main = true) (hin : inlineForestBy idep (erase g) main = true)
    (hcyc : cyclesBy rank (erase g) = true) (hcov : coveredBy dist (erase g) main = true) :
    ∃ st T, serialize (erase g) main = .ok (st, T) ∧
      ∀ fuel, (st.reg.length + 1) * (g.length + 1) + 1 < fuel →
        ∃ ls i, unserialize T fuel = (ls, .ok (.ref i)) ∧ specRoundTrip (erase g) st.reg ls = true ∧
          ∀ (o : Nat) (t : TObj), g[o]? = some t →
            (erase g)[o]? = some ({ cls := t.body.tag.idx, label := t.label, fields := t.body.fields } : Obj) ∧
            Body.decode t.body.encode = some t.body := by
  obtain ⟨st, T, hs, hl⟩ := roundtrip_framework_callbacks (erase g) main rank dist idep hwf hin
    (erase_noGenCb g) (erase_mainPlain g main) hcyc hcov
  refine ⟨st, T, hs, fun fuel hf => ?_⟩
  obtain ⟨ls, i, h1, h2⟩ := hl fuel (by rw [erase_length]; exact hf)
  exact ⟨ls, i, h1, h2, fun o t hot =>
    ⟨erase_get hot, Body.decode_encode t.body (hcls t (List.mem_of_getElem? hot))⟩⟩

/-- The hypotheses of `roundtrip_classes` are satisfiable by a non-trivial session fragment:
`main` = an `AndState` of an `InvertState` of a `RangeSubsetState` and a `RoiSubsetState` whose ROI is a rotated
rectangle; a `SliceSubsetState` (its slices inlined as a tuple of a slice, its reference data resolved by
callback) in a `MultiOrState`; the attributes are shared (objects 9, 10: stand-ins of class `list`). -/
def demoTyped : Cls.TGraph := [
  { label := ['m'], body := .multiOr ⟨[.obj 1, .obj 6]⟩ },
  { label := ['A', 'n', 'd', 'S', 't', 'a', 't', 'e'], body := .composite ⟨.and_, .obj 2, .obj 4⟩ },
  { label := ['I', 'n', 'v'], body := .composite ⟨.invert, .obj 3, .lit Cls.litNone⟩ },
  { label := ['R'], body := .rangeSt ⟨.lit 7, .lit 9, .obj 9⟩ },
  { label := ['R'], body := .roiSt ⟨.obj 9, .obj 10, .obj 5, .lit Cls.litNone⟩ },
  { label := ['s', 't', '_', '_'], body := .rect ⟨2, 3, 4, 5, 6⟩ },
  { label := ['S'], body := .sliceSt ⟨.obj 7, .obj 10⟩ },
  { label := ['t'], body := .pyTuple ⟨[.obj 8]⟩ },
  { label := ['s'], body := .pySlice ⟨0, 2, Cls.litNone⟩ },
  { label := ['x'], body := .pyList ⟨[]⟩ },
  { label := ['x'], body := .pyList ⟨[.lit 3]⟩ } ]

example : (∀ t ∈ demoTyped, t.body.wf = true) ∧
    wellFormed (Cls.erase demoTyped) 0 = true ∧
    inlineForestBy (ownHeight (Cls.erase demoTyped) 12) (Cls.erase demoTyped) 0 = true ∧
    cyclesBy (candidateRank (Cls.erase demoTyped)) (Cls.erase demoTyped) = true ∧
    coveredBy (candidateDist (Cls.erase demoTyped) 0) (Cls.erase demoTyped) 0 = true := by
  decide +kernel

/-! ## Part B — the generated dispatch table -/


/-- The ids the translator attached to the declared lists denote exactly the names declared in the
model (`declaredFaithful`, `declaredLoud`), and every declared name exists in the tree. -/
theorem declared_ids_denote_declared_names :
    faithfulIds.map (fun i => names.getD i "") = declaredFaithful ∧ faithfulMissing = [] ∧
    loudIds.map (fun i => names.getD i "") = declaredLoud ∧ loudMissing = [] := by
  decide +kernel

/-- The Lean dispatch model (`selectSaver` / `selectLoader`: `__gluestate__` found by attribute
lookup first, then the registry along the MRO) selects, for every class in scope, the very function
owner that `GlueSerializer._dispatch` / `GlueUnSerializer._dispatch` returned on the real tree. -/
theorem dispatch_matches_observed :
    observed.all (fun e =>
      match rowOf rows e.1 with
      | some r => selectSaver rows r == e.2.1 && selectLoader rows r == e.2.2
      | none => false) = true := by
  decide +kernel

theorem table_offenders_nil : offenders rows faithfulIds loudIds = [] := by
  decide +kernel

/-- **no_silent_fallthrough.**  Every concrete class of the tree that can occur in a session (selection
states, ROIs, components, coordinates, links, link helpers, pre-transforms, …) and is not declared to
refuse loudly at save time either has no saver at all (`GlueSerializeError` at save time), or its
saver and its loader are defined by the *same* class, and that class is the class itself or a base
whose pair is declared subclass-faithful.  A subclass that silently falls through to the saver of a
base that re-creates the *base* (e.g. the empty `SubsetState`) makes this false. -/
theorem no_silent_fallthrough :
    ∀ r ∈ rows, r.concrete = true → r.id ∉ loudIds →
      selectSaver rows r = none ∨
        ∃ s, selectSaver rows r = some s ∧ selectLoader rows r = some s ∧ (s = r.id ∨ s ∈ faithfulIds) := by
  intro r hr hc hl
  exact rowOk_sound rows faithfulIds loudIds r
    ((offenders_nil_iff rows faithfulIds loudIds).mp table_offenders_nil r hr) hc hl

end GlueVerif.C02
