import GlueVerif.Model.C02Serial
import GlueVerif.Lemmas.C02Table
import GlueVerif.Generated.C02Registry
/-!
# C02 — a saved session restores to an observationally equivalent session

Part B: obligations over the dispatch table generated from the tree under test
(`Generated/C02Registry.lean`, rewritten by `harness/translate/c02.py` on every run).
-/
namespace GlueVerif.C02
open GlueVerif.C02.Gen

/-! ## Generated table -/

/-- The ids the translator attached to the declared lists denote exactly the names declared in the
model (`declaredFaithful`, `declaredLoud`), and every declared name exists in the tree. -/
theorem declared_ids_denote_declared_names :
    faithfulIds.map (fun i => names.getD i "") = declaredFaithful ∧ faithfulMissing = [] ∧
    loudIds.map (fun i => names.getD i "") = declaredLoud ∧ loudMissing = [] := by
  decide +kernel

/-- The Lean dispatch model (`selectSaver` / `selectLoader`: `__gluestate__` found by attribute
lookup first, then the registry along the MRO) selects, for every class in scope, the very function
owner that `GlueSerializer._dispatch` / `GlueUnSerializer._dispatch` returned on the real tree. -/
theorem dispatch_matches_observed :
    observed.all (fun e =>
      match rowOf rows e.1 with
      | some r => selectSaver rows r == e.2.1 && selectLoader rows r == e.2.2
      | none => false) = true := by
  decide +kernel

theorem table_offenders_nil : offenders rows faithfulIds loudIds = [] := by
  decide +kernel

/-- **no_silent_fallthrough.**  Every concrete class of the tree that can occur in a session (selection
states, ROIs, components, coordinates, links, link helpers, pre-transforms, …) and is not declared to
refuse loudly at save time either has no saver at all (`GlueSerializeError` at save time), or its
saver and its loader are defined by the *same* class, and that class is the class itself or a base
whose pair is declared subclass-faithful.  A subclass that silently falls through to the saver of a
base that re-creates the *base* (e.g. the empty `SubsetState`) makes this false. -/
theorem no_silent_fallthrough :
    ∀ r ∈ rows, r.concrete = true → r.id ∉ loudIds →
      selectSaver rows r = none ∨
        ∃ s, selectSaver rows r = some s ∧ selectLoader rows r = some s ∧ (s = r.id ∨ s ∈ faithfulIds) := by
  intro r hr hc hl
  exact rowOk_sound rows faithfulIds loudIds r
    ((offenders_nil_iff rows faithfulIds loudIds).mp table_offenders_nil r hr) hc hl

end GlueVerif.C02
