import GlueVerif.Model.C18Viewer
namespace GlueVerif.C18
theorem placeholder : True := trivial
end GlueVerif.C18
