import GlueVerif.Lemmas.C18ViewerCol
import GlueVerif.Lemmas.C18ComboHist
/-!
# C18 — viewers and attribute pickers mirror the collection

Property theorems only; helper lemmas live in `GlueVerif.Lemmas.C18*`.  Every statement is about the
executable models in `Model/C18Viewer.lean` and `Model/C18Combo.lean` that the driver
`Drivers/C18.lean` runs against the real `Viewer` / combo-helper / `ImageViewerState` objects on
every check; `specOk`, `comboOk`, `dcomboOk`, `selOk`, `axesOk` are the very predicates the driver
evaluates on the *implementation's* snapshots.

Part 1 (viewer): `VState` = the C06 collection + `viewer.layers` (`arts`) + `viewer.state.layers`
(`slayers`) + the ghost `want` (what the client asked for: datasets `given`, explicitly removed
subset layers `hidden`, explicitly added subset layers of datasets that are not given `extra`).
Operations `VOp`: the four atomic collection operations (`append`, `remove`, `new_subset_group`,
`remove_subset_group`, executed by the C06 model, the viewer reacting to the messages), `add_data`,
`add_subset`, `remove_data`, `remove_subset`, `remove_layer`, `state.layers.remove`, save + restore.
-/
namespace GlueVerif.C18
open GlueVerif.Collection GlueVerif.C18Viewer GlueVerif.C18Combo
open GlueVerif.Lemmas.C18Viewer (VInv)

/-! ## Part 1 — the viewer's layers -/

/-- A fresh viewer on a fresh collection satisfies the invariant. -/
theorem viewer_inv_init (n colors : Nat) : VInv (C18Viewer.init n colors) :=
  Lemmas.C18Viewer.inv_init n colors

/-- **Every operation preserves the invariant**, from any state that satisfies it, whatever the
arguments (datasets in or out of the collection, live or removed groups, layers that are shown or
not). -/
theorem viewer_step_inv (v : VState) (op : VOp) (h : VInv v) : VInv (C18Viewer.step v op) :=
  Lemmas.C18Viewer.inv_step v op h

/-- **The invariant holds after every history** of collection and viewer operations, of any length
(induction over the operation list). -/
theorem viewer_reachable_inv (n colors : Nat) (ops : List VOp) :
    VInv (C18Viewer.run (C18Viewer.init n colors) ops) :=
  Lemmas.C18Viewer.inv_run ops _ (Lemmas.C18Viewer.inv_init n colors)

/-- **C18 for the viewer model**: after every history the property predicate holds — `viewer.layers`
and `viewer.state.layers` are the same objects in the same order, no layer twice, every layer is
for a dataset / subset that is still in the collection and was asked for, every given dataset in
the collection has its layer and one layer per current subset (unless the client removed that
subset layer himself), every explicitly added subset layer is there.  (The `implok` column of the
driver.) -/
theorem viewer_reachable_spec (n colors : Nat) (ops : List VOp) :
    specOkV (C18Viewer.run (C18Viewer.init n colors) ops) = true :=
  Lemmas.C18Viewer.specOk_of_inv _ (viewer_reachable_inv n colors ops)

/-- Readable form: in every reachable state a layer is shown **iff** its dataset / subset is current
and it is wanted; the two lists agree; no layer is duplicated. -/
theorem viewer_mirrors_collection (n colors : Nat) (ops : List VOp) :
    let v := C18Viewer.run (C18Viewer.init n colors) ops
    v.slayers = v.arts ∧ (v.arts.map (·.layer)).Nodup ∧
    ∀ L, hasLayer v.arts L = true ↔
      (currentLayer v.col.datasets v.col.dsubs L = true ∧ wantedLayer v.want L = true) := by
  intro v
  have h := viewer_reachable_inv n colors ops
  exact ⟨h.good.synced, h.good.nodupL, h.shown⟩

/-- The plain statement for a client that only hands datasets to the viewer and takes them back
(no subset-level requests: `hidden` and `extra` empty): the layers are exactly the given datasets
that are still in the collection and all their current subsets. -/
theorem viewer_layers_plain (v : VState) (h : VInv v) (hh : v.want.hidden = []) (he : v.want.extra = []) :
    (∀ d, hasLayer v.arts (.data d) = true ↔ (d ∈ v.col.datasets ∧ d ∈ v.want.given)) ∧
    (∀ s, hasLayer v.arts (.sub s) = true ↔ ∃ d, d ∈ v.want.given ∧ d ∈ v.col.datasets ∧ s ∈ v.col.dsubs d) := by
  have hc := Lemmas.C18Viewer.colOk_of_inv h.col
  refine ⟨Lemmas.C18Viewer.shown_data h, ?_⟩
  intro s
  rw [Lemmas.C18Viewer.shown_sub h, hh, he, Lemmas.C18Viewer.attached_iff hc, Lemmas.C18Viewer.givenSub_iff]
  constructor
  · rintro ⟨⟨d, hd, hs⟩, hw⟩
    rcases hw with ⟨⟨d', hd', hg⟩, _⟩ | hx
    · have := hc.subData d s hs
      rw [hd'] at this
      exact ⟨d, (Option.some.inj this) ▸ hg, hd, hs⟩
    · simp at hx
  · rintro ⟨d, hg, hd, hs⟩
    exact ⟨⟨d, hd, hs⟩, Or.inl ⟨⟨d, hc.subData d s hs, hg⟩, by simp⟩⟩

/-- **Save + restore preserves the layer list**: in every reachable state the restored viewer has
the same layers and layer states, in the same order, over the same collection (only the command
stack of the collection is emptied), and the invariant keeps holding afterwards (it is one of the
operations of `viewer_step_inv`). -/
theorem restore_layers (n colors : Nat) (ops : List VOp) :
    let v := C18Viewer.run (C18Viewer.init n colors) ops
    restoreV v = { v with col := { v.col with done := [], undone := [] }, err := false } :=
  Lemmas.C18Viewer.restoreV_eq _ (viewer_reachable_inv n colors ops)

/-- **… also for a viewer class that refuses some requests** by raising before it touches anything
(`stepR`; the image viewer refuses a 1-d dataset or subset while it has no layer — `imageRefuses` —,
but the statement holds for *any* refusal rule): after every history, refused requests included, the
property predicate holds and save + restore is the identity on both layer lists. -/
theorem viewer_refusing_spec (refuses : VState → VOp → Bool) (n colors : Nat) (ops : List VOp) :
    let v := runR refuses (C18Viewer.init n colors) ops
    VInv v ∧ specOkV v = true ∧
    restoreV v = { v with col := { v.col with done := [], undone := [] }, err := false } := by
  have h : ∀ (ops : List VOp) (v : VState), VInv v → VInv (runR refuses v ops) := by
    intro ops
    induction ops with
    | nil => intro v hv; exact hv
    | cons op ops ih =>
      intro v hv
      refine ih _ ?_
      unfold stepR
      split
      · exact Lemmas.C18Viewer.vinv_err hv true
      · exact Lemmas.C18Viewer.inv_step v op hv
  have hv := h ops _ (Lemmas.C18Viewer.inv_init n colors)
  exact ⟨hv, Lemmas.C18Viewer.specOk_of_inv _ hv, Lemmas.C18Viewer.restoreV_eq _ hv⟩

/-! ### the invariant is not vacuous -/

/-- a group removed while the viewer shows the dataset, a dataset removed and appended again, a
data layer removed through `state.layers`: the subset layer of dataset 1 stays as an explicit one,
new groups reach only dataset 0. -/
example :
    let v := C18Viewer.run (C18Viewer.init 2 7)
      [.col (.append 0), .col (.append 1), .col .newGroup, .addData 0, .addData 1, .col (.removeGroup 0),
       .col .newGroup, .col (.remove 0), .col (.append 0), .addData 0, .popState 1 none, .col .newGroup]
    v.arts.map (·.layer) = [.sub ⟨3, some 1, 1⟩, .data 0, .sub ⟨4, some 0, 1⟩, .sub ⟨6, some 0, 2⟩] ∧
    v.slayers = v.arts ∧ v.want.given = [0] ∧ v.want.extra = [⟨3, some 1, 1⟩] := by decide

example :
    let v := C18Viewer.run (C18Viewer.init 2 7)
      [.col (.append 0), .col .newGroup, .addSubset 0 0, .addData 0, .removeSubset 0 0, .restore, .col .newGroup]
    v.arts.map (·.layer) = [.data 0, .sub ⟨1, some 0, 1⟩] ∧ v.want.hidden = [⟨0, some 0, 0⟩] := by decide

/-! ## Part 2 — attribute pickers -/

/-- **`refresh` is sound and complete**: for all datasets and all flags, a component id is offered
iff it belongs to one of the relevant datasets and passes the kind filters. -/
theorem refresh_sound_complete (F : Flags) (ds : List DS) (c : Nat) :
    Choice.cid c ∈ refresh F ds ↔ ∃ d ∈ ds, offered F d c := by
  rw [← Lemmas.C18Combo.mem_cidsOf, Lemmas.C18Combo.cidsOf_refresh]
  simp only [List.mem_flatMap, Lemmas.C18Combo.mem_offeredCids]

/-- **the kind filter is a whitelist**: a main component passes iff its kind is one of the three
kinds that have a flag *and* that flag is on.  (`Kind.extended` stands for every kind without a flag.) -/
theorem kind_filter_whitelist (F : Flags) (k : Kind) :
    kindOk F k = true ↔ (k = .numerical ∧ F.numeric = true) ∨ (k = .datetime ∧ F.datetime = true) ∨
      (k = .categorical ∧ F.categorical = true) := by
  cases k <;> simp [kindOk]

/-- **a component whose kind has no filter flag is never offered**, for all datasets and all 128 flag
combinations: if `c` occurs in the relevant datasets only as a main component of kind `extended`
(the region column of a `RegionData`), no choice list contains it. -/
theorem unfiltered_kind_never_offered (F : Flags) (ds : List DS) (c : Nat)
    (hk : ∀ d ∈ ds, ∀ k, (c, k) ∈ d.main → k = .extended)
    (ho : ∀ d ∈ ds, c ∉ d.derived ∧ c ∉ d.pixel ∧ c ∉ d.world) :
    Choice.cid c ∉ refresh F ds := by
  rw [refresh_sound_complete]
  rintro ⟨d, hd, h⟩
  obtain ⟨h1, h2, h3⟩ := ho d hd
  rcases h with ⟨k, hm, hok⟩ | ⟨h, _⟩ | ⟨h, _⟩ | ⟨h, _⟩
  · rw [hk d hd k hm] at hok
    exact absurd hok (by simp [kindOk])
  · exact h1 h
  · exact h2 h
  · exact h3 h

/-- **component classes × flags**: for each of glue's component classes (plain, categorical,
datetime, derived, pixel / world coordinate, dask, extended) and each flag combination, a component
of that class is offered iff `classOk` says so — numeric ones with `numeric`, derived ones with
`numeric ∧ derived`, coordinates with `pixel_coord` / `world_coord`, extended ones never.  (What
family `kinds` checks on the real classes for all 128 combinations.) -/
theorem class_offered_iff (F : Flags) (cls : CompClass) (c : Nat) :
    Choice.cid c ∈ refresh F [classDS cls c] ↔ classOk F cls = true := by
  rw [refresh_sound_complete]
  cases cls <;> simp [classDS, CompClass.table, CompClass.kind, offered, classOk, kindOk]

/-- every class has a kind the model knows, and every kind is the kind of some class. -/
theorem kinds_covered :
    (∀ cls : CompClass, cls ∈ CompClass.all ∧ cls.kind ∈ Kind.all) ∧
    (∀ k : Kind, k ∈ Kind.all ∧ ∃ cls ∈ CompClass.all, cls.kind = k) := by
  refine ⟨fun cls => by cases cls <;> decide, fun k => ?_⟩
  cases k
  · exact ⟨by decide, .component, by decide, rfl⟩
  · exact ⟨by decide, .categorical, by decide, rfl⟩
  · exact ⟨by decide, .datetime, by decide, rfl⟩
  · exact ⟨by decide, .extended, by decide, rfl⟩

/-- **order**: the offered ids are, dataset by dataset, the main components that pass the filters,
then the derived ones, then pixel and world coordinates — nothing else, in exactly this order. -/
theorem refresh_order (F : Flags) (ds : List DS) : cidsOf (refresh F ds) = ds.flatMap (offeredCids F) :=
  Lemmas.C18Combo.cidsOf_refresh F ds

/-- **no duplicates**: if the datasets' ids are distinct, no id is offered twice. -/
theorem refresh_nodup (F : Flags) (ds : List DS) (h : (ds.flatMap allCids).Nodup) :
    (cidsOf (refresh F ds)).Nodup := by
  rw [Lemmas.C18Combo.cidsOf_refresh]
  exact (Lemmas.C18Combo.sublist_flatMap _ _ ds (Lemmas.C18Combo.offeredCids_sublist F)).nodup h

/-- the `None` entry is offered iff the `none` option is on. -/
theorem refresh_none (F : Flags) (ds : List DS) : Choice.none ∈ refresh F ds ↔ F.none = true :=
  Lemmas.C18Combo.none_mem_refresh F ds

/-- **whatever choice list a helper installs, echo leaves a valid selection**: one of the selectable
choices, or `None` when there is none. -/
theorem selection_valid_after_refresh (idx : Int) (cs : List Choice) (sel : Option Nat) :
    selOk cs (choicesUpdated idx cs sel) = true :=
  Lemmas.C18Combo.selOk_choicesUpdated idx cs sel

/-- **the selection is valid after any sequence of refreshes and explicit selections** (explicit
selections of a value that is not on offer raise and change nothing; the client does not clear the
selection while `None` is not on offer). -/
theorem selection_valid (p : Picker) (ops : List POp) (h : selOk p.choices p.sel = true)
    (ha : ∀ (pre : List POp) (op : POp) (post : List POp), ops = pre ++ op :: post →
      op.admissible (pre.foldl Picker.step p) = true) :
    selOk (ops.foldl Picker.step p).choices (ops.foldl Picker.step p).sel = true := by
  induction ops generalizing p with
  | nil => exact h
  | cons op ops ih =>
    simp only [List.foldl_cons]
    apply ih _ (Lemmas.C18Combo.selOk_step p op h (ha [] op ops rfl))
    intro pre op' post he
    have := ha (op :: pre) op' post (by rw [he]; rfl)
    simpa using this

/-- what a helper leaves behind after `refresh`, whatever was selected before: the choices of the
current datasets and a valid selection (this is the state of the viewers' own pickers after every
`_layers_changed`; family `vpick`). -/
theorem picker_after_refresh_ok (F : Flags) (ds : List DS) (idx : Int) (prev : Option Nat) :
    comboOk F ds (refresh F ds) (choicesUpdated idx (refresh F ds) prev) = true := by
  unfold comboOk
  rw [Bool.and_eq_true]
  exact ⟨beq_self_eq_true _, Lemmas.C18Combo.selOk_choicesUpdated idx _ prev⟩

/-- echo accepts an explicit `None` unconditionally: the one way a client can leave a picker without
a selection although attributes are on offer (not reachable through the helpers' own code). -/
theorem explicit_none_accepted :
    let p : Picker := ⟨0, [.cid 0, .cid 1], some 0⟩
    selOk p.choices p.sel = true ∧ selOk (p.step (.select none)).choices (p.step (.select none)).sel = false := by
  decide

/-- **a `ComponentIDComboHelper` mirrors its datasets after every history**, starting from datasets
with *arbitrary* component tables (`data`: any kinds incl. `extended`, any number of derived / pixel /
world components — `cinit`, `cinitT`, `cinitTH` are instances), for a helper built with the data
collection (`hasDc`, subscribed at construction) or without one (every viewer-state / layer-state
picker: subscribes lazily in `append_data`), of component additions (any kind), removals, renames,
reorders, id replacements on datasets that are, were or never were in the helper, helper operations
(`append_data`, `remove_data`, `clear`, `set_multiple_data` — emptying and refilling the helper any
number of times), collection operations, flag flips and selections, with hub delay blocks opened and
closed anywhere, in any order.  **At every moment** a helper that holds a dataset is subscribed to the
hub (`subOk`), and whenever no delay block is open the choices are exactly `refresh` of the datasets
*as they are now* and the selection is valid.  Proved for every release policy that keeps
"subscribed ⇔ hub reference set": the code that exists (`Release.never`, i.e. `crun`) and a helper that
unsubscribes when empty *and* resets `_hub` (`resetRef`); `keepRef` (seeded change C18c) is excluded —
`unsubscribe_without_reset_breaks`. -/
theorem combo_history_valid (r : Release) (hr : r.sound) (hasDc : Bool) (n nCid : Nat) (data : Nat → DS)
    (idx : Int) (ops : List C18Combo.COp)
    (ha : Lemmas.C18Combo.cAdmRunR r (cinitH hasDc n nCid data idx) ops) :
    let st := crunR r (cinitH hasDc n nCid data idx) ops
    subOk st.hdata st.sub = true ∧
    (st.depth = 0 → comboOk st.F (st.hdata.map st.data) st.pick.choices st.pick.sel = true) := by
  intro st
  have h := Lemmas.C18Combo.cinv_run r hr ops _ (Lemmas.C18Combo.cinv_initH hasDc n nCid data idx) ha
  refine ⟨?_, ?_⟩
  · unfold subOk
    by_cases he : st.hdata = []
    · rw [he]; rfl
    · have : st.sub = true := by rw [h.subs.eq]; exact h.subs.holds he
      rw [this]; exact Bool.or_true _
  · intro hd
    have hf : st.pick.choices = refresh st.F (st.hdata.map st.data) := by
      rcases h.fresh with hf | ⟨hp, _⟩
      · exact hf
      · have : st.depth > 0 := hp
        omega
    unfold comboOk
    rw [Bool.and_eq_true]
    exact ⟨by rw [← hf]; exact beq_self_eq_true _, h.sel⟩

/-- the statement for the code that exists, in the words of the driver (`cstep` / `crun`). -/
theorem combo_history_valid_as_coded (hasDc : Bool) (n nCid : Nat) (data : Nat → DS) (idx : Int)
    (ops : List C18Combo.COp) (ha : Lemmas.C18Combo.cAdmRun (cinitH hasDc n nCid data idx) ops) :
    let st := crun (cinitH hasDc n nCid data idx) ops
    subOk st.hdata st.sub = true ∧
    (st.depth = 0 → comboOk st.F (st.hdata.map st.data) st.pick.choices st.pick.sel = true) :=
  combo_history_valid .never (by intro h; cases h) hasDc n nCid data idx ops ha

/-- **unsubscribing when empty without resetting the hub reference breaks the picker** (seeded change
C18c, `Release.keepRef`): a helper without data collection is given dataset 0, emptied (through
`remove_data`, `clear` or `set_multiple_data([])`), given the dataset again — `append_data` sees
`self.hub is not None` and does not subscribe — and then a component is added / the selected one is
removed: no delay block is open, the helper holds the dataset, is not subscribed, offers a stale list
and (second history) still selects the removed component.  The same histories are fine for the code
that exists and for the policy that also resets `_hub`. -/
theorem unsubscribe_without_reset_breaks :
    let h1 : List C18Combo.COp := [.helperAppend 0, .helperRemove 0, .helperAppend 0, .addComp 0 .numerical]
    let h2 : List C18Combo.COp := [.helperAppend 0, .helperClear, .setMultiple [0], .select (some 2), .removeComp 0 0]
    let h3 : List C18Combo.COp := [.setMultiple [0, 1], .setMultiple [], .setMultiple [1], .delayOpen, .reorder 1, .delayClose]
    let bad := fun (h : List C18Combo.COp) =>
      let st := crunR .keepRef (cinitTH false [⟨[.categorical, .datetime, .numerical], 0, 1, 1⟩, ⟨[.numerical], 0, 2, 0⟩] 0) h
      st.depth = 0 ∧ st.hdata ≠ [] ∧ st.sub = false ∧ subOk st.hdata st.sub = false ∧
      comboOk st.F (st.hdata.map st.data) st.pick.choices st.pick.sel = false
    let good := fun (r : Release) (h : List C18Combo.COp) =>
      let st := crunR r (cinitTH false [⟨[.categorical, .datetime, .numerical], 0, 1, 1⟩, ⟨[.numerical], 0, 2, 0⟩] 0) h
      st.sub = true ∧ comboOk st.F (st.hdata.map st.data) st.pick.choices st.pick.sel = true
    bad h1 ∧ bad h2 ∧
    (crunR .keepRef (cinitTH false [⟨[.categorical, .datetime, .numerical], 0, 1, 1⟩, ⟨[.numerical], 0, 2, 0⟩] 0) h2).pick.sel = some 2 ∧
    good .never h1 ∧ good .never h2 ∧ good .never h3 ∧ good .resetRef h1 ∧ good .resetRef h2 ∧ good .resetRef h3 ∧
    -- with a data collection the helper is never released: the policy makes no difference
    (let st := crunR .keepRef (cinitTH true [⟨[.categorical, .datetime, .numerical], 0, 1, 1⟩] 0) h1
     st.sub = true ∧ comboOk st.F (st.hdata.map st.data) st.pick.choices st.pick.sel = true) := by
  decide

/-- **dataset pickers mirror the collection / the curated list** after every history (append /
remove of datasets, helper operations, relabelling, selections, delay blocks): outside a delay
block the choices are exactly the relevant datasets in order, and the selection is valid. -/
theorem dcombo_history_valid (n : Nat) (auto : Bool) (idx : Int) (inDc : List Nat) (ops : List DOp)
    (ha : Lemmas.C18Combo.dAdmRun (dinit n auto idx inDc) ops) :
    let st := drun (dinit n auto idx inDc) ops
    st.depth = 0 → dcomboOk (if st.auto then st.inDc else st.manual) st.pick.choices st.pick.sel = true := by
  intro st hd
  have h := Lemmas.C18Combo.dinv_run ops _ (Lemmas.C18Combo.dinv_init n auto idx inDc) ha
  have hf : st.pick.choices = (if st.auto then st.inDc else st.manual).map Choice.cid := by
    rcases h.fresh with hf | ⟨hp, _⟩
    · exact hf
    · have : st.depth > 0 := hp
      omega
  unfold dcomboOk
  rw [Bool.and_eq_true]
  exact ⟨by rw [← hf]; exact beq_self_eq_true _, h.sel⟩

/-- non-vacuity with a region dataset (`flux`, two centre columns, the region column; ids 0 = pixel,
1-3 numerical, 4 = extended): all kind flags on → the region column is not offered; the three
numerical columns removed → nothing left to offer although the region column is still there; the
region column first in the dataset → default index 0 selects the next column. -/
example :
    let reg : Tmpl := ⟨[.numerical, .numerical, .numerical, .extended], 0, 1, 0⟩
    let st := crun (cinitT [reg] 0) [.helperAppend 0, .setFlag .pixel true]
    st.pick.choices = [.sepMain, .cid 1, .cid 2, .cid 3, .sepCoord, .cid 0] ∧
    (crun (cinitT [reg] (-1)) [.helperAppend 0, .removeComp 0 0, .removeComp 0 0, .removeComp 0 0]).pick.choices = [] ∧
    (crun (cinitT [reg] 0) [.reorder 0, .helperAppend 0]).pick.sel = some 3 := by decide

/-- non-vacuity: a component removed and another one selected inside a delay block; on exit the
helper drops the stale choice and falls back to the default. -/
example :
    let st := crun (cinit 1 0) [.helperAppend 0, .delayOpen, .removeComp 0 0, .select (some 2), .delayClose]
    st.pick.choices = [.cid 3, .cid 4] ∧ st.pick.sel = some 3 ∧ st.depth = 0 := by decide

/-! ## Part 3 — the axes of an image viewer -/

open GlueVerif.C18Combo.Axes in
/-- **`x_att ≠ y_att`, always, and the reference data always has two or more dimensions**: after any
sequence of the four setters, reference-data changes and layers coming and going — datasets of
**any** dimension, 1-d tables shown as scatter overlays included —: no handler crashes; either there is
no reference data, then nothing is selected and no layer has a dataset of two or more dimensions;
or the reference data is one of the layers' datasets, has at least two dimensions, `x_att` and `y_att`
are two different pixel axes of it and `x_att_world`, `y_att_world` are their world twins. -/
theorem image_axes_distinct (ndim : Nat → Nat) (ops : List AOp) :
    let s := arun ndim ainit ops
    s.crashed = false ∧
    match s.ref with
    | none => s.x = none ∧ s.y = none ∧ s.xw = none ∧ s.yw = none ∧ ∀ d ∈ s.layers, ndim d < 2
    | some r => r ∈ s.layers ∧ 2 ≤ ndim r ∧ ∃ i j, s.x = some i ∧ s.y = some j ∧ s.xw = some i ∧ s.yw = some j ∧
        i ≠ j ∧ i < ndim r ∧ j < ndim r :=
  Lemmas.C18Combo.Axes.arun_ok ndim ops _ (Lemmas.C18Combo.Axes.ainit_ok ndim)

open GlueVerif.C18Combo.Axes in
/-- the executable form the driver evaluates (`implok`). -/
theorem image_axes_spec (ndim : Nat → Nat) (ops : List AOp) :
    axesOk ndim (arun ndim ainit ops) = true :=
  Lemmas.C18Combo.Axes.axesOk_of_AOk ndim _
    (Lemmas.C18Combo.Axes.arun_ok ndim ops _ (Lemmas.C18Combo.Axes.ainit_ok ndim))

open GlueVerif.C18Combo.Axes in
/-- finding C18b (fixed by `fix: image reference needs 2d`).  On the pinned tree (`Orig.arun`: every
layer dataset is offered as reference data) a 1-d dataset became the reference data — by being picked
in the reference-data combo, or as the first remaining layer when the image it was overlaid on is
removed — and the handlers crashed.  The repaired code refuses the pick (`ValueError`, nothing
changes) and is left without reference data when only the table remains. -/
theorem image_1d_reference_crashes :
    let nd3 := fun d => if d = 1 then 1 else 3
    let nd2 := fun d => if d = 1 then 1 else 2
    (Orig.arun nd3 ainit [.addLayer 0, .addLayer 1, .setRef 1]).crashed = true ∧
    (Orig.arun nd2 ainit [.addLayer 0, .addLayer 1, .removeLayer 0]).crashed = true ∧
    (let s := arun nd3 ainit [.addLayer 0, .addLayer 1, .setRef 1]; s.err = true ∧ s.ref = some 0 ∧ s.crashed = false) ∧
    (let s := arun nd2 ainit [.addLayer 0, .addLayer 1, .removeLayer 0]
     s.ref = none ∧ s.x = none ∧ s.y = none ∧ s.layers = [1] ∧ s.crashed = false) ∧
    (arun nd2 ainit [.addLayer 1, .addLayer 0]).ref = some 0 := by
  decide

open GlueVerif.C18Combo.Axes in
/-- non-vacuity: every setter moved at least once on a 3-d dataset, then a 2-d reference. -/
example :
    let nd := fun d => if d = 0 then 3 else 2
    let s := arun nd ainit [.addLayer 0, .addLayer 1, .setX 1, .setYW 1, .setXW 0, .setY 0]
    (s.x, s.y, s.xw, s.yw) = (some 2, some 0, some 2, some 0) ∧
    (arun nd s [.setRef 1]).x = some 1 ∧ (arun nd s [.setRef 1]).y = some 0 := by decide

end GlueVerif.C18
